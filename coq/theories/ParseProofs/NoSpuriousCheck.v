(** Property C10, fourth pass, part 3: boolean checkers for the declarative rules of NoSpurious.v, with
    soundness proofs.  They are a PROOF TOOL for concrete invocations (non-vacuity, necessity witnesses): the
    theorems of NoSpuriousTree.v are stated with the declarative rules, never with these functions.

    [pieces] is functional ([SplitSpec_functional], C14), so the pieces the rule quantifies over are the ones
    [occ_values] computes; [in_lang] is [vp_parse = None] (C10 round 1); the fold in [no_repeat] is computed
    left to right. *)
From ClapModel Require Import Base.Bytes Base.Machine Base.Utf8 Lex.OsStrExtModel Lex.OsStrExtProofs.
From ClapModel Require Import Parse.Cmd Parse.Build Parse.Valid Parse.Matcher Parse.Errors Parse.Validator Parse.Parser.
From ClapModel Require Import ParseProofs.Actions ParseProofs.ErrorSound ParseProofs.Unparse ParseProofs.UnparseTop
                              ParseProofs.UnparseLift ParseProofs.NoSpurious.
From Coq Require Import ZArith Lia List Bool.
From RecordUpdate Require Import RecordSet.
Import RecordSetNotations.
Import ListNotations.
Open Scope N_scope.

Lemma pieces_fun a : forall raw p1, Forall2 (pieces a) raw p1 -> forall p2, Forall2 (pieces a) raw p2 -> p1 = p2.
Proof.
  induction 1 as [|v ps raw pss Hv Hr IH]; intros p2 H2; inversion H2 as [|? ps2 ? pss2 Hv2 Hr2]; subst; [reflexivity|].
  f_equal; [|exact (IH _ Hr2)]. unfold pieces in *. destruct (a_delim a) as [d|]; [|congruence].
  destruct Hv as [S1 _]. destruct Hv2 as [S2 _]. exact (SplitSpec_functional _ _ _ S1 _ S2).
Qed.

Definition is_vpcount (vp : vparser) : bool := match vp with VPCount => true | _ => false end.
Definition is_count (a : arg) : bool := match a_get_action a with ACount => true | _ => false end.

(** (b) *)
Definition values_b (c : cmd) (a : arg) (raw : list bytes) : bool :=
  match a_vp a, occ_values c a raw None with
  | Some vp, Some vals =>
      forallb (fun v => negb (is_some (vp_parse vp v))) (pushed a vals)
      && (negb (is_count a) || negb (is_nil vals) || is_vpcount vp)
  | _, _ => false
  end.
Lemma values_b_sound c a raw : values_b c a raw = true -> values_ok a raw.
Proof.
  unfold values_b. destruct (a_vp a) as [vp|] eqn:Evp; [|discriminate].
  destruct (occ_values_pieces c a raw) as [pss0 [F0 E0]]. rewrite E0.
  intros H. apply andb_prop in H. destruct H as [H1 H2].
  exists vp. split; [exact Evp|]. intros pss F. rewrite (pieces_fun a _ _ F _ F0). split.
  - apply Forall_forall. intros v Hv. rewrite forallb_forall in H1. specialize (H1 v Hv).
    apply vp_parse_accepts_iff. destruct (vp_parse vp v); [discriminate H1|reflexivity].
  - intros Ea En. unfold is_count in H2. rewrite Ea, En in H2. cbn in H2. destruct vp; try discriminate H2. reflexivity.
Qed.

(** (a) *)
Definition count_b (a : arg) (raw : list bytes) : bool :=
  match a_num a with
  | Some r => (vmin r <=? N.of_nat (length raw)) && (N.of_nat (length raw) <=? vmax r)
  | None => false
  end.
Lemma count_b_sound a raw : count_b a raw = true -> count_ok_occ a raw.
Proof.
  unfold count_b. destruct (a_num a) as [r|] eqn:Er; [|discriminate]. intros H. apply andb_prop in H. destruct H as [H1 H2].
  exists r. split; [exact Er|]. split; [apply N.leb_le; exact H1|apply N.leb_le; exact H2].
Qed.
Lemma count_b_complete a raw : count_ok_occ a raw -> count_b a raw = true.
Proof.
  intros [r [E [H1 H2]]]. unfold count_b. rewrite E. apply andb_true_intro. split; apply N.leb_le; assumption.
Qed.

Definition occ_rules_b (c : cmd) (o : occ) : bool :=
  storing (o_arg o) && count_b (o_arg o) (o_raw o) && values_b c (o_arg o) (o_raw o).
Lemma occ_rules_b_sound c os : forallb (occ_rules_b c) os = true -> Forall occ_rules os.
Proof.
  intros H. apply Forall_forall. intros o Ho. rewrite forallb_forall in H. specialize (H o Ho).
  unfold occ_rules_b in H. apply andb_prop in H. destruct H as [H H3]. apply andb_prop in H. destruct H as [H1 H2].
  split; [exact H1|]. split; [exact (count_b_sound _ _ H2)|exact (values_b_sound c _ _ H3)].
Qed.

(** (d) *)
Fixpoint no_repeat_b (c : cmd) (seen os : list occ) : bool :=
  match os with
  | [] => true
  | o :: t => (negb (set_family (o_arg o)) || self_override c (o_arg o)
               || negb (is_some (denote_os c (a_id (o_arg o)) seen)))
              && no_repeat_b c (seen ++ [o]) t
  end.
Lemma no_repeat_b_sound c : forall os seen, no_repeat_b c seen os = true ->
  forall os1 o os2, os = os1 ++ o :: os2 -> set_family (o_arg o) = true -> self_override c (o_arg o) = false ->
    denote_os c (a_id (o_arg o)) (seen ++ os1) = None.
Proof.
  induction os as [|o0 t IH]; intros seen H os1 o os2 E Hf Hs; [destruct os1; discriminate E|].
  cbn [no_repeat_b] in H. apply andb_prop in H. destruct H as [H1 H2].
  destruct os1 as [|o1 os1'].
  - cbn [app] in E. inversion E; subst o0 t. rewrite Hf, Hs in H1. cbn in H1. rewrite app_nil_r.
    destruct (denote_os c (a_id (o_arg o)) seen); [discriminate H1|reflexivity].
  - cbn [app] in E. inversion E; subst o0 t.
    pose proof (IH (seen ++ [o1]) H2 os1' o os2 eq_refl Hf Hs) as R. rewrite <- app_assoc in R. exact R.
Qed.
Lemma no_repeat_b_ok c os : no_repeat_b c [] os = true -> no_repeat c os.
Proof. intros H os1 o os2 E Hf Hs. exact (no_repeat_b_sound c os [] H os1 o os2 E Hf Hs). Qed.

(** (e) *)
Definition default_b (c : cmd) (a : arg) : bool :=
  (is_nil (a_default a) || (storing a && values_b c a (a_default a)))
  && forallb (fun r => match snd r with Some d => storing a && values_b c a [d] | None => true end) (a_default_ifs a).
Lemma defaults_b_sound c : forallb (default_b c) (c_args c) = true -> defaults_ok c.
Proof.
  intros H a raw Hin Hc. rewrite forallb_forall in H. specialize (H a Hin). unfold default_b in H.
  apply andb_prop in H. destruct H as [H1 H2]. destruct Hc as [[-> Hne]|[i [p [d [Hr ->]]]]].
  - destruct (a_default a) as [|d0 dt] eqn:Ed; [contradiction Hne; reflexivity|]. cbn [is_nil orb] in H1.
    apply andb_prop in H1. destruct H1 as [S V]. split; [exact S|exact (values_b_sound c _ _ V)].
  - rewrite forallb_forall in H2. specialize (H2 _ Hr). cbn [snd] in H2.
    apply andb_prop in H2. destruct H2 as [S V]. split; [exact S|exact (values_b_sound c _ _ V)].
Qed.

(** ** the checkers are complete too (used to REFUTE a rule on a concrete line) *)
Lemma values_b_complete c a raw : values_ok a raw -> values_b c a raw = true.
Proof.
  intros [vp [Evp H]]. unfold values_b. rewrite Evp.
  destruct (occ_values_pieces c a raw) as [pss0 [F0 E0]]. rewrite E0. destruct (H pss0 F0) as [H1 H2].
  apply andb_true_intro. split.
  - apply forallb_forall. intros v Hv. rewrite Forall_forall in H1. specialize (H1 v Hv).
    apply vp_parse_accepts_iff in H1. rewrite H1. reflexivity.
  - unfold is_count. destruct (a_get_action a) eqn:Ea; try reflexivity.
    destruct (concat pss0) eqn:En; [|reflexivity]. rewrite (H2 eq_refl eq_refl). reflexivity.
Qed.

Lemma forall_b_complete {A} (P : A -> Prop) (f : A -> bool) l : (forall x, P x -> f x = true) -> Forall P l -> forallb f l = true.
Proof. intros H F. apply forallb_forall. intros x Hx. rewrite Forall_forall in F. exact (H x (F x Hx)). Qed.

Lemma no_repeat_b_complete c : forall os seen,
  (forall os1 o os2, os = os1 ++ o :: os2 -> set_family (o_arg o) = true -> self_override c (o_arg o) = false ->
     denote_os c (a_id (o_arg o)) (seen ++ os1) = None) -> no_repeat_b c seen os = true.
Proof.
  induction os as [|o t IH]; intros seen H; [reflexivity|]. cbn [no_repeat_b]. apply andb_true_intro. split.
  - destruct (set_family (o_arg o)) eqn:Ef; [|reflexivity]. destruct (self_override c (o_arg o)) eqn:Es; [reflexivity|].
    pose proof (H [] o t eq_refl Ef Es) as R. rewrite app_nil_r in R. rewrite R. reflexivity.
  - apply IH. intros os1 o' os2 E Hf Hs. rewrite <- app_assoc. apply (H (o :: os1) o' os2); [rewrite E; reflexivity|exact Hf|exact Hs].
Qed.
Lemma no_repeat_b_refute c os : no_repeat_b c [] os = false -> ~ no_repeat c os.
Proof. intros H N. rewrite (no_repeat_b_complete c os [] N) in H. discriminate H. Qed.

Lemma defaults_b_complete c : defaults_ok c -> forallb (default_b c) (c_args c) = true.
Proof.
  intros H. apply forallb_forall. intros a Hin. unfold default_b. apply andb_true_intro. split.
  - destruct (a_default a) as [|d0 dt] eqn:Ed; [reflexivity|]. cbn [is_nil orb].
    assert (Hc : default_cand a (a_default a)) by (left; split; [reflexivity|rewrite Ed; discriminate]).
    destruct (H a _ Hin Hc) as [S V]. rewrite Ed in V. rewrite S, (values_b_complete c _ _ V). reflexivity.
  - apply forallb_forall. intros [[i p] [d|]] Hr; cbn [snd]; [|reflexivity].
    assert (Hc : default_cand a [d]) by (right; exists i, p, d; split; [exact Hr|reflexivity]).
    destruct (H a _ Hin Hc) as [S V]. rewrite S, (values_b_complete c _ _ V). reflexivity.
Qed.

Lemma sv_b_sound c os : forallb (fun o => storing (o_arg o) && values_b c (o_arg o) (o_raw o)) os = true ->
  Forall (fun o => storing (o_arg o) = true /\ values_ok (o_arg o) (o_raw o)) os.
Proof.
  intros H. apply Forall_forall. intros o Ho. rewrite forallb_forall in H. specialize (H o Ho).
  apply andb_prop in H. destruct H as [H1 H2]. split; [exact H1|exact (values_b_sound c _ _ H2)].
Qed.
Lemma sc_b_sound os : forallb (fun o => storing (o_arg o) && count_b (o_arg o) (o_raw o)) os = true ->
  Forall (fun o => storing (o_arg o) = true /\ count_ok_occ (o_arg o) (o_raw o)) os.
Proof.
  intros H. apply Forall_forall. intros o Ho. rewrite forallb_forall in H. specialize (H o Ho).
  apply andb_prop in H. destruct H as [H1 H2]. split; [exact H1|exact (count_b_sound _ _ H2)].
Qed.
