(** Property C02, un-parser: the reported indices of a rendered invocation (tree), in closed form. *)
From ClapModel Require Import Base.Bytes Base.Machine Base.Utf8 Lex.OsStrExtModel.
From ClapModel Require Import Parse.Cmd Parse.Build Parse.Valid Parse.Matcher Parse.Errors Parse.Validator Parse.Parser.
From ClapModel Require Import ParseProofs.Actions ParseProofs.ActionsLoop ParseProofs.Spelling ParseProofs.Sources
                              ParseProofs.Unparse ParseProofs.UnparseProofs ParseProofs.UnparseTop ParseProofs.UnparseSub
                              ParseProofs.UnparseTrail ParseProofs.UnparseTree ParseProofs.UnparseIdx.
From Coq Require Import ZArith Lia List Bool Sorting.Sorted.
From RecordUpdate Require Import RecordSet.
Import RecordSetNotations.
Import ListNotations.
Open Scope N_scope.

(** the index list the invocation gives to argument [i] (counter starts at 0 on every level) *)
Definition denote_idx_os (c : cmd) (i : id) (os : list occ) : option (list N) :=
  snd (fold_left (step_idx c i) os (0, None)).
Definition denote_idx (c : cmd) (i : id) (its : list item) : option (list N) := denote_idx_os c i (occs c 1 its).
(** all index events of the level, in command-line order *)
Definition events_os (c : cmd) (os : list occ) : list (id * list N) := spans c 0 os.
Definition events (c : cmd) (its : list item) : list (id * list N) := events_os c (occs c 1 its).

Section IdxTop.
Variable c : cmd.
Hypothesis Hconv : conv c = true.

Lemma clash_free os a : Forall (fun o => In (o_arg o) (c_args c)) os -> In a (c_args c) -> Forall (no_group_clash c (a_id a)) os.
Proof.
  intros Hos Ha. pose proof (conv_app c Hconv) as HA.
  eapply Forall_impl; [|exact Hos]. intros o Ho. split.
  - apply (assert_app_group_ids c (o_arg o) HA Ho).
  - apply (assert_app_group_ids c a HA Ha).
Qed.

(** entries that exist after the flushed command line survive the env/default/validation phases unchanged *)
Lemma entry_core st1' st a m : In a (c_args c) -> mt_pending (mt st1') = None -> post_loop c st1' = ROk st ->
  fm_get (a_id a) (mt_args (mt st1')) = Some m -> fm_get (a_id a) (mt_args (mt st)) = Some m.
Proof.
  intros Ha P1 H G. destruct (post_loop_ok c st1' st H) as [st2 [E2 E3]].
  destruct (assert_app_ids_distinct c (conv_app c Hconv)) as [_ Hng]. specialize (Hng a Ha).
  destruct (add_env_frame c st1' st2 P1 E2) as [P2 [_ [Ek _]]].
  destruct (add_defaults_frame c st2 st P2 E3) as [_ [_ [_ [Dk _]]]].
  apply Dk. apply Ek; assumption.
Qed.

Lemma idx_core os st1 st1' st a ix : Forall (fun o => In (o_arg o) (c_args c)) os -> In a (c_args c) ->
  react_all c os ps_new = ROk st1 ->
  mt_args (mt st1') = mt_args (mt st1) -> mt_pending (mt st1') = None -> post_loop c st1' = ROk st ->
  denote_idx_os c (a_id a) os = Some ix -> idx_of (a_id a) (mt st) = Some ix.
Proof.
  intros Hos Ha E1 EA P1 H D.
  pose proof (react_all_idx c (a_id a) os ps_new st1 wf_m_new eq_refl (clash_free os a Hos Ha) E1) as R.
  cbn [cur_idx ps_new] in R. change (idx_of (a_id a) (mt ps_new)) with (@None (list N)) in R.
  unfold denote_idx_os in D. rewrite <- R in D. cbn [snd] in D.
  unfold idx_of, get in *. rewrite <- EA in D.
  destruct (fm_get (a_id a) (mt_args (mt st1'))) as [m|] eqn:G; [|discriminate].
  rewrite (entry_core st1' st a m Ha P1 H G). exact D.
Qed.

End IdxTop.

(** INDICES at the root of any tree: the index list reported for an argument is the one the
    invocation denotes (one counter value per stored value; the name of an option given by flag
    consumes one; flags store one value) *)
Theorem indices_inv : forall i c f st, valid_tree (S f) c = true -> wf_inv c i = true ->
  get_matches_with (S f) c (render_inv i) ps_new = ROk st ->
  forall a ix, In a (c_args c) -> denote_idx_os c (a_id a) (inv_occs c i) = Some ix ->
  idx_of (a_id a) (mt st) = Some ix.
Proof.
  intros i c f st Hv Hw H a ix Ha D. rewrite (gmw_inv i c f Hv Hw) in H.
  destruct (wf_inv_parts c _ Hw) as [Hconv [Hie Hp]]. pose proof (inv_occs_args c i Hconv) as Hos.
  destruct i as [its|its name j|its vs]; cbn [inv_occs] in *.
  - cbn [run_inv] in H.
    destruct (react_all c (occs c 1 its) ps_new) as [st1|e s|n] eqn:E1; cbn [rbind] in H; try discriminate.
    apply (idx_core c Hconv _ st1 st1 st a ix Hos Ha E1 eq_refl (react_all_pending_keep c _ _ _ E1 eq_refl) H D).
  - destruct Hp as [Hwi [_ [_ [scn [sc0 [scb [_ [_ [_ [_ [Hch _]]]]]]]]]]].
    destruct (run_inv scb j) as [sub_st|e s|n] eqn:Er.
    + apply (run_inv_sub_ok c its name j scb sub_st st Hconv Hwi Hch Er) in H. destruct H as [st1 [E1 H]].
      apply (idx_core c Hconv _ st1 (ssub (Some (c_name scb, into_inner (mt sub_st))) st1) st a ix Hos Ha E1); [| |exact H|exact D].
      * rewrite ssub_mt, msub_args. reflexivity.
      * rewrite ssub_mt, msub_pending. apply (react_all_pending_keep c _ _ _ E1 eq_refl).
    + cbn [run_inv] in H. rewrite Hch, Er in H. destruct (apply_items c 1 its ps_new); discriminate.
    + cbn [run_inv] in H. rewrite Hch, Er in H. destruct (apply_items c 1 its ps_new); discriminate.
  - cbn [run_inv] in H.
    destruct (react_all c (occs c 1 its ++ trail_occs c (items_pos c 1 its) vs) ps_new) as [st1|e s|n] eqn:E1; cbn [rbind] in H; try discriminate.
    apply (idx_core c Hconv _ st1 st1 st a ix Hos Ha E1 eq_refl (react_all_pending_keep c _ _ _ E1 eq_refl) H D).
Qed.

(** for an Append argument of a command without override relations: its reported indices are
    exactly its own events among the level's events, which strictly increase in command-line order *)
Theorem denote_idx_append c os a : conv c = true -> no_overrides c = true ->
  Forall (fun o => In (o_arg o) (c_args c)) os -> In a (c_args c) ->
  a_get_action a = AAppend -> (0 < Actions.count_occ (a_id a) os)%nat ->
  denote_idx_os c (a_id a) os = Some (own_events (a_id a) (events_os c os)).
Proof.
  intros Hconv Hno Hos Ha Eact Hn. unfold denote_idx_os, events_os.
  assert (Hall : Forall (fun o => (o_arg o = a /\ is_cmdline (o_src o) && overridden c a (a_id a) = false)
                                   \/ unrelated c (a_id a) o) os).
  { eapply Forall_impl; [|exact Hos]. intros o Ho.
    destruct (beq (a_id (o_arg o)) (a_id a)) eqn:E.
    - left. apply beq_eq in E. split; [apply (ids_unique c _ _ (conv_app c Hconv) Ho Ha E)|].
      rewrite (no_overrides_spec c Hno a (a_id a) Ha). apply andb_false_r.
    - right. split; [exact E|]. rewrite (no_overrides_spec c Hno _ (a_id a) Ho). apply andb_false_r. }
  destruct (fold_idx_append c a Eact os 0 None Hall) as [A1 A2].
  cbn [opt_default app] in A1.
  assert (S : is_some (snd (fold_left (step_idx c (a_id a)) os (0, None))) = true) by (apply A2; right; exact Hn).
  destruct (snd (fold_left (step_idx c (a_id a)) os (0, None))) as [ix|]; [|discriminate].
  cbn [opt_default] in A1. rewrite A1. reflexivity.
Qed.

Theorem events_increasing c os : StronglySorted N.lt (concat (map snd (events_os c os))).
Proof. apply spans_sorted. Qed.
