(** Property C02, third pass, item (3): the lifted class above the token loop -- one level, trees of
    subcommands, [parse_top]; conservation and the closed form of the indices.  The invocation trees,
    their rendering and meaning are those of UnparseTree.v ([inv], [render_inv], [run_inv]); the class is
    [wfx_inv] (every level [convx], items [wfx_items]; no [--] tail: the values after [--] stay in the
    old class).  [wf_wfx]/[wf_inv_wfx_inv]: the old class is contained in the new one, so the old
    theorems are instances of these. *)
From ClapModel Require Import Base.Bytes Base.Machine Base.Utf8 Lex.OsStrExtModel.
From ClapModel Require Import Parse.Cmd Parse.Build Parse.Valid Parse.Matcher Parse.Errors Parse.Validator Parse.Parser.
From ClapModel Require Import ParseProofs.Actions ParseProofs.ActionsLoop ParseProofs.Spelling ParseProofs.Sources
                              ParseProofs.Unparse ParseProofs.UnparseProofs ParseProofs.UnparseTop ParseProofs.UnparseSub
                              ParseProofs.UnparseTrail ParseProofs.UnparseTree ParseProofs.UnparseIdx ParseProofs.UnparseIdxTop
                              ParseProofs.UnparseX ParseProofs.UnparseXProofs.
From Coq Require Import ZArith Lia List Bool.
From RecordUpdate Require Import RecordSet.
Import RecordSetNotations.
Import ListNotations.
Open Scope N_scope.

(** * the old class is contained in the new one *)
Section Contain.
Variable c : cmd.
Hypothesis Hconv : conv c = true.

Lemma conv_val_x a v : In a (c_args c) -> value_ok v = true -> val_x a v = true.
Proof.
  intros Ha Hv. destruct (conv_args c Hconv a Ha) as [_ [_ [_ Ht]]].
  unfold val_x, check_terminator. rewrite Ht, Hv. cbn [negb andb]. rewrite orb_true_r. reflexivity.
Qed.
Lemma conv_closed_x a k : In a (c_args c) -> closed_x a k = true.
Proof.
  intros Ha. destruct (conv_args c Hconv a Ha) as [H1 [H2 _]]. unfold closed_x. rewrite H1, H2. reflexivity.
Qed.
Lemma conv_sepx (o : option arg) vs : (forall a, o = Some a -> In a (c_args c)) -> sep_ok o vs = true -> sepx_ok o vs = true.
Proof.
  intros Hin H. destruct (sep_ok_parts _ _ H) as [a [-> [Htv [Hc Hv]]]]. pose proof (Hin a eq_refl) as Ha.
  destruct (conv_args c Hconv a Ha) as [_ [_ [Hre _]]].
  cbn [sepx_ok]. rewrite Htv, Hc, Hre, (conv_closed_x a _ Ha). cbn [negb andb]. rewrite andb_true_r.
  apply forallb_forall. intros v Hin'. rewrite forallb_forall in Hv. apply (conv_val_x a v Ha). apply Hv. exact Hin'.
Qed.
Lemma conv_attx (o : option arg) : (forall a, o = Some a -> In a (c_args c)) -> is_opt o = true -> attx_ok o = true.
Proof.
  intros Hin H. destruct (is_opt_parts _ H) as [a [-> Htv]]. destruct (conv_args c Hconv a (Hin a eq_refl)) as [_ [_ [Hre _]]].
  cbn [attx_ok]. rewrite Htv, Hre. reflexivity.
Qed.

Lemma conv_pos_plain pos : pos_negnum c pos = false /\ pos_hyphen c pos = false.
Proof.
  unfold pos_negnum, pos_hyphen. destruct (get_pos c pos) as [a|] eqn:Hg; [|split; reflexivity].
  destruct (conv_args c Hconv a (get_pos_in c pos a Hg)) as [H1 [H2 _]]. rewrite H1, H2. split; reflexivity.
Qed.

Lemma conv_lookahead pos : lookahead_at c pos = false.
Proof.
  destruct (conv_parts c Hconv) as [_ [_ [_ [Hamp Hlow]]]]. unfold lookahead_at, Escape.low_index_mults_any.
  unfold low_index_multiple in Hlow. rewrite Hlow, Hamp. reflexivity.
Qed.

Lemma wf_wfx_item pst pos it : wf_item c pst pos it = true -> wfx_item c pst pos it = true.
Proof.
  unfold wf_item, wfx_item. intros H. apply andb_prop in H. destruct H as [H1 H2]. rewrite H1. cbn [andb].
  destruct it as [n|n v|n vs|fl t|vs]; try exact H2.
  - apply andb_prop in H2. destruct H2 as [H2 H3]. rewrite H2. cbn [andb].
    apply conv_sepx; [|exact H3]. intros a G. apply (get_long_in c n a G).
  - apply andb_prop in H2. destruct H2 as [H2 H4]. apply andb_prop in H2. destruct H2 as [H2 H3].
    rewrite H2, H4. cbn [andb].
    assert (CC : forall r, cluster_clear c pos r = true).
    { intros r. unfold cluster_clear. destruct (conv_pos_plain pos) as [E1 E2]. rewrite E1, E2. reflexivity. }
    rewrite CC, !andb_true_r.
    destruct t as [|o v|o v|o vs]; cbn [wf_tail wfx_tail] in *; try exact H3.
    + apply andb_prop in H3. destruct H3 as [H3 H7]. apply andb_prop in H3. destruct H3 as [H3 H6]. apply andb_prop in H3. destruct H3 as [H3 H5].
      rewrite H3, H6, H7. cbn [andb]. rewrite !andb_true_r. apply conv_attx; [|exact H5]. intros a G. apply (get_short_in c o a G).
    + apply andb_prop in H3. destruct H3 as [H3 H5]. rewrite H3. cbn [andb].
      apply conv_sepx; [|exact H5]. intros a G. apply (get_short_in c o a G).
  - unfold posx_ok. rewrite H2. cbn [orb andb]. destruct (pos_ok_parts _ _ _ H2) as [a [v [vs' [Hg _]]]]. rewrite Hg.
    destruct (conv_args c Hconv a (get_pos_in c pos a Hg)) as [Hh [Hn [_ Ht]]].
    destruct (conv_args_pos c Hconv a (get_pos_in c pos a Hg)) as [Hlast Htva]. rewrite Hlast, Htva, Hh, Hn, conv_lookahead. cbn [negb andb]. rewrite orb_true_r, !andb_true_r.
    apply forallb_forall. intros w _. unfold check_terminator. rewrite Ht. reflexivity.
Qed.

Lemma wf_wfx : forall its pst pos, wf_items c pst pos its = true -> wfx_items c pst pos its = true.
Proof.
  induction its as [|it its IH]; intros pst pos H; [reflexivity|]. cbn [wf_items wfx_items] in *.
  apply andb_prop in H. destruct H as [H1 H2]. rewrite (wf_wfx_item _ _ _ H1), (IH _ _ H2). reflexivity.
Qed.
End Contain.

Lemma class_lifted c : conv c = true -> convx c = true /\
  forall its pst pos, wf_items c pst pos its = true -> wfx_items c pst pos its = true.
Proof. intros H. split; [apply conv_convx; exact H|apply wf_wfx; exact H]. Qed.

(** * one level *)
Section TopX.
Variable c : cmd.
Hypothesis Hx : convx c = true.
Hypothesis Hie : is_set s_ignore_errors c = false.

Theorem gmw_items_x f its : wfx_items c PSValuesDone 1 its = true ->
  get_matches_with (S f) c (render its) ps_new =
  (do st1 <- react_all c (occs c 1 its) ps_new; post_loop c st1).
Proof.
  intros Hw. rewrite get_matches_with_unfold.
  assert (Ec : cmdline_phase f c (render its) ps_new = apply_items c 1 its ps_new).
  { unfold cmdline_phase. rewrite <- (app_nil_r (render its)).
    rewrite (loop_items_x c Hx its [] PSValuesDone 1 false ps_new Hw I (pend_inv_none c PSValuesDone ps_new eq_refl) eq_refl).
    cbn [parse_loop]. rewrite rbind_assoc. cbn [rbind]. apply rbind_ret. }
  rewrite Ec. pose proof (flush_items_x c Hx its PSValuesDone 1 ps_new Hw) as F.
  cbn [resolve_pending ps_new mt matcher_new mt_pending rbind] in F.
  change (mkPs matcher_new 0 None 0) with ps_new in F.
  rewrite <- F. rewrite Hie.
  destruct (apply_items c 1 its ps_new) as [st'|e s|n]; cbn [rbind]; reflexivity.
Qed.

Theorem react_all_os_denote_x os st1 a : args_of c os -> In a (c_args c) ->
  react_all c os ps_new = ROk st1 ->
  groups_of (a_id a) (mt st1) = denote_os c (a_id a) os /\ mt_pending (mt st1) = None.
Proof.
  intros Hos Ha H. pose proof (convx_app c Hx) as HA.
  assert (Hc : Forall (no_group_clash c (a_id a)) os).
  { eapply Forall_impl; [|exact Hos]. intros o Ho. split.
    - apply (assert_app_group_ids c (o_arg o) HA Ho).
    - apply (assert_app_group_ids c a HA Ha). }
  destruct (react_all_denote c (a_id a) os ps_new st1 wf_m_new eq_refl Hc H) as [R [_ P]].
  split; [exact R|exact P].
Qed.

Lemma conservation_core_os_x os st1 st1' st : args_of c os ->
  react_all c os ps_new = ROk st1 ->
  mt_args (mt st1') = mt_args (mt st1) -> mt_pending (mt st1') = None ->
  post_loop c st1' = ROk st ->
  forall a, In a (c_args c) ->
    (forall gs, denote_os c (a_id a) os = Some gs -> groups_of (a_id a) (mt st) = Some gs)
    /\ (forall e, fm_get (a_id a) (mt_args (mt st)) = Some e -> m_source e = Some SCmdLine ->
          denote_os c (a_id a) os = Some (m_raw e)).
Proof.
  intros Hos E1 EA P1 H a Ha.
  destruct (react_all_os_denote_x os st1 a Hos Ha E1) as [R _].
  assert (R' : groups_of (a_id a) (mt st1') = denote_os c (a_id a) os).
  { rewrite <- R. unfold groups_of, get. rewrite EA. reflexivity. }
  clear R. rename R' into R.
  destruct (post_loop_ok c st1' st H) as [st2 [E2 E3]].
  destruct (assert_app_ids_distinct c (convx_app c Hx)) as [_ Hng]. specialize (Hng a Ha).
  destruct (add_env_frame c st1' st2 P1 E2) as [P2 [_ [Ek [En _]]]].
  destruct (add_defaults_frame c st2 st P2 E3) as [_ [_ [_ [Dk Dn]]]].
  split.
  - intros gs Hd. rewrite <- R in Hd. unfold groups_of, get in *.
    destruct (fm_get (a_id a) (mt_args (mt st1'))) as [m|] eqn:G; [|discriminate].
    rewrite (Dk _ _ (Ek _ _ Hng G)). exact Hd.
  - intros e Ge Se. rewrite <- R. unfold groups_of, get.
    destruct (fm_get (a_id a) (mt_args (mt st2))) as [m2|] eqn:G2.
    + rewrite (Dk _ _ G2) in Ge. inversion Ge; subst m2.
      destruct (fm_get (a_id a) (mt_args (mt st1'))) as [m1|] eqn:G1.
      * rewrite (Ek _ _ Hng G1) in G2. inversion G2; subst. reflexivity.
      * destruct (En _ _ Hng G1 G2) as [Sx _]. rewrite Sx in Se. discriminate.
    + pose proof (Dn _ _ G2 Ge) as Sx. rewrite Sx in Se. discriminate.
Qed.

Lemma clash_free_x os a : Forall (fun o => In (o_arg o) (c_args c)) os -> In a (c_args c) -> Forall (no_group_clash c (a_id a)) os.
Proof.
  intros Hos Ha. pose proof (convx_app c Hx) as HA.
  eapply Forall_impl; [|exact Hos]. intros o Ho. split.
  - apply (assert_app_group_ids c (o_arg o) HA Ho).
  - apply (assert_app_group_ids c a HA Ha).
Qed.

Lemma entry_core_x st1' st a m : In a (c_args c) -> mt_pending (mt st1') = None -> post_loop c st1' = ROk st ->
  fm_get (a_id a) (mt_args (mt st1')) = Some m -> fm_get (a_id a) (mt_args (mt st)) = Some m.
Proof.
  intros Ha P1 H G. destruct (post_loop_ok c st1' st H) as [st2 [E2 E3]].
  destruct (assert_app_ids_distinct c (convx_app c Hx)) as [_ Hng]. specialize (Hng a Ha).
  destruct (add_env_frame c st1' st2 P1 E2) as [P2 [_ [Ek _]]].
  destruct (add_defaults_frame c st2 st P2 E3) as [_ [_ [_ [Dk _]]]].
  apply Dk. apply Ek; assumption.
Qed.

Lemma idx_core_x os st1 st1' st a ix : Forall (fun o => In (o_arg o) (c_args c)) os -> In a (c_args c) ->
  react_all c os ps_new = ROk st1 ->
  mt_args (mt st1') = mt_args (mt st1) -> mt_pending (mt st1') = None -> post_loop c st1' = ROk st ->
  denote_idx_os c (a_id a) os = Some ix -> idx_of (a_id a) (mt st) = Some ix.
Proof.
  intros Hos Ha E1 EA P1 H D.
  pose proof (react_all_idx c (a_id a) os ps_new st1 wf_m_new eq_refl (clash_free_x os a Hos Ha) E1) as R.
  cbn [cur_idx ps_new] in R. change (idx_of (a_id a) (mt ps_new)) with (@None (list N)) in R.
  unfold denote_idx_os in D. rewrite <- R in D. cbn [snd] in D.
  unfold idx_of, get in *. rewrite <- EA in D.
  destruct (fm_get (a_id a) (mt_args (mt st1'))) as [m|] eqn:G; [|discriminate].
  rewrite (entry_core_x st1' st a m Ha P1 H G). exact D.
Qed.

End TopX.

(** * trees *)
Fixpoint wfx_inv (c : cmd) (i : inv) : bool :=
  convx c && negb (is_set s_ignore_errors c) &&
  match i with
  | ILeaf its => wfx_items c PSValuesDone 1 its
  | ISub its name j =>
      wfx_items c PSValuesDone 1 its && is_done (items_pst c PSValuesDone 1 its)
      && negb (is_set s_args_negate_subs c)
      && match possible_subcommand c name false with
         | Some scn => negb (beq scn s_help && negb (is_set s_disable_help_sub c))
         | None => false end
      && match child c name with
         | Some scb => wfx_inv scb j
         | None => false end
  | ITrail _ _ => false
  end.

Lemma wfx_inv_parts c i : wfx_inv c i = true ->
  convx c = true /\ is_set s_ignore_errors c = false /\
  match i with
  | ILeaf its => wfx_items c PSValuesDone 1 its = true
  | ISub its name j =>
      wfx_items c PSValuesDone 1 its = true /\ items_pst c PSValuesDone 1 its = PSValuesDone /\
      is_set s_args_negate_subs c = false /\
      exists scn sc0 scb, possible_subcommand c name false = Some scn /\
        (beq scn s_help && negb (is_set s_disable_help_sub c)) = false /\
        find_subcommand c scn = Some sc0 /\ build_subcommand c (c_name sc0) = Some scb /\
        child c name = Some scb /\ wfx_inv scb j = true
  | ITrail _ _ => False
  end.
Proof.
  intros H. destruct i as [its|its name j|its vs]; cbn [wfx_inv] in H.
  - apply andb_prop in H. destruct H as [H H3]. apply andb_prop in H. destruct H as [H1 H2].
    split; [exact H1|]. split; [destruct (is_set s_ignore_errors c); [discriminate|reflexivity]|exact H3].
  - apply andb_prop in H. destruct H as [H H3]. apply andb_prop in H. destruct H as [H1 H2].
    split; [exact H1|]. split; [destruct (is_set s_ignore_errors c); [discriminate|reflexivity]|].
    apply andb_prop in H3. destruct H3 as [H3 H8]. apply andb_prop in H3. destruct H3 as [H3 H7].
    apply andb_prop in H3. destruct H3 as [H3 H6]. apply andb_prop in H3. destruct H3 as [H4 H5].
    split; [exact H4|]. split; [destruct (items_pst c PSValuesDone 1 its); try discriminate; reflexivity|].
    split; [destruct (is_set s_args_negate_subs c); [discriminate|reflexivity]|].
    unfold child in *. destruct (possible_subcommand c name false) as [scn|] eqn:Ep; [|discriminate].
    destruct (find_subcommand c scn) as [sc0|] eqn:Ef; [|discriminate].
    destruct (build_subcommand c (c_name sc0)) as [scb|] eqn:Eb; [|discriminate].
    exists scn, sc0, scb. split; [reflexivity|]. split; [destruct (beq scn s_help && _); [discriminate|reflexivity]|].
    split; [exact Ef|]. split; [exact Eb|]. split; [reflexivity|exact H8].
  - rewrite andb_false_r in H. discriminate.
Qed.

(** THE UN-PARSER THEOREM for one command tree, lifted class *)
Theorem gmw_inv_x : forall i c f, valid_tree (S f) c = true -> wfx_inv c i = true ->
  get_matches_with (S f) c (render_inv i) ps_new = run_inv c i.
Proof.
  induction i as [its|its name j IH|its vs]; intros c f Hv Hw; destruct (wfx_inv_parts c _ Hw) as [Hx [Hie H]].
  - cbn [render_inv run_inv]. apply gmw_items_x; assumption.
  - destruct H as [Hwi [Hpst [Hneg [scn [sc0 [scb [Hps [Hh [Hfs [Hb [Hch Hwj]]]]]]]]]]].
    pose proof (valid_tree_child f c scn sc0 scb Hv Hfs Hb) as Hvc.
    destruct f as [|f']; [cbn [valid_tree] in Hvc; discriminate|].
    cbn [render_inv run_inv]. rewrite Hch. rewrite get_matches_with_unfold. unfold cmdline_phase.
    rewrite (loop_items_x c Hx its (name :: render_inv j) PSValuesDone 1 false ps_new Hwi I
               (pend_inv_none c PSValuesDone ps_new eq_refl) eq_refl).
    rewrite Hpst. rewrite rbind_assoc.
    destruct (apply_items c 1 its ps_new) as [st'|e s|n]; cbn [rbind]. 2: { rewrite Hie; reflexivity. } 2: reflexivity.
    rewrite (loop_sub_name c name (render_inv j) _ _ st' scn Hneg Hps Hh). cbn [rbind].
    rewrite Hneg. cbn [andb]. rewrite Hfs. cbn [expect rbind]. rewrite Hb.
    assert (Ha : assert_app scb = true).
    { destruct f'; cbn [valid_tree] in Hvc; apply andb_prop in Hvc; apply Hvc. }
    rewrite Ha. cbn [negb].
    rewrite (IH scb f' Hvc Hwj).
    destruct (run_inv scb j) as [sub_st|e s|n]; [reflexivity|rewrite !Hie; reflexivity|reflexivity].
  - destruct H.
Qed.

Theorem run_inv_sub_ok_x c its name j scb sub_st st : convx c = true ->
  wfx_items c PSValuesDone 1 its = true -> child c name = Some scb -> run_inv scb j = ROk sub_st ->
  (run_inv c (ISub its name j) = ROk st <->
   exists st1, react_all c (occs c 1 its) ps_new = ROk st1 /\
               post_loop c (ssub (Some (c_name scb, into_inner (mt sub_st))) st1) = ROk st).
Proof.
  intros Hx Hw Hch Hr. cbn [run_inv]. rewrite Hch, Hr.
  pose proof (flush_items_x c Hx its PSValuesDone 1 ps_new Hw) as F.
  cbn [resolve_pending ps_new mt matcher_new mt_pending rbind] in F. change (mkPs matcher_new 0 None 0) with ps_new in F.
  rewrite <- F. set (x := Some (c_name scb, into_inner (mt sub_st))).
  destruct (apply_items c 1 its ps_new) as [st'|e s|n]; cbn [rbind].
  - rewrite resolve_pending_sub. destruct (resolve_pending c st') as [s1|e s|n]; cbn [psub rbind].
    + split; [intros H; exists s1; split; [reflexivity|exact H]|intros [s2 [E H]]; inversion E; subst; exact H].
    + split; [discriminate|intros [s2 [E _]]; discriminate].
    + split; [discriminate|intros [s2 [E _]]; discriminate].
  - split; [discriminate|intros [s2 [E _]]; discriminate].
  - split; [discriminate|intros [s2 [E _]]; discriminate].
Qed.

(** CONSERVATION and INDICES at the root of any tree of the lifted class (hence at every level) *)
Theorem conservation_inv_x : forall i c f st, valid_tree (S f) c = true -> wfx_inv c i = true ->
  get_matches_with (S f) c (render_inv i) ps_new = ROk st ->
  forall a, In a (c_args c) ->
    (forall gs, denote_os c (a_id a) (inv_occs c i) = Some gs -> groups_of (a_id a) (mt st) = Some gs)
    /\ (forall e, fm_get (a_id a) (mt_args (mt st)) = Some e -> m_source e = Some SCmdLine ->
          denote_os c (a_id a) (inv_occs c i) = Some (m_raw e)).
Proof.
  intros i c f st Hv Hw H. rewrite (gmw_inv_x i c f Hv Hw) in H.
  destruct (wfx_inv_parts c _ Hw) as [Hx [Hie Hp]].
  destruct i as [its|its name j|its vs]; cbn [inv_occs] in *; [| |destruct Hp].
  - pose proof (occs_args c its 1) as Hos. cbn [run_inv] in H.
    destruct (react_all c (occs c 1 its) ps_new) as [st1|e s|n] eqn:E1; cbn [rbind] in H; try discriminate.
    apply (conservation_core_os_x c Hx _ st1 st1 st Hos E1 eq_refl); [|exact H].
    apply (react_all_pending_keep c _ _ _ E1 eq_refl).
  - pose proof (occs_args c its 1) as Hos.
    destruct Hp as [Hwi [_ [_ [scn [sc0 [scb [_ [_ [_ [_ [Hch _]]]]]]]]]]].
    destruct (run_inv scb j) as [sub_st|e s|n] eqn:Er.
    + apply (run_inv_sub_ok_x c its name j scb sub_st st Hx Hwi Hch Er) in H. destruct H as [st1 [E1 H]].
      apply (conservation_core_os_x c Hx _ st1 (ssub (Some (c_name scb, into_inner (mt sub_st))) st1) st Hos E1); [| |exact H].
      * rewrite ssub_mt, msub_args. reflexivity.
      * rewrite ssub_mt, msub_pending. apply (react_all_pending_keep c _ _ _ E1 eq_refl).
    + cbn [run_inv] in H. rewrite Hch, Er in H. destruct (apply_items c 1 its ps_new); discriminate.
    + cbn [run_inv] in H. rewrite Hch, Er in H. destruct (apply_items c 1 its ps_new); discriminate.
Qed.

Theorem indices_inv_x : forall i c f st, valid_tree (S f) c = true -> wfx_inv c i = true ->
  get_matches_with (S f) c (render_inv i) ps_new = ROk st ->
  forall a ix, In a (c_args c) -> denote_idx_os c (a_id a) (inv_occs c i) = Some ix ->
  idx_of (a_id a) (mt st) = Some ix.
Proof.
  intros i c f st Hv Hw H a ix Ha D. rewrite (gmw_inv_x i c f Hv Hw) in H.
  destruct (wfx_inv_parts c _ Hw) as [Hx [Hie Hp]].
  destruct i as [its|its name j|its vs]; cbn [inv_occs] in *; [| |destruct Hp].
  - pose proof (occs_args c its 1) as Hos. cbn [run_inv] in H.
    destruct (react_all c (occs c 1 its) ps_new) as [st1|e s|n] eqn:E1; cbn [rbind] in H; try discriminate.
    apply (idx_core_x c Hx _ st1 st1 st a ix Hos Ha E1 eq_refl (react_all_pending_keep c _ _ _ E1 eq_refl) H D).
  - pose proof (occs_args c its 1) as Hos.
    destruct Hp as [Hwi [_ [_ [scn [sc0 [scb [_ [_ [_ [_ [Hch _]]]]]]]]]]].
    destruct (run_inv scb j) as [sub_st|e s|n] eqn:Er.
    + apply (run_inv_sub_ok_x c its name j scb sub_st st Hx Hwi Hch Er) in H. destruct H as [st1 [E1 H]].
      apply (idx_core_x c Hx _ st1 (ssub (Some (c_name scb, into_inner (mt sub_st))) st1) st a ix Hos Ha E1); [| |exact H|exact D].
      * rewrite ssub_mt, msub_args. reflexivity.
      * rewrite ssub_mt, msub_pending. apply (react_all_pending_keep c _ _ _ E1 eq_refl).
    + cbn [run_inv] in H. rewrite Hch, Er in H. destruct (apply_items c 1 its ps_new); discriminate.
    + cbn [run_inv] in H. rewrite Hch, Er in H. destruct (apply_items c 1 its ps_new); discriminate.
Qed.

(** * the top level *)
Theorem parse_top_inv_x c0 bin i : is_set s_no_binary_name c0 = false ->
  valid (with_bin c0 bin) = true -> wfx_inv (build_self (with_bin c0 bin)) i = true ->
  parse_top c0 (bin :: render_inv i) =
  finish_outcome (with_bin c0 bin) (run_inv (build_self (with_bin c0 bin)) i).
Proof.
  intros Hn Hv Hw. unfold parse_top. rewrite Hn. fold (with_bin c0 bin).
  rewrite do_parse_unfold, Hv. cbn [negb]. f_equal. apply gmw_inv_x; [exact Hv|exact Hw].
Qed.

Theorem parse_top_denote_x c0 bin i st : is_set s_no_binary_name c0 = false ->
  valid (with_bin c0 bin) = true -> wfx_inv (build_self (with_bin c0 bin)) i = true ->
  no_globals (build_recursive (S (S (depth (build_self (with_bin c0 bin))))) (with_bin c0 bin)) = true ->
  run_inv (build_self (with_bin c0 bin)) i = ROk st ->
  parse_top c0 (bin :: render_inv i) = OOk (into_inner (mt st)).
Proof.
  intros Hn Hv Hw Hg Hr. rewrite (parse_top_inv_x c0 bin i Hn Hv Hw), Hr. apply finish_no_globals. exact Hg.
Qed.

(** the old class of trees without a [--] tail is contained in the new one *)
Fixpoint no_trail (i : inv) : bool :=
  match i with ILeaf _ => true | ISub _ _ j => no_trail j | ITrail _ _ => false end.
Lemma wf_inv_wfx_inv : forall i c, wf_inv c i = true -> no_trail i = true -> wfx_inv c i = true.
Proof.
  induction i as [its|its name j IH|its vs]; intros c H Hnt; [| |discriminate Hnt].
  - destruct (wf_inv_parts c _ H) as [Hc [Hie Hw]]. cbn [wfx_inv].
    rewrite (conv_convx c Hc), Hie, (wf_wfx c Hc _ _ _ Hw). reflexivity.
  - destruct (wf_inv_parts c _ H) as [Hc [Hie [Hw [Hp [Hn [scn [sc0 [scb [Hps [Hh [Hfs [Hb [Hch Hwj]]]]]]]]]]]]].
    cbn [wfx_inv]. rewrite (conv_convx c Hc), Hie, (wf_wfx c Hc _ _ _ Hw), Hp, Hn, Hps, Hh, Hch. cbn [negb andb is_done].
    apply (IH scb Hwj). exact Hnt.
Qed.

(** * the explicit terminator token *)
Section TermX.
Variable c : cmd.
Hypothesis Hx : convx c = true.

(** THE TERMINATOR TOKEN: while an occurrence of [a] is open, the token equal to [a]'s terminator is consumed,
    stores nothing (the state is untouched) and closes the occurrence *)
Theorem loop_terminator_x a (t : bytes) (rest : list bytes) pos vaf st : In a (c_args c) -> a_term a = Some t ->
  (a_hyphen a || value_ok t || (a_negnum a && negnum_tok t)) = true ->
  parse_loop c (t :: rest) (mkL (PSOpt (a_id a)) pos vaf false) st =
  parse_loop c rest (mkL PSValuesDone pos vaf false) st.
Proof.
  intros Ha Ht Hv. rewrite (value_step_x c Hx a t rest pos vaf st Ha Hv).
  unfold check_terminator. rewrite Ht, beq_refl. reflexivity.
Qed.

Lemma apply_items_app : forall its1 its2 pos st,
  apply_items c pos (its1 ++ its2) st = (do s <- apply_items c pos its1 st; apply_items c (items_pos c pos its1) its2 s).
Proof.
  induction its1 as [|it its1 IH]; intros its2 pos st; [reflexivity|]. cbn [app apply_items items_pos].
  rewrite rbind_assoc. apply rbind_ext. intros s _. apply IH.
Qed.
Lemma occs_app : forall its1 its2 pos, occs c pos (its1 ++ its2) = occs c pos its1 ++ occs c (items_pos c pos its1) its2.
Proof.
  induction its1 as [|it its1 IH]; intros its2 pos; [reflexivity|]. cbn [app occs items_pos]. rewrite IH, app_assoc. reflexivity.
Qed.
Lemma items_pst_app : forall its1 its2 pst pos, its2 <> [] ->
  items_pst c pst pos (its1 ++ its2) = items_pst c (items_pst c pst pos its1) (items_pos c pos its1) its2.
Proof. induction its1 as [|it its1 IH]; intros its2 pst pos H; [reflexivity|]. cbn [app items_pst items_pos]. apply IH. exact H. Qed.
Lemma items_pos_app : forall its1 its2 pos, items_pos c pos (its1 ++ its2) = items_pos c (items_pos c pos its1) its2.
Proof. induction its1 as [|it its1 IH]; intros its2 pos; [reflexivity|]. cbn [app items_pos]. apply IH. Qed.

(** items that leave an occurrence of [a] open, [a]'s terminator, more items: the terminator contributes
    nothing and the items after it start from a finished state *)
Theorem loop_items_term_x its1 its2 a (t : bytes) (rest : list bytes) pst pos vaf st :
  wfx_items c pst pos its1 = true -> pst_okx c pst -> pend_inv c pst st -> fs_skip st = 0 ->
  items_pst c pst pos its1 = PSOpt (a_id a) -> In a (c_args c) -> a_term a = Some t ->
  (a_hyphen a || value_ok t || (a_negnum a && negnum_tok t)) = true ->
  wfx_items c PSValuesDone (items_pos c pos its1) its2 = true ->
  parse_loop c (render its1 ++ t :: render its2 ++ rest) (mkL pst pos vaf false) st =
  (do st' <- apply_items c pos (its1 ++ its2) st;
   parse_loop c rest (mkL (items_pst c PSValuesDone (items_pos c pos its1) its2) (items_pos c pos (its1 ++ its2))
                          (vaf || negb (is_nil its1) || negb (is_nil its2)) false) st').
Proof.
  intros Hw1 Hp Hi Hs Hpst Ha Ht Hv Hw2.
  rewrite (loop_items_x c Hx its1 (t :: render its2 ++ rest) pst pos vaf st Hw1 Hp Hi Hs).
  rewrite apply_items_app, rbind_assoc. rewrite Hpst.
  destruct (apply_items c pos its1 st) as [s1|e s|n] eqn:E1; cbn [rbind]; try reflexivity.
  rewrite (loop_terminator_x a t (render its2 ++ rest) _ _ s1 Ha Ht Hv).
  assert (Hi1 : pend_inv c PSValuesDone s1).
  { pose proof (apply_items_inv_x c Hx its1 pst pos st s1 Hw1 Hi E1) as Q. rewrite Hpst in Q. exact Q. }
  assert (Hs1 : fs_skip s1 = 0).
  { clear -E1 Hs. revert pos st E1 Hs. induction its1 as [|it l IH]; intros pos st E1 Hs; cbn [apply_items] in E1.
    - inversion E1; subst; exact Hs.
    - destruct (apply_item c pos it st) as [s0|e s|n] eqn:E0; cbn [rbind] in E1; try discriminate.
      apply (IH _ _ E1). rewrite (apply_item_fs c _ _ _ _ E0). exact Hs. }
  rewrite (loop_items_x c Hx its2 rest PSValuesDone _ _ s1 Hw2 I Hi1 Hs1).
  rewrite items_pos_app. rewrite <- orb_assoc. reflexivity.
Qed.

(** one level, whole line, with a terminator token in it *)
Theorem gmw_items_term_x f its1 its2 a (t : bytes) : is_set s_ignore_errors c = false ->
  wfx_items c PSValuesDone 1 its1 = true -> items_pst c PSValuesDone 1 its1 = PSOpt (a_id a) ->
  In a (c_args c) -> a_term a = Some t -> (a_hyphen a || value_ok t || (a_negnum a && negnum_tok t)) = true ->
  wfx_items c PSValuesDone (items_pos c 1 its1) its2 = true ->
  get_matches_with (S f) c (render its1 ++ t :: render its2) ps_new =
  (do st1 <- react_all c (occs c 1 (its1 ++ its2)) ps_new; post_loop c st1).
Proof.
  intros Hie Hw1 Hpst Ha Ht Hv Hw2. rewrite get_matches_with_unfold.
  assert (Ec : cmdline_phase f c (render its1 ++ t :: render its2) ps_new = apply_items c 1 (its1 ++ its2) ps_new).
  { unfold cmdline_phase. rewrite <- (app_nil_r (render its2)).
    rewrite (loop_items_term_x its1 its2 a t [] PSValuesDone 1 false ps_new Hw1 I (pend_inv_none c PSValuesDone ps_new eq_refl) eq_refl
               Hpst Ha Ht Hv Hw2).
    cbn [parse_loop]. rewrite rbind_assoc. cbn [rbind]. apply rbind_ret. }
  rewrite Ec.
  assert (F : (do st' <- apply_items c 1 (its1 ++ its2) ps_new; resolve_pending c st') =
              react_all c (occs c 1 (its1 ++ its2)) ps_new).
  { rewrite apply_items_app, rbind_assoc, occs_app, react_all_app.
    pose proof (flush_items_x c Hx its1 PSValuesDone 1 ps_new Hw1) as F1.
    cbn [resolve_pending ps_new mt matcher_new mt_pending rbind] in F1. change (mkPs matcher_new 0 None 0) with ps_new in F1.
    rewrite <- F1. rewrite rbind_assoc. apply rbind_ext. intros s1 _.
    apply (flush_items_x c Hx its2 PSValuesDone (items_pos c 1 its1) s1 Hw2). }
  rewrite <- F. rewrite Hie.
  destruct (apply_items c 1 (its1 ++ its2) ps_new) as [st'|e s|n]; cbn [rbind]; reflexivity.
Qed.
End TermX.
