(** Property C02, fourth pass, item (3): the pending buffer of an OPTION is bounded by [num_args.max] --
    ONE invariant of [parse_loop], for all commands passing [assert_app], all token lists, all exits.

    [bnd]: the occurrence being collected, if it belongs to an option (an argument without index), holds at most
    [num_args.max] values.  [PB ls st]: [bnd], and while the loop is in state [Opt(i)] the argument [i] takes
    values and its buffer (if it is the one being collected) is strictly below the maximum.
    [pending_bounded_loop]: from every loop state satisfying [PB], whatever the tokens, the state at every exit
    of the loop (end of line, subcommand, external subcommand, help subcommand, error) satisfies [bnd]; the proof is
    an induction over the token list in which [PB] is re-established at every recursive call -- the iteration of
    [Parser::parse] is split into its two phases ([parse_loop_step], by computation) and each branch is followed.
    The positional refutation stays: a run of a multi-valued positional is only counted when flushed. *)
From ClapModel Require Import Base.Bytes Base.Machine Base.Utf8 Lex.OsStrExtModel.
From ClapModel Require Import Parse.Cmd Parse.Build Parse.Valid Parse.Matcher Parse.Errors Parse.Validator Parse.Parser.
From ClapModel Require Import ParseProofs.Safe ParseProofs.Actions ParseProofs.ActionsLoop ParseProofs.Spelling ParseProofs.Escape ParseProofs.LoopStep.
From Coq Require Import ZArith Lia List Bool.
From RecordUpdate Require Import RecordSet.
Import RecordSetNotations.
Import ListNotations.
Open Scope N_scope.


(** ** what every outcome of the occurrence primitives does to the pending buffer *)
Definition pres {A} (f : A -> ps) (Q : option pending -> Prop) (r : res A) : Prop :=
  match r with ROk x => Q (mt_pending (mt (f x))) | RErr _ s => Q (mt_pending (mt s)) | RPanic _ => True end.

Section Outcomes.
Variable c : cmd.

Lemma verify_num_args_st a raw st e s : verify_num_args c a raw st = RErr e s -> s = st.
Proof.
  unfold verify_num_args. destruct (is_set s_ignore_errors c); [discriminate|].
  destruct (a_num a) as [r|]; cbn [expect rbind]; [|discriminate].
  destruct ((0 <? vmin r) && (N.of_nat (length raw) =? 0)); [intros H; inversion H; reflexivity|].
  destruct (r_num_values r) as [n|].
  - destruct (negb (n =? N.of_nat (length raw))); [intros H; inversion H; reflexivity|discriminate].
  - destruct (N.of_nat (length raw) <? vmin r); [intros H; inversion H; reflexivity|].
    destruct (vmax r <? N.of_nat (length raw)); [|discriminate]. destruct raw; [discriminate|intros H; inversion H; reflexivity].
Qed.

Lemma push_arg_values_any a : forall raw st, pres (fun s => s) (eq (mt_pending (mt st))) (push_arg_values c a raw st).
Proof.
  induction raw as [|v t IH]; intros st; cbn [push_arg_values]; [reflexivity|].
  destruct (a_vp a) as [vp|]; cbn [expect rbind]; [|exact I].
  destruct (vp_parse vp v); [reflexivity|].
  destruct (add_val_to (mt (ps_bump st)) (a_id a) v) as [m1|] eqn:A; cbn [expect rbind]; [|exact I].
  destruct (add_index_to m1 (a_id a) (cur_idx (ps_bump st))) as [m2|] eqn:B; cbn [expect rbind]; [|exact I].
  match goal with |- pres _ _ (push_arg_values c a t ?s) =>
    pose proof (IH s) as IH'; assert (E : mt_pending (mt s) = mt_pending (mt st)) end.
  { cbn. rewrite (add_index_to_pending _ _ _ _ B), (add_val_to_pending _ _ _ _ A). reflexivity. }
  rewrite E in IH'. exact IH'.
Qed.

Lemma start_custom_arg_any a s m : match start_custom_arg c a s m with
  | ROk m' => mt_pending m' = mt_pending m | RErr _ _ => False | RPanic _ => True end.
Proof.
  destruct (start_custom_arg c a s m) as [m'|e s0|n] eqn:E; [|exact (Escape.start_custom_arg_no_err c a s m e s0 E)|exact I].
  apply (start_custom_arg_pending _ _ _ _ _ E).
Qed.

Lemma react_core_any idn s a raw ti st : pres fst (eq (mt_pending (mt st))) (react_core c idn s a raw ti st).
Proof.
  unfold react_core.
  destruct (if is_cmdline s then verify_num_args c a raw st else ROk tt) as [[]|e0 s0|n0] eqn:EV; cbn [rbind]; [| |exact I].
  2:{ cbn [pres]. destruct (is_cmdline s); [|discriminate]. rewrite (verify_num_args_st _ _ _ _ _ EV). reflexivity. }
  destruct (match raw with [] => if negb (is_nil (a_default_missing a)) then (a_default_missing a, None) else (raw, ti)
                         | _ => (raw, ti) end) as [raw1 ti1].
  destruct (delimit c a raw1 ti1) as [raw2|]; cbn [expect rbind]; [|exact I].
  assert (PV : forall rw m2 st0, mt_pending m2 = mt_pending (mt st) ->
                pres fst (eq (mt_pending (mt st))) (do st' <- push_arg_values c a rw (st0 <| mt := m2 |>); ROk (st', PRValuesDone))).
  { intros rw m2 st0 P2. pose proof (push_arg_values_any a rw (st0 <| mt := m2 |>)) as Q.
    destruct (push_arg_values c a rw (st0 <| mt := m2 |>)) as [s2|e2 s2|n2]; cbn [rbind pres fst] in *; try exact I;
      rewrite <- Q; cbn; symmetry; exact P2. }
  assert (SC : forall rw m1 st0, mt_pending m1 = mt_pending (mt st) ->
                pres fst (eq (mt_pending (mt st))) (do m2 <- start_custom_arg c a s m1;
                                                    do st' <- push_arg_values c a rw (st0 <| mt := m2 |>); ROk (st', PRValuesDone))).
  { intros rw m1 st0 P1. pose proof (start_custom_arg_any a s m1) as Q.
    destruct (start_custom_arg c a s m1) as [m2|e1 s1|n1]; cbn [rbind]; [|destruct Q|exact I].
    apply PV. rewrite Q. exact P1. }
  assert (SL : forall (rw : list bytes) (bump : bool),
    pres fst (eq (mt_pending (mt st)))
     (let st := if bump && is_cmdline s && is_flag_ident idn then ps_bump st else st in
      let '(m1, removed) := mt_remove (mt st) (a_id a) in
      let st := st <| mt := m1 |> in
      if removed && negb (is_set s_args_override_self c || mem_id (a_id a) (a_overrides a))
      then RErr (mkerr c EArgumentConflict (a_id a)) st
      else do m2 <- start_custom_arg c a s m1;
           do st' <- push_arg_values c a rw (st <| mt := m2 |>);
           ROk (st', PRValuesDone))).
  { intros rw bump. cbv zeta.
    pose proof (mt_remove_pending (mt (if bump && is_cmdline s && is_flag_ident idn then ps_bump st else st)) (a_id a)) as R.
    destruct (mt_remove (mt (if bump && is_cmdline s && is_flag_ident idn then ps_bump st else st)) (a_id a)) as [m1 removed].
    cbn [fst] in R. rewrite bump_if_pending in R.
    destruct (removed && negb _).
    - cbn [pres]. cbn. symmetry. exact R.
    - apply SC. exact R. }
  destruct (a_get_action a); try (cbn [pres]; reflexivity).
  - apply SL.
  - apply SC. apply bump_if_pending.
  - apply SL.
  - apply SL.
  - pose proof (mt_remove_pending (mt st) (a_id a)) as R.
    destruct (mt_remove (mt st) (a_id a)) as [m1 rem]. cbn [fst] in R. apply SC. exact R.
Qed.

Lemma resolve_pending_any st : pres (fun s => s) (eq None) (resolve_pending c st).
Proof.
  unfold resolve_pending. destruct (mt_pending (mt st)) as [p|] eqn:P; [|cbn [pres]; symmetry; exact P].
  destruct (find_arg c (p_id p)) as [a|]; cbn [expect rbind]; [|exact I].
  pose proof (react_core_any (p_ident p) SCmdLine a (p_raw p) (p_trailing_idx p) (st <| mt := (mt st) <| mt_pending := None |> |>)) as Q.
  destruct (react_core c _ _ _ _ _ _) as [[s1 pr]|e s1|n]; cbn [rbind pres fst] in *; try exact I; rewrite <- Q; reflexivity.
Qed.

Lemma react_any idn s a raw ti st : pres fst (eq None) (react c idn s a raw ti st).
Proof.
  unfold react. pose proof (resolve_pending_any st) as Q.
  destruct (resolve_pending c st) as [s1|e s1|n]; cbn [rbind pres] in *; try exact I; [|exact Q].
  pose proof (react_core_any idn s a raw ti s1) as R. rewrite <- Q in R. exact R.
Qed.

Lemma resolve_pending_ignore_any st : match resolve_pending_ignore c st with
  | ROk s => mt_pending (mt s) = None | RErr _ _ => False | RPanic _ => True end.
Proof.
  unfold resolve_pending_ignore. pose proof (resolve_pending_any st) as Q.
  destruct (resolve_pending c st); cbn [pres] in Q; try exact I; symmetry; exact Q.
Qed.

End Outcomes.

Section Bounded.
Variable c : cmd.
Hypothesis HA : assert_app c = true.

Definition bndp (po : option pending) : Prop := forall p a r, po = Some p ->
  find_arg c (p_id p) = Some a -> a_index a = None -> a_num a = Some r -> N.of_nat (length (p_raw p)) <= vmax r.
Definition tv (i : id) : Prop := forall a r, find_arg c i = Some a -> a_num a = Some r -> 0 < vmax r.
Definition openp (i : id) (po : option pending) : Prop := forall p a r, po = Some p -> p_id p = i ->
  find_arg c i = Some a -> a_num a = Some r -> N.of_nat (length (p_raw p)) < vmax r.
Definition bnd (st : ps) : Prop := bndp (mt_pending (mt st)).
Definition PB (ls : lstate) (st : ps) : Prop :=
  bnd st /\ forall i, l_pst ls = PSOpt i -> tv i /\ openp i (mt_pending (mt st)).
Definition lr_st (lr : loop_res) : ps :=
  match lr with LDone st | LSub _ _ _ st _ | LExternal _ _ st | LHelpSub _ st => st end.
Definition okres (r : res loop_res) : Prop :=
  match r with ROk lr => bnd (lr_st lr) | RErr _ s => bnd s | RPanic _ => True end.

Lemma bndp_none : bndp None.
Proof. intros p a r H. discriminate. Qed.
Lemma openp_none i : openp i None.
Proof. intros p a r H. discriminate. Qed.

Lemma find_arg_self_app a : In a (c_args c) -> find_arg c (a_id a) = Some a.
Proof.
  intros Ha. destruct (find_arg c (a_id a)) as [b|] eqn:E.
  - unfold find_arg in E. apply find_some in E. destruct E as [Hb Eb]. apply beq_eq in Eb. f_equal. apply (ids_unique c b a HA Hb Ha Eb).
  - unfold find_arg in E. pose proof (find_none _ _ E a Ha) as N. cbn beta in N. rewrite beq_refl in N. discriminate.
Qed.

(** the result of a flag parser: either it opened an occurrence of a value-taking argument, empty; or it left
    no occurrence open / did not touch the one that was *)
Definition opened (s : ps) (pr : presult) : Prop :=
  exists a idn, pr = PROpt (a_id a) /\ In a (c_args c) /\ a_takes_value a = true /\
    mt_pending (mt s) = Some (mkPending (a_id a) idn [] None).
Definition kept (po : option pending) (s : ps) : Prop := mt_pending (mt s) = None \/ mt_pending (mt s) = po.
Definition FR (po : option pending) (x : ps * presult * bool) : Prop :=
  opened (fst (fst x)) (snd (fst x)) \/ ((forall i, snd (fst x) <> PROpt i) /\ kept po (fst (fst x))).
Definition fres (po : option pending) (r : res (ps * presult * bool)) : Prop :=
  match r with ROk x => FR po x | RErr _ s => kept po s | RPanic _ => True end.

Lemma parse_opt_value_fr idn attached a has_eq st : In a (c_args c) -> a_takes_value a = true ->
  match parse_opt_value c idn attached a has_eq st with
  | ROk (s, pr) => opened s pr \/ ((forall i, pr <> PROpt i) /\ kept (mt_pending (mt st)) s)
  | RErr _ s => kept (mt_pending (mt st)) s
  | RPanic _ => True end.
Proof.
  intros Ha Htv. unfold parse_opt_value. destruct (a_req_eq a && negb has_eq).
  - destruct (a_num a) as [r|]; cbn [expect rbind]; [|exact I].
    destruct (vmin r =? 0).
    + pose proof (react_any c (Some idn) SCmdLine a [] None st) as Q.
      destruct (react c (Some idn) SCmdLine a [] None st) as [x|e s|n]; cbn [rbind pres] in *; try exact I.
      * right. split; [destruct (is_some attached); intros i; discriminate|]. left. symmetry. exact Q.
      * left. symmetry. exact Q.
    + right. split; [intros i; discriminate|]. right. reflexivity.
  - destruct attached as [v|].
    + pose proof (react_any c (Some idn) SCmdLine a [v] None st) as Q.
      destruct (react c (Some idn) SCmdLine a [v] None st) as [x|e s|n]; cbn [rbind pres] in *; try exact I.
      * right. split; [intros i; discriminate|]. left. symmetry. exact Q.
      * left. symmetry. exact Q.
    + pose proof (resolve_pending_any c st) as Q.
      destruct (resolve_pending c st) as [st1|e s|n] eqn:RP; cbn [rbind pres] in *; try exact I; [|left; symmetry; exact Q].
      unfold pending_values_push. rewrite <- Q. cbn [p_id p_ident p_raw p_trailing_idx is_some].
      rewrite beq_refl, ident_eqb_refl. cbn [negb andb expect rbind].
      left. exists a, (Some idn). split; [reflexivity|]. split; [exact Ha|]. split; [exact Htv|].
      destruct st1 as [m ci fa fk]. destruct m. reflexivity.
Qed.

Lemma kept_trans po s1 s2 : mt_pending (mt s1) = None -> kept (mt_pending (mt s1)) s2 -> kept po s2.
Proof. intros H [K|K]; left; [exact K|rewrite K; exact H]. Qed.

Lemma first_unique_in' {A} (l : list A) x : first_unique l = Some x -> In x l.
Proof. destruct l as [|y [|z t]]; cbn; try discriminate. intros H; inversion H; subst. left. reflexivity. Qed.
Lemma filter_map_in' {A B} (f : A -> option B) l y : In y (Cmd.filter_map f l) -> exists x, In x l /\ f x = Some y.
Proof.
  induction l as [|x t IH]; cbn [Cmd.filter_map]; [intros []|]. destruct (f x) as [z|] eqn:E.
  - intros [<-|H]; [exists x; split; [left; reflexivity|exact E]|]. destruct (IH H) as [x' [H1 H2]]. exists x'. split; [right; exact H1|exact H2].
  - intros H. destruct (IH H) as [x' [H1 H2]]. exists x'. split; [right; exact H1|exact H2].
Qed.

Lemma parse_long_arg_fr f ok v pst pos vaf st : fres (mt_pending (mt st)) (parse_long_arg c f ok v pst pos vaf st).
Proof.
  unfold parse_long_arg. destruct (state_arg c pst) as [sa|e s|n] eqn:ES; cbn [rbind].
  2:{ unfold state_arg in ES. destruct pst; try discriminate; destruct (find_arg c i); discriminate. }
  2:{ exact I. }
  assert (KEEP : forall pr vaf', (forall i, pr <> PROpt i) -> fres (mt_pending (mt st)) (ROk (st, pr, vaf'))).
  { intros pr vaf' H. right. split; [exact H|right; reflexivity]. }
  destruct (match sa with Some a => a_hyphen a | None => false end); [apply KEEP; intros i; discriminate|].
  destruct (negb ok); [apply KEEP; intros i; discriminate|].
  destruct (is_nil f && negb (is_some v)); [exact I|].
  match goal with |- fres _ (match ?F with _ => _ end) => destruct F as [a|] eqn:EF end.
  - assert (Ha : In a (c_args c)).
    { destruct (get_long c f) as [a0|] eqn:G.
      - inversion EF; subst. apply (get_long_in c f a G).
      - destruct (is_set s_infer_long c); [|discriminate]. apply first_unique_in' in EF. apply filter_map_in' in EF.
        destruct EF as [x [Hx Fx]]. destruct (a_is_positional x); [discriminate|].
        destruct (a_long x) as [l|]; repeat match type of Fx with (if ?b then _ else _) = _ => destruct b end;
          try discriminate; inversion Fx; subst; exact Hx. }
    destruct (a_takes_value a) eqn:Htv.
    + pose proof (parse_opt_value_fr ILong v a (is_some v) st Ha Htv) as Q.
      destruct (parse_opt_value c ILong v a (is_some v) st) as [[s pr]|e s|n]; cbn [rbind fres]; try exact I; [|exact Q].
      unfold FR. cbn [fst snd]. exact Q.
    + destruct v as [rest|]; [apply KEEP; intros i; discriminate|].
      pose proof (react_any c (Some ILong) SCmdLine a [] None st) as Q.
      destruct (react c (Some ILong) SCmdLine a [] None st) as [[s pr]|e s|n] eqn:ER; cbn [rbind fres pres fst snd] in *; try exact I.
      * right. cbn [fst snd]. split; [rewrite (react_ok_pr _ _ _ _ _ _ _ _ _ ER); intros i; discriminate|left; symmetry; exact Q].
      * left. symmetry. exact Q.
  - destruct (possible_long_flag_subcommand c f); [apply KEEP; intros i; discriminate|].
    destruct (match get_pos c pos with Some a => a_hyphen a && negb (a_last a) | None => false end); apply KEEP; intros i; discriminate.
Qed.

Lemma short_loop_fr : forall fuel r ret vaf st, (forall i, ret <> PROpt i) ->
  fres (mt_pending (mt st)) (short_loop c fuel r ret vaf st).
Proof.
  induction fuel as [|f IH]; intros r ret vaf st Hret; cbn [short_loop]; [exact I|].
  destruct (sf_next r) as [[[ch|rest] r']|]; [| |right; split; [exact Hret|right; reflexivity]].
  2:{ right. split; [intros i; discriminate|right; reflexivity]. }
  destruct (get_short c ch) as [a|] eqn:G.
  - pose proof (proj1 (get_short_in c ch a G)) as Ha.
    destruct (negb (a_takes_value a)) eqn:Htv.
    + pose proof (react_any c (Some IShort) SCmdLine a [] None st) as Q.
      destruct (react c (Some IShort) SCmdLine a [] None st) as [[s pr]|e s|n] eqn:ER; cbn [rbind fres pres fst snd] in *; try exact I.
      * assert (Hpr : forall i, pr <> PROpt i) by (rewrite (react_ok_pr _ _ _ _ _ _ _ _ _ ER); intros i; discriminate).
        pose proof (IH r' pr true s Hpr) as R. rewrite <- Q in R.
        destruct (short_loop c f r' pr true s) as [x|e s2|n]; cbn [fres] in *; try exact I.
        -- destruct R as [R|[R1 R2]]; [left; exact R|right; split; [exact R1|]]. left. destruct R2 as [K|K]; exact K.
        -- left. destruct R as [K|K]; exact K.
      * left. symmetry. exact Q.
    + apply negb_false_iff in Htv.
      match goal with |- fres _ (let '(val, has_eq) := ?X in _) => destruct X as [val has_eq] end.
      pose proof (parse_opt_value_fr IShort val a has_eq st Ha Htv) as Q.
      destruct (parse_opt_value c IShort val a has_eq st) as [[s pr]|e s|n]; cbn [rbind fres fst snd]; try exact I; [|exact Q].
      destruct pr; try (unfold FR; cbn [fst snd]; exact Q).
      (* AttachedNotConsumed: the cluster goes on *)
      destruct Q as [[a0 [idn [E _]]]|[_ K]]; [discriminate E|].
      pose proof (IH r' ret true s Hret) as R.
      destruct (short_loop c f r' ret true s) as [x|e s2|n]; cbn [fres] in *; try exact I.
      * destruct R as [R|[R1 R2]]; [left; exact R|right; split; [exact R1|]].
        destruct K as [K|K]; [left; destruct R2 as [R2|R2]; [exact R2|rewrite R2; exact K]|rewrite <- K; exact R2].
      * destruct K as [K|K]; [left; destruct R as [R2|R2]; [exact R2|rewrite R2; exact K]|rewrite <- K; exact R].
  - destruct (find_short_subcmd c ch) as [name|].
    + pose proof (resolve_pending_any c st) as Q.
      destruct (resolve_pending c st) as [s1|e s1|n]; cbn [rbind fres pres] in *; try exact I; [|left; symmetry; exact Q].
      right. cbn [fst snd]. split; [intros i; discriminate|]. left. cbn. symmetry. exact Q.
    + right. split; [intros i; discriminate|right; reflexivity].
Qed.

Lemma parse_short_arg_fr r pst pos vaf st : fres (mt_pending (mt st)) (parse_short_arg c r pst pos vaf st).
Proof.
  unfold parse_short_arg. destruct (state_arg c pst) as [sa|e s|n] eqn:ES; cbn [rbind].
  2:{ unfold state_arg in ES. destruct pst; try discriminate; destruct (find_arg c i); discriminate. }
  2:{ exact I. }
  assert (KEEP : forall pr vaf', (forall i, pr <> PROpt i) -> fres (mt_pending (mt st)) (ROk (st, pr, vaf'))).
  { intros pr vaf' H. right. split; [exact H|right; reflexivity]. }
  destruct (match sa with Some a => a_hyphen a || (a_negnum a && sf_is_negative_number r) | None => false end); [apply KEEP; intros i; discriminate|].
  destruct (match get_pos c pos with Some a => a_negnum a | None => false end && sf_is_negative_number r); [apply KEEP; intros i; discriminate|].
  destruct (match get_pos c pos with Some a => a_hyphen a && negb (a_last a) | None => false end && sf_any_unknown c (S (length r)) r);
    [apply KEEP; intros i; discriminate|].
  destruct (sf_advance_by _ r) as [r0|]; cbn [expect rbind]; [|exact I].
  change (mt_pending (mt st)) with (mt_pending (mt (st <| fs_skip := 0 |>))).
  apply (short_loop_fr (S (length r0)) r0 PRNoArg vaf (st <| fs_skip := 0 |>)). intros i; discriminate.
Qed.

(** ** the invariant through one iteration *)
Lemma kept_PB ls st s pst' pos' vaf' tr' : PB ls st -> kept (mt_pending (mt st)) s ->
  (pst' = l_pst ls \/ (forall i, pst' <> PSOpt i)) -> PB (mkL pst' pos' vaf' tr') s.
Proof.
  intros [Hb Ho] K Hp. unfold PB, bnd. destruct K as [K|K]; rewrite K.
  - split; [apply bndp_none|]. intros i E. cbn [l_pst] in E. split; [|apply openp_none].
    destruct Hp as [->|Hp]; [apply (Ho i E)|exfalso; apply (Hp i E)].
  - split; [exact Hb|]. intros i E. cbn [l_pst] in E.
    destruct Hp as [->|Hp]; [apply (Ho i E)|exfalso; apply (Hp i E)].
Qed.
Lemma kept_bnd ls st s : PB ls st -> kept (mt_pending (mt st)) s -> bnd s.
Proof. intros H K. apply (kept_PB ls st s PSValuesDone 0 false false H K). right. intros i; discriminate. Qed.

Lemma opened_PB s a idn pos' vaf' tr' : In a (c_args c) -> a_takes_value a = true ->
  mt_pending (mt s) = Some (mkPending (a_id a) idn [] None) -> PB (mkL (PSOpt (a_id a)) pos' vaf' tr') s.
Proof.
  intros Ha Htv Hp.
  assert (TV : tv (a_id a)).
  { intros a' r F Hr. rewrite (find_arg_self_app a Ha) in F. inversion F; subst a'.
    unfold a_takes_value in Htv. rewrite Hr in Htv. cbn [opt_default] in Htv. unfold r_takes_values in Htv.
    apply negb_true_iff in Htv. apply N.eqb_neq in Htv. lia. }
  split.
  - unfold bnd. rewrite Hp. intros p a' r E F Hi Hr. inversion E; subst p. cbn [p_id p_raw length] in *.
    pose proof (TV a' r F Hr). lia.
  - intros i E. cbn [l_pst] in E. inversion E; subst i. split; [exact TV|].
    rewrite Hp. intros p a' r E' Ei F Hr. inversion E'; subst p. cbn [p_raw length]. apply (TV a' r F Hr).
Qed.

Definition p1res (ls : lstate) (r : res (option (res loop_res) * lstate * ps)) : Prop :=
  match r with
  | ROk (Some r', _, _) => okres r'
  | ROk (None, ls1, st1) => PB ls1 st1 /\ l_trailing ls1 = l_trailing ls /\ (l_trailing ls = false -> l_pst ls1 = l_pst ls)
  | RErr _ s => bnd s
  | RPanic _ => True
  end.

Lemma after_flag_ok rec rest ls st x : PB ls st -> l_trailing ls = false ->
  (forall ls' st', PB ls' st' -> okres (rec ls' st')) ->
  FR (mt_pending (mt st)) x -> p1res ls (after_flag c rec rest ls x).
Proof.
  intros HP Htr Hrec HF. destruct x as [[s1 pr] vaf1]. unfold FR in HF. cbn [fst snd] in HF. unfold after_flag.
  assert (RI : forall (k : ekind) (a0 : bytes), (forall i, pr <> PROpt i) ->
            p1res ls (do st2 <- resolve_pending_ignore c s1;
                      ROk (Some (RErr (mkerr c k a0) st2), mkL (l_pst ls) (l_pos ls) vaf1 false, st2))).
  { intros k a0 _. pose proof (resolve_pending_ignore_any c s1) as Q.
    destruct (resolve_pending_ignore c s1) as [s2|e s2|n]; cbn [rbind p1res okres]; [|destruct Q|exact I].
    unfold bnd. rewrite Q. apply bndp_none. }
  destruct pr as [n|i| | |rs a0| |a0|a0|]; cbn [p1res].
  - (* FlagSub *) destruct HF as [[a [idn [E _]]]|[_ K]]; [discriminate E|]. cbn [okres lr_st]. apply (kept_bnd ls st s1 HP K).
  - (* Opt *) destruct HF as [[a [idn [E [Ha [Htv Hp]]]]]|[N _]]; [|exfalso; apply (N i); reflexivity].
    inversion E; subst i. apply Hrec. apply (opened_PB s1 a idn _ _ _ Ha Htv Hp).
  - (* ValuesDone *) destruct HF as [[a [idn [E _]]]|[_ K]]; [discriminate E|]. apply Hrec.
    apply (kept_PB ls st s1 _ _ _ _ HP K). right. intros i; discriminate.
  - exact I.
  - apply RI. intros i; discriminate.
  - (* MaybeHyphen *) destruct HF as [[a [idn [E _]]]|[_ K]]; [discriminate E|].
    split; [apply (kept_PB ls st s1 _ _ _ _ HP K); left; reflexivity|]. split; [cbn; symmetry; exact Htr|intros _; reflexivity].
  - apply RI. intros i; discriminate.
  - apply RI. intros i; discriminate.
  - (* NoArg *) destruct HF as [[a [idn [E _]]]|[_ K]]; [discriminate E|].
    split; [apply (kept_PB ls st s1 _ _ _ _ HP K); left; reflexivity|]. split; [cbn; symmetry; exact Htr|intros _; reflexivity].
Qed.

Lemma start_trailing_PB ls st pos' vaf' tr' : PB ls st -> PB (mkL (l_pst ls) pos' vaf' tr') (st <| mt := start_trailing (mt st) |>).
Proof.
  intros [Hb Ho]. unfold start_trailing. destruct (mt_pending (mt st)) as [p|] eqn:Ep.
  - set (p' := p <| p_trailing_idx := match p_trailing_idx p with Some t => Some t | None => Some (N.of_nat (length (p_raw p))) end |>).
    assert (E : mt_pending (mt (st <| mt := (mt st) <| mt_pending := Some p' |> |>)) = Some p') by (destruct st as [m ci fa fk]; destruct m; reflexivity).
    assert (I1 : p_id p' = p_id p) by (destruct p; reflexivity). assert (I2 : p_raw p' = p_raw p) by (destruct p; reflexivity).
    split.
    + unfold bnd. rewrite E. intros q a r Eq F Hi Hr. inversion Eq; subst q. rewrite I1 in F. rewrite I2.
      apply (Hb p a r Ep F Hi Hr).
    + intros i Ei. cbn [l_pst] in Ei. destruct (Ho i Ei) as [T O]. split; [exact T|]. rewrite E.
      intros q a r Eq Eid F Hr. inversion Eq; subst q. rewrite I1 in Eid. rewrite I2. apply (O p a r eq_refl Eid F Hr).
  - assert (E : st <| mt := mt st |> = st) by (destruct st; reflexivity). rewrite E. split.
    + exact Hb.
    + intros i Ei. cbn [l_pst] in Ei. rewrite Ep. apply (Ho i Ei).
Qed.

Lemma phase1_ok rec tok rest ls st : PB ls st ->
  (forall ls' st', PB ls' st' -> okres (rec ls' st')) -> p1res ls (phase1 c rec tok rest ls st).
Proof.
  intros HP Hrec. unfold phase1. destruct (l_trailing ls) eqn:Htr.
  { cbn [p1res]. split; [exact HP|]. split; [reflexivity|intros H; congruence]. }
  destruct (if is_set s_sub_precedence c || match l_pst ls with PSValuesDone => true | _ => false end
            then possible_subcommand c tok (l_vaf ls) else None) as [sc|].
  { destruct (beq sc s_help && negb (is_set s_disable_help_sub c)); cbn [p1res okres lr_st]; apply HP. }
  destruct (is_escape tok).
  { destruct (state_arg c (l_pst ls)) as [sa|e s|n] eqn:ES; cbn [rbind].
    2:{ unfold state_arg in ES. destruct (l_pst ls); try discriminate; destruct (find_arg c i); discriminate. }
    2:{ exact I. }
    destruct (match sa with Some a => a_hyphen a | None => false end); cbn [p1res].
    - split; [exact HP|]. split; [reflexivity|intros _; reflexivity].
    - apply Hrec. apply start_trailing_PB. exact HP. }
  destruct (to_long tok) as [[[f ok] v]|].
  { pose proof (parse_long_arg_fr f ok v (l_pst ls) (l_pos ls) (l_vaf ls) st) as Q.
    destruct (parse_long_arg c f ok v (l_pst ls) (l_pos ls) (l_vaf ls) st) as [x|e s|n]; cbn [rbind fres] in *; try exact I.
    - destruct (snd (fst x)) eqn:Epr; try exact I; apply (after_flag_ok rec rest ls st x HP Htr Hrec Q).
    - cbn [p1res]. apply (kept_bnd ls st s HP Q). }
  destruct (to_short tok) as [r|].
  { pose proof (parse_short_arg_fr r (l_pst ls) (l_pos ls) (l_vaf ls) st) as Q.
    destruct (parse_short_arg c r (l_pst ls) (l_pos ls) (l_vaf ls) st) as [x|e s|n]; cbn [rbind fres] in *; try exact I.
    - destruct x as [[s1 pr] vaf1].
      destruct pr; try exact I; try apply (after_flag_ok rec rest ls st _ HP Htr Hrec Q).
      (* a short flag subcommand *)
      unfold FR in Q. cbn [fst snd] in Q. destruct Q as [[a [idn [E _]]]|[_ K]]; [discriminate E|].
      pose proof (kept_bnd ls st s1 HP K) as B1.
      destruct (fs_at s1) as [a0|].
      + destruct (checked_sub (cur_idx s1) a0) as [d|]; cbn [expect rbind p1res okres lr_st]; [|exact I]. exact B1.
      + cbn [p1res okres lr_st]. exact B1.
    - cbn [p1res]. apply (kept_bnd ls st s HP Q). }
  cbn [p1res]. split; [exact HP|]. split; [reflexivity|intros _; reflexivity].
Qed.

Lemma pc_part_no_err rest ls e s : pc_part c rest ls <> RErr e s.
Proof.
  unfold pc_part. cbv zeta.
  repeat match goal with
         | |- context [if ?x then _ else _] => destruct x
         | |- context [match rest with _ => _ end] => destruct rest
         | |- context [match List.find ?f ?l with _ => _ end] => destruct (List.find f l)
         end; try discriminate.
  pose proof (Escape.is_new_arg_no_err c b a) as H.
  destruct (is_new_arg c b a) as [x|e0 st0|s0]; cbn [rbind]; try discriminate.
  exfalso. apply (H e0 st0). reflexivity.
Qed.

Lemma push_positional_bnd m a trailing tok m1 : In a (c_args c) -> a_index a <> None ->
  pending_values_push m (a_id a) (Some IIndex) trailing (Some tok) = Some m1 -> bndp (mt_pending m1).
Proof.
  intros Ha Hi. unfold pending_values_push.
  set (p := match mt_pending m with Some p => p | None => mkPending (a_id a) (Some IIndex) [] None end).
  destruct (negb (beq (p_id p) (a_id a))) eqn:Eb; [discriminate|].
  destruct (is_some (Some IIndex) && negb (ident_eqb (p_ident p) (Some IIndex))); [discriminate|].
  intros H. inversion H; subst m1. apply negb_false_iff in Eb. apply beq_eq in Eb.
  intros q a' r Eq F Hn. exfalso.
  assert (Eq' : Some (mkPending (p_id p) (p_ident p) (p_raw p ++ [tok])
                        (if trailing then match p_trailing_idx p with Some t => Some t | None => Some (N.of_nat (length (p_raw p))) end
                         else p_trailing_idx p)) = Some q) by (rewrite <- Eq; destruct m; reflexivity).
  inversion Eq'; subst q. cbn [p_id] in F. rewrite Eb, (find_arg_self_app a Ha) in F. inversion F; subst a'. apply Hi. exact Hn.
Qed.

Lemma pos_part_ok rec tok rest ls st : PB ls st ->
  (forall ls' st', PB ls' st' -> okres (rec ls' st')) -> okres (pos_part c rec tok rest ls st).
Proof.
  intros HP Hrec. unfold pos_part.
  destruct (pc_part c rest ls) as [pc'|e s|n] eqn:EPC; cbn [rbind]; [|exfalso; apply (pc_part_no_err _ _ _ _ EPC)|exact I].
  assert (RI : forall (e : error), okres (do st1 <- resolve_pending_ignore c st; RErr e st1)).
  { intros e. pose proof (resolve_pending_ignore_any c st) as Q.
    destruct (resolve_pending_ignore c st) as [s2|e2 s2|n]; cbn [rbind okres]; [|destruct Q|exact I].
    unfold bnd. rewrite Q. apply bndp_none. }
  destruct (get_pos c pc') as [a|] eqn:Hg.
  - destruct (get_pos_in c pc' a Hg) as [Ha Hi].
    destruct (a_last a && negb (l_trailing ls)); [apply RI|]. cbv zeta.
    assert (ST1 : match (if negb (match pending_arg_id (mt st) with Some i => beq i (a_id a) | None => false end)
                            || negb (a_multiple_values a) then resolve_pending c st else ROk st) with
                  | ROk s1 => kept (mt_pending (mt st)) s1 | RErr _ s1 => bnd s1 | RPanic _ => True end).
    { destruct (negb _ || negb _).
      - pose proof (resolve_pending_any c st) as Q. destruct (resolve_pending c st) as [s1|e1 s1|n1]; cbn [pres] in Q; try exact I.
        + left. symmetry. exact Q.
        + unfold bnd. rewrite <- Q. apply bndp_none.
      - right. reflexivity. }
    destruct (if negb (match pending_arg_id (mt st) with Some i => beq i (a_id a) | None => false end)
                 || negb (a_multiple_values a) then resolve_pending c st else ROk st) as [s1|e1 s1|n1]; cbn [rbind okres]; try exact I; [|exact ST1].
    destruct (check_terminator a tok).
    + apply Hrec. apply (kept_PB ls st s1 _ _ _ _ HP ST1). right. intros i; discriminate.
    + destruct (pending_values_push (mt s1) (a_id a) (Some IIndex) (l_trailing ls || a_tva a) (Some tok)) as [m1|] eqn:EP; cbn [expect rbind]; [|exact I].
      pose proof (push_positional_bnd _ _ _ _ _ Ha Hi EP) as B1.
      assert (PBn : forall pst' pos' vaf' tr', (forall i, pst' <> PSOpt i) -> PB (mkL pst' pos' vaf' tr') (s1 <| mt := m1 |>)).
      { intros pst' pos' vaf' tr' Hn. split; [exact B1|]. intros i E. cbn [l_pst] in E. exfalso. apply (Hn i E). }
      destruct (negb (a_is_multiple a)); apply Hrec; apply PBn; intros i; discriminate.
  - destruct (is_set s_allow_external c).
    + destruct (utf8_valid tok); [cbn [okres lr_st]; apply HP|apply RI].
    + apply RI.
Qed.

Lemma opt_part_ok rec tok ls st i : PB ls st -> l_pst ls = PSOpt i ->
  (forall ls' st', PB ls' st' -> okres (rec ls' st')) -> okres (opt_part c rec tok ls st i).
Proof.
  intros HP Epst Hrec. destruct HP as [Hb Ho]. destruct (Ho i Epst) as [TV OP]. unfold opt_part.
  destruct (find_arg c i) as [a|] eqn:F; cbn [expect rbind]; [|exact I].
  assert (Eid : a_id a = i) by (unfold find_arg in F; apply find_some in F; destruct F as [_ F]; apply beq_eq in F; exact F).
  destruct (check_terminator a tok).
  { apply Hrec. split; [exact Hb|]. intros j E. cbn [l_pst] in E. discriminate. }
  destruct (pending_values_push (mt st) i None false (Some tok)) as [m1|] eqn:EP; cbn [expect rbind]; [|exact I].
  destruct (needs_more_vals m1 a) as [more|] eqn:EN; cbn [expect rbind]; [|exact I].
  unfold needs_more_vals in EN. destruct (a_num a) as [r|] eqn:Hr; [|discriminate]. inversion EN; subst more. clear EN.
  (* the new buffer *)
  assert (NEW : exists p', mt_pending m1 = Some p' /\ p_id p' = i /\ N.of_nat (length (p_raw p')) <= vmax r /\
                          (N.of_nat (length (p_raw p')) <? vmax r = true -> N.of_nat (length (p_raw p')) < vmax r)).
  { unfold pending_values_push in EP. destruct (mt_pending (mt st)) as [p|] eqn:Ep.
    - destruct (negb (beq (p_id p) i)) eqn:Eb; [discriminate|]. cbn [is_some andb] in EP. inversion EP; subst m1.
      apply negb_false_iff in Eb. apply beq_eq in Eb.
      eexists. split; [destruct (mt st); reflexivity|]. cbn [p_id p_raw]. split; [exact Eb|].
      pose proof (OP p a r eq_refl Eb F Hr) as L. rewrite app_length. cbn [length]. split; [lia|]. intros H. apply N.ltb_lt in H. exact H.
    - cbn [p_id p_ident p_raw p_trailing_idx] in EP. rewrite beq_refl in EP. cbn [negb is_some andb] in EP. inversion EP; subst m1.
      eexists. split; [destruct (mt st); reflexivity|]. cbn [p_id p_raw app length]. split; [reflexivity|].
      pose proof (TV a r F Hr) as L. split; [lia|]. intros H. apply N.ltb_lt in H. exact H. }
  destruct NEW as [p' [Ep' [Ei' [Le Lt]]]].
  apply Hrec. split.
  - unfold bnd. cbn. rewrite Ep'. intros q a' r' Eq F' Hn Hr'. inversion Eq; subst q. rewrite Ei', F in F'. inversion F'; subst a'.
    rewrite Hr in Hr'. inversion Hr'; subst r'. exact Le.
  - intros j E. cbn [l_pst] in E. rewrite Ep' in E. rewrite Ei' in E. rewrite <- Eid in E at 1. rewrite beq_refl in E. unfold r_accepts_more in E.
    destruct (N.of_nat (length (p_raw p')) <? vmax r) eqn:Em; [|discriminate]. inversion E; subst j. split; [exact TV|].
    cbn. rewrite Ep'. intros q a' r' Eq _ F' Hr'. inversion Eq; subst q. rewrite F in F'. inversion F'; subst a'.
    rewrite Hr in Hr'. inversion Hr'; subst r'. apply Lt. reflexivity.
Qed.

(** THE INVARIANT: from a state satisfying [PB], every exit of the loop is bounded, whatever the tokens *)
Theorem pending_bounded_loop : forall toks ls st, PB ls st -> okres (parse_loop c toks ls st).
Proof.
  induction toks as [|tok rest IH]; intros ls st HP; [apply HP|].
  rewrite parse_loop_step.
  pose proof (phase1_ok (parse_loop c rest) tok rest ls st HP (IH)) as P1.
  destruct (phase1 c (parse_loop c rest) tok rest ls st) as [[[early ls1] st1]|e s|n]; cbn [rbind p1res] in *; try exact I; [|exact P1].
  destruct early as [r|]; [exact P1|]. destruct P1 as [HP1 [Htr Hpst]].
  unfold phase2. destruct (l_trailing ls1) eqn:E1.
  - apply (pos_part_ok _ tok rest ls1 st1 HP1 IH).
  - destruct (l_pst ls1) as [|i|i] eqn:E2.
    + apply (pos_part_ok _ tok rest ls1 st1 HP1 IH).
    + apply (opt_part_ok _ tok ls1 st1 i HP1 E2 IH).
    + apply (pos_part_ok _ tok rest ls1 st1 HP1 IH).
Qed.

Lemma PB_new : PB (mkL PSValuesDone 1 false false) ps_new.
Proof. split; [apply bndp_none|intros i E; discriminate]. Qed.

End Bounded.

(** the statement for whole lines: from the initial state of [Parser::parse] *)
Theorem pending_bounded c toks : assert_app c = true ->
  match parse_loop c toks (mkL PSValuesDone 1 false false) ps_new with
  | ROk lr => bnd c (lr_st lr)
  | RErr _ s => bnd c s
  | RPanic _ => True
  end.
Proof. intros HA. apply (pending_bounded_loop c HA toks _ _ (PB_new c)). Qed.

(** non-vacuity: [prog --mu <v>{1..2}] -- the class hypothesis holds and the bound is attained: after [--mu A B] two values
    are pending for the option [mu] (an argument without index, [num_args] 1..2) *)
Module PendLoopEx.
  Definition m : arg := (arg_new [109]) <| a_long := Some [109; 117] |> <| a_action := Some AAppend |>
                          <| a_num := Some {| vmin := 1; vmax := 2 |} |>.
  Definition c : cmd := build_self ((cmd_new [112]) <| c_args := [m] |>).
  Definition toks : list bytes := [[45; 45; 109; 117]; [65]; [66]].
  Example ex : assert_app c = true /\
    exists st p a, parse_loop c toks (mkL PSValuesDone 1 false false) ps_new = ROk (LDone st) /\
      mt_pending (mt st) = Some p /\ find_arg c (p_id p) = Some a /\ a_index a = None /\
      a_num a = Some {| vmin := 1; vmax := 2 |} /\ p_raw p = [[65]; [66]].
  Proof.
    split; [vm_compute; reflexivity|]. eexists. eexists. eexists.
    split; [vm_compute; reflexivity|]. split; [reflexivity|]. split; [vm_compute; reflexivity|]. repeat split.
  Qed.
End PendLoopEx.
