(** Property C02, un-parser: the indices.  One [react] on the command line advances the running
    counter by one for the name of an option given by flag (Set/Append, [--o] / [-o]) and by one per
    stored value, and records for the argument exactly the counter values of its values.  Folded
    over the occurrences of an invocation this gives the reported index lists in closed form
    ([denote_idx]), computed from the invocation alone. *)
From ClapModel Require Import Base.Bytes Base.Machine Base.Utf8 Lex.OsStrExtModel.
From ClapModel Require Import Parse.Cmd Parse.Build Parse.Valid Parse.Matcher Parse.Errors Parse.Validator Parse.Parser.
From ClapModel Require Import ParseProofs.Actions.
From Coq Require Import ZArith Lia List Bool Sorting.Sorted.
From RecordUpdate Require Import RecordSet.
Import RecordSetNotations.
Import ListNotations.
Open Scope N_scope.

Definition idx_of (j : id) (m : matcher) : option (list N) := opt_map m_indices (get j m).
(** the counter values [k+1 .. k+n] *)
Definition span (k : N) (n : nat) : list N := map (fun j => k + N.of_nat j) (seq 1 n).

Lemma span_snoc k n : span k (S n) = span k n ++ [k + N.of_nat (S n)].
Proof. unfold span. rewrite seq_S, map_app. reflexivity. Qed.
Lemma span_cons k n : span k (S n) = (k + 1) :: span (k + 1) n.
Proof.
  unfold span. cbn [seq map]. f_equal. rewrite <- seq_shift, map_map. apply map_ext. intros j. lia.
Qed.

Lemma add_val_to_idx m i v ma : wf_m m -> get i m = Some ma -> m_raw ma <> [] ->
  exists m' ma', add_val_to m i v = Some m' /\ wf_m m' /\ get i m' = Some ma' /\
    m_indices ma' = m_indices ma /\ m_raw ma' <> [].
Proof.
  intros Hwf Hg Hr. destruct (exists_last Hr) as [gs [g Eg]].
  destruct (add_val_to_spec m i v ma gs g Hwf Hg Eg) as [m' [ma' [E [W [_ [G [R _]]]]]]].
  exists m', ma'. split; [exact E|]. split; [exact W|]. split; [exact G|]. split.
  - unfold add_val_to in E. unfold get in Hg, G. rewrite Hg in E. unfold append_val in E. rewrite Eg, push_last_app in E.
    inversion E; subst m'. cbn in G. rewrite fm_update_get_same, Hg in G. cbn [opt_map] in G. inversion G. destruct ma; reflexivity.
  - rewrite R. destruct gs; discriminate.
Qed.

Lemma add_index_to_idx m i ix ma : wf_m m -> get i m = Some ma ->
  exists m', add_index_to m i ix = Some m' /\ wf_m m' /\ get i m' = Some (push_index ix ma).
Proof.
  intros Hwf Hg. unfold add_index_to. unfold get in Hg. rewrite Hg. eexists. split; [reflexivity|].
  destruct m as [args pend sub]. unfold wf_m, get in *. cbn in *.
  split; [unfold fm_wf; rewrite fm_update_keys; exact Hwf|]. rewrite fm_update_get_same, Hg. reflexivity.
Qed.

Lemma push_arg_values_idx c a : forall raw st st' ma,
  push_arg_values c a raw st = ROk st' -> wf_m (mt st) -> get (a_id a) (mt st) = Some ma -> m_raw ma <> [] ->
  exists ma', get (a_id a) (mt st') = Some ma' /\
    m_indices ma' = m_indices ma ++ span (cur_idx st) (length raw) /\
    cur_idx st' = cur_idx st + N.of_nat (length raw).
Proof.
  induction raw as [|v t IH]; intros st st' ma H Hwf Hg Hr; cbn [push_arg_values] in H.
  - inversion H; subst. exists ma. split; [exact Hg|]. split; [cbn; rewrite app_nil_r; reflexivity|cbn; lia].
  - destruct (a_vp a) as [vp|]; cbn [expect rbind] in H; [|discriminate].
    destruct (vp_parse vp v); [discriminate|].
    rewrite <- (ps_bump_mt st) in Hwf, Hg.
    destruct (add_val_to_idx _ _ v _ Hwf Hg Hr) as [m1 [ma1 [E1 [W1 [G1 [I1 R1]]]]]].
    rewrite E1 in H. cbn [expect rbind] in H.
    destruct (add_index_to_idx m1 (a_id a) (cur_idx (ps_bump st)) ma1 W1 G1) as [m2 [E2 [W2 G2]]].
    rewrite E2 in H. cbn [expect rbind] in H.
    rewrite <- (set_mt_mt (ps_bump st) m2) in W2, G2.
    assert (R2 : m_raw (push_index (cur_idx (ps_bump st)) ma1) <> []) by (destruct ma1; exact R1).
    destruct (IH _ _ _ H W2 G2 R2) as [ma' [G' [I' C']]].
    assert (Ec : cur_idx ((ps_bump st) <| mt := m2 |>) = cur_idx st + 1) by (destruct st; reflexivity).
    exists ma'. split; [exact G'|]. split.
    + rewrite I', Ec. cbn [length]. rewrite span_cons.
      replace (m_indices (push_index (cur_idx (ps_bump st)) ma1)) with (m_indices ma ++ [cur_idx st + 1]).
      * rewrite <- app_assoc. reflexivity.
      * rewrite <- I1. destruct ma1, st; reflexivity.
    + rewrite C', Ec. cbn [length]. lia.
Qed.

(** [start_custom_arg; push_arg_values]: the tail of every storing branch of [react_core] *)
Lemma start_push_idx c a s vals (st0 : ps) m st' :
  wf_m m -> ~ In (a_id a) (groups_for_arg c (a_id a)) ->
  (do m2 <- start_custom_arg c a s m; push_arg_values c a vals (st0 <| mt := m2 |>)) = ROk st' ->
  cur_idx st' = cur_idx st0 + N.of_nat (length vals) /\
  idx_of (a_id a) (mt st') = Some (opt_default [] (own_prev c s a (idx_of (a_id a) m)) ++ span (cur_idx st0) (length vals)).
Proof.
  intros Hwf Hng H.
  destruct (start_custom_arg_spec c a s m Hwf) as [m2 [E2 [W2 [_ [G2 _]]]]].
  rewrite E2 in H. cbn [rbind] in H. specialize (G2 Hng).
  rewrite <- (set_mt_mt st0 m2) in W2, G2.
  set (ma0 := opt_default (marg_new (a_ignore_case a) false) (own_prev c s a (get (a_id a) m))) in *.
  assert (R2 : m_raw (new_val_group (set_source s ma0)) <> []) by (destruct ma0 as [so ix rw ic ig]; cbn; destruct rw; discriminate).
  destruct (push_arg_values_idx c a vals _ _ _ H W2 G2 R2) as [ma' [G' [I' C']]].
  assert (Ec : cur_idx (st0 <| mt := m2 |>) = cur_idx st0) by (destruct st0; reflexivity).
  rewrite Ec in *. split; [exact C'|].
  unfold idx_of. rewrite G'. cbn [opt_map]. rewrite I'. f_equal. f_equal.
  replace (m_indices (new_val_group (set_source s ma0))) with (m_indices ma0) by (destruct ma0; reflexivity).
  unfold ma0, own_prev. destruct (is_cmdline s && overridden c a (a_id a)); [reflexivity|].
  destruct (get (a_id a) m); reflexivity.
Qed.

(** what one occurrence does to the counter and to its argument's index list *)
Definition name_bump (idn : option ident) (s : src) (a : arg) : N :=
  match a_get_action a with
  | ASet | AAppend => if is_cmdline s && is_flag_ident idn then 1 else 0
  | _ => 0
  end.
Definition stored_count (a : arg) (vals : list bytes) : nat :=
  match a_get_action a with
  | ASet | AAppend => length vals
  | ASetTrue | ASetFalse | ACount => match vals with [] => 1%nat | _ => length vals end
  | _ => 0%nat
  end.
Definition kept_idx (c : cmd) (s : src) (a : arg) (prev : option (list N)) : list N :=
  match a_get_action a with AAppend => opt_default [] (own_prev c s a prev) | _ => [] end.

Lemma set_like_idx c idn s a vals bump st st' pr :
  wf_m (mt st) -> ~ In (a_id a) (groups_for_arg c (a_id a)) ->
  set_like c idn s a vals bump st = ROk (st', pr) ->
  let b := if bump && is_cmdline s && is_flag_ident idn then 1 else 0 in
  cur_idx st' = cur_idx st + b + N.of_nat (length vals) /\
  idx_of (a_id a) (mt st') = Some (span (cur_idx st + b) (length vals)).
Proof.
  intros Hwf Hng H. unfold set_like in H.
  set (st1 := if bump && is_cmdline s && is_flag_ident idn then ps_bump st else st) in *.
  assert (E1 : mt st1 = mt st) by (unfold st1; destruct (bump && is_cmdline s && is_flag_ident idn); [apply ps_bump_mt|reflexivity]).
  assert (C1 : cur_idx st1 = cur_idx st + (if bump && is_cmdline s && is_flag_ident idn then 1 else 0)).
  { unfold st1. destruct (bump && is_cmdline s && is_flag_ident idn); [destruct st; reflexivity|lia]. }
  rewrite E1 in H.
  pose proof (mt_remove_wf (mt st) (a_id a) Hwf) as W1.
  pose proof (mt_remove_get (mt st) (a_id a)) as G1.
  destruct (mt_remove (mt st) (a_id a)) as [m1 removed]. cbn [fst snd] in *.
  destruct (removed && negb (self_override c a)); [discriminate|].
  assert (H' : (do m2 <- start_custom_arg c a s m1; push_arg_values c a vals ((st1 <| mt := m1 |>) <| mt := m2 |>)) = ROk st').
  { destruct (start_custom_arg c a s m1); cbn [rbind] in *; try discriminate.
    destruct (push_arg_values c a vals _); cbn [rbind] in *; try discriminate. inversion H; reflexivity. }
  destruct (start_push_idx c a s vals _ m1 st' W1 Hng H') as [C' I'].
  assert (Gs : get (a_id a) m1 = None) by (rewrite G1 by exact Hwf; rewrite beq_refl; reflexivity).
  assert (Ec : cur_idx (st1 <| mt := m1 |>) = cur_idx st1) by (destruct st1; reflexivity).
  rewrite Ec, C1 in C', I'. cbv zeta. split; [exact C'|].
  rewrite I'. unfold idx_of. rewrite Gs. unfold own_prev. destruct (is_cmdline s && overridden c a (a_id a)); reflexivity.
Qed.

Theorem react_core_idx c idn s a raw ti st st' pr :
  wf_m (mt st) -> ~ In (a_id a) (groups_for_arg c (a_id a)) ->
  react_core c idn s a raw ti st = ROk (st', pr) ->
  exists vals, occ_values c a raw ti = Some vals /\
    cur_idx st' = cur_idx st + name_bump idn s a + N.of_nat (stored_count a vals) /\
    idx_of (a_id a) (mt st') =
      Some (kept_idx c s a (idx_of (a_id a) (mt st)) ++ span (cur_idx st + name_bump idn s a) (stored_count a vals)).
Proof.
  intros Hwf Hng H. rewrite react_core_unfold in H.
  destruct (if is_cmdline s then verify_num_args c a raw st else ROk tt) as [[]|e0 st0|site]; cbn [rbind] in H; try discriminate.
  destruct (occ_values c a raw ti) as [vals|]; cbn [expect rbind] in H; [|discriminate].
  exists vals. split; [reflexivity|]. unfold react_action, name_bump, stored_count, kept_idx in *.
  destruct (a_get_action a) eqn:Ea; try discriminate.
  - (* Set *)
    destruct (set_like_idx _ _ _ _ _ _ _ _ _ Hwf Hng H) as [C I]. cbn [andb] in C, I. split; [exact C|exact I].
  - (* Append *)
    set (st1 := if is_cmdline s && is_flag_ident idn then ps_bump st else st) in *.
    assert (E1 : mt st1 = mt st) by (unfold st1; destruct (is_cmdline s && is_flag_ident idn); [apply ps_bump_mt|reflexivity]).
    assert (C1 : cur_idx st1 = cur_idx st + (if is_cmdline s && is_flag_ident idn then 1 else 0)).
    { unfold st1. destruct (is_cmdline s && is_flag_ident idn); [destruct st; reflexivity|lia]. }
    rewrite E1 in H.
    assert (H' : (do m2 <- start_custom_arg c a s (mt st); push_arg_values c a vals (st1 <| mt := m2 |>)) = ROk st').
    { destruct (start_custom_arg c a s (mt st)); cbn [rbind] in *; try discriminate.
      destruct (push_arg_values c a vals _); cbn [rbind] in *; try discriminate. inversion H; reflexivity. }
    destruct (start_push_idx c a s vals _ _ st' Hwf Hng H') as [C' I']. rewrite C1 in C', I'. split; [exact C'|exact I'].
  - (* SetTrue *)
    destruct (set_like_idx _ _ _ _ _ _ _ _ _ Hwf Hng H) as [C I]. cbn [andb] in C, I. rewrite N.add_0_r in *.
    destruct vals; split; assumption.
  - (* SetFalse *)
    destruct (set_like_idx _ _ _ _ _ _ _ _ _ Hwf Hng H) as [C I]. cbn [andb] in C, I. rewrite N.add_0_r in *.
    destruct vals; split; assumption.
  - (* Count *)
    set (vals' := match vals with [] => [n_to_dec (N.min 255 (existing_count a (mt st) + 1))] | _ => vals end) in *.
    pose proof (mt_remove_wf (mt st) (a_id a) Hwf) as W1.
    pose proof (mt_remove_get (mt st) (a_id a)) as G1.
    destruct (mt_remove (mt st) (a_id a)) as [m1 removed]. cbn [fst snd] in *.
    assert (H' : (do m2 <- start_custom_arg c a s m1; push_arg_values c a vals' (st <| mt := m2 |>)) = ROk st').
    { destruct (start_custom_arg c a s m1); cbn [rbind] in *; try discriminate.
      destruct (push_arg_values c a vals' _); cbn [rbind] in *; try discriminate. inversion H; reflexivity. }
    destruct (start_push_idx c a s vals' _ m1 st' W1 Hng H') as [C' I'].
    assert (Gs : get (a_id a) m1 = None) by (rewrite G1 by exact Hwf; rewrite beq_refl; reflexivity).
    assert (L : length vals' = match vals with [] => 1%nat | _ => length vals end) by (unfold vals'; destruct vals; reflexivity).
    rewrite L in C', I'. rewrite N.add_0_r. split; [exact C'|].
    rewrite I'. unfold idx_of. rewrite Gs. unfold own_prev. destruct (is_cmdline s && overridden c a (a_id a)); reflexivity.
Qed.

(** * sequences of occurrences *)
Definition step_idx (c : cmd) (i : id) (acc : N * option (list N)) (o : occ) : N * option (list N) :=
  let b := name_bump (o_ident o) (o_src o) (o_arg o) in
  let n := stored_count (o_arg o) (o_vals c o) in
  (fst acc + b + N.of_nat n,
   if beq (a_id (o_arg o)) i then Some (kept_idx c (o_src o) (o_arg o) (snd acc) ++ span (fst acc + b) n)
   else if is_cmdline (o_src o) && overridden c (o_arg o) i then None else snd acc).

Theorem react_all_idx c i : forall os st st',
  wf_m (mt st) -> mt_pending (mt st) = None -> Forall (no_group_clash c i) os ->
  react_all c os st = ROk st' ->
  (cur_idx st', idx_of i (mt st')) = fold_left (step_idx c i) os (cur_idx st, idx_of i (mt st)).
Proof.
  induction os as [|o os IH]; intros st st' Hwf Hp Hall H; cbn [react_all fold_left] in *.
  - inversion H; subst. reflexivity.
  - inversion Hall as [|? ? [Hc1 Hc2] Hall']; subst.
    rewrite react_no_pending in H by exact Hp.
    destruct (react_core c (o_ident o) (o_src o) (o_arg o) (o_raw o) (o_ti o) st) as [[st1 pr]|e st1|site] eqn:E;
      cbn [rbind fst] in H; try discriminate.
    destruct (react_core_spec _ _ _ _ _ _ _ _ _ Hwf Hc1 E) as [vals [Ho [W [P [_ [F _]]]]]].
    destruct (react_core_idx _ _ _ _ _ _ _ _ _ Hwf Hc1 E) as [vals' [Ho' [C I]]].
    rewrite Ho in Ho'. inversion Ho'; subst vals'. rewrite Hp in P.
    rewrite (IH st1 st' W P Hall' H). f_equal.
    unfold step_idx, o_vals. rewrite Ho. cbn [opt_default fst snd]. rewrite C. f_equal.
    destruct (beq (a_id (o_arg o)) i) eqn:Ei.
    + apply beq_eq in Ei. subst i. exact I.
    + apply beq_neq in Ei. unfold idx_of. rewrite F; [|congruence|exact Hc2].
      destruct (is_cmdline (o_src o) && overridden c (o_arg o) i); reflexivity.
Qed.

(** the index events of a sequence of occurrences, in command-line order: (argument, its new indices) *)
Fixpoint spans (c : cmd) (k : N) (os : list occ) : list (id * list N) :=
  match os with
  | [] => []
  | o :: t =>
      let b := name_bump (o_ident o) (o_src o) (o_arg o) in
      let n := stored_count (o_arg o) (o_vals c o) in
      (a_id (o_arg o), span (k + b) n) :: spans c (k + b + N.of_nat n) t
  end.

Lemma span_bounds k n x : In x (span k n) -> k < x <= k + N.of_nat n.
Proof. unfold span. intros H. apply in_map_iff in H. destruct H as [j [<- Hj]]. apply in_seq in Hj. lia. Qed.

Lemma span_sorted k n : StronglySorted N.lt (span k n).
Proof.
  revert k. induction n as [|n IH]; intros k; [constructor|]. rewrite span_cons. constructor; [apply IH|].
  apply Forall_forall. intros x Hx. apply span_bounds in Hx. lia.
Qed.

(** all indices handed out, in command-line order, strictly increase (and lie above the start) *)
Theorem spans_sorted c : forall os k,
  StronglySorted N.lt (concat (map snd (spans c k os))) /\
  Forall (fun x => k < x) (concat (map snd (spans c k os))).
Proof.
  induction os as [|o os IH]; intros k; cbn [spans map concat]; [split; constructor|].
  set (b := name_bump (o_ident o) (o_src o) (o_arg o)). set (n := stored_count (o_arg o) (o_vals c o)).
  destruct (IH (k + b + N.of_nat n)) as [S1 B1]. split.
  - assert (G : forall (l1 l2 : list N), StronglySorted N.lt l1 -> StronglySorted N.lt l2 ->
                (forall x y, In x l1 -> In y l2 -> x < y) -> StronglySorted N.lt (l1 ++ l2)).
    { induction l1 as [|h l1 IHl]; intros l2 H1 H2 Hlt; [exact H2|]. inversion H1; subst. cbn [app]. constructor.
      - apply IHl; try assumption. intros x y Hx Hy. apply Hlt; [right; exact Hx|exact Hy].
      - apply Forall_app. split; [assumption|]. apply Forall_forall. intros y Hy. apply Hlt; [left; reflexivity|exact Hy]. }
    apply G; [apply span_sorted|exact S1|]. intros x y Hx Hy. apply span_bounds in Hx.
    rewrite Forall_forall in B1. specialize (B1 y Hy). lia.
  - apply Forall_app. split.
    + apply Forall_forall. intros x Hx. apply span_bounds in Hx. lia.
    + eapply Forall_impl; [|exact B1]. cbn beta. intros x Hx. lia.
Qed.

(** Append arguments (no override relation touching them): the reported indices are exactly the
    argument's own events, in order *)
Definition own_events (i : id) (ev : list (id * list N)) : list N :=
  concat (map snd (filter (fun p => beq (fst p) i) ev)).

Lemma fold_idx_append c a : a_get_action a = AAppend ->
  forall os k prev,
  Forall (fun o => (o_arg o = a /\ is_cmdline (o_src o) && overridden c a (a_id a) = false) \/ unrelated c (a_id a) o) os ->
  opt_default [] (snd (fold_left (step_idx c (a_id a)) os (k, prev))) = opt_default [] prev ++ own_events (a_id a) (spans c k os)
  /\ (is_some prev = true \/ (0 < Actions.count_occ (a_id a) os)%nat ->
      is_some (snd (fold_left (step_idx c (a_id a)) os (k, prev))) = true).
Proof.
  intros Ea. induction os as [|o os IH]; intros k prev Hall; cbn [fold_left spans Actions.count_occ].
  - unfold own_events. cbn. rewrite app_nil_r. split; [reflexivity|]. intros [H|H]; [exact H|lia].
  - inversion Hall as [|? ? Ho Hall']; subst. unfold step_idx at 2 4. cbn [fst snd].
    set (b := name_bump (o_ident o) (o_src o) (o_arg o)). set (n := stored_count (o_arg o) (o_vals c o)).
    unfold own_events. cbn [filter fst]. destruct Ho as [[Eo Er]|[Hu1 Hu2]].
    + rewrite Eo, beq_refl. unfold kept_idx. rewrite Ea. unfold own_prev. rewrite <- Eo, Er in *.
      destruct (IH (k + b + N.of_nat n) (Some (opt_default [] prev ++ span (k + b) n)) Hall') as [I1 I2].
      rewrite Eo in *. split.
      * etransitivity; [exact I1|]. cbn [opt_default map snd concat]. unfold own_events. rewrite <- app_assoc. reflexivity.
      * intros _. apply I2. left. reflexivity.
    + rewrite Hu1, Hu2. cbn [plus]. apply IH. exact Hall'.
Qed.
