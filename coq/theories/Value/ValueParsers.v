(** All built-in value parsers of C04 under one roof, so that statements can quantify over
    "every built-in value parser". *)
From Coq Require Import ZArith List Bool.
From ClapModel Require Import Base.Bytes Base.Utf8 Value.ValueBase Value.IntParse Value.IntFactory
  Value.BoolParse Value.PossibleValues.
Import ListNotations.

Inductive vparser :=
  | VPRanged (k : pkind) (r : range) (t : ity)     (* Ranged{I64,U64}ValueParser<T> with bounds r *)
  | VPBool | VPBoolish | VPFalsey | VPNonEmpty | VPString
  | VPPossible (uni ic : bool) (pvs : list possible_value)
  | VPEnum (uni ic : bool) (variants : list possible_value).

Inductive tvalue := TVInt (z : Z) | TVBool (b : bool) | TVStr (s : bytes) | TVVariant (n : nat).

Definition vmap {A B} (f : A -> B) (r : vresult A) : vresult B :=
  match r with VOk a => VOk (f a) | VErr k => VErr k end.

Definition vparse (p : vparser) (s : bytes) : vresult tvalue :=
  match p with
  | VPRanged k r t => vmap TVInt (ranged_parse k r t s)
  | VPBool => vmap TVBool (bool_parse s)
  | VPBoolish => vmap TVBool (boolish_parse s)
  | VPFalsey => vmap TVBool (falsey_parse s)
  | VPNonEmpty => vmap TVStr (nonempty_parse s)
  | VPString => vmap TVStr (string_parse s)
  | VPPossible uni ic pvs => vmap TVStr (possible_parse uni ic pvs s)
  | VPEnum uni ic vs => vmap TVVariant (enum_parse uni ic vs s)
  end.

(** the kind with which a parser refuses a well-formed candidate outside its language *)
Definition refusal_kind (p : vparser) : err_kind :=
  match p with
  | VPRanged _ _ _ | VPBoolish => ValueValidation
  | _ => InvalidValue
  end.

(** parsers that go through [OsStr::to_str] and report its failure as [InvalidUtf8] *)
Definition reports_utf8 (p : vparser) : bool :=
  match p with VPBool | VPEnum _ _ _ => false | _ => true end.
