(** Models of [BoolValueParser], [BoolishValueParser], [FalseyValueParser],
    [NonEmptyStringValueParser], [StringValueParser] (value_parser.rs) and of
    [crate::util::str_to_bool] (util/str_to_bool.rs).  The literal tables are regenerated from
    the source on every build (Gen/BoolTables.v). *)
From Coq Require Import ZArith List Bool Lia.
From ClapModel Require Import Base.Bytes Base.Utf8 Value.ValueBase.
From ClapModel Require Import Gen.BoolTables.
Import ListNotations.
Open Scope N_scope.

Definition ascii_lower (b : N) : N := if (65 <=? b) && (b <=? 90) then b + 32 else b.

Fixpoint assoc_n {A} (c : N) (l : list (N * A)) : option A :=
  match l with
  | [] => None
  | (d, a) :: r => if c =? d then Some a else assoc_n c r
  end.

(** [char::to_lowercase] of a non-ASCII scalar, as far as a comparison with an ASCII string can
    tell: the scalars whose lowercase contains an ASCII character are mapped exactly (table
    [lower_exceptions]); every other one lowercases to non-ASCII scalars only and is kept as
    it is (a stand-in for "some non-ASCII sequence"). *)
Definition lower_nonascii (c : N) (raw : bytes) : bytes :=
  match assoc_n c lower_exceptions with Some l => l | None => raw end.

(** [str::to_lowercase].  ASCII bytes are lowered in place.  The [None] branch (ill-formed
    UTF-8) is unreachable: every caller has already passed [to_str]; it keeps the byte. *)
Fixpoint lower_fuel (fuel : nat) (s : bytes) : bytes :=
  match fuel with
  | O => []
  | S f =>
    match s with
    | [] => []
    | b0 :: t =>
      if b0 <? 128 then ascii_lower b0 :: lower_fuel f t
      else match utf8_step s with
           | None => b0 :: lower_fuel f t
           | Some (c, n) => lower_nonascii c (firstn n s) ++ lower_fuel f (skipn n s)
           end
    end
  end.
Definition to_lowercase (s : bytes) : bytes := lower_fuel (length s) s.

(** [<[&str]>::contains] *)
Definition contains_str (l : list bytes) (s : bytes) : bool := existsb (beq s) l.

(** [str_to_bool]: lowercase, then TRUE_LITERALS first, FALSE_LITERALS second. *)
Definition str_to_bool (s : bytes) : option bool :=
  let pat := to_lowercase s in
  if contains_str true_literals pat then Some true
  else if contains_str false_literals pat then Some false
  else None.

Definition lit_true : bytes := [116; 114; 117; 101].          (* "true" *)
Definition lit_false : bytes := [102; 97; 108; 115; 101].     (* "false" *)

(** [BoolValueParser::parse_ref]: OsStr equality with "true" / "false"; no UTF-8 check. *)
Definition bool_parse (s : bytes) : vresult bool :=
  if beq s lit_true then VOk true
  else if beq s lit_false then VOk false
  else VErr InvalidValue.

(** [BoolishValueParser::parse_ref] *)
Definition boolish_parse (s : bytes) : vresult bool :=
  if negb (utf8_valid s) then VErr InvalidUtf8
  else match str_to_bool s with
       | Some b => VOk b
       | None => VErr ValueValidation
       end.

Definition is_nil_b (s : bytes) : bool := match s with [] => true | _ => false end.

(** [FalseyValueParser::parse_ref]: empty is false, a false literal is false, all else true. *)
Definition falsey_parse (s : bytes) : vresult bool :=
  if negb (utf8_valid s) then VErr InvalidUtf8
  else if is_nil_b s then VOk false
  else match str_to_bool s with
       | Some b => VOk b
       | None => VOk true
       end.

(** [NonEmptyStringValueParser::parse_ref]: the emptiness test comes first ([empty_value] is an
    [InvalidValue] error), then [to_str]. *)
Definition nonempty_parse (s : bytes) : vresult bytes :=
  if is_nil_b s then VErr InvalidValue
  else if negb (utf8_valid s) then VErr InvalidUtf8
  else VOk s.

(** [StringValueParser::parse]: [OsString::into_string]. *)
Definition string_parse (s : bytes) : vresult bytes :=
  if negb (utf8_valid s) then VErr InvalidUtf8 else VOk s.
