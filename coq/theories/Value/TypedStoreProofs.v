(** The typed store refines a finite map (C04): typed gets never change anything, a failing
    typed access (wrong type, unknown id) leaves every id ↦ entry association as it was, a
    successful remove deletes exactly that id and hands out its values; no internal
    [expect] can fire on a well-formed store.  The order of [ids()] is NOT preserved by a
    failing remove ([store_order_refuted]). *)
From Coq Require Import ZArith List Bool Lia.
From ClapModel Require Import Base.Bytes Value.TypedStore.
Import ListNotations.
Open Scope N_scope.

(** ---- the finite-map view and the abstract machine on it *)
Definition lookup (st : store) (i : id) : option entry := fm_get (args st) i.

Definition amap := id -> option entry.

Definition averify (dbg : bool) (valid : list id) (a : id) : option merr :=
  if dbg then
    if beq a [] || existsb (fun s => beq s a) valid then None else Some UnknownArgument
  else None.

(** the typed look-up shared by all four accessors *)
Definition aget (dbg : bool) (valid : list id) (m : amap) (a : id) (T : tag) : res (option entry) :=
  match averify dbg valid a with
  | Some e => RErr e
  | None =>
    match m a with
    | None => ROk None
    | Some arg =>
      let actual := infer_type_id arg T in
      if T =? actual then ROk (Some arg) else RErr (Downcast actual T)
    end
  end.

Definition adelete (m : amap) (a : id) : amap := fun i => if beq i a then None else m i.

(** Abstract step: a get is a look-up; a remove is the same look-up followed, on success
    only, by deleting that one id.  ([Ids] has no abstract answer: a function has no order.) *)
Definition astep (dbg : bool) (valid : list id) (m : amap) (o : op) : out * amap :=
  match o with
  | GetOne a T =>
    (match aget dbg valid m a T with
     | RErr e => OErr e | ROk None => ONone | ROk (Some e) => out_first T e end, m)
  | GetMany a T =>
    (match aget dbg valid m a T with
     | RErr e => OErr e | ROk None => ONone | ROk (Some e) => out_all T e end, m)
  | RemoveOne a T =>
    match aget dbg valid m a T with
    | RErr e => (OErr e, m)
    | ROk None => (ONone, m)
    | ROk (Some e) => (out_first T e, adelete m a)
    end
  | RemoveMany a T =>
    match aget dbg valid m a T with
    | RErr e => (OErr e, m)
    | ROk None => (ONone, m)
    | ROk (Some e) => (out_all T e, adelete m a)
    end
  | Ids => (OIds [], m)
  end.

Fixpoint arun (dbg : bool) (valid : list id) (m : amap) (ops : list op) : list out * amap :=
  match ops with
  | [] => ([], m)
  | o :: r =>
    let '(x, m') := astep dbg valid m o in
    let '(xs, m'') := arun dbg valid m' r in
    (x :: xs, m'')
  end.

(** outputs agree, except that the abstract machine does not enumerate ids *)
Definition out_sim (x y : out) : Prop :=
  match x, y with
  | OIds _, OIds _ => True
  | _, _ => x = y
  end.

(** ---- store invariant *)
Definition wf_entry (e : entry) : Prop :=
  match e_type e with
  | Some t => Forall (fun v => fst v = t) (vals_flatten e)
  | None => True
  end.

Definition wf_store (st : store) : Prop :=
  NoDup (map fst (args st)) /\ Forall (fun kv => wf_entry (snd kv)) (args st).

(** ---- FlatMap facts *)
Lemma beq_sym a b : beq a b = beq b a.
Proof.
  destruct (beq a b) eqn:E.
  - apply beq_eq in E. subst. symmetry. apply beq_refl.
  - apply beq_neq in E. symmetry. apply beq_neq. congruence.
Qed.

Lemma fm_get_not_in m k : ~ In k (map fst m) -> fm_get m k = None.
Proof.
  induction m as [|[k0 v0] r IH]; intros H; cbn [fm_get]; [reflexivity|].
  cbn [map fst In] in H.
  destruct (beq k0 k) eqn:E.
  - apply beq_eq in E. tauto.
  - apply IH. tauto.
Qed.

Lemma fm_get_in m k v : fm_get m k = Some v -> In (k, v) m.
Proof.
  induction m as [|[k0 v0] r IH]; cbn [fm_get]; [discriminate|].
  destruct (beq k0 k) eqn:E.
  - apply beq_eq in E. intros H; inversion H; subst. left; reflexivity.
  - intros H. right. apply IH; assumption.
Qed.

Lemma fm_remove_spec m k : NoDup (map fst m) ->
  match fm_remove_entry m k with
  | None => fm_get m k = None
  | Some ((k', v), rest) =>
      k' = k /\ fm_get m k = Some v /\
      (forall i, fm_get rest i = if beq i k then None else fm_get m i) /\
      NoDup (map fst rest) /\ ~ In k (map fst rest) /\ (forall x, In x rest -> In x m)
  end.
Proof.
  induction m as [|[k0 v0] r IH]; intros ND; cbn [fm_remove_entry fm_get]; [reflexivity|].
  cbn [map fst] in ND. inversion ND as [|? ? Hnotin NDr]; subst.
  destruct (beq k0 k) eqn:E.
  - apply beq_eq in E. subst k0. repeat split; auto.
    + intros i. destruct (beq i k) eqn:Ei.
      * apply beq_eq in Ei. subst i. apply fm_get_not_in; assumption.
      * cbn [fm_get]. rewrite beq_sym, Ei. reflexivity.
    + intros x Hx. right; assumption.
  - specialize (IH NDr).
    destruct (fm_remove_entry r k) as [[[k' v] r']|].
    + destruct IH as (-> & Hg & Hall & ND' & Hnk & Hsub).
      repeat split; auto.
      * intros i. cbn [fm_get]. destruct (beq i k) eqn:Ei.
        -- apply beq_eq in Ei. subst i. rewrite E. rewrite Hall, beq_refl. reflexivity.
        -- destruct (beq k0 i); [reflexivity|]. rewrite Hall, Ei. reflexivity.
      * cbn [map fst]. constructor; [|assumption].
        intros Hin. apply Hnotin. apply in_map_iff in Hin. destruct Hin as [x [Hx1 Hx2]].
        apply in_map_iff. exists x. split; [assumption|]. apply Hsub; assumption.
      * cbn [map fst In]. intros [H|H]; [|tauto]. subst k0. rewrite beq_refl in E. discriminate.
      * intros x [Hx|Hx]; [left; assumption|right; apply Hsub; assumption].
    + exact IH.
Qed.

Lemma fm_insert_fresh m k v : ~ In k (map fst m) -> fm_insert m k v = m ++ [(k, v)].
Proof.
  induction m as [|[k0 v0] r IH]; intros H; cbn [fm_insert app]; [reflexivity|].
  cbn [map fst In] in H.
  destruct (beq k0 k) eqn:E.
  - apply beq_eq in E. tauto.
  - rewrite IH by tauto. reflexivity.
Qed.

Lemma fm_get_app m k v i :
  fm_get (m ++ [(k, v)]) i =
  match fm_get m i with Some x => Some x | None => if beq k i then Some v else None end.
Proof.
  induction m as [|[k0 v0] r IH]; cbn [app fm_get]; [reflexivity|].
  destruct (beq k0 i); [reflexivity|apply IH].
Qed.

Lemma NoDup_snoc {A} (l : list A) x : ~ In x l -> NoDup l -> NoDup (l ++ [x]).
Proof.
  induction l as [|y r IH]; intros Hx ND; cbn [app].
  - constructor; [intros []|constructor].
  - inversion ND as [|? ? Hy NDr]; subst. constructor.
    + intros Hin. apply in_app_or in Hin. destruct Hin as [Hin|[Hin|[]]]; [tauto|].
      subst. apply Hx. left; reflexivity.
    + apply IH; [|assumption]. intros Hin. apply Hx. right; assumption.
Qed.

(** ---- entries *)
Lemma infer_ok_all e T : wf_entry e -> infer_type_id e T = T ->
  Forall (fun v => fst v = T) (vals_flatten e).
Proof.
  unfold wf_entry, infer_type_id. destruct (e_type e) as [t|].
  - intros H ->. exact H.
  - intros _.
    destruct (find (fun v => negb (fst v =? T)) (vals_flatten e)) as [v|] eqn:F.
    + intros E. apply find_some in F. destruct F as [_ F]. rewrite E, N.eqb_refl in F. discriminate.
    + intros _. apply Forall_forall. intros x Hx.
      pose proof (find_none _ _ F x Hx) as Hn. cbn in Hn.
      apply negb_false_iff, N.eqb_eq in Hn. exact Hn.
Qed.

Lemma downcast_all_ok T l : Forall (fun v => fst v = T) l -> downcast_all T l = Some (map snd l).
Proof.
  induction l as [|v r IH]; intros H; cbn [downcast_all map]; [reflexivity|].
  inversion H as [|? ? Hv Hr]; subst. unfold downcast. rewrite N.eqb_refl. rewrite (IH Hr). reflexivity.
Qed.

Lemma out_first_no_panic T e : Forall (fun v => fst v = T) (vals_flatten e) -> out_first T e <> OPanic.
Proof.
  unfold out_first. destruct (vals_flatten e) as [|v r]; [discriminate|].
  intros H. inversion H as [|? ? Hv _]; subst. unfold downcast. rewrite N.eqb_refl. discriminate.
Qed.

Lemma out_all_no_panic T e : Forall (fun v => fst v = T) (vals_flatten e) -> out_all T e <> OPanic.
Proof.
  unfold out_all. intros H. rewrite (downcast_all_ok _ _ H). discriminate.
Qed.

Lemma wf_lookup st i e : wf_store st -> lookup st i = Some e -> wf_entry e.
Proof.
  intros [_ Hf] H. apply fm_get_in in H. rewrite Forall_forall in Hf. apply (Hf (i, e) H).
Qed.

(** ---- one step *)
Lemma get_refines dbg st m a T : (forall i, lookup st i = m i) ->
  try_get_arg_t dbg st a T = aget dbg (valid_args st) m a T.
Proof.
  intros Hm. unfold try_get_arg_t, aget, verify_arg, averify.
  rewrite <- Hm. reflexivity.
Qed.

Lemma aget_some_typed dbg valid m a T e : aget dbg valid m a T = ROk (Some e) ->
  m a = Some e /\ infer_type_id e T = T.
Proof.
  unfold aget. destruct (averify dbg valid a); [discriminate|].
  destruct (m a) as [arg|]; [|discriminate].
  cbv zeta. destruct (N.eqb_spec T (infer_type_id arg T)) as [E|E]; [|discriminate].
  intros H; inversion H; subst. split; [reflexivity|congruence].
Qed.

Lemma remove_refines dbg st m a T : wf_store st -> (forall i, lookup st i = m i) ->
  let '(r, st') := try_remove_arg_t dbg st a T in
  r = aget dbg (valid_args st) m a T /\
  valid_args st' = valid_args st /\ wf_store st' /\
  (forall i, lookup st' i =
     match r with ROk (Some _) => adelete m a i | _ => m i end).
Proof.
  intros [ND WF] Hm. unfold try_remove_arg_t, aget.
  change (verify_arg dbg st a) with (averify dbg (valid_args st) a).
  destruct (averify dbg (valid_args st) a) as [e|].
  { repeat split; auto. }
  pose proof (fm_remove_spec (args st) a ND) as R.
  rewrite <- Hm. unfold lookup at 1.
  destruct (fm_remove_entry (args st) a) as [[[k matched] rest]|].
  - destruct R as (-> & Hg & Hall & ND' & Hnk & Hsub). rewrite Hg. cbv zeta.
    assert (WFr : Forall (fun kv => wf_entry (snd kv)) rest).
    { rewrite Forall_forall in *. intros x Hx. apply WF, Hsub, Hx. }
    rewrite (N.eqb_sym T).
    destruct (N.eqb_spec (infer_type_id matched T) T) as [E|E].
    + repeat split; auto. intros i. unfold lookup, adelete; cbn [args].
      rewrite Hall, <- Hm. reflexivity.
    + rewrite (fm_insert_fresh rest a matched Hnk).
      repeat split; cbn [valid_args args]; auto.
      * rewrite map_app. cbn [map fst].
        apply NoDup_snoc; assumption.
      * apply Forall_app. split; [assumption|]. constructor; [|constructor]. cbn [snd].
        apply fm_get_in in Hg. rewrite Forall_forall in WF. apply (WF (a, matched) Hg).
      * intros i. unfold lookup; cbn [args]. rewrite fm_get_app, Hall, <- Hm. unfold lookup.
        rewrite (beq_sym a i).
        destruct (beq i a) eqn:Ei.
        -- apply beq_eq in Ei. subst i. symmetry. exact Hg.
        -- destruct (fm_get (args st) i); reflexivity.
  - rewrite R. repeat split; auto.
Qed.

Lemma first_typed st m a T e : wf_store st -> (forall i, lookup st i = m i) ->
  m a = Some e -> infer_type_id e T = T -> Forall (fun v => fst v = T) (vals_flatten e).
Proof.
  intros WF Hm G1 G2. apply infer_ok_all; [|assumption].
  apply (wf_lookup st a); [assumption|]. rewrite Hm. exact G1.
Qed.

Lemma out_sim_refl x : out_sim x x.
Proof. destruct x; cbn; auto. Qed.

Theorem step_refines dbg st m o : wf_store st -> (forall i, lookup st i = m i) ->
  let '(x, st') := step dbg st o in
  let '(y, m') := astep dbg (valid_args st) m o in
  out_sim x y /\ (forall i, lookup st' i = m' i) /\ wf_store st' /\
  valid_args st' = valid_args st /\ x <> OPanic.
Proof.
  intros WF Hm.
  destruct o as [a T|a T|a T|a T|]; cbn [step astep].
  - rewrite (get_refines dbg st m a T Hm).
    refine (conj (out_sim_refl _) (conj Hm (conj WF (conj eq_refl _)))).
    destruct (aget dbg (valid_args st) m a T) as [[e|]|err] eqn:G; try discriminate.
    apply aget_some_typed in G. destruct G as [G1 G2].
    apply out_first_no_panic. apply (first_typed st m a T e); assumption.
  - rewrite (get_refines dbg st m a T Hm).
    refine (conj (out_sim_refl _) (conj Hm (conj WF (conj eq_refl _)))).
    destruct (aget dbg (valid_args st) m a T) as [[e|]|err] eqn:G; try discriminate.
    apply aget_some_typed in G. destruct G as [G1 G2].
    apply out_all_no_panic. apply (first_typed st m a T e); assumption.
  - pose proof (remove_refines dbg st m a T WF Hm) as R.
    destruct (try_remove_arg_t dbg st a T) as [r st'].
    destruct R as (-> & Hv & WF' & Hl).
    destruct (aget dbg (valid_args st) m a T) as [[e|]|err] eqn:G;
      refine (conj (out_sim_refl _) (conj Hl (conj WF' (conj Hv _)))); try discriminate.
    apply aget_some_typed in G. destruct G as [G1 G2].
    apply out_first_no_panic. apply (first_typed st m a T e); assumption.
  - pose proof (remove_refines dbg st m a T WF Hm) as R.
    destruct (try_remove_arg_t dbg st a T) as [r st'].
    destruct R as (-> & Hv & WF' & Hl).
    destruct (aget dbg (valid_args st) m a T) as [[e|]|err] eqn:G;
      refine (conj (out_sim_refl _) (conj Hl (conj WF' (conj Hv _)))); try discriminate.
    apply aget_some_typed in G. destruct G as [G1 G2].
    apply out_all_no_panic. apply (first_typed st m a T e); assumption.
  - refine (conj I (conj Hm (conj WF (conj eq_refl _)))). discriminate.
Qed.

(** ---- every history *)
Theorem run_refines dbg ops : forall st m, wf_store st -> (forall i, lookup st i = m i) ->
  let '(xs, st') := run dbg st ops in
  let '(ys, m') := arun dbg (valid_args st) m ops in
  Forall2 out_sim xs ys /\ (forall i, lookup st' i = m' i) /\ wf_store st' /\
  valid_args st' = valid_args st /\ ~ In OPanic xs.
Proof.
  induction ops as [|o r IH]; intros st m WF Hm; cbn [run arun].
  - refine (conj _ (conj Hm (conj WF (conj eq_refl _)))); [constructor|intros []].
  - pose proof (step_refines dbg st m o WF Hm) as S.
    destruct (step dbg st o) as [x st1].
    destruct (astep dbg (valid_args st) m o) as [y m1].
    destruct S as (Hs & Hl & WF1 & Hv & Hp).
    specialize (IH st1 m1 WF1 Hl). rewrite Hv in IH.
    destruct (run dbg st1 r) as [xs st2].
    destruct (arun dbg (valid_args st) m1 r) as [ys m2].
    destruct IH as (Hf & Hl2 & WF2 & Hv2 & Hp2).
    refine (conj _ (conj Hl2 (conj WF2 (conj _ _)))).
    + constructor; assumption.
    + congruence.
    + cbn [In]. intros [H|H]; [congruence|contradiction].
Qed.

(** ---- what the abstract machine says, spelled out *)
Definition is_get (o : op) : bool :=
  match o with GetOne _ _ | GetMany _ _ | Ids => true | _ => false end.
Definition op_id (o : op) : id :=
  match o with GetOne a _ | GetMany a _ | RemoveOne a _ | RemoveMany a _ => a | Ids => [] end.
Definition op_tag (o : op) : tag :=
  match o with GetOne _ T | GetMany _ T | RemoveOne _ T | RemoveMany _ T => T | Ids => 0 end.
Definition op_one (o : op) : bool :=
  match o with GetOne _ _ | RemoveOne _ _ => true | _ => false end.

Theorem astep_spec dbg valid m o :
  let '(y, m') := astep dbg valid m o in
  (* gets never change anything *)
  (is_get o = true -> m' = m) /\
  (* a failing access (wrong type or unknown id) changes nothing *)
  (forall e, y = OErr e -> m' = m) /\
  (* an unknown id fails (debug builds), a wrong type fails *)
  (o <> Ids -> averify dbg valid (op_id o) = Some UnknownArgument -> y = OErr UnknownArgument) /\
  (o <> Ids -> averify dbg valid (op_id o) = None ->
   forall e, m (op_id o) = Some e ->
     (infer_type_id e (op_tag o) <> op_tag o ->
        y = OErr (Downcast (infer_type_id e (op_tag o)) (op_tag o))) /\
     (infer_type_id e (op_tag o) = op_tag o ->
        (* success: the entry's values, and for a remove exactly that id is deleted *)
        y = (if op_one o then out_first (op_tag o) e else out_all (op_tag o) e) /\
        m' = (if is_get o then m else adelete m (op_id o)))) /\
  (o <> Ids -> averify dbg valid (op_id o) = None -> m (op_id o) = None -> y = ONone /\ m' = m).
Proof.
  destruct o as [a T|a T|a T|a T|]; cbn [astep is_get op_id op_tag op_one]; unfold aget;
    try (destruct (averify dbg valid a) as [err|] eqn:V;
         [ repeat split; try congruence; intros; try congruence;
           match goal with H : Some _ = Some UnknownArgument |- _ => inversion H; reflexivity | _ => idtac end
         | destruct (m a) as [e|] eqn:M; cbv zeta;
           [ destruct (N.eqb_spec T (infer_type_id e T)) as [E|E];
             repeat split; try congruence; intros; try congruence;
             repeat match goal with
                    | H : Some _ = Some _ |- _ => inversion H; subst; clear H
                    end; try congruence; try (split; congruence); try (split; reflexivity)
           | repeat split; try congruence; intros; try congruence ] ]).
  all: try (repeat split; congruence).
  all: exfalso; match goal with H : _ = OErr _ |- _ => revert H end; unfold out_first, out_all.
  - destruct (vals_flatten e) as [|v r]; [discriminate|]. destruct (downcast T v); discriminate.
  - destruct (downcast_all T (vals_flatten e)); discriminate.
Qed.

(** ---- the stricter reading (the order of ids() survives a failing remove) is false *)
Definition order_witness : store :=
  {| valid_args := [[97]; [98]];
     args := [([97], mk_entry 8 [([120], [120])]); ([98], mk_entry 0 [([55], [55])])] |}.

Theorem store_order_refuted :
  exists st a T e, wf_store st /\
    fst (step true st (RemoveOne a T)) = OErr e /\
    map fst (args (snd (step true st (RemoveOne a T)))) <> map fst (args st).
Proof.
  exists order_witness, [97], 0, (Downcast 8 0). split; [|split].
  - split; cbn.
    + repeat constructor; cbn; intuition discriminate.
    + repeat constructor.
  - vm_compute. reflexivity.
  - vm_compute. discriminate.
Qed.

(** satisfiability: a well-formed store and a history that exercises every outcome *)
Example run_example :
  fst (run true order_witness
         [GetOne [97] 8; GetOne [97] 0; RemoveOne [97] 0; Ids; RemoveMany [98] 0; GetOne [122] 0; GetOne [98] 0])
  = [OOne [120]; OErr (Downcast 8 0); OErr (Downcast 8 0); OIds [[98]; [97]]; OMany [[55]];
     OErr UnknownArgument; ONone].
Proof. vm_compute. reflexivity. Qed.
