(** Possible-value and enum parsers accept exactly the declared names and aliases,
    caselessly iff [ignore_case] (C04). *)
From Coq Require Import ZArith List Bool Lia Arith PeanoNat.
From ClapModel Require Import Base.Bytes Base.Utf8 Value.ValueBase Value.BoolParse Value.BoolParseProofs
  Value.PossibleValues.
Import ListNotations.
Open Scope N_scope.

(** "equal up to case": ASCII-caseless when both sides are ASCII (and always without the
    cargo feature `unicode`); otherwise equality of the Unicode full case foldings. *)
Definition caseless_eq (uni : bool) (n s : bytes) : Prop :=
  if uni then
    if is_ascii n && is_ascii s then ascii_ci_eq n s else fold_str n = fold_str s
  else ascii_ci_eq n s.

Definition name_eq (uni ignore_case : bool) (n s : bytes) : Prop :=
  if ignore_case then caseless_eq uni n s else n = s.

Lemma eq_ignore_ascii_case_spec a b : eq_ignore_ascii_case a b = true <-> ascii_ci_eq a b.
Proof. unfold eq_ignore_ascii_case, ascii_ci_eq. apply beq_eq. Qed.

Lemma eq_ignore_case_spec uni a b : eq_ignore_case uni a b = true <-> caseless_eq uni a b.
Proof.
  unfold eq_ignore_case, caseless_eq, unicase_eq. destruct uni.
  - destruct (is_ascii a && is_ascii b); [apply eq_ignore_ascii_case_spec|apply beq_eq].
  - apply eq_ignore_ascii_case_spec.
Qed.

Lemma pv_matches_spec uni pv v ic :
  pv_matches uni pv v ic = true <-> exists n, In n (name_and_aliases pv) /\ name_eq uni ic n v.
Proof.
  unfold pv_matches, name_eq. destruct ic; rewrite existsb_exists; split; intros [n [H1 H2]];
    exists n; (split; [assumption|]).
  - apply eq_ignore_case_spec; assumption.
  - apply eq_ignore_case_spec; assumption.
  - apply beq_eq; assumption.
  - apply beq_eq; assumption.
Qed.

Definition declares (uni ic : bool) (pvs : list possible_value) (s : bytes) : Prop :=
  exists pv n, In pv pvs /\ In n (name_and_aliases pv) /\ name_eq uni ic n s.

Lemma any_matches_spec uni ic pvs s :
  existsb (fun pv => pv_matches uni pv s ic) pvs = true <-> declares uni ic pvs s.
Proof.
  unfold declares. rewrite existsb_exists. split.
  - intros [pv [H1 H2]]. apply pv_matches_spec in H2. destruct H2 as [n [H2 H3]]. exists pv, n. auto.
  - intros [pv [n [H1 [H2 H3]]]]. exists pv. split; [assumption|]. apply pv_matches_spec. exists n. auto.
Qed.

Theorem possible_parse_spec uni ic pvs s s' :
  possible_parse uni ic pvs s = VOk s' <->
  utf8_valid s = true /\ s' = s /\ declares uni ic pvs s.
Proof.
  unfold possible_parse. destruct (utf8_valid s); cbn [negb].
  - destruct (existsb (fun pv => pv_matches uni pv s ic) pvs) eqn:E.
    + apply any_matches_spec in E. split; [intros H; inversion H; subst; auto|intros (_ & -> & _); reflexivity].
    + split; [discriminate|]. intros (_ & _ & D). apply any_matches_spec in D. congruence.
  - split; [discriminate|intros [H _]; discriminate].
Qed.

Theorem possible_parse_reject uni ic pvs s k : possible_parse uni ic pvs s = VErr k ->
  (k = InvalidUtf8 /\ utf8_valid s = false) \/
  (k = InvalidValue /\ utf8_valid s = true /\ ~ declares uni ic pvs s).
Proof.
  unfold possible_parse. destruct (utf8_valid s); cbn [negb].
  - destruct (existsb (fun pv => pv_matches uni pv s ic) pvs) eqn:E; [discriminate|].
    intros H; inversion H. right. repeat split; auto. intros D. apply any_matches_spec in D. congruence.
  - intros H; inversion H. left; auto.
Qed.

(** ---- ASCII strings are well-formed UTF-8, so for ASCII tables and candidates "caselessly"
    is plain ASCII case-insensitivity whatever the feature set *)
Lemma decode_fuel_ascii f : forall s, is_ascii s = true -> (length s <= f)%nat ->
  snd (decode_fuel f s) = length s.
Proof.
  induction f as [|f IH]; intros s Ha Hl.
  - destruct s; [reflexivity|cbn in Hl; lia].
  - destruct s as [|b t]; [reflexivity|].
    cbn [is_ascii forallb] in Ha. apply andb_true_iff in Ha. destruct Ha as [Hb Ht].
    cbn [decode_fuel utf8_step]. rewrite Hb. cbn [skipn].
    specialize (IH t Ht ltac:(cbn in Hl; lia)).
    destruct (decode_fuel f t) as [cs k]. cbn [snd] in *. cbn [length]. lia.
Qed.

Lemma ascii_utf8_valid s : is_ascii s = true -> utf8_valid s = true.
Proof.
  intros H. unfold utf8_valid, valid_up_to, decode_prefix.
  rewrite (decode_fuel_ascii (length s) s H (le_n _)). apply Nat.eqb_refl.
Qed.

Theorem possible_parse_ascii uni pvs s :
  is_ascii s = true ->
  (forall pv n, In pv pvs -> In n (name_and_aliases pv) -> is_ascii n = true) ->
  (possible_parse uni true pvs s = VOk s <->
   exists pv n, In pv pvs /\ In n (name_and_aliases pv) /\ ascii_ci_eq n s).
Proof.
  intros Hs Hn. rewrite possible_parse_spec. unfold declares, name_eq, caseless_eq.
  split.
  - intros (_ & _ & pv & n & H1 & H2 & H3). exists pv, n. repeat split; auto.
    destruct uni; [|assumption]. rewrite (Hn pv n H1 H2), Hs in H3. exact H3.
  - intros (pv & n & H1 & H2 & H3). split; [apply ascii_utf8_valid; assumption|]. split; [reflexivity|].
    exists pv, n. repeat split; auto. destruct uni; [|assumption]. rewrite (Hn pv n H1 H2), Hs. exact H3.
Qed.

(** ---- enum: the first matching variant *)
Lemma find_index_spec {A} (f : A -> bool) l : forall k i,
  find_index f l k = Some i <->
  exists j x, i = (k + j)%nat /\ nth_error l j = Some x /\ f x = true /\
              forall j' y, (j' < j)%nat -> nth_error l j' = Some y -> f y = false.
Proof.
  induction l as [|a r IH]; intros k i; cbn [find_index].
  - split; [discriminate|]. intros (j & x & _ & H & _). destruct j; discriminate.
  - destruct (f a) eqn:Fa.
    + split.
      * intros H; inversion H; subst. exists 0%nat, a. repeat split; auto; try lia.
      * intros (j & x & -> & Hn & Hx & Hmin). destruct j as [|j]; [f_equal; lia|].
        specialize (Hmin 0%nat a ltac:(lia) eq_refl). congruence.
    + rewrite IH. split.
      * intros (j & x & -> & Hn & Hx & Hmin). exists (S j), x. repeat split; auto; try lia.
        intros j' y Hlt Hy. destruct j' as [|j']; [cbn in Hy; inversion Hy; subst; assumption|].
        apply (Hmin j' y); [lia|assumption].
      * intros (j & x & -> & Hn & Hx & Hmin). destruct j as [|j].
        { cbn in Hn. inversion Hn; subst. congruence. }
        exists j, x. repeat split; auto; try lia.
        intros j' y Hlt Hy. apply (Hmin (S j') y); [lia|assumption].
Qed.

Definition variant_declares (uni ic : bool) (pv : possible_value) (s : bytes) : Prop :=
  exists n, In n (name_and_aliases pv) /\ name_eq uni ic n s.

Theorem enum_parse_spec uni ic vs s i :
  enum_parse uni ic vs s = VOk i <->
  utf8_valid s = true /\
  exists pv, nth_error vs i = Some pv /\ variant_declares uni ic pv s /\
    forall j pv', (j < i)%nat -> nth_error vs j = Some pv' -> ~ variant_declares uni ic pv' s.
Proof.
  unfold enum_parse, variant_declares. destruct (utf8_valid s); cbn [negb].
  2:{ split; [discriminate|intros [H _]; discriminate]. }
  destruct (find_index (fun pv => pv_matches uni pv s ic) vs 0) as [i'|] eqn:F.
  - apply find_index_spec in F. destruct F as (j & x & -> & Hn & Hx & Hmin). cbn [Nat.add].
    split.
    + intros H; inversion H; subst i. split; [reflexivity|]. exists x. repeat split; auto.
      * apply pv_matches_spec; assumption.
      * intros j' pv' Hlt Hn' D. apply pv_matches_spec in D. rewrite (Hmin j' pv' Hlt Hn') in D. discriminate.
    + intros (_ & pv & Hn2 & D & Hmin2). f_equal.
      destruct (Nat.lt_trichotomy i j) as [Hlt|[->|Hlt]]; [|reflexivity|].
      * apply pv_matches_spec in D. rewrite (Hmin i pv Hlt Hn2) in D. discriminate.
      * exfalso. apply (Hmin2 j x Hlt Hn). apply pv_matches_spec; assumption.
  - split; [discriminate|]. intros (_ & pv & Hn & D & Hmin). exfalso.
    assert (X : find_index (fun pv => pv_matches uni pv s ic) vs 0 = Some i).
    { apply find_index_spec. exists i, pv. repeat split; auto.
      - apply pv_matches_spec; assumption.
      - intros j' y Hlt Hy. destruct (pv_matches uni y s ic) eqn:E; [|reflexivity].
        exfalso. apply (Hmin j' y Hlt Hy). apply pv_matches_spec; assumption. }
    congruence.
Qed.

Theorem enum_parse_reject uni ic vs s k : enum_parse uni ic vs s = VErr k -> k = InvalidValue.
Proof.
  unfold enum_parse. destruct (utf8_valid s); cbn [negb].
  - destruct (find_index _ vs 0); [discriminate|]. intros H; inversion H; reflexivity.
  - intros H; inversion H; reflexivity.
Qed.

(** case sensitivity is the default; folding only when asked; Unicode traps *)
Example possible_examples :
  let pvs := [ {| pv_name := [102; 97; 115; 116]; pv_aliases := [[107]] |} ] in   (* "fast", alias "k" *)
  possible_parse true false pvs [70; 65; 83; 84] = VErr InvalidValue /\           (* "FAST" *)
  possible_parse true true pvs [70; 65; 83; 84] = VOk [70; 65; 83; 84] /\
  possible_parse true true pvs [226; 132; 170] = VOk [226; 132; 170] /\           (* KELVIN SIGN ~ "k" (unicase) *)
  possible_parse false true pvs [226; 132; 170] = VErr InvalidValue /\
  possible_parse true false pvs [226; 132; 170] = VErr InvalidValue /\
  possible_parse true true pvs [255] = VErr InvalidUtf8.
Proof. vm_compute. repeat split; reflexivity. Qed.
