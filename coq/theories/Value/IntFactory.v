(** [impl ValueParserFactory for u8 … i64] (what [value_parser!(T)] builds), driven by the
    table regenerated from the source (Gen/IntFactories.v), followed by an optional user
    [.range(..)] call. *)
From Coq Require Import ZArith List Bool Lia.
From ClapModel Require Import Base.Bytes Base.Machine Base.Utf8 Value.ValueBase Value.IntParse.
From ClapModel Require Import Gen.IntFactories.
Import ListNotations.
Open Scope Z_scope.

Definition carrier_min (k : pkind) : Z := match k with PI64 => i64_min | PU64 => 0 end.
Definition carrier_max (k : pkind) : Z := match k with PI64 => i64_max | PU64 => u64_max end.

Fixpoint assoc_ity {A} (t : ity) (l : list (ity * A)) : option A :=
  match l with
  | [] => None
  | (u, a) :: r => if ity_eqb t u then Some a else assoc_ity t r
  end.

(** [<T as ValueParserFactory>::value_parser()]; [None] = no factory / failed debug assertion. *)
Definition factory_parser (dbg : bool) (t : ity) : option (pkind * range) :=
  match assoc_ity t int_factories with
  | None => None
  | Some (k, FFull) => Some (k, full_range)
  | Some (k, FIncl lo hi) =>
    match range_builder dbg (carrier_min k) (carrier_max k) full_range
            (Included (fbound_val lo), Included (fbound_val hi)) with
    | Some r => Some (k, r)
    | None => None
    end
  end.

Definition ranged_parse_d (k : pkind) (r : range) (t : ity) (s : bytes) : dresult :=
  match k with
  | PI64 => ranged_i64_d r (ity_min t) (ity_max t) s
  | PU64 => ranged_u64_d r (ity_min t) (ity_max t) s
  end.
Definition ranged_parse (k : pkind) (r : range) (t : ity) (s : bytes) : vresult Z :=
  to_vresult (ranged_parse_d k r t s).

(** [value_parser!(T)] then, if [user] is given, [.range(user)].  [None] = panic while building. *)
Definition int_parser (dbg : bool) (t : ity) (user : option range) : option (pkind * range) :=
  match factory_parser dbg t with
  | None => None
  | Some (k, r) =>
    match user with
    | None => Some (k, r)
    | Some u =>
      match range_builder dbg (carrier_min k) (carrier_max k) r u with
      | Some r' => Some (k, r')
      | None => None
      end
    end
  end.

Definition int_value_parse_d (dbg : bool) (t : ity) (user : option range) (s : bytes) : option dresult :=
  match int_parser dbg t user with
  | None => None
  | Some (k, r) => Some (ranged_parse_d k r t s)
  end.
