(** Language equality for the ranged integer parsers (C04): the parser model accepts exactly
    the strings [+-]?[0-9]+ (resp. +?[0-9]+) whose unbounded reading in Z lies in the
    carrier, the declared range and the target type, and returns that reading. *)
From Coq Require Import ZArith List Bool Lia.
From ClapModel Require Import Base.Bytes Base.Machine Base.Utf8 Value.ValueBase Value.IntParse.
Import ListNotations.
Open Scope Z_scope.

(** ---- declarative side: the language and the big-integer reading, independent of the parser *)
Definition all_digits (ds : bytes) : Prop := Forall (fun b => is_digit b = true) ds.

(** [+-]?[0-9]+ *)
Definition decimal_signed (s : bytes) : Prop :=
  exists sign ds, s = sign ++ ds /\ (sign = [] \/ sign = [43%N] \/ sign = [45%N]) /\
                  ds <> [] /\ all_digits ds.
(** +?[0-9]+ *)
Definition decimal_unsigned (s : bytes) : Prop :=
  exists sign ds, s = sign ++ ds /\ (sign = [] \/ sign = [43%N]) /\ ds <> [] /\ all_digits ds.

Definition decimal (signed : bool) (s : bytes) : Prop :=
  if signed then decimal_signed s else decimal_unsigned s.

(** value of a digit string, no bound anywhere *)
Definition digits_val (ds : bytes) : Z :=
  fold_left (fun acc b => acc * 10 + (Z.of_N b - 48)) ds 0.

Definition intval (s : bytes) : Z :=
  match s with
  | [] => 0
  | b :: ds => if (b =? 45)%N then - digits_val ds
               else if (b =? 43)%N then digits_val ds
               else digits_val s
  end.

Definition in_range (r : range) (v : Z) : Prop :=
  match fst r with Included a => a <= v | Excluded a => a < v | Unbounded => True end /\
  match snd r with Included b => v <= b | Excluded b => v < b | Unbounded => True end.

(** ---- digits *)
Lemma is_digit_range b : is_digit b = true <-> (48 <= b <= 57)%N.
Proof.
  unfold is_digit. rewrite andb_true_iff, !N.leb_le. tauto.
Qed.

Lemma digit_of_some b d : digit_of b = Some d -> is_digit b = true /\ d = Z.of_N b - 48 /\ 0 <= d <= 9.
Proof.
  unfold digit_of. destruct (is_digit b) eqn:E; [|discriminate].
  intros H. inversion H; subst. apply is_digit_range in E. repeat split; lia.
Qed.

Lemma digit_of_none b : digit_of b = None -> is_digit b = false.
Proof. unfold digit_of. destruct (is_digit b); [discriminate|reflexivity]. Qed.

Definition fpos (acc : Z) (b : N) : Z := acc * 10 + (Z.of_N b - 48).
Definition fneg (acc : Z) (b : N) : Z := acc * 10 - (Z.of_N b - 48).

Lemma fold_pos_ge ds : forall acc, 0 <= acc -> all_digits ds -> acc <= fold_left fpos ds acc.
Proof.
  induction ds as [|b t IH]; intros acc Ha Hd; cbn [fold_left]; [lia|].
  inversion Hd as [|? ? Hb Ht]; subst. apply is_digit_range in Hb.
  assert (Hs : acc <= fpos acc b) by (unfold fpos; lia).
  specialize (IH (fpos acc b) ltac:(lia) Ht). lia.
Qed.

Lemma fold_neg_pos ds : forall a, fold_left fneg ds (- a) = - fold_left fpos ds a.
Proof.
  induction ds as [|b t IH]; intros a; cbn [fold_left]; [reflexivity|].
  replace (fneg (- a) b) with (- fpos a b) by (unfold fneg, fpos; lia). apply IH.
Qed.

Lemma acc_pos_spec tmax ds : forall acc v, 0 <= acc <= tmax ->
  (acc_pos tmax acc ds = IOk v <-> all_digits ds /\ fold_left fpos ds acc = v /\ v <= tmax).
Proof.
  induction ds as [|b t IH]; intros acc v Ha; cbn [acc_pos fold_left].
  - split.
    + intros H; inversion H; subst. repeat split; [constructor|lia].
    + intros (_ & E & _). subst. reflexivity.
  - destruct (digit_of b) as [d|] eqn:Eb.
    + apply digit_of_some in Eb. destruct Eb as (Hb & Hd & Hr).
      cbv zeta.
      destruct (Z.ltb_spec tmax (acc * 10)) as [Hm|Hm].
      { split; [discriminate|]. intros (Hall & E & Hv). exfalso.
        inversion Hall as [|? ? _ Ht]; subst.
        pose proof (fold_pos_ge t (fpos acc b) ltac:(unfold fpos; lia) Ht). unfold fpos in *. lia. }
      destruct (Z.ltb_spec tmax (acc * 10 + d)) as [Hm2|Hm2].
      { split; [discriminate|]. intros (Hall & E & Hv). exfalso.
        inversion Hall as [|? ? _ Ht]; subst.
        pose proof (fold_pos_ge t (fpos acc b) ltac:(unfold fpos; lia) Ht). unfold fpos in *. lia. }
      rewrite (IH (acc * 10 + d) v ltac:(lia)). subst d. unfold fpos at 2.
      split.
      * intros (Ht & E & Hv). repeat split; [constructor; assumption|assumption|assumption].
      * intros (Hall & E & Hv). inversion Hall; subst. repeat split; assumption.
    + apply digit_of_none in Eb. split; [discriminate|].
      intros (Hall & _). inversion Hall; subst. congruence.
Qed.

Lemma acc_neg_spec tmin ds : forall acc v, tmin <= acc <= 0 ->
  (acc_neg tmin acc ds = IOk v <-> all_digits ds /\ fold_left fneg ds acc = v /\ tmin <= v).
Proof.
  induction ds as [|b t IH]; intros acc v Ha; cbn [acc_neg fold_left].
  - split.
    + intros H; inversion H; subst. repeat split; [constructor|lia].
    + intros (_ & E & _). subst. reflexivity.
  - assert (Hge : forall a, a <= 0 -> all_digits t -> fold_left fneg t a <= a).
    { intros a Ha0 Ht. replace a with (- - a) by lia. rewrite fold_neg_pos.
      pose proof (fold_pos_ge t (- a) ltac:(lia) Ht). lia. }
    destruct (digit_of b) as [d|] eqn:Eb.
    + apply digit_of_some in Eb. destruct Eb as (Hb & Hd & Hr).
      cbv zeta.
      destruct (Z.ltb_spec (acc * 10) tmin) as [Hm|Hm].
      { split; [discriminate|]. intros (Hall & E & Hv). exfalso.
        inversion Hall as [|? ? _ Ht]; subst.
        pose proof (Hge (fneg acc b) ltac:(unfold fneg; lia) Ht). unfold fneg in *. lia. }
      destruct (Z.ltb_spec (acc * 10 - d) tmin) as [Hm2|Hm2].
      { split; [discriminate|]. intros (Hall & E & Hv). exfalso.
        inversion Hall as [|? ? _ Ht]; subst.
        pose proof (Hge (fneg acc b) ltac:(unfold fneg; lia) Ht). unfold fneg in *. lia. }
      rewrite (IH (acc * 10 - d) v ltac:(lia)). subst d. unfold fneg at 2.
      split.
      * intros (Ht & E & Hv). repeat split; [constructor; assumption|assumption|assumption].
      * intros (Hall & E & Hv). inversion Hall; subst. repeat split; assumption.
    + apply digit_of_none in Eb. split; [discriminate|].
      intros (Hall & _). inversion Hall; subst. congruence.
Qed.

Lemma digits_val_fold ds : digits_val ds = fold_left fpos ds 0.
Proof. reflexivity. Qed.

(** ---- the language, characterised on the head byte *)
Lemma not_digit_43 : is_digit 43 = false. Proof. reflexivity. Qed.
Lemma not_digit_45 : is_digit 45 = false. Proof. reflexivity. Qed.

Lemma all_digits_head b t : all_digits (b :: t) -> (b =? 43)%N = false /\ (b =? 45)%N = false.
Proof.
  intros H. inversion H as [|? ? Hb _]; subst. apply is_digit_range in Hb.
  split; apply N.eqb_neq; lia.
Qed.

Lemma decimal_signed_char s :
  decimal_signed s <->
  match s with
  | [] => False
  | b :: rest => if ((b =? 43) || (b =? 45))%N then rest <> [] /\ all_digits rest else all_digits s
  end.
Proof.
  split.
  - intros (sign & ds & -> & Hs & Hne & Hd).
    destruct Hs as [-> | [-> | ->]]; cbn [app].
    + destruct ds as [|b t]; [congruence|].
      destruct (all_digits_head _ _ Hd) as [-> ->]. exact Hd.
    + cbn. split; assumption.
    + cbn. split; assumption.
  - destruct s as [|b rest]; [tauto|].
    destruct (N.eqb_spec b 43) as [->|N43]; cbn [orb].
    { intros [Hne Hd]. exists [43%N], rest. repeat split; auto. }
    destruct (N.eqb_spec b 45) as [->|N45].
    { intros [Hne Hd]. exists [45%N], rest. repeat split; auto. }
    intros Hd. exists [], (b :: rest). repeat split; auto. discriminate.
Qed.

Lemma decimal_unsigned_char s :
  decimal_unsigned s <->
  match s with
  | [] => False
  | b :: rest => if (b =? 43)%N then rest <> [] /\ all_digits rest else all_digits s
  end.
Proof.
  split.
  - intros (sign & ds & -> & Hs & Hne & Hd).
    destruct Hs as [-> | ->]; cbn [app].
    + destruct ds as [|b t]; [congruence|].
      destruct (all_digits_head _ _ Hd) as [-> _]. exact Hd.
    + cbn. split; assumption.
  - destruct s as [|b rest]; [tauto|].
    destruct (N.eqb_spec b 43) as [->|N43].
    { intros [Hne Hd]. exists [43%N], rest. repeat split; auto. }
    intros Hd. exists [], (b :: rest). repeat split; auto. discriminate.
Qed.

Lemma is_nil_spec {A} (l : list A) : is_nil l = true <-> l = [].
Proof. destruct l; cbn; split; congruence. Qed.

(** ---- [str::parse] accepts exactly the decimal language, with the big-integer reading *)
Theorem parse_int_spec signed tmin tmax s v : tmin <= 0 <= tmax ->
  (parse_int signed tmin tmax s = IOk v <->
   decimal signed s /\ intval s = v /\ tmin <= v <= tmax).
Proof.
  intros Hb. unfold decimal.
  destruct s as [|b rest].
  - cbn [parse_int]. split; [discriminate|].
    intros (H & _). destruct signed;
      [apply decimal_signed_char in H | apply decimal_unsigned_char in H]; contradiction.
  - cbn [parse_int intval].
    destruct (N.eqb_spec b 43) as [->|N43].
    { (* '+' *)
      cbn [orb andb]. change (43 =? 45)%N with false.
      destruct (is_nil rest) eqn:En.
      - apply is_nil_spec in En. subst rest. split; [discriminate|].
        intros (H & _). destruct signed;
          [apply decimal_signed_char in H | apply decimal_unsigned_char in H]; cbn in H; tauto.
      - rewrite (acc_pos_spec tmax rest 0 v ltac:(lia)).
        assert (Hne : rest <> []) by (intros ->; discriminate).
        assert (Hp : all_digits rest -> 0 <= fold_left fpos rest 0)
          by (intros Hd; apply (fold_pos_ge rest 0); [lia|assumption]).
        split.
        + intros (Hd & E & Hv). split.
          * destruct signed; [apply decimal_signed_char | apply decimal_unsigned_char]; cbn; auto.
          * rewrite digits_val_fold. specialize (Hp Hd). lia.
        + intros (H & E & Hv).
          assert (Hd : all_digits rest).
          { destruct signed; [apply decimal_signed_char in H | apply decimal_unsigned_char in H];
              cbn in H; tauto. }
          rewrite digits_val_fold in E. repeat split; [assumption|assumption|lia]. }
    destruct (N.eqb_spec b 45) as [->|N45].
    { (* '-' *)
      cbn [orb andb].
      destruct (is_nil rest) eqn:En.
      - apply is_nil_spec in En. subst rest. split; [discriminate|].
        intros (H & _). destruct signed;
          [apply decimal_signed_char in H | apply decimal_unsigned_char in H]; cbn in H.
        + tauto.
        + inversion H as [|? ? Hx _]. discriminate.
      - destruct signed.
        + rewrite (acc_neg_spec tmin rest 0 v ltac:(lia)).
          assert (Hne : rest <> []) by (intros ->; discriminate).
          change 0 with (- 0) at 1. rewrite fold_neg_pos.
          assert (Hp : all_digits rest -> 0 <= fold_left fpos rest 0)
            by (intros Hd; apply (fold_pos_ge rest 0); [lia|assumption]).
          split.
          * intros (Hd & E & Hv). split.
            { apply decimal_signed_char. cbn. auto. }
            rewrite digits_val_fold. specialize (Hp Hd). lia.
          * intros (H & E & Hv).
            assert (Hd : all_digits rest) by (apply decimal_signed_char in H; cbn in H; tauto).
            rewrite digits_val_fold in E. repeat split; [assumption|assumption|lia].
        + (* unsigned: '-' is read as a digit and refused *)
          cbn [acc_pos]. change (digit_of 45) with (@None Z). split; [discriminate|].
          intros (H & _). apply decimal_unsigned_char in H. cbn in H.
          inversion H as [|? ? Hx _]. discriminate. }
    (* no sign *)
    cbn [orb andb].
    rewrite (acc_pos_spec tmax (b :: rest) 0 v ltac:(lia)).
    assert (Hp : all_digits (b :: rest) -> 0 <= fold_left fpos (b :: rest) 0)
      by (intros Hd; apply (fold_pos_ge (b :: rest) 0); [lia|assumption]).
    split.
    + intros (Hd & E & Hv). split.
      * destruct signed; [apply decimal_signed_char | apply decimal_unsigned_char].
        -- destruct (N.eqb_spec b 43); [contradiction|]. destruct (N.eqb_spec b 45); [contradiction|].
           exact Hd.
        -- destruct (N.eqb_spec b 43); [contradiction|]. exact Hd.
      * rewrite digits_val_fold. specialize (Hp Hd). lia.
    + intros (H & E & Hv).
      assert (Hd : all_digits (b :: rest)).
      { destruct signed; [apply decimal_signed_char in H | apply decimal_unsigned_char in H].
        - destruct (N.eqb_spec b 43); [contradiction|]. destruct (N.eqb_spec b 45); [contradiction|].
          exact H.
        - destruct (N.eqb_spec b 43); [contradiction|]. exact H. }
      rewrite digits_val_fold in E. repeat split; [assumption|assumption|lia].
Qed.

Lemma bounds_contains_spec r v : bounds_contains r v = true <-> in_range r v.
Proof.
  unfold bounds_contains, in_range. rewrite andb_true_iff.
  destruct (fst r), (snd r); rewrite ?Z.leb_le, ?Z.ltb_lt; intuition.
Qed.

Lemma try_from_spec tmin tmax v w : try_from tmin tmax v = Some w <-> w = v /\ tmin <= v <= tmax.
Proof.
  unfold try_from.
  destruct (Z.leb_spec tmin v) as [H1|H1], (Z.leb_spec v tmax) as [H2|H2]; cbn [andb]; split; intros H.
  - inversion H; subst. split; [reflexivity|lia].
  - destruct H as [-> _]. reflexivity.
  - discriminate.
  - lia.
  - discriminate.
  - lia.
  - discriminate.
  - lia.
Qed.

(** The general ranged parser: accepted = UTF-8 (implied by the syntax, but checked first),
    decimal, reading inside carrier, declared range and target type; result = the reading. *)
Theorem ranged_d_ok signed cmin cmax r tmin tmax s v : cmin <= 0 <= cmax ->
  (ranged_d signed cmin cmax r tmin tmax s = DOk v <->
   utf8_valid s = true /\ decimal signed s /\ intval s = v /\ cmin <= v <= cmax /\
   in_range r v /\ tmin <= v <= tmax).
Proof.
  intros Hc. unfold ranged_d.
  destruct (utf8_valid s) eqn:U; cbn [negb].
  2:{ split; [discriminate|]. intros (H & _). discriminate. }
  destruct (parse_int signed cmin cmax s) as [z|e] eqn:P.
  - apply (parse_int_spec signed cmin cmax s z Hc) in P. destruct P as (Hd & Hz & Hcz).
    destruct (bounds_contains r z) eqn:B; cbn [negb].
    + apply bounds_contains_spec in B.
      destruct (try_from tmin tmax z) as [w|] eqn:T.
      * apply try_from_spec in T. destruct T as [-> Ht].
        split.
        -- intros H; inversion H; subst v.
           split; [reflexivity|]. split; [assumption|]. split; [assumption|].
           split; [assumption|]. split; assumption.
        -- intros (_ & _ & Hv & _). f_equal. lia.
      * split; [discriminate|]. intros (_ & _ & Hv & _ & _ & Ht). exfalso.
        assert (E : try_from tmin tmax z = Some z) by (apply try_from_spec; split; [reflexivity|lia]).
        congruence.
    + split; [discriminate|]. intros (_ & _ & Hv & _ & Hr & _). exfalso.
      subst v. rewrite Hz in *. apply bounds_contains_spec in Hr. congruence.
  - split; [discriminate|]. intros (_ & Hd & Hv & Hcv & _). exfalso.
    assert (E : parse_int signed cmin cmax s = IOk v) by (apply parse_int_spec; auto).
    congruence.
Qed.

Lemma to_vresult_ok d v : to_vresult d = VOk v <-> d = DOk v.
Proof. destruct d; cbn; split; intros H; inversion H; reflexivity. Qed.

Theorem ranged_i64_spec r tmin tmax s v :
  ranged_i64 r tmin tmax s = VOk v <->
  utf8_valid s = true /\ decimal_signed s /\ intval s = v /\ i64_min <= v <= i64_max /\
  in_range r v /\ tmin <= v <= tmax.
Proof.
  unfold ranged_i64, ranged_i64_d. rewrite to_vresult_ok.
  apply (ranged_d_ok true); unfold i64_min, i64_max; lia.
Qed.

Theorem ranged_u64_spec r tmin tmax s v :
  ranged_u64 r tmin tmax s = VOk v <->
  utf8_valid s = true /\ decimal_unsigned s /\ intval s = v /\ 0 <= v <= u64_max /\
  in_range r v /\ tmin <= v <= tmax.
Proof.
  unfold ranged_u64, ranged_u64_d. rewrite to_vresult_ok.
  apply (ranged_d_ok false); unfold u64_max; lia.
Qed.

(** every rejection is a value error of one of three kinds; only InvalidUtf8 lacks the argument *)
Lemma ranged_reject_kind d k : to_vresult d = VErr k -> k = InvalidUtf8 \/ k = ValueValidation.
Proof.
  destruct d as [z|r]; cbn; [discriminate|]. intros H; inversion H.
  destruct r; cbn; auto.
Qed.

Lemma ranged_utf8_kind signed cmin cmax r tmin tmax s :
  to_vresult (ranged_d signed cmin cmax r tmin tmax s) = VErr InvalidUtf8 <-> utf8_valid s = false.
Proof.
  unfold ranged_d. destruct (utf8_valid s); cbn [negb].
  - split; [|discriminate].
    destruct (parse_int signed cmin cmax s); [|cbn; discriminate].
    destruct (bounds_contains r z); cbn [negb]; [|cbn; discriminate].
    destruct (try_from tmin tmax z); cbn; discriminate.
  - cbn. tauto.
Qed.

(** satisfiability of the hypotheses / sanity of the definitions *)
Example ranged_i64_example :
  ranged_i64 (Included (-1), Excluded 200) (-2147483648) 2147483647 [45; 49]%N = VOk (-1).
Proof. vm_compute. reflexivity. Qed.
Example ranged_i64_minus_zero : ranged_i64 full_range 0 255 [45; 48]%N = VOk 0.
Proof. vm_compute. reflexivity. Qed.
Example ranged_u64_minus_zero : ranged_u64 full_range 0 u64_max [45; 48]%N = VErr ValueValidation.
Proof. vm_compute. reflexivity. Qed.
Example ranged_i64_no_wrap :
  ranged_i64 full_range 0 255 [50; 53; 54]%N = VErr ValueValidation /\
  ranged_i64 full_range i64_min i64_max
    [57;50;50;51;51;55;50;48;51;54;56;53;52;55;55;53;56;48;56]%N = VErr ValueValidation.
Proof. vm_compute. split; reflexivity. Qed.
