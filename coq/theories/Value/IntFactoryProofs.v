(** The integer factories ([value_parser!(u8)] … [value_parser!(i64)]) have exactly their type's
    bounds, and a following [.range(..)] only ever narrows (C04). *)
From Coq Require Import ZArith List Bool Lia.
From ClapModel Require Import Base.Bytes Base.Machine Base.Utf8 Value.ValueBase Value.IntParse
  Value.IntParseProofs Value.IntFactory.
From ClapModel Require Import Gen.IntFactories.
Import ListNotations.
Open Scope Z_scope.

(** u64 goes through [RangedU64ValueParser], every other width through [RangedI64ValueParser]
    (so "-0" is a u8 but not a u64). *)
Definition factory_kind (t : ity) : pkind := match t with U64 => PU64 | _ => PI64 end.
Definition kind_signed (k : pkind) : bool := match k with PI64 => true | PU64 => false end.

Lemma factory_range dbg t k r : factory_parser dbg t = Some (k, r) ->
  k = factory_kind t /\
  (r = full_range /\ (t = U64 \/ t = I64) \/ r = (Included (ity_min t), Included (ity_max t))).
Proof.
  destruct dbg, t; vm_compute; intros H; inversion H; subst; split; try reflexivity;
    try (right; reflexivity); left; split; auto.
Qed.

Lemma factory_total dbg t : exists r, factory_parser dbg t = Some (factory_kind t, r).
Proof. destruct dbg, t; vm_compute; eexists; reflexivity. Qed.

Lemma ranged_parse_ok k r t s v :
  ranged_parse k r t s = VOk v <->
  utf8_valid s = true /\ decimal (kind_signed k) s /\ intval s = v /\
  carrier_min k <= v <= carrier_max k /\ in_range r v /\ ity_min t <= v <= ity_max t.
Proof.
  destruct k.
  - change (ranged_parse PI64 r t s) with (ranged_i64 r (ity_min t) (ity_max t) s).
    apply ranged_i64_spec.
  - change (ranged_parse PU64 r t s) with (ranged_u64 r (ity_min t) (ity_max t) s).
    apply ranged_u64_spec.
Qed.

Lemma ity_in_carrier t v : ity_min t <= v <= ity_max t ->
  carrier_min (factory_kind t) <= v <= carrier_max (factory_kind t).
Proof.
  destruct t; cbn [factory_kind carrier_min carrier_max ity_min ity_max];
    unfold i64_min, i64_max, u64_max; lia.
Qed.

Theorem factories_spec dbg t :
  exists r, factory_parser dbg t = Some (factory_kind t, r) /\
  forall s v, ranged_parse (factory_kind t) r t s = VOk v <->
    utf8_valid s = true /\ decimal (kind_signed (factory_kind t)) s /\ intval s = v /\
    ity_min t <= v <= ity_max t.
Proof.
  destruct (factory_total dbg t) as [r Hr]. exists r. split; [exact Hr|].
  intros s v. rewrite ranged_parse_ok.
  destruct (factory_range _ _ _ _ Hr) as [_ Hrr].
  split.
  - intros (U & D & I & _ & _ & T). auto.
  - intros (U & D & I & T). repeat (split; [assumption|]).
    split; [apply ity_in_carrier; assumption|]. split; [|assumption].
    destruct Hrr as [[-> _] | ->]; unfold in_range, full_range; cbn [fst snd]; [tauto|lia].
Qed.

Lemma range_builder_some dbg cmin cmax self new r' :
  range_builder dbg cmin cmax self new = Some r' ->
  r' = (match fst new with Unbounded => fst self | b => b end,
        match snd new with Unbounded => snd self | b => b end).
Proof.
  unfold range_builder.
  destruct (fst new) as [a|a|], (snd new) as [b|b|];
    repeat match goal with |- context [if ?c then _ else _] => destruct c end;
    intros H; inversion H; reflexivity.
Qed.

(** [value_parser!(T).range(u)]: whenever it can be built, it accepts exactly the decimal
    strings whose reading lies in [u] and in [T] -- a bound left open in [u] falls back to
    [T]'s, never to anything wider. *)
Theorem int_parser_spec dbg t u k r s v :
  int_parser dbg t (Some u) = Some (k, r) ->
  (ranged_parse k r t s = VOk v <->
   utf8_valid s = true /\ decimal (kind_signed (factory_kind t)) s /\ intval s = v /\
   in_range u v /\ ity_min t <= v <= ity_max t).
Proof.
  unfold int_parser.
  destruct (factory_parser dbg t) as [[k0 r0]|] eqn:F; [|discriminate].
  destruct (range_builder dbg (carrier_min k0) (carrier_max k0) r0 u) as [r'|] eqn:B; [|discriminate].
  intros H; inversion H; subst k r; clear H.
  apply range_builder_some in B.
  destruct (factory_range _ _ _ _ F) as [-> Hr0].
  rewrite ranged_parse_ok.
  assert (Hin : ity_min t <= v <= ity_max t -> (in_range r' v <-> in_range u v)).
  { intros T. subst r'. unfold in_range; cbn [fst snd].
    destruct Hr0 as [[-> _] | ->]; unfold full_range; cbn [fst snd];
      destruct (fst u), (snd u); intuition lia. }
  split.
  - intros (U & D & I & _ & R & T). repeat (split; [assumption|]). split; [|assumption].
    apply Hin; assumption.
  - intros (U & D & I & R & T). repeat (split; [assumption|]).
    split; [apply ity_in_carrier; assumption|]. split; [|assumption]. apply Hin; assumption.
Qed.

(** In a build with debug assertions [.range] refuses (panics on) a bound outside [T]. *)
Example range_assert_u8 :
  int_parser true U8 (Some (Included (-1), Unbounded)) = None /\
  int_parser false U8 (Some (Included (-1), Unbounded)) <> None /\
  int_parser true U8 (Some (Unbounded, Excluded 256)) <> None /\
  int_parser true U8 (Some (Unbounded, Excluded 257)) = None.
Proof. vm_compute. repeat split; congruence. Qed.

Example int_parser_example : int_parser true I8 (Some (Excluded 5, Included 10)) = Some (PI64, (Excluded 5, Included 10)).
Proof. vm_compute. reflexivity. Qed.
