(** Models of [PossibleValue::matches] (builder/possible_value.rs), [PossibleValuesParser] and
    [EnumValueParser] (builder/value_parser.rs), and of [crate::util::eq_ignore_case]
    (util/mod.rs): [str::eq_ignore_ascii_case] without the cargo feature `unicode`,
    [unicase::eq] with it. *)
From Coq Require Import ZArith List Bool Lia.
From ClapModel Require Import Base.Bytes Base.Utf8 Value.ValueBase Value.BoolParse.
From ClapModel Require Import Gen.CaseFold.
Import ListNotations.
Open Scope N_scope.

Record possible_value := { pv_name : bytes; pv_aliases : list bytes }.

(** [get_name_and_aliases] *)
Definition name_and_aliases (pv : possible_value) : list bytes := pv_name pv :: pv_aliases pv.

(** [str::eq_ignore_ascii_case]: same length, bytes equal after [to_ascii_lowercase]. *)
Definition eq_ignore_ascii_case (a b : bytes) : bool := beq (map ascii_lower a) (map ascii_lower b).

Definition is_ascii (s : bytes) : bool := forallb (fun b => b <? 128) s.

(** [unicase::unicode::map::lookup]: the full case folding of one scalar. *)
Definition fold_char (c : N) : list N :=
  match assoc_n c fold_table with Some l => l | None => [c] end.

(** [s.chars().flat_map(lookup)] *)
Definition fold_str (s : bytes) : list N := flat_map fold_char (decode s).

(** [unicase::eq]: [UniCase::new] classifies each side as ASCII or not; two ASCII sides are
    compared with [eq_ignore_ascii_case], otherwise the foldings are compared. *)
Definition unicase_eq (a b : bytes) : bool :=
  if is_ascii a && is_ascii b then eq_ignore_ascii_case a b
  else beq (fold_str a) (fold_str b).

(** [eq_ignore_case]; [uni] = cargo feature `unicode`. *)
Definition eq_ignore_case (uni : bool) (a b : bytes) : bool :=
  if uni then unicase_eq a b else eq_ignore_ascii_case a b.

(** [PossibleValue::matches] *)
Definition pv_matches (uni : bool) (pv : possible_value) (value : bytes) (ignore_case : bool) : bool :=
  if ignore_case then existsb (fun name => eq_ignore_case uni name value) (name_and_aliases pv)
  else existsb (fun name => beq name value) (name_and_aliases pv).

(** [PossibleValuesParser::parse]: [into_string] (else [invalid_utf8]); any value matches
    (else [invalid_value]); the result is the typed-in string itself. *)
Definition possible_parse (uni ignore_case : bool) (pvs : list possible_value) (s : bytes) : vresult bytes :=
  if negb (utf8_valid s) then VErr InvalidUtf8
  else if existsb (fun pv => pv_matches uni pv s ignore_case) pvs then VOk s
  else VErr InvalidValue.

Fixpoint find_index {A} (f : A -> bool) (l : list A) (i : nat) : option nat :=
  match l with
  | [] => None
  | x :: r => if f x then Some i else find_index f r (S i)
  end.

(** [EnumValueParser::<E>::parse_ref] over the variants' possible values: [to_str] failure is an
    [invalid_value] here (not [invalid_utf8]); the result is the first matching variant. *)
Definition enum_parse (uni ignore_case : bool) (variants : list possible_value) (s : bytes) : vresult nat :=
  if negb (utf8_valid s) then VErr InvalidValue
  else match find_index (fun pv => pv_matches uni pv s ignore_case) variants 0 with
       | Some i => VOk i
       | None => VErr InvalidValue
       end.
