(** The boolean-like parsers accept exactly their literal sets (C04).  The tables come from
    Gen/BoolTables.v (regenerated from str_to_bool.rs); the facts about them that the proofs
    need are re-established by computation on every build ([tables_ok]). *)
From Coq Require Import ZArith List Bool Lia.
From ClapModel Require Import Base.Bytes Base.Utf8 Value.ValueBase Value.BoolParse.
From ClapModel Require Import Gen.BoolTables.
Import ListNotations.
Open Scope N_scope.

(** ASCII-case-insensitive equality, declaratively *)
Definition ascii_ci_eq (a b : bytes) : Prop := map ascii_lower a = map ascii_lower b.

(** a byte that only an ASCII input byte can produce under [to_lowercase]: ASCII and not 'k'
    (U+212A KELVIN SIGN lowercases to 'k') *)
Definition plain (x : N) : bool := (x <? 128) && negb (x =? 107).
Definition lowerc (x : N) : bool := negb ((65 <=? x) && (x <=? 90)).
Definition clean (l : bytes) : bool := forallb (fun x => plain x && lowerc x) l.

(** what the proofs use about the regenerated tables *)
Definition tables_ok : bool :=
  forallb clean true_literals && forallb clean false_literals &&
  forallb (fun l => negb (contains_str true_literals l)) false_literals &&
  forallb (fun p => existsb (fun x => negb (plain x)) (snd p)) lower_exceptions &&
  contains_str true_literals lit_true && contains_str false_literals lit_false.

Lemma tables_ok_true : tables_ok = true.
Proof. vm_compute. reflexivity. Qed.

Lemma tables_facts :
  (forall l, In l true_literals -> clean l = true) /\
  (forall l, In l false_literals -> clean l = true) /\
  (forall l, In l false_literals -> contains_str true_literals l = false) /\
  (forall c v, In (c, v) lower_exceptions -> exists x, In x v /\ plain x = false).
Proof.
  pose proof tables_ok_true as H. unfold tables_ok in H.
  repeat (apply andb_true_iff in H; destruct H as [H ?]).
  repeat split.
  - apply forallb_forall; assumption.
  - apply forallb_forall; assumption.
  - intros l Hl. match goal with X : forallb (fun l => negb _) false_literals = true |- _ =>
      rewrite forallb_forall in X; specialize (X l Hl); apply negb_true_iff in X; exact X end.
  - intros c v Hin. match goal with X : forallb _ lower_exceptions = true |- _ =>
      rewrite forallb_forall in X; specialize (X (c, v) Hin); cbn [snd] in X;
      apply existsb_exists in X; destruct X as [x [Hx1 Hx2]] end.
    exists x. split; [assumption|]. apply negb_true_iff in Hx2. exact Hx2.
Qed.

Lemma assoc_n_in {A} c (l : list (N * A)) v : assoc_n c l = Some v -> In (c, v) l.
Proof.
  induction l as [|[d a] r IH]; cbn [assoc_n]; [discriminate|].
  destruct (N.eqb_spec c d) as [->|].
  - intros H; inversion H; subst. left; reflexivity.
  - intros H. right. apply IH; assumption.
Qed.

Lemma lower_nonascii_bad c raw : (exists x, In x raw /\ 128 <= x) ->
  exists x, In x (lower_nonascii c raw) /\ plain x = false.
Proof.
  intros [x [Hx Hge]]. unfold lower_nonascii.
  destruct (assoc_n c lower_exceptions) as [l|] eqn:E.
  - apply assoc_n_in in E. destruct tables_facts as (_ & _ & _ & F). apply (F c l E).
  - exists x. split; [assumption|]. unfold plain.
    destruct (N.ltb_spec x 128); [lia|reflexivity].
Qed.

Lemma ascii_lower_lt b : ascii_lower b < 128 -> b < 128.
Proof.
  unfold ascii_lower. destruct ((65 <=? b) && (b <=? 90)) eqn:E; [|tauto].
  apply andb_true_iff in E. destruct E as [_ E]. apply N.leb_le in E. lia.
Qed.

(** [to_lowercase] yields a "plain" string only from an ASCII string, and then it is the
    bytewise ASCII lowering *)
Lemma lower_plain f : forall s l, (length s <= f)%nat -> forallb plain l = true ->
  (lower_fuel f s = l <-> forallb (fun b => b <? 128) s = true /\ map ascii_lower s = l).
Proof.
  induction f as [|f IH]; intros s l Hlen Hp.
  - destruct s; [|cbn in Hlen; lia]. cbn. split; [intros <-; auto|intros [_ <-]; reflexivity].
  - destruct s as [|b0 t]; cbn [lower_fuel].
    { cbn. split; [intros <-; auto|intros [_ <-]; reflexivity]. }
    cbn [length] in Hlen. cbn [forallb map].
    destruct (N.ltb_spec b0 128) as [Hb|Hb]; cbn [andb].
    + destruct l as [|x l'].
      { split; [discriminate|intros [_ H]; discriminate]. }
      cbn [forallb] in Hp. apply andb_true_iff in Hp. destruct Hp as [_ Hp'].
      specialize (IH t l' ltac:(lia) Hp').
      split.
      * intros H. inversion H; subst. destruct IH as [IH _]. specialize (IH eq_refl).
        destruct IH as [I1 I2]. split; [assumption|]. rewrite I2. reflexivity.
      * intros [H1 H2]. inversion H2; subst. f_equal. apply IH. split; [assumption|reflexivity].
    + split; [|intros [H _]; discriminate].
      intros H. exfalso.
      assert (Hbad : exists x, In x l /\ plain x = false).
      { destruct (utf8_step (b0 :: t)) as [[c n]|] eqn:U.
        - pose proof (utf8_step_len _ _ _ U) as [Hn _].
          destruct (lower_nonascii_bad c (firstn n (b0 :: t))) as [x [Hx1 Hx2]].
          { exists b0. split; [|assumption]. destruct n; [lia|]. left; reflexivity. }
          exists x. split; [|assumption]. rewrite <- H. apply in_or_app. left; assumption.
        - exists b0. split; [rewrite <- H; left; reflexivity|].
          unfold plain. destruct (N.ltb_spec b0 128); [lia|reflexivity]. }
      destruct Hbad as [x [Hx1 Hx2]]. rewrite forallb_forall in Hp. rewrite (Hp x Hx1) in Hx2.
      discriminate.
Qed.

Lemma clean_plain l : clean l = true -> forallb plain l = true.
Proof.
  unfold clean. rewrite !forallb_forall. intros H x Hx. specialize (H x Hx).
  apply andb_true_iff in H. tauto.
Qed.

Lemma clean_lower l : clean l = true -> map ascii_lower l = l.
Proof.
  induction l as [|x r IH]; cbn [clean forallb map]; [reflexivity|].
  intros H. apply andb_true_iff in H. destruct H as [H1 H2].
  apply andb_true_iff in H1. destruct H1 as [_ H1]. unfold lowerc in H1.
  apply negb_true_iff in H1. unfold ascii_lower. rewrite H1. f_equal. apply IH. exact H2.
Qed.

Theorem to_lowercase_clean s l : clean l = true ->
  (to_lowercase s = l <-> ascii_ci_eq s l).
Proof.
  intros Hc. unfold to_lowercase, ascii_ci_eq. rewrite (clean_lower l Hc).
  rewrite (lower_plain (length s) s l (le_n _) (clean_plain l Hc)).
  split; [tauto|]. intros H. split; [|assumption].
  apply forallb_forall. intros b Hb. apply N.ltb_lt. apply ascii_lower_lt.
  pose proof (clean_plain l Hc) as Hp. rewrite forallb_forall in Hp.
  assert (Hin : In (ascii_lower b) l) by (rewrite <- H; apply in_map; assumption).
  specialize (Hp _ Hin). unfold plain in Hp. apply andb_true_iff in Hp. destruct Hp as [Hp _].
  apply N.ltb_lt in Hp. exact Hp.
Qed.

Lemma contains_str_spec l s : contains_str l s = true <-> In s l.
Proof.
  unfold contains_str. rewrite existsb_exists. split.
  - intros [x [Hx E]]. apply beq_eq in E. subst. assumption.
  - intros H. exists s. split; [assumption|apply beq_refl].
Qed.

Definition literals (b : bool) : list bytes := if b then true_literals else false_literals.

(** [str_to_bool]: exactly the literals, ASCII-case-insensitively *)
Theorem str_to_bool_spec s b :
  str_to_bool s = Some b <-> exists l, In l (literals b) /\ ascii_ci_eq s l.
Proof.
  destruct tables_facts as (FT & FF & FD & _).
  unfold str_to_bool. cbv zeta.
  destruct (contains_str true_literals (to_lowercase s)) eqn:CT.
  - apply contains_str_spec in CT.
    pose proof (proj1 (to_lowercase_clean s _ (FT _ CT)) eq_refl) as Hci.
    split.
    + intros H; inversion H; subst. exists (to_lowercase s). split; assumption.
    + intros [l [Hl Hc]]. destruct b; [reflexivity|]. exfalso. cbn [literals] in Hl.
      apply (to_lowercase_clean s l (FF l Hl)) in Hc. rewrite Hc in CT.
      apply contains_str_spec in CT. rewrite (FD l Hl) in CT. discriminate.
  - destruct (contains_str false_literals (to_lowercase s)) eqn:CF.
    + apply contains_str_spec in CF.
      pose proof (proj1 (to_lowercase_clean s _ (FF _ CF)) eq_refl) as Hci.
      split.
      * intros H; inversion H; subst. exists (to_lowercase s). split; assumption.
      * intros [l [Hl Hc]]. destruct b; [|reflexivity]. exfalso. cbn [literals] in Hl.
        apply (to_lowercase_clean s l (FT l Hl)) in Hc. rewrite Hc in CT.
        apply contains_str_spec in Hl. congruence.
    + split; [discriminate|]. intros [l [Hl Hc]]. exfalso.
      destruct b; cbn [literals] in Hl.
      * apply (to_lowercase_clean s l (FT l Hl)) in Hc. rewrite Hc in CT.
        apply contains_str_spec in Hl. congruence.
      * apply (to_lowercase_clean s l (FF l Hl)) in Hc. rewrite Hc in CF.
        apply contains_str_spec in Hl. congruence.
Qed.

(** ---- the parsers *)
Theorem bool_parse_spec s b :
  bool_parse s = VOk b <-> s = (if b then lit_true else lit_false).
Proof.
  unfold bool_parse.
  destruct (beq s lit_true) eqn:E1.
  - apply beq_eq in E1. subst. split.
    + intros H; inversion H; reflexivity.
    + destruct b; [reflexivity|]. vm_compute. discriminate.
  - apply beq_neq in E1. destruct (beq s lit_false) eqn:E2.
    + apply beq_eq in E2. subst. split.
      * intros H; inversion H; reflexivity.
      * destruct b; [|reflexivity]. vm_compute. discriminate.
    + apply beq_neq in E2. split; [discriminate|]. destruct b; congruence.
Qed.

Theorem bool_parse_reject s k : bool_parse s = VErr k -> k = InvalidValue.
Proof.
  unfold bool_parse. destruct (beq s lit_true); [discriminate|].
  destruct (beq s lit_false); [discriminate|]. intros H; inversion H; reflexivity.
Qed.

Theorem boolish_parse_spec s b :
  boolish_parse s = VOk b <->
  utf8_valid s = true /\ exists l, In l (literals b) /\ ascii_ci_eq s l.
Proof.
  unfold boolish_parse. destruct (utf8_valid s); cbn [negb].
  - rewrite <- str_to_bool_spec. destruct (str_to_bool s) as [b'|].
    + split; [intros H; inversion H; auto|intros [_ H]; inversion H; reflexivity].
    + split; [discriminate|intros [_ H]; discriminate].
  - split; [discriminate|intros [H _]; discriminate].
Qed.

Theorem boolish_parse_reject s k : boolish_parse s = VErr k ->
  (k = InvalidUtf8 /\ utf8_valid s = false) \/ (k = ValueValidation /\ utf8_valid s = true).
Proof.
  unfold boolish_parse. destruct (utf8_valid s); cbn [negb].
  - destruct (str_to_bool s); [discriminate|]. intros H; inversion H. right; auto.
  - intros H; inversion H. left; auto.
Qed.

(** Falsey: on well-formed UTF-8 it always answers; the answer is [false] exactly for the
    empty string and the false literals *)
Theorem falsey_parse_spec s b :
  falsey_parse s = VOk b <->
  utf8_valid s = true /\
  (b = false <-> s = [] \/ exists l, In l false_literals /\ ascii_ci_eq s l).
Proof.
  unfold falsey_parse. destruct (utf8_valid s); cbn [negb].
  2:{ split; [discriminate|intros [H _]; discriminate]. }
  destruct s as [|c t]; cbn [is_nil_b].
  - split.
    + intros H; inversion H. split; [reflexivity|]. split; auto.
    + intros [_ [_ H]]. rewrite H; auto.
  - pose proof (str_to_bool_spec (c :: t) false) as SF. cbn [literals] in SF.
    destruct (str_to_bool (c :: t)) as [b'|] eqn:E.
    + split.
      * intros H; inversion H; subst b'. split; [reflexivity|]. split.
        -- intros ->. right. apply SF. reflexivity.
        -- intros [H0|H0]; [discriminate|]. apply SF in H0. congruence.
      * intros [_ [H1 H2]]. f_equal. destruct b', b; try reflexivity.
        -- assert (X : false = false) by reflexivity. apply H1 in X.
           destruct X as [X|X]; [discriminate|]. apply SF in X. discriminate.
        -- assert (X : Some false = Some false) by reflexivity. apply SF in X.
           assert (Y : true = false) by (apply H2; right; exact X). discriminate.
    + split.
      * intros H; inversion H; subst b. split; [reflexivity|]. split; [discriminate|].
        intros [H0|H0]; [discriminate|]. apply SF in H0. discriminate.
      * intros [_ [H1 H2]]. f_equal. destruct b; [reflexivity|].
        assert (X : false = false) by reflexivity. apply H1 in X.
        destruct X as [X|X]; [discriminate|]. apply SF in X. discriminate.
Qed.

Theorem falsey_parse_reject s k : falsey_parse s = VErr k -> k = InvalidUtf8 /\ utf8_valid s = false.
Proof.
  unfold falsey_parse. destruct (utf8_valid s); cbn [negb].
  - destruct (is_nil_b s); [discriminate|]. destruct (str_to_bool s); discriminate.
  - intros H; inversion H; auto.
Qed.

Theorem nonempty_parse_spec s s' :
  nonempty_parse s = VOk s' <-> s <> [] /\ utf8_valid s = true /\ s' = s.
Proof.
  unfold nonempty_parse. destruct s as [|c t]; cbn [is_nil_b].
  - split; [discriminate|intros [H _]; congruence].
  - destruct (utf8_valid (c :: t)); cbn [negb].
    + split; [intros H; inversion H; repeat split; congruence|intros (_ & _ & ->); reflexivity].
    + split; [discriminate|intros (_ & H & _); discriminate].
Qed.

Theorem nonempty_parse_reject s k : nonempty_parse s = VErr k ->
  (k = InvalidValue /\ s = []) \/ (k = InvalidUtf8 /\ utf8_valid s = false).
Proof.
  unfold nonempty_parse. destruct s as [|c t]; cbn [is_nil_b].
  - intros H; inversion H; auto.
  - destruct (utf8_valid (c :: t)); cbn [negb]; [discriminate|]. intros H; inversion H; auto.
Qed.

Theorem string_parse_spec s s' : string_parse s = VOk s' <-> utf8_valid s = true /\ s' = s.
Proof.
  unfold string_parse. destruct (utf8_valid s); cbn [negb].
  - split; [intros H; inversion H; auto|intros [_ ->]; reflexivity].
  - split; [discriminate|intros [H _]; discriminate].
Qed.

(** the traps: KELVIN SIGN, LATIN SMALL LETTER LONG S, dotted capital I *)
Example boolish_examples :
  boolish_parse [89; 69; 83] = VOk true /\                      (* "YES" *)
  boolish_parse [121; 101; 197; 191] = VErr ValueValidation /\  (* "yeſ" *)
  boolish_parse [226; 132; 170] = VErr ValueValidation /\       (* U+212A *)
  boolish_parse [255] = VErr InvalidUtf8 /\
  falsey_parse [] = VOk false /\ falsey_parse [78; 79] = VOk false /\ falsey_parse [120] = VOk true.
Proof. vm_compute. repeat split; reflexivity. Qed.
