(** Model of the ranged integer value parsers (clap_builder/src/builder/value_parser.rs):
    [RangedI64ValueParser<T>::{range, parse_ref}], [RangedU64ValueParser<T>::{range, parse_ref}],
    on top of a model of [str::parse::<i64>()] / [<u64>()] as specified by std
    ([core::num::from_str_radix] with radix 10): optional single sign ('+', and '-' only for a
    signed type), at least one ASCII digit, digit-by-digit accumulation with checked
    multiplication and addition (subtraction for negative numbers), overflow = error. *)
From Coq Require Import ZArith List Bool Lia.
From ClapModel Require Import Base.Bytes Base.Machine Base.Utf8 Value.ValueBase.
Import ListNotations.
Open Scope Z_scope.

(** [core::num::IntErrorKind] (the variants reachable with radix 10). *)
Inductive int_err := IEmpty | IInvalidDigit | IPosOverflow | INegOverflow.
Inductive iresult := IOk (z : Z) | IErr (e : int_err).

Definition is_digit (b : N) : bool := ((48 <=? b) && (b <=? 57))%N.
Definition digit_of (b : N) : option Z := if is_digit b then Some (Z.of_N b - 48) else None.

(** positive branch: [result = result.checked_mul(10)?.checked_add(digit)?]; the digit is
    examined before the product is unwrapped, as in core. *)
Fixpoint acc_pos (tmax acc : Z) (ds : bytes) : iresult :=
  match ds with
  | [] => IOk acc
  | b :: t =>
    match digit_of b with
    | None => IErr IInvalidDigit
    | Some d =>
      let m := acc * 10 in
      if tmax <? m then IErr IPosOverflow
      else let a := m + d in
           if tmax <? a then IErr IPosOverflow else acc_pos tmax a t
    end
  end.

(** negative branch: [result = result.checked_mul(10)?.checked_sub(digit)?]. *)
Fixpoint acc_neg (tmin acc : Z) (ds : bytes) : iresult :=
  match ds with
  | [] => IOk acc
  | b :: t =>
    match digit_of b with
    | None => IErr IInvalidDigit
    | Some d =>
      let m := acc * 10 in
      if m <? tmin then IErr INegOverflow
      else let a := m - d in
           if a <? tmin then IErr INegOverflow else acc_neg tmin a t
    end
  end.

Definition is_nil {A} (l : list A) : bool := match l with [] => true | _ => false end.

(** [from_str_radix(src, 10)] for an integer type with bounds [tmin..tmax]; [signed] =
    [is_signed_ty].  For an unsigned type a leading '-' is left among the digits and is
    rejected there as an invalid digit. *)
Definition parse_int (signed : bool) (tmin tmax : Z) (s : bytes) : iresult :=
  match s with
  | [] => IErr IEmpty
  | b :: rest =>
    if ((b =? 43) || (b =? 45))%N && is_nil rest then IErr IInvalidDigit
    else if (b =? 43)%N then acc_pos tmax 0 rest
    else if (b =? 45)%N && signed then acc_neg tmin 0 rest
    else acc_pos tmax 0 s
  end.

Definition u64_max : Z := 18446744073709551615.
Definition parse_i64 (s : bytes) : iresult := parse_int true i64_min i64_max s.
Definition parse_u64 (s : bytes) : iresult := parse_int false 0 u64_max s.

(** [RangeBounds::contains] on a [(Bound, Bound)] pair. *)
Definition bounds_contains (r : range) (v : Z) : bool :=
  (match fst r with Included a => a <=? v | Excluded a => a <? v | Unbounded => true end) &&
  (match snd r with Included b => v <=? b | Excluded b => v <? b | Unbounded => true end).

(** [T::try_from(value)]: checked narrowing to a type with bounds [tmin..tmax]. *)
Definition try_from (tmin tmax v : Z) : option Z :=
  if (tmin <=? v) && (v <=? tmax) then Some v else None.

(** Why a ranged parser rejected (finer than the error kind; compared with the
    implementation through the error's source / message). *)
Inductive int_reject := RUtf8 | RParse (e : int_err) | RRange | RNarrow.
Inductive dresult := DOk (z : Z) | DErr (r : int_reject).

(** [Ranged{I64,U64}ValueParser::<T>::parse_ref]: [to_str] (else [invalid_utf8]), [parse]
    (else [value_validation]), [bounds.contains] (else [value_validation]), [try_into]
    (else [value_validation]). *)
Definition ranged_d (signed : bool) (cmin cmax : Z) (r : range) (tmin tmax : Z) (s : bytes) : dresult :=
  if negb (utf8_valid s) then DErr RUtf8
  else match parse_int signed cmin cmax s with
       | IErr e => DErr (RParse e)
       | IOk v =>
         if negb (bounds_contains r v) then DErr RRange
         else match try_from tmin tmax v with
              | None => DErr RNarrow
              | Some w => DOk w
              end
       end.

Definition reject_kind (r : int_reject) : err_kind :=
  match r with RUtf8 => InvalidUtf8 | _ => ValueValidation end.

Definition to_vresult (d : dresult) : vresult Z :=
  match d with DOk z => VOk z | DErr r => VErr (reject_kind r) end.

Definition ranged_i64_d := ranged_d true i64_min i64_max.
Definition ranged_u64_d := ranged_d false 0 u64_max.
Definition ranged_i64 (r : range) (tmin tmax : Z) (s : bytes) : vresult Z :=
  to_vresult (ranged_i64_d r tmin tmax s).
Definition ranged_u64 (r : range) (tmin tmax : Z) (s : bytes) : vresult Z :=
  to_vresult (ranged_u64_d r tmin tmax s).

(** [.range(new)]: each given bound replaces the stored one, an unbounded side keeps it.  In
    builds with debug assertions ([dbg]) the new bound must lie within the current bounds
    ([Excluded i] is tested at [i.saturating_add(1)] resp. [i.saturating_sub(1)]); [None] is the
    failed [debug_assert!] (a panic while the command is being defined, not while parsing). *)
Definition range_builder (dbg : bool) (cmin cmax : Z) (self new : range) : option range :=
  let ok v := negb dbg || bounds_contains self v in
  let start :=
    match fst new with
    | Included i => if ok i then Some (Included i) else None
    | Excluded i => if ok (Z.min (i + 1) cmax) then Some (Excluded i) else None
    | Unbounded => Some (fst self)
    end in
  let end_ :=
    match snd new with
    | Included i => if ok i then Some (Included i) else None
    | Excluded i => if ok (Z.max (i - 1) cmin) then Some (Excluded i) else None
    | Unbounded => Some (snd self)
    end in
  match start, end_ with
  | Some a, Some b => Some (a, b)
  | _, _ => None
  end.

Definition full_range : range := (Unbounded, Unbounded).
