(** Model of the typed store behind [ArgMatches] (parser/matches/arg_matches.rs,
    parser/matches/matched_arg.rs, util/flat_map.rs, util/any_value.rs):
    [args : FlatMap<Id, MatchedArg>] in insertion order, [valid_args], and the typed accessors
    [try_get_one], [try_get_many], [try_remove_one], [try_remove_many].

    A type ([AnyValueId] = [TypeId]) is a number; a typed value is its tag together with a
    canonical rendering; every [expect(INTERNAL_ERROR_MSG)] is a visible [OPanic]. *)
From Coq Require Import ZArith List Bool Lia.
From ClapModel Require Import Base.Bytes.
Import ListNotations.
Open Scope N_scope.

Definition id := bytes.
Definition tag := N.
Definition any_value := (tag * bytes)%type.        (* AnyValue { id, inner } *)

(** [MatchedArg] (the fields the accessors read) *)
Record entry := {
  e_type : option tag;                 (* type_id: Some(parser type) for args, None for groups *)
  e_vals : list (list any_value);      (* vals: one group per occurrence *)
  e_raw : list (list bytes)            (* raw_vals *)
}.

Record store := {
  valid_args : list id;                (* ids of the command's args and groups *)
  args : list (id * entry)             (* FlatMap: keys/values in insertion order *)
}.

(** [MatchesError] *)
Inductive merr := Downcast (actual expected : tag) | UnknownArgument.

(** ---- FlatMap *)
Fixpoint fm_get (m : list (id * entry)) (k : id) : option entry :=
  match m with
  | [] => None
  | (k', v) :: r => if beq k' k then Some v else fm_get r k
  end.

(** [remove_entry]: the first index whose key matches is removed from both vectors. *)
Fixpoint fm_remove_entry (m : list (id * entry)) (k : id) : option ((id * entry) * list (id * entry)) :=
  match m with
  | [] => None
  | (k', v) :: r =>
    if beq k' k then Some ((k', v), r)
    else match fm_remove_entry r k with
         | Some (kv, r') => Some (kv, (k', v) :: r')
         | None => None
         end
  end.

(** [insert]: overwrite in place when the key exists, push at the end otherwise. *)
Fixpoint fm_insert (m : list (id * entry)) (k : id) (v : entry) : list (id * entry) :=
  match m with
  | [] => [(k, v)]
  | (k', v') :: r => if beq k' k then (k', v) :: r else (k', v') :: fm_insert r k v
  end.

(** ---- MatchedArg *)
Definition vals_flatten (e : entry) : list any_value := concat (e_vals e).

(** [infer_type_id] *)
Definition infer_type_id (e : entry) (expected : tag) : tag :=
  match e_type e with
  | Some t => t
  | None =>
    match find (fun v => negb (fst v =? expected)) (vals_flatten e) with
    | Some v => fst v
    | None => expected
    end
  end.

(** ---- ArgMatches *)

(** [verify_arg]: only with debug assertions; [Id::EXTERNAL] is the empty string. *)
Definition verify_arg (dbg : bool) (st : store) (a : id) : option merr :=
  if dbg then
    if beq a [] || existsb (fun s => beq s a) (valid_args st) then None
    else Some UnknownArgument
  else None.

Inductive res (A : Type) := ROk (a : A) | RErr (e : merr).
Arguments ROk {A} a.
Arguments RErr {A} e.

(** [try_get_arg_t] *)
Definition try_get_arg_t (dbg : bool) (st : store) (a : id) (T : tag) : res (option entry) :=
  match verify_arg dbg st a with
  | Some e => RErr e
  | None =>
    match fm_get (args st) a with
    | None => ROk None
    | Some arg =>
      let actual := infer_type_id arg T in
      if T =? actual then ROk (Some arg) else RErr (Downcast actual T)
    end
  end.

(** [try_remove_arg_t]: the entry is taken out first and put back (at the END of the map)
    when its type is not the requested one. *)
Definition try_remove_arg_t (dbg : bool) (st : store) (a : id) (T : tag) : res (option entry) * store :=
  match verify_arg dbg st a with
  | Some e => (RErr e, st)
  | None =>
    match fm_remove_entry (args st) a with
    | None => (ROk None, st)
    | Some ((k, matched), rest) =>
      let actual := infer_type_id matched T in
      if actual =? T then (ROk (Some matched), {| valid_args := valid_args st; args := rest |})
      else (RErr (Downcast actual T),
            {| valid_args := valid_args st; args := fm_insert rest k matched |})
    end
  end.

Inductive out :=
  | OErr (e : merr)
  | ONone
  | OOne (v : bytes)
  | OMany (vs : list bytes)
  | OIds (l : list id)
  | OPanic.

(** [downcast_ref::<T>().expect(..)] / [unwrap_downcast_*] on one value *)
Definition downcast (T : tag) (v : any_value) : option bytes :=
  if fst v =? T then Some (snd v) else None.

Fixpoint downcast_all (T : tag) (l : list any_value) : option (list bytes) :=
  match l with
  | [] => Some []
  | v :: r =>
    match downcast T v, downcast_all T r with
    | Some x, Some xs => Some (x :: xs)
    | _, _ => None
    end
  end.

(** first value ([MatchedArg::first] / [into_vals_flatten().next()]), downcast *)
Definition out_first (T : tag) (e : entry) : out :=
  match vals_flatten e with
  | [] => ONone
  | v :: _ => match downcast T v with Some x => OOne x | None => OPanic end
  end.

(** all values in order (the lazy iterator of [try_get_many]/[try_remove_many] driven to the end) *)
Definition out_all (T : tag) (e : entry) : out :=
  match downcast_all T (vals_flatten e) with
  | Some xs => OMany xs
  | None => OPanic
  end.

Inductive op :=
  | GetOne (a : id) (T : tag)
  | GetMany (a : id) (T : tag)
  | RemoveOne (a : id) (T : tag)
  | RemoveMany (a : id) (T : tag)
  | Ids.

Definition step (dbg : bool) (st : store) (o : op) : out * store :=
  match o with
  | GetOne a T =>
    (match try_get_arg_t dbg st a T with
     | RErr e => OErr e
     | ROk None => ONone
     | ROk (Some e) => out_first T e
     end, st)
  | GetMany a T =>
    (match try_get_arg_t dbg st a T with
     | RErr e => OErr e
     | ROk None => ONone
     | ROk (Some e) => out_all T e
     end, st)
  | RemoveOne a T =>
    match try_remove_arg_t dbg st a T with
    | (RErr e, st') => (OErr e, st')
    | (ROk None, st') => (ONone, st')
    | (ROk (Some e), st') => (out_first T e, st')
    end
  | RemoveMany a T =>
    match try_remove_arg_t dbg st a T with
    | (RErr e, st') => (OErr e, st')
    | (ROk None, st') => (ONone, st')
    | (ROk (Some e), st') => (out_all T e, st')
    end
  | Ids => (OIds (map fst (args st)), st)
  end.

Fixpoint run (dbg : bool) (st : store) (ops : list op) : list out * store :=
  match ops with
  | [] => ([], st)
  | o :: r =>
    let '(x, st') := step dbg st o in
    let '(xs, st'') := run dbg st' r in
    (x :: xs, st'')
  end.

(** Building the store the way the parser does for one argument after the other:
    [entry(id).or_insert(MatchedArg::new_arg(arg))], then one value group per occurrence. *)
Definition mk_entry (T : tag) (vals : list (bytes * bytes)) : entry :=
  {| e_type := Some T;
     e_vals := map (fun v => [(T, fst v)]) vals;
     e_raw := map (fun v => [snd v]) vals |}.
