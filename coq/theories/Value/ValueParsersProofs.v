(** Rejections of the built-in value parsers (C04): always one of the three value-error
    kinds; [InvalidUtf8] exactly for ill-formed input of the UTF-8-requiring parsers -- and
    that kind alone does not name the argument. *)
From Coq Require Import ZArith List Bool Lia.
From ClapModel Require Import Base.Bytes Base.Machine Base.Utf8 Value.ValueBase Value.IntParse Value.IntParseProofs
  Value.IntFactory Value.BoolParse Value.BoolParseProofs Value.PossibleValues Value.PossibleValuesProofs
  Value.ValueParsers.
Import ListNotations.

Lemma vmap_err {A B} (f : A -> B) r k : vmap f r = VErr k <-> r = VErr k.
Proof. destruct r; cbn; split; intros H; inversion H; reflexivity. Qed.

Lemma ranged_parse_reject k r t s e : ranged_parse k r t s = VErr e ->
  (e = InvalidUtf8 /\ utf8_valid s = false) \/ (e = ValueValidation /\ utf8_valid s = true).
Proof.
  intros H.
  assert (G : exists signed cmin cmax, ranged_parse k r t s =
            to_vresult (ranged_d signed cmin cmax r (ity_min t) (ity_max t) s)).
  { destruct k; [exists true, i64_min, i64_max|exists false, 0%Z, u64_max]; reflexivity. }
  destruct G as (sg & cmin & cmax & G). rewrite G in H.
  pose proof (ranged_utf8_kind sg cmin cmax r (ity_min t) (ity_max t) s) as U.
  destruct (ranged_reject_kind _ _ H) as [->| ->].
  - left. split; [reflexivity|]. apply U. exact H.
  - right. split; [reflexivity|]. destruct (utf8_valid s); [reflexivity|].
    assert (X : to_vresult (ranged_d sg cmin cmax r (ity_min t) (ity_max t) s) = VErr InvalidUtf8)
      by (apply U; reflexivity).
    congruence.
Qed.

Theorem reject_kind p s k : vparse p s = VErr k ->
  (k = InvalidUtf8 /\ utf8_valid s = false /\ reports_utf8 p = true) \/
  (k = refusal_kind p /\ kind_names_arg k = true).
Proof.
  destruct p; cbn [vparse refusal_kind reports_utf8]; rewrite vmap_err; intros H.
  - apply ranged_parse_reject in H. destruct H as [[-> U]|[-> U]]; [left|right]; auto.
  - apply bool_parse_reject in H. subst. right; auto.
  - apply boolish_parse_reject in H. destruct H as [[-> U]|[-> U]]; [left|right]; auto.
  - apply falsey_parse_reject in H. destruct H as [-> U]. left; auto.
  - apply nonempty_parse_reject in H. destruct H as [[-> U]|[-> U]]; [right|left]; auto.
  - unfold string_parse in H. destruct (utf8_valid s) eqn:U; cbn [negb] in H; [discriminate|].
    inversion H. left; auto.
  - apply possible_parse_reject in H. destruct H as [[-> U]|[-> U]]; [left|right]; auto.
  - apply enum_parse_reject in H. subst. right; auto.
Qed.

(** the full reading "every rejection names the argument" is false: InvalidUtf8 does not *)
Theorem reject_names_arg_refuted :
  exists p s k, vparse p s = VErr k /\ kind_names_arg k = false.
Proof.
  exists (VPRanged PI64 full_range U8), [255%N], InvalidUtf8. vm_compute. split; reflexivity.
Qed.

(** ... and true for every well-formed candidate *)
Theorem reject_names_arg_utf8 p s k :
  vparse p s = VErr k -> utf8_valid s = true -> kind_names_arg k = true.
Proof.
  intros H U. apply reject_kind in H. destruct H as [(_ & U' & _)|[_ H]]; [congruence|assumption].
Qed.
