(** Shared vocabulary of the value-parser models (property C04): result type, error kinds,
    range bounds, the integer target types with their std bounds, and the shape of the
    factory table regenerated from the source (Gen/IntFactories.v). *)
From Coq Require Import ZArith List Bool.
From ClapModel Require Import Base.Bytes.
Import ListNotations.
Open Scope Z_scope.

(** [clap::error::ErrorKind]s a value parser can produce. *)
Inductive err_kind := InvalidUtf8 | ValueValidation | InvalidValue.

Inductive vresult (A : Type) :=
  | VOk (a : A)
  | VErr (k : err_kind).
Arguments VOk {A} a.
Arguments VErr {A} k.

(** Does an error of this kind carry [ContextKind::InvalidArg]?  ([Error::invalid_utf8] takes
    no argument; [value_validation] and [invalid_value] do.) *)
Definition kind_names_arg (k : err_kind) : bool :=
  match k with InvalidUtf8 => false | _ => true end.

(** [std::ops::Bound<i64>] / [Bound<u64>] *)
Inductive bound := Included (z : Z) | Excluded (z : Z) | Unbounded.
Definition range := (bound * bound)%type.

(** Integer target types [T] of [RangedI64ValueParser<T>] / [RangedU64ValueParser<T>]. *)
Inductive ity := U8 | I8 | U16 | I16 | U32 | I32 | U64 | I64.

(** [T::MIN], [T::MAX]: std constants. *)
Definition ity_min (t : ity) : Z :=
  match t with
  | U8 | U16 | U32 | U64 => 0
  | I8 => -128 | I16 => -32768 | I32 => -2147483648 | I64 => -9223372036854775808
  end.
Definition ity_max (t : ity) : Z :=
  match t with
  | U8 => 255 | U16 => 65535 | U32 => 4294967295 | U64 => 18446744073709551615
  | I8 => 127 | I16 => 32767 | I32 => 2147483647 | I64 => 9223372036854775807
  end.

Definition ity_eqb (a b : ity) : bool :=
  match a, b with
  | U8, U8 | I8, I8 | U16, U16 | I16, I16 | U32, U32 | I32, I32 | U64, U64 | I64, I64 => true
  | _, _ => false
  end.

(** Which ranged parser a factory builds, and from which range expression. *)
Inductive pkind := PI64 | PU64.
Inductive fbound := FMin (t : ity) | FMax (t : ity) | FLit (z : Z).
Inductive frange := FFull | FIncl (lo hi : fbound).

Definition fbound_val (b : fbound) : Z :=
  match b with FMin t => ity_min t | FMax t => ity_max t | FLit z => z end.
