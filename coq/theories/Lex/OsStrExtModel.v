(** Model of [clap_lex::OsStrExt] (clap_lex/src/ext.rs), one function per Rust
    function, same branch structure.  Indices are [nat] (they index the list);
    the only arithmetic that can leave the range is the [checked_sub] in [find],
    modelled by the explicit length test. *)
From ClapModel Require Import Base.Bytes.
Open Scope N_scope.

(** [find]: [(0..=len.checked_sub(nlen)?).find(|&x| bytes[x..].starts_with(needle))].
    [find_aux h n cnt x]: try [cnt] candidate positions starting at [x], [h] being
    the haystack from [x] on. *)
Fixpoint find_aux (h n : bytes) (cnt x : nat) : option nat :=
  match cnt with
  | O => None
  | S c => if starts_with h n then Some x else find_aux (tl h) n c (S x)
  end.

Definition find (h n : bytes) : option nat :=
  if (length h <? length n)%nat then None
  else find_aux h n (length h - length n + 1) 0.

Definition contains (h n : bytes) : bool :=
  match find h n with Some _ => true | None => false end.

Definition strip_prefix (h p : bytes) : option bytes :=
  if starts_with h p then Some (skipn (length p) h) else None.

Definition split_once (h n : bytes) : option (bytes * bytes) :=
  match find h n with
  | None => None
  | Some start => Some (firstn start h, skipn (start + length n) h)
  end.

(** [Split::next] iterated to exhaustion.  The Rust iterator has no fuel; the
    model is given [fuel] and returns [None] when it runs out ([split_total]
    shows that [length h + 1] always suffices for a non-empty needle).
    [OsStrExt::split] asserts the needle is non-empty: [split] returns [None]
    (= panic) for the empty needle, as documented. *)
Fixpoint split_fuel (fuel : nat) (h n : bytes) : option (list bytes) :=
  match fuel with
  | O => None
  | S f =>
    match split_once h n with
    | Some (first, second) =>
        match split_fuel f second n with
        | Some rest => Some (first :: rest)
        | None => None
        end
    | None => Some [h]
    end
  end.

Inductive split_result := SplitPanic | SplitOutOfFuel | SplitOk (l : list bytes).

Definition split (h n : bytes) : split_result :=
  match n with
  | [] => SplitPanic
  | _ => match split_fuel (length h + 1) h n with
         | Some l => SplitOk l
         | None => SplitOutOfFuel
         end
  end.
