(** [OsStrExt] refines the plain byte-list operations (property C14, first half). *)
From ClapModel Require Import Base.Bytes Lex.OsStrExtModel.
Open Scope nat_scope.

(** Declarative specification, independent of the code: [n] occurs in [h] at offset [i]. *)
Definition occurs_at (h n : bytes) (i : nat) : Prop :=
  exists a b, h = a ++ n ++ b /\ length a = i.

Lemma occurs_at_iff h n i :
  occurs_at h n i <-> (starts_with (skipn i h) n = true /\ i + length n <= length h).
Proof.
  split.
  - intros [a [b [-> <-]]]. split.
    + rewrite skipn_app, skipn_all, Nat.sub_diag. simpl. apply starts_with_app.
    + rewrite !app_length. lia.
  - intros [H L]. apply starts_with_spec in H. destruct H as [t Ht].
    exists (firstn i h), t. split.
    + rewrite <- Ht. symmetry. apply firstn_skipn.
    + rewrite firstn_length. lia.
Qed.

Lemma skipn_tl {A} (j : nat) (h : list A) : skipn j (tl h) = skipn (S j) h.
Proof. destruct h; simpl; [destruct j; reflexivity | reflexivity]. Qed.

Lemma find_aux_some h n : forall cnt x i,
  find_aux h n cnt x = Some i ->
  x <= i < x + cnt /\ starts_with (skipn (i - x) h) n = true /\
  forall j, x <= j < i -> starts_with (skipn (j - x) h) n = false.
Proof.
  intros cnt. revert h. induction cnt as [|c IH]; intros h x i; cbn [find_aux]; [discriminate|].
  destruct (starts_with h n) eqn:E.
  - intros H; inversion H; subst. rewrite Nat.sub_diag. simpl.
    split; [lia|]. split; [exact E|]. intros j Hj; lia.
  - intros H. apply IH in H. destruct H as [Hr [Hs Hn]].
    rewrite skipn_tl in Hs. replace (S (i - S x)) with (i - x) in Hs by lia.
    split; [lia|]. split; [exact Hs|].
    intros j Hj. destruct (Nat.eq_dec j x) as [->|Hne].
    + rewrite Nat.sub_diag. exact E.
    + specialize (Hn j ltac:(lia)). rewrite skipn_tl in Hn.
      replace (S (j - S x)) with (j - x) in Hn by lia. exact Hn.
Qed.

Lemma find_aux_none h n : forall cnt x,
  find_aux h n cnt x = None -> forall j, j < cnt -> starts_with (skipn j h) n = false.
Proof.
  intros cnt. revert h. induction cnt as [|c IH]; intros h x; cbn [find_aux]; [intros _ j Hj; lia|].
  destruct (starts_with h n) eqn:E; [discriminate|].
  intros H j Hj. destruct j as [|j]; [exact E|].
  rewrite <- skipn_tl. apply (IH _ _ H). lia.
Qed.

(** [find] returns the least offset at which the needle occurs (also for the empty needle). *)
Theorem find_some h n i :
  find h n = Some i <-> (occurs_at h n i /\ forall j, j < i -> ~ occurs_at h n j).
Proof.
  unfold find. destruct (Nat.ltb_spec (length h) (length n)) as [Hlt|Hge].
  - split; [discriminate|]. intros [H _]. apply occurs_at_iff in H. lia.
  - split.
    + intros H. apply find_aux_some in H. destruct H as [Hr [Hs Hn]].
      rewrite Nat.sub_0_r in Hs. split.
      * apply occurs_at_iff. split; [exact Hs | lia].
      * intros j Hj Ho. apply occurs_at_iff in Ho. destruct Ho as [Ho _].
        specialize (Hn j ltac:(lia)). rewrite Nat.sub_0_r in Hn. congruence.
    + intros [Ho Hmin]. apply occurs_at_iff in Ho. destruct Ho as [Hs Hl].
      destruct (find_aux h n (length h - length n + 1) 0) as [k|] eqn:E.
      * apply find_aux_some in E. destruct E as [Hr [Hks Hkn]].
        rewrite Nat.sub_0_r in Hks.
        destruct (Nat.lt_trichotomy k i) as [Hlt|[->|Hgt]]; [|reflexivity|].
        -- exfalso. apply (Hmin k Hlt). apply occurs_at_iff. split; [exact Hks|lia].
        -- specialize (Hkn i ltac:(lia)). rewrite Nat.sub_0_r in Hkn. congruence.
      * pose proof (find_aux_none _ _ _ _ E i ltac:(lia)). congruence.
Qed.

Theorem find_none h n : find h n = None <-> forall i, ~ occurs_at h n i.
Proof.
  split.
  - intros H i Ho. unfold find in H. apply occurs_at_iff in Ho. destruct Ho as [Hs Hl].
    destruct (Nat.ltb_spec (length h) (length n)); [lia|].
    pose proof (find_aux_none _ _ _ _ H i ltac:(lia)). congruence.
  - intros H. destruct (find h n) as [i|] eqn:E; [|reflexivity].
    apply find_some in E. destruct E as [Ho _]. exfalso. exact (H i Ho).
Qed.

Theorem contains_spec h n : contains h n = true <-> exists i, occurs_at h n i.
Proof.
  unfold contains. destruct (find h n) as [i|] eqn:E.
  - apply find_some in E. split; [intros _; exists i; tauto | reflexivity].
  - split; [discriminate|]. intros [i Hi]. exfalso. exact (proj1 (find_none h n) E i Hi).
Qed.

Theorem strip_prefix_spec h p t : strip_prefix h p = Some t <-> h = p ++ t.
Proof.
  unfold strip_prefix. destruct (starts_with h p) eqn:E.
  - pose proof (starts_with_skipn _ _ E) as Hs. split.
    + intros H; inversion H; subst. exact Hs.
    + intros ->. rewrite skipn_app, skipn_all, Nat.sub_diag. reflexivity.
  - split; [discriminate|]. intros ->. rewrite starts_with_app in E. discriminate.
Qed.

(** [split_once] cuts at the first occurrence: [h = a ++ n ++ b] with [a] as short as possible. *)
Theorem split_once_some h n a b :
  split_once h n = Some (a, b) <->
  (h = a ++ n ++ b /\ forall j, j < length a -> ~ occurs_at h n j).
Proof.
  unfold split_once. destruct (find h n) as [i|] eqn:E.
  - pose proof E as E0. apply find_some in E. destruct E as [Ho Hmin].
    pose proof Ho as Ho'. apply occurs_at_iff in Ho'. destruct Ho' as [Hs Hl].
    split.
    + intros H; inversion H; subst. split.
      * apply starts_with_skipn in Hs. rewrite <- (firstn_skipn i h) at 1.
        f_equal. rewrite Hs at 1. f_equal. rewrite skipn_add. reflexivity.
      * intros j Hj. apply Hmin. rewrite firstn_length in Hj. lia.
    + intros [Hh Hm].
      assert (Hi : i = length a).
      { destruct (Nat.lt_trichotomy i (length a)) as [Hlt|[Heq|Hgt]]; [|exact Heq|].
        - exfalso. exact (Hm i Hlt Ho).
        - exfalso. apply (Hmin (length a) Hgt). exists a, b. split; [exact Hh|reflexivity]. }
      subst i. f_equal. rewrite Hh. f_equal.
      * rewrite firstn_app, firstn_all, Nat.sub_diag. simpl. apply app_nil_r.
      * rewrite app_assoc. rewrite skipn_app.
        rewrite skipn_all2 by (rewrite app_length; lia).
        rewrite app_length. replace (length a + length n - (length a + length n)) with 0 by lia.
        reflexivity.
  - split; [discriminate|]. intros [Hh _]. exfalso.
    apply (proj1 (find_none h n) E (length a)). exists a, b. split; [exact Hh|reflexivity].
Qed.

Theorem split_once_none h n : split_once h n = None <-> forall i, ~ occurs_at h n i.
Proof.
  unfold split_once. destruct (find h n) as [i|] eqn:E.
  - split; [discriminate|]. intros H. apply find_some in E. exfalso. exact (H i (proj1 E)).
  - split; [intros _; apply find_none; exact E | reflexivity].
Qed.

(** Specification of splitting at every (leftmost, non-overlapping) occurrence. *)
Inductive SplitSpec (n : bytes) : bytes -> list bytes -> Prop :=
| SS_last h : (forall i, ~ occurs_at h n i) -> SplitSpec n h [h]
| SS_cons h a b rest :
    h = a ++ n ++ b -> (forall j, j < length a -> ~ occurs_at h n j) ->
    SplitSpec n b rest -> SplitSpec n h (a :: rest).

Lemma split_fuel_spec n : n <> [] -> forall fuel h, length h < fuel ->
  exists l, split_fuel fuel h n = Some l /\ SplitSpec n h l /\ intercalate n l = h.
Proof.
  intros Hn. induction fuel as [|f IH]; intros h Hf; [lia|].
  cbn [split_fuel]. destruct (split_once h n) as [[a b]|] eqn:E.
  - apply split_once_some in E. destruct E as [Hh Hm].
    assert (Hb : length b < f).
    { rewrite Hh in Hf. rewrite !app_length in Hf. destruct n; [congruence|]. simpl in Hf. lia. }
    destruct (IH b Hb) as [l [Hl [Hs Hi]]]. rewrite Hl.
    exists (a :: l). split; [reflexivity|]. split.
    + eapply SS_cons; eauto.
    + destruct l as [|x l'].
      * inversion Hs.
      * cbn [intercalate]. cbn [intercalate] in Hi. rewrite Hh. f_equal. f_equal.
        destruct l'; exact Hi.
  - pose proof (proj1 (split_once_none h n) E) as E'. exists [h]. split; [reflexivity|]. split.
    + apply SS_last. exact E'.
    + reflexivity.
Qed.

(** The iterator terminates within [length h + 1] steps, never exhausts its fuel,
    and its pieces re-assemble to the haystack. *)
Theorem split_total h n : n <> [] ->
  exists l, split h n = SplitOk l /\ SplitSpec n h l /\ intercalate n l = h.
Proof.
  intros Hn. unfold split. destruct n as [|b n']; [congruence|].
  destruct (split_fuel_spec (b :: n') Hn (length h + 1) h ltac:(lia)) as [l [Hl Hr]].
  rewrite Hl. exists l. split; [reflexivity|exact Hr].
Qed.

(** [SplitSpec] is functional: the model computes *the* byte-level split. *)
Lemma first_occurrence_unique h n a b a' b' :
  h = a ++ n ++ b -> (forall j, j < length a -> ~ occurs_at h n j) ->
  h = a' ++ n ++ b' -> (forall j, j < length a' -> ~ occurs_at h n j) ->
  a = a' /\ b = b'.
Proof.
  intros H1 M1 H2 M2.
  assert (L : length a = length a').
  { destruct (Nat.lt_trichotomy (length a) (length a')) as [Hlt|[Heq|Hgt]]; [|exact Heq|].
    - exfalso. apply (M2 _ Hlt). exists a, b. split; [exact H1|reflexivity].
    - exfalso. apply (M1 _ Hgt). exists a', b'. split; [exact H2|reflexivity]. }
  rewrite H1 in H2.
  destruct (app_eq_length_inv _ _ _ _ H2 L) as [Ha Hr]. subst a'. split; [reflexivity|].
  apply app_inv_head in Hr. exact Hr.
Qed.

Theorem SplitSpec_functional n h l1 : SplitSpec n h l1 -> forall l2, SplitSpec n h l2 -> l1 = l2.
Proof.
  induction 1 as [h Hno | h a b rest Hh Hm Hs IH]; intros l2 H2.
  - inversion H2 as [h' Hno' | h' a' b' rest' Hh' Hm' Hs']; subst; [reflexivity|].
    exfalso. apply (Hno (length a')). exists a', b'. split; reflexivity.
  - inversion H2 as [h' Hno' | h' a' b' rest' Hh' Hm' Hs']; subst.
    + exfalso. apply (Hno' (length a)). exists a, b. split; reflexivity.
    + destruct (first_occurrence_unique _ _ _ _ _ _ eq_refl Hm Hh' Hm') as [-> ->].
      f_equal. apply IH. exact Hs'.
Qed.

(** Non-vacuity: a concrete haystack with two separators. *)
Example split_example :
  split [97; 61; 98; 61]%N [61]%N = SplitOk [[97]; [98]; []]%N.
Proof. reflexivity. Qed.
