(** Model of [clap_lex::RawArgs] + [ArgCursor] (clap_lex/src/lib.rs).
    The cursor is a [usize] ([N] with the saturating / casting operations of
    Machine.v written out); slice indexing is a checked operation whose failure
    is the visible result [OPanic], never silently totalised. *)
From ClapModel Require Import Base.Bytes Base.Machine.
From Coq Require Import ZArith.
Open Scope N_scope.

Record cstate := { items : list bytes; pos : N }.

Inductive seekfrom := SeekStart (p : N) | SeekEnd (o : Z) | SeekCurrent (o : Z).
Inductive cop :=
| Next | Peek | Remaining | Seek (s : seekfrom) | Insert (xs : list bytes) | IsEnd.
Inductive cout :=
| OItem (o : option bytes) | OItems (l : list bytes) | OBool (b : bool) | OUnit | OPanic.

Definition len (st : cstate) : N := N.of_nat (length (items st)).

(** [self.items.get(i)] *)
Definition get (l : list bytes) (i : N) : option bytes :=
  if i <? N.of_nat (length l) then nth_error l (N.to_nat i) else None.

(** [&items[start..]] : panics (None) when [start > len] *)
Definition slice_from (l : list bytes) (start : N) : option (list bytes) :=
  if start <=? N.of_nat (length l) then Some (skipn (N.to_nat start) l) else None.

(** [items.splice(at..at, xs)] : panics (None) when [at > len] *)
Definition splice_at (l : list bytes) (at_ : N) (xs : list bytes) : option (list bytes) :=
  if at_ <=? N.of_nat (length l)
  then Some (firstn (N.to_nat at_) l ++ xs ++ skipn (N.to_nat at_) l) else None.

Definition seek_pos (ln p : N) (s : seekfrom) : N :=
  let target :=
    match s with
    | SeekStart q => q
    | SeekEnd o => as_u64 (Z.max (i64_sat_add (as_i64 ln) o) 0)
    | SeekCurrent o => as_u64 (Z.max (i64_sat_add (as_i64 p) o) 0)
    end in
  N.min target ln.

Definition cstep (st : cstate) (o : cop) : cstate * cout :=
  match o with
  | Next => ({| items := items st; pos := sat_add (pos st) 1 |}, OItem (get (items st) (pos st)))
  | Peek => (st, OItem (get (items st) (pos st)))
  | Remaining =>
      (* let start = cursor.min(len); &items[start..]; cursor = len *)
      match slice_from (items st) (N.min (pos st) (len st)) with
      | Some r => ({| items := items st; pos := len st |}, OItems r)
      | None => (st, OPanic)
      end
  | Seek s => ({| items := items st; pos := seek_pos (len st) (pos st) s |}, OUnit)
  | Insert xs =>
      match splice_at (items st) (N.min (pos st) (len st)) xs with
      | Some l => ({| items := l; pos := pos st |}, OUnit)
      | None => (st, OPanic)
      end
  | IsEnd => (st, OBool (match get (items st) (pos st) with None => true | Some _ => false end))
  end.

Fixpoint crun (st : cstate) (ops : list cop) : list cout :=
  match ops with
  | [] => []
  | o :: rest => let '(st', out) := cstep st o in out :: crun st' rest
  end.

Definition cinit (l : list bytes) : cstate := {| items := l; pos := 0 |}.
