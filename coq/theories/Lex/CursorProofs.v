(** The cursor refines "an index into a growable list" (property C14, second half). *)
From ClapModel Require Import Base.Bytes Base.Machine Lex.CursorModel.
From Coq Require Import ZArith.
Open Scope nat_scope.

(** The ideal specification: unbounded index, no machine arithmetic, total list operations. *)
Record istate := { iitems : list bytes; idx : nat }.

Definition clampZ (z : Z) (n : nat) : nat := Z.to_nat (Z.min (Z.max z 0) (Z.of_nat n)).

Definition istep (st : istate) (o : cop) : istate * cout :=
  let n := length (iitems st) in
  match o with
  | Next => ({| iitems := iitems st; idx := S (idx st) |}, OItem (nth_error (iitems st) (idx st)))
  | Peek => (st, OItem (nth_error (iitems st) (idx st)))
  | Remaining => ({| iitems := iitems st; idx := n |}, OItems (skipn (idx st) (iitems st)))
  | Seek (SeekStart p) => ({| iitems := iitems st; idx := N.to_nat (N.min p (N.of_nat n)) |}, OUnit)
  | Seek (SeekEnd o) => ({| iitems := iitems st; idx := clampZ (Z.of_nat n + o) n |}, OUnit)
  | Seek (SeekCurrent o) =>
      ({| iitems := iitems st; idx := clampZ (Z.of_nat (idx st) + o) n |}, OUnit)
  | Insert xs =>
      ({| iitems := firstn (idx st) (iitems st) ++ xs ++ skipn (idx st) (iitems st);
          idx := idx st |}, OUnit)
  | IsEnd => (st, OBool (n <=? idx st))
  end.

Fixpoint irun (st : istate) (ops : list cop) : list cout :=
  match ops with
  | [] => []
  | o :: rest => let '(st', out) := istep st o in out :: irun st' rest
  end.

(** Size of a history: every op may advance the index by one, an insert grows the list. *)
Definition op_size (o : cop) : nat :=
  match o with Insert xs => 1 + length xs | _ => 1 end.
Fixpoint ops_size (ops : list cop) : nat :=
  match ops with [] => 0 | o :: r => op_size o + ops_size r end.

Definition op_ok (o : cop) : Prop :=
  match o with
  | Seek (SeekStart p) => (p <= usize_max)%N
  | Seek (SeekEnd z) | Seek (SeekCurrent z) => (i64_min <= z <= i64_max)%Z
  | _ => True
  end.

Definition big : nat := Z.to_nat 4611686018427387904.   (* 2^62, never computed with *)

(** Simulation relation: same list, same index, and room below 2^62. *)
Definition R (budget : nat) (c : cstate) (i : istate) : Prop :=
  items c = iitems i /\ pos c = N.of_nat (idx i) /\
  (Z.of_nat (length (iitems i)) + Z.of_nat budget < 4611686018427387904)%Z /\
  (Z.of_nat (idx i) + Z.of_nat budget < 4611686018427387904)%Z.

Lemma get_nth l i : get l (N.of_nat i) = nth_error l i.
Proof.
  unfold get. destruct (N.ltb_spec (N.of_nat i) (N.of_nat (length l))).
  - rewrite Nat2N.id. reflexivity.
  - symmetry. apply nth_error_None. lia.
Qed.

Lemma firstn_min {A} n (l : list A) : firstn (Nat.min n (length l)) l = firstn n l.
Proof.
  destruct (Nat.le_ge_cases n (length l)).
  - rewrite Nat.min_l by lia. reflexivity.
  - rewrite Nat.min_r by lia. rewrite firstn_all. symmetry. apply firstn_all2. lia.
Qed.

Lemma skipn_min {A} n (l : list A) : skipn (Nat.min n (length l)) l = skipn n l.
Proof.
  destruct (Nat.le_ge_cases n (length l)).
  - rewrite Nat.min_l by lia. reflexivity.
  - rewrite Nat.min_r by lia. rewrite skipn_all. symmetry. apply skipn_all2. lia.
Qed.

Lemma step_refines budget c i o :
  R (op_size o + budget) c i -> op_ok o ->
  snd (cstep c o) = snd (istep i o) /\ snd (cstep c o) <> OPanic /\
  R budget (fst (cstep c o)) (fst (istep i o)).
Proof.
  intros [Hi [Hp [Hb Hb2]]] Hok. destruct c as [ci cp], i as [ii ix]. simpl in *. subst ci cp.
  destruct o as [| | |s|xs|]; unfold cstep, CursorModel.len; cbn [istep fst snd items pos iitems idx op_size] in *.
  - (* Next *)
    rewrite get_nth. split; [reflexivity|]. split; [discriminate|].
    unfold R; cbn [items pos iitems idx]. split; [reflexivity|]. split.
    + unfold sat_add, usize_max. lia.
    + split; lia.
  - rewrite get_nth. split; [reflexivity|]. split; [discriminate|].
    unfold R; cbn [items pos iitems idx]. split; [reflexivity|]. split; [reflexivity|split; lia].
  - (* Remaining *)
    unfold slice_from.
    destruct (N.leb_spec (N.min (N.of_nat ix) (N.of_nat (length ii))) (N.of_nat (length ii))) as [_|Hc]; [|lia].
    cbn [fst snd]. replace (N.to_nat (N.min (N.of_nat ix) (N.of_nat (length ii))))
      with (Nat.min ix (length ii)) by lia.
    rewrite skipn_min. split; [reflexivity|]. split; [discriminate|].
    unfold R; cbn [items pos iitems idx]. split; [reflexivity|]. split; [reflexivity|split; lia].
  - (* Seek *)
    split; [destruct s; reflexivity|]. split; [destruct s; discriminate|].
    destruct s as [p|z|z]; unfold R; cbn [fst items pos iitems idx]; (split; [reflexivity|]);
      unfold seek_pos, clampZ; cbn [op_ok] in Hok.
    + split; [lia|split; lia].
    + rewrite as_i64_small by lia. unfold i64_sat_add, i64_min, i64_max in *.
      rewrite as_u64_nonneg by (unfold i64_max; lia). split; [lia|split; lia].
    + rewrite as_i64_small by lia. unfold i64_sat_add, i64_min, i64_max in *.
      rewrite as_u64_nonneg by (unfold i64_max; lia). split; [lia|split; lia].
  - (* Insert *)
    unfold splice_at.
    destruct (N.leb_spec (N.min (N.of_nat ix) (N.of_nat (length ii))) (N.of_nat (length ii))) as [_|Hc]; [|lia].
    cbn [fst snd]. replace (N.to_nat (N.min (N.of_nat ix) (N.of_nat (length ii))))
      with (Nat.min ix (length ii)) by lia.
    rewrite skipn_min, firstn_min. split; [reflexivity|]. split; [discriminate|].
    unfold R; cbn [items pos iitems idx]. split; [reflexivity|]. split; [reflexivity|].
    rewrite !app_length, firstn_length, skipn_length. split; lia.
  - (* IsEnd *)
    rewrite get_nth. split.
    + f_equal. destruct (Nat.leb_spec (length ii) ix) as [H|H].
      * apply nth_error_None in H. rewrite H. reflexivity.
      * destruct (nth_error ii ix) eqn:E; [reflexivity|]. apply nth_error_None in E. lia.
    + split; [discriminate|]. unfold R; cbn [items pos iitems idx].
      split; [reflexivity|]. split; [reflexivity|split; lia].
Qed.

Lemma run_refines : forall ops budget c i,
  R (ops_size ops + budget) c i -> Forall op_ok ops ->
  crun c ops = irun i ops /\ ~ In OPanic (crun c ops).
Proof.
  induction ops as [|o ops IH]; intros budget c i HR Hok; cbn [crun irun]; [split; [reflexivity|intros []]|].
  inversion Hok as [|? ? Ho Hrest]; subst.
  cbn [ops_size] in HR. rewrite <- Nat.add_assoc in HR.
  destruct (step_refines _ c i o HR Ho) as [Hout [Hnp HR']].
  destruct (cstep c o) as [c' out] eqn:Ec. destruct (istep i o) as [i' out'] eqn:Ei.
  cbn [fst snd] in *. subst out'.
  destruct (IH budget c' i' HR' Hrest) as [Hruns Hn].
  split; [f_equal; exact Hruns|].
  intros [H|H]; [exact (Hnp H)|exact (Hn H)].
Qed.

(** Every history of cursor operations (offsets: any u64 / any i64) on any argument
    list behaves exactly like the ideal index-into-a-growable-list machine and never
    reads out of bounds.  The size hypothesis excludes only histories that could
    drive a 64-bit counter past 2^62 (2^62 calls or 2^62 inserted items). *)
Theorem cursor_refines l ops :
  (Z.of_nat (length l) + Z.of_nat (ops_size ops) < 4611686018427387904)%Z ->
  Forall op_ok ops ->
  crun (cinit l) ops = irun {| iitems := l; idx := 0 |} ops /\
  ~ In OPanic (crun (cinit l) ops).
Proof.
  intros Hb Hok. apply (run_refines ops 0); [|exact Hok].
  unfold R, cinit; cbn [items pos iitems idx]. split; [reflexivity|]. split; [reflexivity|split; lia].
Qed.

(** The ideal machine keeps its index inside [0, len] after every seek (clamping). *)
Lemma seek_in_range st s :
  idx (fst (istep st (Seek s))) <= length (iitems (fst (istep st (Seek s)))).
Proof. destruct s; cbn; unfold clampZ; lia. Qed.

(** Non-vacuity: the known overshoot history (two [next] on one item, then [remaining]). *)
Example cursor_overshoot :
  crun (cinit [[97%N]]) [Next; Next; Remaining; Insert [[98%N]]; Seek (SeekCurrent (-5)); Next]
  = [OItem (Some [97%N]); OItem None; OItems []; OUnit; OUnit; OItem (Some [97%N])].
Proof. vm_compute. reflexivity. Qed.
