(** Proofs about the [ParsedArg] / [ShortFlags] model (property C13). *)
From ClapModel Require Import Base.Bytes Base.Utf8 Lex.OsStrExtModel Lex.OsStrExtProofs Lex.LexModel.
Open Scope N_scope.

(** * 1. Classification *)

Definition is_plain (s : bytes) : bool := negb (is_empty s) && negb (starts_with s [DASH]).

Definition count_true (l : list bool) : nat := length (filter (fun b => b) l).

(** What each classifier computes, by the shape of the first bytes. *)
Inductive shape : bytes -> Type :=
| sh_empty : shape []
| sh_plain a t : a <> DASH -> shape (a :: t)
| sh_stdio : shape [DASH]
| sh_short b t : b <> DASH -> shape (DASH :: b :: t)
| sh_escape : shape [DASH; DASH]
| sh_long c t : shape (DASH :: DASH :: c :: t).

Lemma shape_of s : shape s.
Proof.
  destruct s as [|a s]; [exact sh_empty|].
  destruct (N.eq_dec a DASH) as [->|Ha]; [|exact (sh_plain a s Ha)].
  destruct s as [|b s]; [exact sh_stdio|].
  destruct (N.eq_dec b DASH) as [->|Hb]; [|exact (sh_short b s Hb)].
  destruct s as [|c s]; [exact sh_escape|exact (sh_long c s)].
Qed.

Lemma neq_eqb a b : a <> b -> (a =? b) = false.
Proof. apply N.eqb_neq. Qed.

Ltac lex_cbn :=
  cbn [starts_with beq is_empty length skipn andb negb orb N.eqb Pos.eqb filter count_true].

Ltac lex_solve :=
  unfold is_plain, is_long, is_short, to_long, to_short, strip_prefix;
  unfold is_escape, is_stdio, DASH in *;
  lex_cbn;
  repeat (match goal with
          | H : ?a <> 45 |- _ => progress (rewrite !(neq_eqb a 45 H))
          end; lex_cbn).

Record class_facts (s : bytes) : Prop := {
  cf_escape : is_escape s = true ->
    is_long s = false /\ is_short s = false /\ to_long s = Ret None /\ to_short s = Ret None;
  cf_stdio : is_stdio s = true ->
    is_long s = false /\ is_short s = false /\ to_long s = Ret None /\ to_short s = Ret None;
  cf_long : is_long s = true <-> exists x, to_long s = Ret (Some x);
  cf_short : is_short s = true <-> exists r, to_short s = Ret (Some r);
  cf_excl : is_long s = true -> is_short s = false;
  cf_long_nopanic : to_long s <> Panic;
  cf_short_nopanic : to_short s <> Panic;
  cf_one : count_true [is_empty s; is_stdio s; is_escape s; is_long s; is_short s; is_plain s] = 1%nat
}.

Lemma to_long_cons3 c t :
  to_long (DASH :: DASH :: c :: t) =
  Ret (Some (let '(flag, value) :=
               match split_once (c :: t) [EQ] with
               | Some (p0, p1) => (p0, Some p1)
               | None => (c :: t, None)
               end in (flag, utf8_valid flag, value))).
Proof.
  unfold to_long, strip_prefix, DASH. cbn [starts_with andb N.eqb Pos.eqb length skipn is_empty].
  destruct (split_once (c :: t) [EQ]) as [[p0 p1]|]; reflexivity.
Qed.

Theorem classes s : class_facts s.
Proof.
  destruct (shape_of s) as [|a t Ha| |b t Hb| |c t].
  - split; try (lex_solve; (discriminate || tauto || (repeat split; reflexivity))).
    + lex_solve. split; [discriminate|intros [x Hx]; discriminate].
    + lex_solve. split; [discriminate|intros [x Hx]; discriminate].
  - split; try (lex_solve; (discriminate || tauto || (repeat split; reflexivity))).
    + lex_solve. split; [discriminate|intros [x Hx]; discriminate].
    + lex_solve. split; [discriminate|intros [x Hx]; discriminate].
  - split; try (lex_solve; (discriminate || tauto || (repeat split; reflexivity))).
    + lex_solve. split; [discriminate|intros [x Hx]; discriminate].
    + lex_solve. split; [discriminate|intros [x Hx]; discriminate].
  - split; try (lex_solve; (discriminate || tauto || (repeat split; reflexivity))).
    + lex_solve. split; [discriminate|intros [x Hx]; discriminate].
    + lex_solve. split; [intros _; eexists; reflexivity|reflexivity].
  - split; try (lex_solve; (discriminate || tauto || (repeat split; reflexivity))).
    + lex_solve. split; [discriminate|intros [x Hx]; discriminate].
    + lex_solve. split; [discriminate|intros [x Hx]; discriminate].
  - split; try (rewrite to_long_cons3); try (lex_solve; (discriminate || tauto || (repeat split; reflexivity))).
    + split; [intros _; eexists; reflexivity|reflexivity].
    + lex_solve. split; [discriminate|intros [x Hx]; discriminate].
Qed.

(** * 2. The long decomposition re-assembles *)

Lemma no_needle_before (a b : bytes) (x : N) :
  (forall j, (j < length a)%nat -> ~ occurs_at (a ++ [x] ++ b) [x] j) -> ~ In x a.
Proof.
  intros Hm Hin. apply in_split in Hin. destruct Hin as [l1 [l2 ->]].
  apply (Hm (length l1)).
  - rewrite app_length. cbn [length]. lia.
  - exists l1, (l2 ++ [x] ++ b). split; [|reflexivity].
    rewrite <- !app_assoc. reflexivity.
Qed.

Lemma no_needle_at_all (h : bytes) (x : N) :
  (forall i, ~ occurs_at h [x] i) -> ~ In x h.
Proof.
  intros Hm Hin. apply in_split in Hin. destruct Hin as [l1 [l2 ->]].
  apply (Hm (length l1)). exists l1, l2. split; reflexivity.
Qed.

Definition long_join (f : bytes) (v : option bytes) : bytes :=
  [DASH; DASH] ++ f ++ match v with Some v => [EQ] ++ v | None => [] end.

Theorem long_reassemble s f u v :
  to_long s = Ret (Some (f, u, v)) ->
  s = long_join f v /\ ~ In EQ f /\ u = utf8_valid f /\ (f = [] -> v <> None).
Proof.
  destruct (shape_of s) as [|a t Ha| |b t Hb| |c t]; try (lex_solve; discriminate).
  rewrite to_long_cons3. unfold long_join.
  destruct (split_once (c :: t) [EQ]) as [[p0 p1]|] eqn:E; intros H; inversion H; subst; clear H.
  - apply split_once_some in E. destruct E as [Hh Hm]. rewrite Hh in Hm.
    split; [cbn [app]; rewrite Hh; reflexivity|].
    split; [exact (no_needle_before _ _ _ Hm)|]. split; [reflexivity|]. discriminate.
  - pose proof (proj1 (split_once_none _ _) E) as Hn.
    split; [cbn [app]; rewrite app_nil_r; reflexivity|].
    split; [exact (no_needle_at_all _ _ Hn)|]. split; [reflexivity|]. discriminate.
Qed.

(** Conversely every argument that starts with [--] and is longer than that is a long flag,
    and the decomposition of a re-assembled pair is that pair. *)
Theorem long_total t : t <> [] -> exists x, to_long (DASH :: DASH :: t) = Ret (Some x).
Proof.
  intros Ht. destruct t as [|c t]; [congruence|]. rewrite to_long_cons3. eexists; reflexivity.
Qed.

Theorem long_join_inv f v :
  ~ In EQ f -> (f = [] -> v <> None) ->
  to_long (long_join f v) = Ret (Some (f, utf8_valid f, v)).
Proof.
  intros Hf Hne. unfold long_join.
  destruct (f ++ match v with Some v0 => [EQ] ++ v0 | None => [] end) as [|c t] eqn:E.
  { destruct f; [|discriminate]. destruct v; [discriminate|]. exfalso. exact (Hne eq_refl eq_refl). }
  cbn [app]. rewrite to_long_cons3. rewrite <- E. clear E c t.
  destruct v as [v|].
  - assert (Hs : split_once (f ++ [EQ] ++ v) [EQ] = Some (f, v)).
    { apply split_once_some. split; [reflexivity|].
      intros j Hj [a [b [Hab Hl]]].
      apply Hf. subst j.
      assert (Hn : nth_error (f ++ [EQ] ++ v) (length a) = Some EQ).
      { rewrite Hab. rewrite nth_error_app2 by lia. rewrite Nat.sub_diag. reflexivity. }
      rewrite nth_error_app1 in Hn by exact Hj.
      exact (nth_error_In _ _ Hn). }
    rewrite Hs. reflexivity.
  - rewrite app_nil_r.
    assert (Hs : split_once f [EQ] = None).
    { apply split_once_none. intros i [a [b [Hab _]]]. apply Hf. rewrite Hab.
      apply in_or_app. right. left. reflexivity. }
    rewrite Hs. reflexivity.
Qed.

Example long_example :
  to_long [45; 45; 97; 61; 98; 61] = Ret (Some ([97], true, Some [98; 61])).
Proof. vm_compute. reflexivity. Qed.

(** * 3. [is_number] is the declarative number language *)

Definition digits (l : bytes) : Prop := forallb is_digit l = true.

(** mantissa:  D*  |  D+ '.' D*   (at most one '.', never first) *)
Inductive mantissa : bytes -> Prop :=
| m_int ds : digits ds -> mantissa ds
| m_frac ds fs : ds <> [] -> digits ds -> digits fs -> mantissa (ds ++ [46] ++ fs).

(** number:  mantissa  |  non-empty mantissa, one 'e'/'E', D+   (exponent never first, never last) *)
Inductive number_lang : bytes -> Prop :=
| n_plain m : mantissa m -> number_lang m
| n_exp m e xs : mantissa m -> m <> [] -> is_e e = true -> digits xs -> xs <> [] ->
                 number_lang (m ++ [e] ++ xs).

Lemma digits_nil : digits [].
Proof. reflexivity. Qed.

Lemma digits_cons c l : digits (c :: l) <-> is_digit c = true /\ digits l.
Proof. unfold digits. cbn [forallb]. apply andb_true_iff. Qed.

Lemma digits_app a b : digits (a ++ b) <-> digits a /\ digits b.
Proof. unfold digits. rewrite forallb_app. apply andb_true_iff. Qed.

Lemma digit_not_dot c : is_digit c = true -> (c =? 46) = false.
Proof.
  unfold is_digit. intros H. apply andb_true_iff in H. destruct H as [H1 H2].
  apply N.leb_le in H1. apply N.eqb_neq. lia.
Qed.

Lemma digit_not_e c : is_digit c = true -> is_e c = false.
Proof.
  unfold is_digit, is_e. intros H. apply andb_true_iff in H. destruct H as [H1 H2].
  apply N.leb_le in H1. apply N.leb_le in H2.
  apply orb_false_iff. split; apply N.eqb_neq; lia.
Qed.

Lemma dot_not_digit : is_digit 46 = false.
Proof. reflexivity. Qed.

Lemma e_not_digit e : is_e e = true -> is_digit e = false.
Proof.
  intros H. destruct (is_digit e) eqn:D; [|reflexivity].
  apply digit_not_e in D. congruence.
Qed.

Lemma e_not_dot e : is_e e = true -> (e =? 46) = false.
Proof.
  unfold is_e. intros H. apply orb_true_iff in H.
  destruct H as [H|H]; apply N.eqb_eq in H; subst; reflexivity.
Qed.

(** the loop skips digits *)
Lemma loop_digits ds : digits ds -> forall l i sd pe,
  is_number_loop (ds ++ l) i sd pe = is_number_loop l (i + length ds) sd pe.
Proof.
  induction ds as [|d ds IH]; intros Hd l i sd pe.
  - cbn [app length]. rewrite Nat.add_0_r. reflexivity.
  - apply digits_cons in Hd. destruct Hd as [Hd Hds].
    cbn [app is_number_loop length]. rewrite Hd. rewrite (IH Hds).
    f_equal. lia.
Qed.

(** after the exponent only digits are accepted *)
Lemma loop_after_e : forall l i sd k r,
  is_number_loop l i sd (Some k) = Some r -> digits l /\ r = Some k.
Proof.
  induction l as [|c l IH]; intros i sd k r; cbn [is_number_loop].
  - intros H; inversion H. split; [apply digits_nil|reflexivity].
  - destruct (is_digit c) eqn:D.
    + intros H. apply IH in H. destruct H as [Hl Hr]. split; [|exact Hr].
      apply digits_cons. split; assumption.
    + cbn [is_none]. rewrite !andb_false_r. cbn [andb]. discriminate.
Qed.

(** after the dot: digits, then possibly the exponent *)
Lemma loop_after_dot : forall l i r,
  is_number_loop l i true None = Some r ->
  (digits l /\ r = None) \/
  (exists ds e xs, l = ds ++ [e] ++ xs /\ digits ds /\ is_e e = true /\ digits xs /\
                   r = Some (i + length ds)%nat).
Proof.
  induction l as [|c l IH]; intros i r; cbn [is_number_loop].
  - intros H; inversion H. left. split; [apply digits_nil|reflexivity].
  - destruct (is_digit c) eqn:D.
    + intros H. apply IH in H. destruct H as [[Hl Hr]|[ds [e [xs [Hl [Hds [He [Hxs Hr]]]]]]]].
      * left. split; [apply digits_cons; split; assumption|exact Hr].
      * right. exists (c :: ds), e, xs. subst l. split; [reflexivity|].
        split; [apply digits_cons; split; assumption|]. split; [exact He|]. split; [exact Hxs|].
        rewrite Hr. f_equal. cbn [length]. lia.
    + cbn [negb]. rewrite andb_false_r. cbn [andb is_none].
      destruct (is_e c) eqn:E; cbn [andb]; [|discriminate].
      destruct (0 <? i)%nat eqn:Hi; [|discriminate].
      intros H. apply loop_after_e in H. destruct H as [Hl Hr].
      right. exists [], c, l. split; [reflexivity|]. split; [apply digits_nil|].
      split; [exact E|]. split; [exact Hl|]. rewrite Hr. f_equal. cbn [length]. lia.
Qed.

(** before the dot, not at the first byte *)
Lemma loop_before_dot : forall l i r, (0 < i)%nat ->
  is_number_loop l i false None = Some r ->
  (digits l /\ r = None) \/
  (exists ds fs, l = ds ++ [46] ++ fs /\ digits ds /\
                 is_number_loop fs (i + length ds + 1) true None = Some r) \/
  (exists ds e xs, l = ds ++ [e] ++ xs /\ digits ds /\ is_e e = true /\ digits xs /\
                   r = Some (i + length ds)%nat).
Proof.
  induction l as [|c l IH]; intros i r Hi; cbn [is_number_loop].
  - intros H; inversion H. left. split; [apply digits_nil|reflexivity].
  - destruct (is_digit c) eqn:D.
    + intros H. apply IH in H; [|lia].
      destruct H as [[Hl Hr]|[[ds [fs [Hl [Hds Hr]]]]|[ds [e [xs [Hl [Hds [He [Hxs Hr]]]]]]]]].
      * left. split; [apply digits_cons; split; assumption|exact Hr].
      * right. left. exists (c :: ds), fs. subst l. split; [reflexivity|].
        split; [apply digits_cons; split; assumption|].
        rewrite <- Hr. f_equal. cbn [length]. lia.
      * right. right. exists (c :: ds), e, xs. subst l. split; [reflexivity|].
        split; [apply digits_cons; split; assumption|]. split; [exact He|]. split; [exact Hxs|].
        rewrite Hr. f_equal. cbn [length]. lia.
    + cbn [negb is_none]. apply Nat.ltb_lt in Hi. rewrite Hi. rewrite !andb_true_r.
      destruct (c =? 46) eqn:Dot.
      * apply N.eqb_eq in Dot. subst c. intros H. right. left.
        exists [], l. split; [reflexivity|]. split; [apply digits_nil|].
        rewrite <- H. f_equal. cbn [length]. lia.
      * destruct (is_e c) eqn:E; [|discriminate].
        intros H. apply loop_after_e in H. destruct H as [Hl Hr].
        right. right. exists [], c, l. split; [reflexivity|]. split; [apply digits_nil|].
        split; [exact E|]. split; [exact Hl|]. rewrite Hr. f_equal. cbn [length]. lia.
Qed.

(** the first byte must be a digit *)
Lemma loop_first c l r :
  is_number_loop (c :: l) 0 false None = Some r ->
  is_digit c = true /\ is_number_loop l 1 false None = Some r.
Proof.
  cbn [is_number_loop]. destruct (is_digit c) eqn:D.
  - intros H. split; [reflexivity|exact H].
  - replace (0 <? 0)%nat with false by reflexivity. rewrite !andb_false_r. discriminate.
Qed.

Lemma is_number_no_panic s : is_number s <> Panic.
Proof.
  unfold is_number. destruct (is_number_loop s 0 false None) as [[k|]|] eqn:E; try discriminate.
  destruct s as [|c l]; [cbn in E; discriminate|]. cbn [length]. discriminate.
Qed.

Theorem is_number_sound s : is_number s = Ret true -> number_lang s.
Proof.
  unfold is_number. destruct (is_number_loop s 0 false None) as [[k|]|] eqn:E; try discriminate.
  - (* an exponent was seen at k *)
    destruct s as [|c l]; [discriminate|]. cbn [length].
    intros H. inversion H as [Hk]. apply negb_true_iff in Hk. apply Nat.eqb_neq in Hk.
    apply loop_first in E. destruct E as [Dc E].
    apply loop_before_dot in E; [|lia].
    destruct E as [[_ Hr]|[[ds [fs [Hl [Hds E]]]]|[ds [e [xs [Hl [Hds [He [Hxs Hr]]]]]]]]]; [discriminate| |].
    + apply loop_after_dot in E.
      destruct E as [[_ Hr]|[ds2 [e [xs [Hl2 [Hds2 [He [Hxs Hr]]]]]]]]; [discriminate|].
      subst l fs. inversion Hr as [Hk']. subst k.
      assert (Hx : xs <> []).
      { intros ->. apply Hk. rewrite !app_length. cbn [length]. lia. }
      replace (c :: ds ++ [46] ++ ds2 ++ [e] ++ xs) with (((c :: ds) ++ [46] ++ ds2) ++ [e] ++ xs)
        by (cbn [app]; rewrite <- !app_assoc; reflexivity).
      apply n_exp; try assumption.
      * apply m_frac; [discriminate| |assumption]. apply digits_cons. split; assumption.
      * discriminate.
    + subst l. inversion Hr as [Hk']. subst k.
      assert (Hx : xs <> []).
      { intros ->. apply Hk. rewrite !app_length. cbn [length]. lia. }
      change (c :: ds ++ [e] ++ xs) with ((c :: ds) ++ [e] ++ xs).
      apply n_exp; try assumption.
      * apply m_int. apply digits_cons. split; assumption.
      * discriminate.
  - (* no exponent *)
    intros _. apply n_plain.
    destruct s as [|c l]; [apply m_int, digits_nil|].
    apply loop_first in E. destruct E as [Dc E].
    apply loop_before_dot in E; [|lia].
    destruct E as [[Hl _]|[[ds [fs [Hl [Hds E]]]]|[ds [e [xs [Hl [Hds [He [Hxs Hr]]]]]]]]]; [| |discriminate].
    + apply m_int. apply digits_cons. split; assumption.
    + apply loop_after_dot in E.
      destruct E as [[Hfs _]|[ds2 [e [xs [Hl2 [Hds2 [He [Hxs Hr]]]]]]]]; [|discriminate].
      subst l. change (c :: ds ++ [46] ++ fs) with ((c :: ds) ++ [46] ++ fs).
      apply m_frac; [discriminate| |assumption]. apply digits_cons. split; assumption.
Qed.

(** the loop on a mantissa, from the first byte *)
Lemma loop_mantissa m : mantissa m -> forall l,
  exists sd, is_number_loop (m ++ l) 0 false None = is_number_loop l (length m) sd None.
Proof.
  intros [ds Hds | ds fs Hne Hds Hfs] l.
  - exists false. rewrite (loop_digits ds Hds). reflexivity.
  - exists true. rewrite <- app_assoc. rewrite (loop_digits ds Hds).
    cbn [app is_number_loop]. rewrite dot_not_digit. cbn [N.eqb Pos.eqb negb is_none andb].
    assert (Hpos : (0 <? 0 + length ds)%nat = true).
    { apply Nat.ltb_lt. destruct ds; [congruence|cbn [length]; lia]. }
    rewrite Hpos. rewrite (loop_digits fs Hfs).
    f_equal. rewrite !app_length. cbn [length]. lia.
Qed.

Theorem is_number_complete s : number_lang s -> is_number s = Ret true.
Proof.
  intros [m Hm | m e xs Hm Hne He Hxs Hxne]; unfold is_number.
  - destruct (loop_mantissa m Hm []) as [sd H]. rewrite app_nil_r in H. rewrite H. reflexivity.
  - destruct (loop_mantissa m Hm ([e] ++ xs)) as [sd H]. rewrite H.
    cbn [app is_number_loop]. rewrite (e_not_digit e He), (e_not_dot e He), He.
    cbn [andb is_none].
    assert (Hpos : (0 <? length m)%nat = true).
    { apply Nat.ltb_lt. destruct m; [congruence|cbn [length]; lia]. }
    rewrite Hpos. cbn [andb].
    rewrite <- (app_nil_r xs) at 1. rewrite (loop_digits xs Hxs). cbn [is_number_loop].
    rewrite !app_length. cbn [length].
    destruct (length m + S (length xs))%nat as [|n] eqn:En; [lia|].
    f_equal. apply negb_true_iff. apply Nat.eqb_neq.
    destruct xs; [congruence|]. cbn [length] in En. lia.
Qed.

Theorem is_number_lang s :
  is_number s <> Panic /\ (is_number s = Ret true <-> number_lang s).
Proof.
  split; [apply is_number_no_panic|]. split; [apply is_number_sound|apply is_number_complete].
Qed.

Example number_examples :
  is_number [] = Ret true /\ is_number [49; 46] = Ret true /\ is_number [49; 46; 101; 53] = Ret true /\
  is_number [46; 53] = Ret false /\ is_number [49; 101] = Ret false /\ is_number [49; 101; 46; 53] = Ret false /\
  is_number [101; 53] = Ret false /\ is_number [49; 46; 46] = Ret false /\ is_number [49; 69; 53; 101] = Ret false.
Proof. vm_compute. repeat split; reflexivity. Qed.

(** ** negative numbers are short clusters (or the lone dash) *)

Lemma is_negative_number_no_panic s : is_negative_number s <> Panic.
Proof.
  unfold is_negative_number. destruct (utf8_valid s); [|discriminate].
  destruct (strip_prefix s [DASH]); [apply is_number_no_panic|discriminate].
Qed.

Theorem negnum_sub s :
  is_negative_number s = Ret true -> is_short s = true \/ is_stdio s = true.
Proof.
  unfold is_negative_number. destruct (utf8_valid s); [|discriminate].
  destruct (shape_of s) as [|a t Ha| |b t Hb| |c t]; try (lex_solve; discriminate).
  - intros _. right. reflexivity.
  - intros _. left. lex_solve. reflexivity.
Qed.

(** The documented oddity: [-] alone is both stdio and a "negative number", because [is_number ""]. *)
Lemma stdio_is_negative_number :
  is_stdio [DASH] = true /\ is_negative_number [DASH] = Ret true /\ is_number [] = Ret true.
Proof. vm_compute. repeat split; reflexivity. Qed.


(** The whole characterisation of [is_negative_number]: a dash followed by the number language
    (such a string is ASCII, hence UTF-8). *)
Lemma mantissa_ascii m : mantissa m -> forall b, In b m -> b < 128.
Proof.
  assert (Hd : forall ds, digits ds -> forall b, In b ds -> b < 128).
  { intros ds Hds b Hb. unfold digits in Hds. rewrite forallb_forall in Hds.
    specialize (Hds b Hb). unfold is_digit in Hds. bools. lia. }
  intros [ds Hds | ds fs Hne Hds Hfs] b Hb.
  - exact (Hd ds Hds b Hb).
  - apply in_app_or in Hb. destruct Hb as [Hb|Hb]; [exact (Hd ds Hds b Hb)|].
    cbn [app] in Hb. destruct Hb as [<-|Hb]; [lia|exact (Hd fs Hfs b Hb)].
Qed.

Lemma number_ascii r : number_lang r -> forall b, In b r -> b < 128.
Proof.
  intros [m Hm | m e xs Hm Hne He Hxs Hxne] b Hb.
  - exact (mantissa_ascii m Hm b Hb).
  - apply in_app_or in Hb. destruct Hb as [Hb|Hb]; [exact (mantissa_ascii m Hm b Hb)|].
    cbn [app] in Hb. destruct Hb as [<-|Hb].
    + unfold is_e in He. apply orb_true_iff in He. destruct He as [He|He]; bools; lia.
    + unfold digits in Hxs. rewrite forallb_forall in Hxs. specialize (Hxs b Hb).
      unfold is_digit in Hxs. bools. lia.
Qed.

Theorem negnum_lang s :
  is_negative_number s = Ret true <-> (exists r, s = DASH :: r /\ number_lang r).
Proof.
  unfold is_negative_number. split.
  - destruct (utf8_valid s); [|discriminate].
    destruct (strip_prefix s [DASH]) as [r|] eqn:E; [|discriminate].
    apply strip_prefix_spec in E. intros H. exists r. split; [exact E|apply is_number_sound; exact H].
  - intros [r [-> Hr]].
    assert (Hs : strip_prefix (DASH :: r) [DASH] = Some r) by (apply strip_prefix_spec; reflexivity).
    rewrite Hs.
    assert (U : utf8_valid (DASH :: r) = true).
    { apply ascii_valid. intros b [<-|Hb]; [unfold DASH; lia|exact (number_ascii r Hr b Hb)]. }
    rewrite U. apply is_number_complete; exact Hr.
Qed.

(** * 4. split_nonutf8_once and the ShortFlags invariant *)

Theorem split_nonutf8_once_spec b :
  exists p suf, split_nonutf8_once b = Ret (p, suf) /\
    p = firstn (valid_up_to b) b /\ utf8_valid p = true /\ b = p ++ suffix_bytes suf /\
    (suf = None <-> utf8_valid b = true) /\
    (forall s, suf = Some s -> s = skipn (valid_up_to b) b /\ s <> [] /\ utf8_step s = None).
Proof.
  unfold split_nonutf8_once. destruct (utf8_valid b) eqn:V.
  - exists b, None. split; [reflexivity|].
    assert (Hk : valid_up_to b = length b) by (apply Nat.eqb_eq; exact V).
    split; [rewrite Hk, firstn_all; reflexivity|]. split; [exact V|].
    split; [cbn [suffix_bytes]; rewrite app_nil_r; reflexivity|].
    split; [tauto|discriminate].
  - unfold split_at. pose proof (valid_up_to_le b) as Hle.
    apply Nat.leb_le in Hle. rewrite Hle. rewrite (valid_prefix_is_valid b).
    exists (firstn (valid_up_to b) b), (Some (skipn (valid_up_to b) b)).
    split; [reflexivity|]. split; [reflexivity|]. split; [apply valid_prefix_is_valid|].
    split; [cbn [suffix_bytes]; rewrite firstn_skipn; reflexivity|].
    split; [split; [discriminate|congruence]|].
    intros s Hs. inversion Hs; subst. split; [reflexivity|].
    split; [|apply step_after_valid_prefix].
    intros Hnil. apply utf8_valid_iff in Hnil. congruence.
Qed.

(** [sf_inv r st]: [st] is a consistent state of the [ShortFlags] of the cluster [r]. *)
Record sf_inv (r : bytes) (st : sflags) : Prop := {
  inv_inner : sf_inner st = r;
  inv_rest : utf8_valid (sf_rest st) = true;
  inv_suffix : forall s, sf_suffix st = Some s -> s <> [] /\ utf8_step s = None;
  inv_off : sf_rest st <> [] ->
            (sf_off st <= length r)%nat /\ skipn (sf_off st) r = sf_unread st /\
            utf8_valid (firstn (sf_off st) r) = true
}.

Theorem sf_new_spec r :
  exists st, sf_new r = Ret st /\ sf_inv r st /\ sf_unread st = r /\
    sf_rest st = firstn (valid_up_to r) r /\
    sf_suffix st = (if utf8_valid r then None else Some (skipn (valid_up_to r) r)).
Proof.
  unfold sf_new. destruct (split_nonutf8_once_spec r) as [p [suf [E [Hp [Vp [Hr [Hnone Hsome]]]]]]].
  rewrite E. eexists. split; [reflexivity|].
  assert (Hun : sf_unread {| sf_inner := r; sf_off := 0; sf_rest := p; sf_suffix := suf |} = r).
  { unfold sf_unread. cbn [sf_rest sf_suffix]. symmetry. exact Hr. }
  split; [|split; [exact Hun|split; [exact Hp|]]].
  - split; cbn [sf_inner sf_rest sf_suffix sf_off].
    + reflexivity.
    + exact Vp.
    + intros s Hs. destruct (Hsome s Hs) as [_ H]. exact H.
    + intros _. split; [lia|]. split; [cbn [skipn]; rewrite Hun; reflexivity|reflexivity].
  - cbn [sf_suffix]. destruct (utf8_valid r) eqn:V.
    + apply Hnone. reflexivity.
    + destruct suf as [s|]; [destruct (Hsome s eq_refl) as [-> _]; reflexivity|].
      destruct Hnone as [Hn _]. specialize (Hn eq_refl). congruence.
Qed.

Lemma sf_new_no_panic r : sf_new r <> Panic.
Proof. destruct (sf_new_spec r) as [st [E _]]. rewrite E. discriminate. Qed.

Lemma unread_invalid rest s :
  utf8_valid rest = true -> s <> [] -> utf8_step s = None -> utf8_valid (rest ++ s) = false.
Proof.
  intros V Hs E. unfold utf8_valid. apply Nat.eqb_neq.
  rewrite (proj1 (valid_app rest s V)), (valid_up_to_stop s E), app_length.
  destruct s; [congruence|cbn [length]; lia].
Qed.

(** ** one [next_flag] on the struct = one [next_flag] on the unread bytes *)
Lemma next_flag_sim r st : sf_inv r st ->
  exists st' o, sf_next_flag st = (st', Ret o) /\
    u_next_flag (sf_unread st) = (sf_unread st', o) /\ sf_inv r st'.
Proof.
  intros [Hin Hv Hsuf Hoff]. unfold sf_next_flag, ci_next.
  destruct (sf_rest st) as [|b0 t] eqn:Er.
  - (* prefix exhausted *)
    destruct (sf_suffix st) as [s|] eqn:Es.
    + destruct (Hsuf s eq_refl) as [Hne Hstep].
      eexists; eexists. split; [reflexivity|].
      unfold sf_unread. cbn [sf_rest sf_suffix]. rewrite Er, Es. cbn [app suffix_bytes].
      unfold u_next_flag. rewrite Hstep. destruct s; [congruence|]. split; [reflexivity|].
      split; cbn [sf_inner sf_rest sf_suffix sf_off].
      * exact Hin.
      * reflexivity.
      * discriminate.
      * congruence.
    + exists st, None. split; [reflexivity|].
      unfold sf_unread. rewrite Er, Es. cbn [app suffix_bytes]. split; [reflexivity|].
      split; [exact Hin|rewrite Er; reflexivity|rewrite Es; discriminate|rewrite Er; congruence].
  - (* a scalar value is left in the prefix *)
    rewrite <- Er in *.
    assert (Hne : sf_rest st <> []) by (rewrite Er; discriminate).
    destruct (utf8_valid_nonempty _ Hv Hne) as [c [n E]]. rewrite E.
    pose proof (utf8_step_len _ _ _ E) as Hn.
    eexists; eexists. split; [reflexivity|].
    unfold sf_unread at 1 2. cbn [sf_rest sf_suffix].
    unfold u_next_flag. rewrite (utf8_step_app _ (suffix_bytes (sf_suffix st)) c n E).
    assert (Hsk : skipn n (sf_rest st ++ suffix_bytes (sf_suffix st))
                  = skipn n (sf_rest st) ++ suffix_bytes (sf_suffix st)).
    { rewrite skipn_app. replace (n - length (sf_rest st))%nat with O by lia. reflexivity. }
    rewrite Hsk. split; [reflexivity|].
    destruct (Hoff Hne) as [Hle [Hskip Hpre]].
    split; cbn [sf_inner sf_rest sf_suffix sf_off].
    + exact Hin.
    + exact (utf8_valid_skip _ c n Hv E).
    + exact Hsuf.
    + intros _. unfold sf_unread in *. cbn [sf_rest sf_suffix].
      assert (Hlen : (sf_off st + n <= length r)%nat).
      { apply (f_equal (@length N)) in Hskip. rewrite skipn_length, app_length in Hskip. lia. }
      split; [exact Hlen|]. split.
      * rewrite <- skipn_add. rewrite Hskip. exact Hsk.
      * assert (Hf : firstn (sf_off st + n) r = firstn (sf_off st) r ++ firstn n (sf_rest st)).
        { rewrite <- (firstn_skipn (sf_off st) r) at 1.
          rewrite firstn_app, firstn_length, Nat.min_l by lia.
          rewrite firstn_firstn, Nat.min_r by lia.
          replace (sf_off st + n - sf_off st)%nat with n by lia.
          rewrite Hskip. rewrite firstn_app.
          replace (n - length (sf_rest st))%nat with O by lia. cbn [firstn].
          rewrite app_nil_r. reflexivity. }
        rewrite Hf. apply utf8_valid_app; [exact Hpre|exact (utf8_valid_char _ c n E)].
Qed.

Lemma next_value_sim r st : sf_inv r st ->
  exists st' o, sf_next_value_os st = (st', Ret o) /\
    u_next_value_os (sf_unread st) = (sf_unread st', o) /\ sf_inv r st' /\ sf_unread st' = [].
Proof.
  intros [Hin Hv Hsuf Hoff]. unfold sf_next_value_os, ci_next.
  destruct (sf_rest st) as [|b0 t] eqn:Er.
  - destruct (sf_suffix st) as [s|] eqn:Es.
    + destruct (Hsuf s eq_refl) as [Hne Hstep].
      eexists; eexists. split; [reflexivity|].
      unfold sf_unread. cbn [sf_rest sf_suffix]. rewrite Er, Es. cbn [app suffix_bytes].
      unfold u_next_value_os. destruct s; [congruence|]. split; [reflexivity|].
      split; [|reflexivity].
      split; cbn [sf_inner sf_rest sf_suffix sf_off].
      * exact Hin.
      * reflexivity.
      * discriminate.
      * congruence.
    + exists st, None. split; [reflexivity|].
      unfold sf_unread. rewrite Er, Es. cbn [app suffix_bytes]. split; [reflexivity|].
      split; [|reflexivity].
      split; [exact Hin|rewrite Er; reflexivity|rewrite Es; discriminate|rewrite Er; congruence].
  - rewrite <- Er in *.
    assert (Hne : sf_rest st <> []) by (rewrite Er; discriminate).
    destruct (utf8_valid_nonempty _ Hv Hne) as [c [n E]]. rewrite E.
    destruct (Hoff Hne) as [Hle [Hskip Hpre]].
    unfold split_at. rewrite Hin. apply Nat.leb_le in Hle. rewrite Hle.
    eexists; eexists. split; [reflexivity|]. rewrite Hskip.
    unfold u_next_value_os.
    destruct (sf_unread st) as [|x u] eqn:Eu.
    { exfalso. unfold sf_unread in Eu. apply app_eq_nil in Eu. tauto. }
    unfold sf_unread at 1. cbn [sf_rest sf_suffix app]. split; [reflexivity|].
    split; [|reflexivity].
    split; cbn [sf_inner sf_rest sf_suffix sf_off].
    + reflexivity.
    + reflexivity.
    + discriminate.
    + congruence.
Qed.

Lemma is_empty_sim r st : sf_inv r st -> sf_is_empty st = is_empty (sf_unread st).
Proof.
  intros [Hin Hv Hsuf Hoff]. unfold sf_is_empty, sf_unread.
  destruct (sf_suffix st) as [s|] eqn:Es; cbn [is_none andb suffix_bytes].
  - destruct (Hsuf s eq_refl) as [Hne _]. destruct (sf_rest st); destruct s; try congruence; reflexivity.
  - rewrite app_nil_r. reflexivity.
Qed.

Lemma is_neg_sim r st : sf_inv r st -> sf_is_negative_number st = u_is_negative_number (sf_unread st).
Proof.
  intros [Hin Hv Hsuf Hoff]. unfold sf_is_negative_number, u_is_negative_number, sf_unread.
  destruct (sf_suffix st) as [s|] eqn:Es; cbn [is_none suffix_bytes].
  - destruct (Hsuf s eq_refl) as [Hne Hstep]. rewrite (unread_invalid _ s Hv Hne Hstep). reflexivity.
  - rewrite app_nil_r, Hv. reflexivity.
Qed.

Lemma advance_sim r : forall fuel n i st, sf_inv r st ->
  exists st' o, sf_advance_loop fuel n i st = (st', o) /\
    u_advance_loop fuel n i (sf_unread st) = (sf_unread st', o) /\ sf_inv r st' /\ o <> AdvPanic.
Proof.
  induction fuel as [|f IH]; intros n i st Hinv; cbn [sf_advance_loop u_advance_loop].
  - destruct (i <? n); eexists; eexists; (split; [reflexivity|]); (split; [reflexivity|]);
      (split; [exact Hinv|discriminate]).
  - destruct (i <? n).
    + destruct (next_flag_sim r st Hinv) as [st' [o [E1 [E2 Hinv']]]]. rewrite E1, E2.
      destruct o as [[c|s]|].
      * apply IH. exact Hinv'.
      * eexists; eexists. split; [reflexivity|]. split; [reflexivity|]. split; [exact Hinv'|discriminate].
      * eexists; eexists. split; [reflexivity|]. split; [reflexivity|]. split; [exact Hinv'|discriminate].
    + eexists; eexists. split; [reflexivity|]. split; [reflexivity|]. split; [exact Hinv|discriminate].
Qed.

Lemma drain_sim r : forall fuel st, sf_inv r st -> sf_drain fuel st = Ret (u_drain fuel (sf_unread st)).
Proof.
  induction fuel as [|f IH]; intros st Hinv; cbn [sf_drain u_drain]; [reflexivity|].
  destruct (next_flag_sim r st Hinv) as [st' [o [E1 [E2 Hinv']]]]. rewrite E1, E2.
  destruct o as [x|]; [|reflexivity].
  rewrite (IH st' Hinv'). destruct (u_drain f (sf_unread st')); reflexivity.
Qed.

(** ** every operation: same output, related successor, invariant kept, no panic *)
Theorem step_sim r st o : sf_inv r st ->
  u_step (sf_unread st) o = (sf_unread (fst (sf_step st o)), snd (sf_step st o)) /\
  sf_inv r (fst (sf_step st o)) /\ snd (sf_step st o) <> SPanic.
Proof.
  intros Hinv. destruct o as [| |n| | |]; cbn [sf_step u_step].
  - destruct (next_flag_sim r st Hinv) as [st' [o [E1 [E2 Hinv']]]]. rewrite E1, E2. cbn [fst snd].
    split; [reflexivity|]. split; [exact Hinv'|discriminate].
  - destruct (next_value_sim r st Hinv) as [st' [o [E1 [E2 [Hinv' _]]]]]. rewrite E1, E2. cbn [fst snd].
    split; [reflexivity|]. split; [exact Hinv'|discriminate].
  - unfold sf_advance_by, u_advance_by, adv_fuel.
    destruct (advance_sim r (S (length (sf_unread st))) n 0 st Hinv) as [st' [o [E1 [E2 [Hinv' Hnp]]]]].
    rewrite E1, E2. destruct o; cbn [fst snd]; try (split; [reflexivity|]; split; [exact Hinv'|discriminate]).
    congruence.
  - rewrite (is_empty_sim r st Hinv). cbn [fst snd]. split; [reflexivity|]. split; [exact Hinv|discriminate].
  - rewrite (is_neg_sim r st Hinv). unfold u_is_negative_number.
    destruct (utf8_valid (sf_unread st)).
    + pose proof (is_number_no_panic (sf_unread st)) as Hnp.
      destruct (is_number (sf_unread st)); [congruence|]. cbn [fst snd].
      split; [reflexivity|]. split; [exact Hinv|discriminate].
    + cbn [fst snd]. split; [reflexivity|]. split; [exact Hinv|discriminate].
  - unfold drain_fuel. rewrite (drain_sim r _ st Hinv).
    destruct (u_drain (S (S (length (sf_unread st)))) (sf_unread st)); cbn [fst snd];
      (split; [reflexivity|]; split; [exact Hinv|discriminate]).
Qed.

Theorem run_sim r : forall ops st, sf_inv r st ->
  sf_run st ops = u_run (sf_unread st) ops /\
  sf_unread (sf_steps st ops) = u_steps (sf_unread st) ops /\
  sf_inv r (sf_steps st ops) /\ ~ In SPanic (sf_run st ops).
Proof.
  induction ops as [|o ops IH]; intros st Hinv; cbn [sf_run u_run sf_steps u_steps].
  - split; [reflexivity|]. split; [reflexivity|]. split; [exact Hinv|intros []].
  - destruct (step_sim r st o Hinv) as [E [Hinv' Hnp]]. rewrite E. cbn [fst].
    destruct (sf_step st o) as [st' out]. cbn [fst snd] in *.
    destruct (IH st' Hinv') as [H1 [H2 [H3 H4]]].
    split; [rewrite H1; reflexivity|]. split; [exact H2|]. split; [exact H3|].
    intros [H|H]; [exact (Hnp H)|exact (H4 H)].
Qed.

(** * 5. The fuel of the model's loops always suffices *)

Lemma u_next_flag_shrinks u u' c : u_next_flag u = (u', Some (FOk c)) -> (length u' < length u)%nat.
Proof.
  unfold u_next_flag. destruct (utf8_step u) as [[c' n]|] eqn:E.
  - intros H; inversion H; subst. pose proof (utf8_step_len _ _ _ E). rewrite skipn_length. lia.
  - destruct u; intros H; inversion H.
Qed.

Lemma u_next_flag_err u u' s : u_next_flag u = (u', Some (FErr s)) -> u' = [].
Proof.
  unfold u_next_flag. destruct (utf8_step u) as [[c' n]|] eqn:E; [intros H; inversion H|].
  destruct u; intros H; inversion H; reflexivity.
Qed.

Lemma u_advance_total : forall fuel n i u, (length u < fuel)%nat ->
  snd (u_advance_loop fuel n i u) <> AdvOutOfFuel /\ snd (u_advance_loop fuel n i u) <> AdvPanic.
Proof.
  induction fuel as [|f IH]; intros n i u Hf; [lia|]. cbn [u_advance_loop].
  destruct (i <? n); [|cbn [snd]; split; discriminate].
  destruct (u_next_flag u) as [u' [[c|s]|]] eqn:E; try (cbn [snd]; split; discriminate).
  apply IH. apply u_next_flag_shrinks in E. lia.
Qed.

Lemma u_drain_total : forall fuel u, (length u + 1 < fuel)%nat -> u_drain fuel u <> None.
Proof.
  induction fuel as [|f IH]; intros u Hf; [lia|]. cbn [u_drain].
  destruct (u_next_flag u) as [u' [[c|s]|]] eqn:E; [| |discriminate].
  - apply u_next_flag_shrinks in E. specialize (IH u' ltac:(lia)).
    destruct (u_drain f u'); [discriminate|congruence].
  - apply u_next_flag_err in E. subst u'. destruct f as [|f]; [cbn [length] in Hf; lia|].
    cbn [u_drain u_next_flag utf8_step]. discriminate.
Qed.

Lemma u_step_total u o : snd (u_step u o) <> SOutOfFuel /\ snd (u_step u o) <> SPanic.
Proof.
  destruct o as [| |n| | |]; cbn [u_step].
  - destruct (u_next_flag u). cbn [snd]. split; discriminate.
  - destruct (u_next_value_os u). cbn [snd]. split; discriminate.
  - unfold u_advance_by. destruct (u_advance_total (S (length u)) n 0 u ltac:(lia)) as [H1 H2].
    destruct (u_advance_loop (S (length u)) n 0 u) as [u' [| | |]]; cbn [snd] in *;
      try (split; discriminate); congruence.
  - cbn [snd]. split; discriminate.
  - unfold u_is_negative_number. destruct (utf8_valid u); [|cbn [snd]; split; discriminate].
    pose proof (is_number_no_panic u). destruct (is_number u); [congruence|cbn [snd]; split; discriminate].
  - pose proof (u_drain_total (S (S (length u))) u ltac:(lia)) as H.
    destruct (u_drain (S (S (length u))) u); [cbn [snd]; split; discriminate|congruence].
Qed.

Lemma u_run_total : forall ops u, ~ In SOutOfFuel (u_run u ops) /\ ~ In SPanic (u_run u ops).
Proof.
  induction ops as [|o ops IH]; intros u; cbn [u_run]; [split; intros []|].
  destruct (u_step_total u o) as [H1 H2]. destruct (u_step u o) as [u' out]. cbn [snd] in *.
  destruct (IH u') as [I1 I2]. split; intros [H|H]; auto.
Qed.

(** * 6. Walking a cluster *)

(** the expected items: the scalar values of the longest well-formed prefix, then the tail once *)
Definition walk (r : bytes) : list flag_out :=
  map FOk (decode (firstn (valid_up_to r) r)) ++
  match skipn (valid_up_to r) r with [] => [] | s => [FErr s] end.

Lemma walk_step u c n : utf8_step u = Some (c, n) -> walk u = FOk c :: walk (skipn n u).
Proof.
  intros E. unfold walk. rewrite !decode_valid_prefix.
  rewrite (decode_step u c n E), (valid_up_to_step u c n E). rewrite <- skipn_add. reflexivity.
Qed.

Lemma walk_stop u : utf8_step u = None -> walk u = match u with [] => [] | _ => [FErr u] end.
Proof.
  intros E. unfold walk. rewrite (valid_up_to_stop u E). cbn [firstn skipn].
  destruct u; reflexivity.
Qed.

Definition flag_outs (l : list flag_out) : list sout := map (fun x => SFlag (Some x)) l.

Theorem u_walk : forall n u,
  u_run u (repeat NextFlag n) =
  firstn n (flag_outs (walk u)) ++ repeat (SFlag None) (n - length (walk u)).
Proof.
  induction n as [|n IH]; intros u; [reflexivity|].
  cbn [repeat u_run u_step]. unfold u_next_flag.
  destruct (utf8_step u) as [[c k]|] eqn:E.
  - rewrite (walk_step u c k E). cbn [flag_outs map firstn length Nat.sub app]. rewrite IH. reflexivity.
  - rewrite (walk_stop u E). destruct u as [|b t].
    + cbn [flag_outs map firstn length Nat.sub app repeat]. rewrite IH.
      rewrite (walk_stop [] eq_refl). cbn [flag_outs map length]. rewrite firstn_nil, Nat.sub_0_r.
      reflexivity.
    + cbn [flag_outs map firstn length Nat.sub app]. rewrite IH.
      rewrite (walk_stop [] eq_refl). cbn [flag_outs map length]. rewrite firstn_nil, Nat.sub_0_r.
      reflexivity.
Qed.

Theorem short_walk r st0 n : sf_new r = Ret st0 ->
  sf_run st0 (repeat NextFlag n) =
  firstn n (flag_outs (walk r)) ++ repeat (SFlag None) (n - length (walk r)).
Proof.
  intros E. destruct (sf_new_spec r) as [st [E' [Hinv [Hun _]]]].
  rewrite E in E'. inversion E'; subst st.
  destruct (run_sim r (repeat NextFlag n) st0 Hinv) as [H _]. rewrite H, Hun. apply u_walk.
Qed.

Lemma u_drain_walk : forall fuel u, (length u + 1 < fuel)%nat -> u_drain fuel u = Some (walk u).
Proof.
  induction fuel as [|f IH]; intros u Hf; [lia|]. cbn [u_drain]. unfold u_next_flag.
  destruct (utf8_step u) as [[c k]|] eqn:E.
  - pose proof (utf8_step_len _ _ _ E) as Hk.
    rewrite (walk_step u c k E). rewrite IH; [reflexivity|]. rewrite skipn_length. lia.
  - rewrite (walk_stop u E). destruct u as [|b t]; [reflexivity|].
    destruct f as [|f]; [cbn [length] in Hf; lia|]. reflexivity.
Qed.

(** a clone, drained, lists exactly what is left to walk, and leaves the original alone *)
Theorem clone_drain r st0 ops : sf_new r = Ret st0 ->
  sf_step (sf_steps st0 ops) CloneDrain =
  (sf_steps st0 ops, SDrain (walk (sf_unread (sf_steps st0 ops)))).
Proof.
  intros E. destruct (sf_new_spec r) as [st [E' [Hinv _]]].
  rewrite E in E'. inversion E'; subst st.
  destruct (run_sim r ops st0 Hinv) as [_ [_ [Hinv' _]]].
  cbn [sf_step]. unfold drain_fuel. rewrite (drain_sim r _ _ Hinv').
  rewrite u_drain_walk by lia. reflexivity.
Qed.

(** * 7. [next_value_os] returns exactly the unread bytes *)

Definition value_of (u : bytes) : option bytes := match u with [] => None | _ => Some u end.

(** after any history whatsoever *)
Theorem next_value_any r st0 ops : sf_new r = Ret st0 ->
  let st := sf_steps st0 ops in
  exists st', sf_next_value_os st = (st', Ret (value_of (sf_unread st))) /\
    sf_unread st = u_steps r ops /\
    sf_unread st' = [] /\ sf_is_empty st' = true /\
    snd (sf_next_flag st') = Ret None /\ snd (sf_next_value_os st') = Ret None.
Proof.
  intros E st. destruct (sf_new_spec r) as [st1 [E' [Hinv [Hun _]]]].
  rewrite E in E'. inversion E'; subst st1.
  destruct (run_sim r ops st0 Hinv) as [_ [Hu [Hinv' _]]]. fold st in Hu, Hinv'.
  destruct (next_value_sim r st Hinv') as [st' [o [E1 [E2 [Hinv'' Hnil]]]]].
  exists st'. rewrite E1. split.
  - f_equal. f_equal. unfold u_next_value_os in E2. unfold value_of.
    destruct (sf_unread st); inversion E2; reflexivity.
  - split; [rewrite Hu, Hun; reflexivity|]. split; [exact Hnil|].
    split; [rewrite (is_empty_sim r st' Hinv''), Hnil; reflexivity|].
    destruct (next_flag_sim r st' Hinv'') as [s2 [o2 [F1 [F2 _]]]].
    destruct (next_value_sim r st' Hinv'') as [s3 [o3 [G1 [G2 _]]]].
    rewrite Hnil in F2, G2. rewrite F1, G1. cbn [snd].
    unfold u_next_flag in F2. cbn [utf8_step] in F2. inversion F2.
    unfold u_next_value_os in G2. inversion G2. split; reflexivity.
Qed.

(** the bytes consumed by [k] successful [next_flag] calls are the encodings of the first [k]
    scalar values, and the rest is what is unread *)
Lemma u_consumed : forall k r, (k <= length (decode r))%nat ->
  r = concat (map utf8_encode (firstn k (decode r))) ++ u_steps r (repeat NextFlag k).
Proof.
  induction k as [|k IH]; intros r Hk; [reflexivity|].
  destruct (utf8_step r) as [[c n]|] eqn:E.
  - rewrite (decode_step r c n E) in *. cbn [length] in Hk.
    cbn [firstn map concat repeat u_steps u_step]. unfold u_next_flag. rewrite E. cbn [fst].
    rewrite <- app_assoc. rewrite <- (IH (skipn n r)) by lia.
    destruct (utf8_step_encode r c n E) as [He _]. rewrite <- He. symmetry. apply firstn_skipn.
  - rewrite (decode_stop r E) in Hk. cbn [length] in Hk. lia.
Qed.

Theorem next_value_after_k r st0 k : sf_new r = Ret st0 -> (k <= length (decode r))%nat ->
  let st := sf_steps st0 (repeat NextFlag k) in
  exists unread st',
    r = concat (map utf8_encode (firstn k (decode r))) ++ unread /\
    sf_next_value_os st = (st', Ret (value_of unread)) /\
    sf_unread st' = [] /\ sf_is_empty st' = true /\
    snd (sf_next_flag st') = Ret None /\ snd (sf_next_value_os st') = Ret None.
Proof.
  intros E Hk st.
  destruct (next_value_any r st0 (repeat NextFlag k) E) as [st' [H1 [H2 H3]]]. fold st in H1, H2.
  exists (sf_unread st), st'. split; [rewrite H2; apply u_consumed; exact Hk|].
  split; [exact H1|exact H3].
Qed.

(** * 8. Every interleaving: consumed ++ unread = the cluster *)

Definition out_bytes (o : sout) : bytes :=
  match o with
  | SFlag (Some (FOk c)) => utf8_encode c
  | SFlag (Some (FErr s)) => s
  | SValue (Some v) => v
  | _ => []
  end.

Definition is_advance (o : sop) : bool := match o with Advance _ => true | _ => false end.

Lemma u_next_flag_piece u u' o : u_next_flag u = (u', o) -> u = out_bytes (SFlag o) ++ u'.
Proof.
  unfold u_next_flag. destruct (utf8_step u) as [[c n]|] eqn:E.
  - intros H; inversion H; subst. cbn [out_bytes].
    destruct (utf8_step_encode u c n E) as [He _]. rewrite <- He. symmetry. apply firstn_skipn.
  - destruct u; intros H; inversion H; subst; cbn [out_bytes]; [reflexivity|].
    symmetry. apply app_nil_r.
Qed.

Lemma u_advance_piece : forall fuel n i u,
  exists piece, u = piece ++ fst (u_advance_loop fuel n i u).
Proof.
  induction fuel as [|f IH]; intros n i u; cbn [u_advance_loop].
  - destruct (i <? n); exists []; reflexivity.
  - destruct (i <? n); [|exists []; reflexivity].
    destruct (u_next_flag u) as [u' o] eqn:E. pose proof (u_next_flag_piece u u' o E) as Hp.
    destruct o as [[c|s]|]; try (eexists; cbn [fst]; exact Hp).
    destruct (IH n (i + 1) u') as [p2 Hp2]. exists (out_bytes (SFlag (Some (FOk c))) ++ p2).
    rewrite <- app_assoc, <- Hp2. exact Hp.
Qed.

Lemma u_step_piece u o :
  exists piece, u = piece ++ fst (u_step u o) /\
                (is_advance o = false -> piece = out_bytes (snd (u_step u o))).
Proof.
  destruct o as [| |n| | |]; cbn [u_step is_advance].
  - destruct (u_next_flag u) as [u' o] eqn:E. cbn [fst snd]. eexists. split; [|reflexivity].
    exact (u_next_flag_piece u u' o E).
  - unfold u_next_value_os. destruct u as [|b t]; cbn [fst snd out_bytes].
    + exists []. split; reflexivity.
    + eexists. split; [|reflexivity]. symmetry. apply app_nil_r.
  - unfold u_advance_by. destruct (u_advance_piece (S (length u)) n 0 u) as [p Hp].
    exists p. split; [|discriminate].
    destruct (u_advance_loop (S (length u)) n 0 u) as [u' [| | |]]; exact Hp.
  - exists []. split; reflexivity.
  - exists []. destruct (u_is_negative_number u); split; reflexivity.
  - exists []. destruct (u_drain (S (S (length u))) u); split; reflexivity.
Qed.

Lemma u_accounting : forall ops u,
  exists consumed, consumed ++ u_steps u ops = u /\
    (forallb (fun o => negb (is_advance o)) ops = true ->
     consumed = concat (map out_bytes (u_run u ops))).
Proof.
  induction ops as [|o ops IH]; intros u; cbn [u_steps u_run].
  - exists []. split; reflexivity.
  - destruct (u_step_piece u o) as [p [Hp Hpo]].
    destruct (u_step u o) as [u' out] eqn:E. cbn [fst snd] in *.
    destruct (IH u') as [c [Hc Hco]]. exists (p ++ c). split.
    + rewrite <- app_assoc, Hc. symmetry. exact Hp.
    + cbn [forallb]. intros H. apply andb_true_iff in H. destruct H as [Ho Hops].
      apply negb_true_iff in Ho. cbn [map concat]. rewrite (Hpo Ho), (Hco Hops). reflexivity.
Qed.

Theorem any_interleaving r st0 ops : sf_new r = Ret st0 ->
  sf_run st0 ops = u_run r ops /\
  sf_unread (sf_steps st0 ops) = u_steps r ops /\
  ~ In SPanic (sf_run st0 ops) /\ ~ In SOutOfFuel (sf_run st0 ops) /\
  exists consumed, consumed ++ sf_unread (sf_steps st0 ops) = r /\
    (forallb (fun o => negb (is_advance o)) ops = true ->
     consumed = concat (map out_bytes (sf_run st0 ops))).
Proof.
  intros E. destruct (sf_new_spec r) as [st [E' [Hinv [Hun _]]]].
  rewrite E in E'. inversion E'; subst st.
  destruct (run_sim r ops st0 Hinv) as [H1 [H2 [_ H4]]]. rewrite Hun in H1, H2.
  split; [exact H1|]. split; [exact H2|]. split; [exact H4|].
  split; [rewrite H1; apply (u_run_total ops r)|].
  rewrite H1, H2. apply u_accounting.
Qed.

(** * 9. The indices handed to the unsafe [split_at] *)

Theorem boundary_split_once b :
  (valid_up_to b <= length b)%nat /\ utf8_valid (firstn (valid_up_to b) b) = true /\
  split_at b (valid_up_to b) = Ret (firstn (valid_up_to b) b, skipn (valid_up_to b) b) /\
  split_nonutf8_once b <> Panic.
Proof.
  pose proof (valid_up_to_le b) as Hle. split; [exact Hle|]. split; [apply valid_prefix_is_valid|].
  split.
  - unfold split_at. apply Nat.leb_le in Hle. rewrite Hle. reflexivity.
  - destruct (split_nonutf8_once_spec b) as [p [suf [E _]]]. rewrite E. discriminate.
Qed.

Theorem boundary_next_value r st0 ops idx c st' : sf_new r = Ret st0 ->
  ci_next (sf_steps st0 ops) = Ret (Some (idx, c, st')) ->
  sf_inner (sf_steps st0 ops) = r /\ (idx <= length r)%nat /\
  utf8_valid (firstn idx r) = true /\ skipn idx r = sf_unread (sf_steps st0 ops) /\
  (exists n, utf8_step (skipn idx r) = Some (c, n)).
Proof.
  intros E. destruct (sf_new_spec r) as [st [E' [Hinv _]]].
  rewrite E in E'. inversion E'; subst st.
  destruct (run_sim r ops st0 Hinv) as [_ [_ [[Hin Hv Hsuf Hoff] _]]].
  set (st := sf_steps st0 ops) in *. unfold ci_next.
  destruct (sf_rest st) as [|b0 t] eqn:Er; [discriminate|]. rewrite <- Er in *.
  assert (Hne : sf_rest st <> []) by (rewrite Er; discriminate).
  destruct (utf8_step (sf_rest st)) as [[c' n]|] eqn:Es; [|discriminate].
  intros H. injection H as Hidx Hc _. subst idx c'. destruct (Hoff Hne) as [Hle [Hskip Hpre]].
  split; [exact Hin|]. split; [exact Hle|]. split; [exact Hpre|]. split; [exact Hskip|].
  exists n. rewrite Hskip. unfold sf_unread. apply utf8_step_app. exact Es.
Qed.

(** [ci_next] never meets a malformed [str] (the "UB" branch of the model is dead) *)
Theorem ci_next_no_panic r st0 ops : sf_new r = Ret st0 -> ci_next (sf_steps st0 ops) <> Panic.
Proof.
  intros E. destruct (sf_new_spec r) as [st [E' [Hinv _]]].
  rewrite E in E'. inversion E'; subst st.
  destruct (run_sim r ops st0 Hinv) as [_ [_ [[Hin Hv Hsuf Hoff] _]]].
  unfold ci_next. destruct (sf_rest (sf_steps st0 ops)) as [|b0 t] eqn:Er; [discriminate|].
  rewrite <- Er in *. assert (Hne : sf_rest (sf_steps st0 ops) <> []) by (rewrite Er; discriminate).
  destruct (utf8_valid_nonempty _ Hv Hne) as [c [n Es]]. rewrite Es. discriminate.
Qed.

(** * 10. No panic site of the modelled functions is reachable *)

Lemma short_of_arg_no_panic s : short_of_arg s <> Panic.
Proof.
  unfold short_of_arg. pose proof (cf_short_nopanic s (classes s)) as H.
  destruct (to_short s) as [|[r|]]; [congruence| |discriminate].
  pose proof (sf_new_no_panic r). destruct (sf_new r); [congruence|discriminate].
Qed.

Theorem no_panic s :
  to_long s <> Panic /\ to_short s <> Panic /\ is_number s <> Panic /\
  is_negative_number s <> Panic /\ split_nonutf8_once s <> Panic /\ sf_new s <> Panic /\
  short_of_arg s <> Panic.
Proof.
  split; [exact (cf_long_nopanic s (classes s))|]. split; [exact (cf_short_nopanic s (classes s))|].
  split; [apply is_number_no_panic|]. split; [apply is_negative_number_no_panic|].
  split; [apply boundary_split_once|]. split; [apply sf_new_no_panic|apply short_of_arg_no_panic].
Qed.

(** Non-vacuity: a cluster with a two-byte scalar value and a broken tail. *)
Example short_example :
  exists st0, sf_new [97; 195; 169; 255] = Ret st0 /\
    sf_run st0 [IsEmpty; NextFlag; CloneDrain; NextFlag; NextValue; IsEmpty; NextFlag]
    = [SBool false; SFlag (Some (FOk 97)); SDrain [FOk 233; FErr [255]]; SFlag (Some (FOk 233));
       SValue (Some [255]); SBool true; SFlag None].
Proof. eexists. split; vm_compute; reflexivity. Qed.

(** [classes], spelled out *)
Theorem classes_spelled s :
  (is_escape s = true ->
     is_long s = false /\ is_short s = false /\ to_long s = Ret None /\ to_short s = Ret None) /\
  (is_stdio s = true ->
     is_long s = false /\ is_short s = false /\ to_long s = Ret None /\ to_short s = Ret None) /\
  (is_long s = true <-> exists x, to_long s = Ret (Some x)) /\
  (is_short s = true <-> exists r, to_short s = Ret (Some r)) /\
  (is_long s = true -> is_short s = false) /\
  count_true [is_empty s; is_stdio s; is_escape s; is_long s; is_short s; is_plain s] = 1%nat.
Proof.
  destruct (classes s) as [H1 H2 H3 H4 H5 _ _ H8].
  split; [exact H1|]. split; [exact H2|]. split; [exact H3|]. split; [exact H4|].
  split; [exact H5|exact H8].
Qed.

(** satisfiability of the hypotheses used above *)
Example classes_examples :
  is_escape [45; 45] = true /\ is_stdio [45] = true /\ is_long [45; 45; 97] = true /\
  is_short [45; 97] = true /\ is_plain [97] = true /\ is_empty [] = true.
Proof. vm_compute. repeat split; reflexivity. Qed.
