(** Model of [clap_lex::ParsedArg] and [clap_lex::ShortFlags] (clap_lex/src/lib.rs),
    one function per Rust function, same branch structure (property C13).

    An argument is a byte string ([OsStr] on Unix).  Every panic site of the Rust
    code is a visible [Panic]: the [debug_assert!]s in [to_long]/[to_short], the
    [unwrap] in [split_nonutf8_once], the bounds check of [slice::split_at], the
    unsigned subtraction [arg.len() - 1] in [is_number], and the library invariant
    "a [&str] is well-formed UTF-8" on which [CharIndices::next] relies (that is
    what the two [unsafe] re-slicings must preserve). *)
From ClapModel Require Import Base.Bytes Base.Utf8 Lex.OsStrExtModel.
Open Scope N_scope.

Inductive res (A : Type) := Panic | Ret (a : A).
Arguments Panic {A}.
Arguments Ret {A} a.

Definition DASH : N := 45.   (* '-' *)
Definition EQ : N := 61.     (* '=' *)

(** * ParsedArg *)

Definition is_empty (s : bytes) : bool := match s with [] => true | _ => false end.
Definition is_stdio (s : bytes) : bool := beq s [DASH].
Definition is_escape (s : bytes) : bool := beq s [DASH; DASH].

(** [to_value]: [Ok(&str)] iff the bytes are well-formed UTF-8 (the payload is [s] either way). *)
Definition to_value_ok (s : bytes) : bool := utf8_valid s.

Definition is_digit (c : N) : bool := (48 <=? c) && (c <=? 57).
Definition is_e (c : N) : bool := (c =? 101) || (c =? 69).
Definition is_none {A} (o : option A) : bool := match o with None => true | Some _ => false end.

(** The [for (i, c) in arg.as_bytes().iter().enumerate()] loop of [is_number]:
    [None] = the early [return false]; [Some pe] = loop finished with [position_of_e = pe]. *)
Fixpoint is_number_loop (l : bytes) (i : nat) (seen_dot : bool) (position_of_e : option nat)
  : option (option nat) :=
  match l with
  | [] => Some position_of_e
  | c :: t =>
    if is_digit c then is_number_loop t (S i) seen_dot position_of_e
    else if (c =? 46) && negb seen_dot && is_none position_of_e && (0 <? i)%nat
      then is_number_loop t (S i) true position_of_e
    else if is_e c && is_none position_of_e && (0 <? i)%nat
      then is_number_loop t (S i) seen_dot (Some i)
    else None
  end.

(** [Some(i) => i != arg.len() - 1]: the subtraction underflows (debug panic) on the empty string. *)
Definition is_number (s : bytes) : res bool :=
  match is_number_loop s 0 false None with
  | None => Ret false
  | Some None => Ret true
  | Some (Some i) =>
      match length s with
      | O => Panic
      | S m => Ret (negb (Nat.eqb i m))
      end
  end.

(** [self.to_value().ok().and_then(|s| Some(is_number(s.strip_prefix('-')?))).unwrap_or_default()] *)
Definition is_negative_number (s : bytes) : res bool :=
  if utf8_valid s then
    match strip_prefix s [DASH] with
    | Some r => is_number r
    | None => Ret false
    end
  else Ret false.

(** [to_long]: [Some((flag, flag.to_str().is_some(), value))]. *)
Definition to_long (s : bytes) : res (option (bytes * bool * option bytes)) :=
  match strip_prefix s [DASH; DASH] with
  | None => Ret None
  | Some remainder =>
    if is_empty remainder then
      (if is_escape s then Ret None else Panic)            (* debug_assert!(self.is_escape()) *)
    else
      let '(flag, value) :=
        match split_once remainder [EQ] with
        | Some (p0, p1) => (p0, Some p1)
        | None => (remainder, None)
        end in
      Ret (Some (flag, utf8_valid flag, value))
  end.

Definition is_long (s : bytes) : bool := starts_with s [DASH; DASH] && negb (is_escape s).

(** [to_short]: the remainder handed to [ShortFlags::new]. *)
Definition to_short (s : bytes) : res (option bytes) :=
  match strip_prefix s [DASH] with
  | Some remainder =>
    if starts_with remainder [DASH] then Ret None
    else if is_empty remainder then
      (if is_stdio s then Ret None else Panic)             (* debug_assert!(self.is_stdio()) *)
    else Ret (Some remainder)
  | None => Ret None
  end.

Definition is_short (s : bytes) : bool :=
  starts_with s [DASH] && negb (is_stdio s) && negb (starts_with s [DASH; DASH]).

(** * split_nonutf8_once *)

(** [ext::split_at] = [slice::split_at]: panics when [index > len]. *)
Definition split_at (b : bytes) (index : nat) : res (bytes * bytes) :=
  if (index <=? length b)%nat then Ret (firstn index b, skipn index b) else Panic.

(** [try_str] is [std::str::from_utf8]; on error [valid_up_to] is the length of the longest
    well-formed prefix.  The [unwrap] is the second [try_str] on that prefix. *)
Definition split_nonutf8_once (b : bytes) : res (bytes * option bytes) :=
  if utf8_valid b then Ret (b, None)
  else
    match split_at b (valid_up_to b) with
    | Panic => Panic
    | Ret (valid, after_valid) =>
      if utf8_valid valid then Ret (valid, Some after_valid) else Panic   (* .unwrap() *)
    end.

(** * ShortFlags, faithful to the Rust struct

    [sf_inner]  = [inner: &OsStr]
    [sf_off], [sf_rest] = [utf8_prefix: CharIndices] ([front_offset], [as_str()])
    [sf_suffix] = [invalid_suffix: Option<&OsStr>] *)
Record sflags := { sf_inner : bytes; sf_off : nat; sf_rest : bytes; sf_suffix : option bytes }.

Definition sf_new (inner : bytes) : res sflags :=
  match split_nonutf8_once inner with
  | Panic => Panic
  | Ret (p, suf) => Ret {| sf_inner := inner; sf_off := 0; sf_rest := p; sf_suffix := suf |}
  end.

(** [CharIndices::next]: the index of the next char, the char, and the advanced iterator.
    [Chars::next] decodes without checking: on a [&str] that is not well-formed the behaviour
    is undefined, which the model shows as [Panic]. *)
Definition ci_next (st : sflags) : res (option (nat * N * sflags)) :=
  match sf_rest st with
  | [] => Ret None
  | _ :: _ =>
    match utf8_step (sf_rest st) with
    | None => Panic
    | Some (c, n) =>
      Ret (Some (sf_off st, c,
                 {| sf_inner := sf_inner st; sf_off := (sf_off st + n)%nat;
                    sf_rest := skipn n (sf_rest st); sf_suffix := sf_suffix st |}))
    end
  end.

Inductive flag_out := FOk (c : N) | FErr (suffix : bytes).

Definition sf_next_flag (st : sflags) : sflags * res (option flag_out) :=
  match ci_next st with
  | Panic => (st, Panic)
  | Ret (Some (_, flag, st')) => (st', Ret (Some (FOk flag)))
  | Ret None =>
    match sf_suffix st with
    | Some suffix =>
      ({| sf_inner := sf_inner st; sf_off := sf_off st; sf_rest := sf_rest st; sf_suffix := None |},
       Ret (Some (FErr suffix)))
    | None => (st, Ret None)
    end
  end.

Definition sf_next_value_os (st : sflags) : sflags * res (option bytes) :=
  match ci_next st with
  | Panic => (st, Panic)
  | Ret (Some (index, _, _)) =>
    (* utf8_prefix = "".char_indices(); invalid_suffix = None; split_at(inner, index).1 *)
    match split_at (sf_inner st) index with
    | Panic => (st, Panic)
    | Ret (_, remainder) =>
      ({| sf_inner := sf_inner st; sf_off := 0; sf_rest := []; sf_suffix := None |},
       Ret (Some remainder))
    end
  | Ret None =>
    match sf_suffix st with
    | Some suffix =>
      ({| sf_inner := sf_inner st; sf_off := sf_off st; sf_rest := sf_rest st; sf_suffix := None |},
       Ret (Some suffix))
    | None => (st, Ret None)
    end
  end.

Inductive adv_out := AdvOk | AdvErr (i : N) | AdvPanic | AdvOutOfFuel.

(** [for i in 0..n { self.next().ok_or(i)?.map_err(|_| i)?; }]  The Rust loop has no fuel;
    the model is given [fuel] ([adv_fuel] below always suffices: [advance_total]). *)
Fixpoint sf_advance_loop (fuel : nat) (n i : N) (st : sflags) : sflags * adv_out :=
  if i <? n then
    match fuel with
    | O => (st, AdvOutOfFuel)
    | S f =>
      match sf_next_flag st with
      | (st', Panic) => (st', AdvPanic)
      | (st', Ret None) => (st', AdvErr i)
      | (st', Ret (Some (FErr _))) => (st', AdvErr i)
      | (st', Ret (Some (FOk _))) => sf_advance_loop f n (i + 1) st'
      end
    end
  else (st, AdvOk).

(** The unread bytes of a faithful state. *)
Definition suffix_bytes (o : option bytes) : bytes := match o with Some s => s | None => [] end.
Definition sf_unread (st : sflags) : bytes := sf_rest st ++ suffix_bytes (sf_suffix st).

Definition adv_fuel (st : sflags) : nat := S (length (sf_unread st)).

Definition sf_advance_by (n : N) (st : sflags) : sflags * adv_out :=
  sf_advance_loop (adv_fuel st) n 0 st.

Definition sf_is_empty (st : sflags) : bool :=
  is_none (sf_suffix st) && is_empty (sf_rest st).

Definition sf_is_negative_number (st : sflags) : res bool :=
  if is_none (sf_suffix st) then is_number (sf_rest st) else Ret false.

(** [let mut c = self.clone(); while let Some(x) = c.next_flag() { .. }]: the items of a clone. *)
Fixpoint sf_drain (fuel : nat) (st : sflags) : res (option (list flag_out)) :=
  match fuel with
  | O => Ret None                                   (* out of fuel *)
  | S f =>
    match sf_next_flag st with
    | (_, Panic) => Panic
    | (_, Ret None) => Ret (Some [])
    | (st', Ret (Some x)) =>
      match sf_drain f st' with
      | Ret (Some l) => Ret (Some (x :: l))
      | other => other
      end
    end
  end.

Definition drain_fuel (st : sflags) : nat := S (S (length (sf_unread st))).

Inductive sop := NextFlag | NextValue | Advance (n : N) | IsEmpty | IsNeg | CloneDrain.
Inductive sout :=
| SFlag (o : option flag_out) | SValue (o : option bytes) | SAdv (e : option N)
| SBool (b : bool) | SDrain (l : list flag_out) | SPanic | SOutOfFuel.

Definition sf_step (st : sflags) (o : sop) : sflags * sout :=
  match o with
  | NextFlag =>
    match sf_next_flag st with
    | (st', Ret r) => (st', SFlag r)
    | (st', Panic) => (st', SPanic)
    end
  | NextValue =>
    match sf_next_value_os st with
    | (st', Ret r) => (st', SValue r)
    | (st', Panic) => (st', SPanic)
    end
  | Advance n =>
    match sf_advance_by n st with
    | (st', AdvOk) => (st', SAdv None)
    | (st', AdvErr i) => (st', SAdv (Some i))
    | (st', AdvPanic) => (st', SPanic)
    | (st', AdvOutOfFuel) => (st', SOutOfFuel)
    end
  | IsEmpty => (st, SBool (sf_is_empty st))
  | IsNeg =>
    match sf_is_negative_number st with
    | Ret b => (st, SBool b)
    | Panic => (st, SPanic)
    end
  | CloneDrain =>
    match sf_drain (drain_fuel st) st with
    | Ret (Some l) => (st, SDrain l)
    | Ret None => (st, SOutOfFuel)
    | Panic => (st, SPanic)
    end
  end.

Fixpoint sf_run (st : sflags) (ops : list sop) : list sout :=
  match ops with
  | [] => []
  | o :: rest => let '(st', out) := sf_step st o in out :: sf_run st' rest
  end.

Fixpoint sf_steps (st : sflags) (ops : list sop) : sflags :=
  match ops with
  | [] => st
  | o :: rest => sf_steps (fst (sf_step st o)) rest
  end.

(** * ShortFlags as "the unread bytes" (the representation the parser model uses) *)

Definition u_next_flag (u : bytes) : bytes * option flag_out :=
  match utf8_step u with
  | Some (c, n) => (skipn n u, Some (FOk c))
  | None => match u with
            | [] => (u, None)
            | _ :: _ => ([], Some (FErr u))
            end
  end.

Definition u_next_value_os (u : bytes) : bytes * option bytes :=
  match u with
  | [] => (u, None)
  | _ :: _ => ([], Some u)
  end.

Fixpoint u_advance_loop (fuel : nat) (n i : N) (u : bytes) : bytes * adv_out :=
  if i <? n then
    match fuel with
    | O => (u, AdvOutOfFuel)
    | S f =>
      match u_next_flag u with
      | (u', None) => (u', AdvErr i)
      | (u', Some (FErr _)) => (u', AdvErr i)
      | (u', Some (FOk _)) => u_advance_loop f n (i + 1) u'
      end
    end
  else (u, AdvOk).

Definition u_advance_by (n : N) (u : bytes) : bytes * adv_out :=
  u_advance_loop (S (length u)) n 0 u.

Definition u_is_negative_number (u : bytes) : res bool :=
  if utf8_valid u then is_number u else Ret false.

Fixpoint u_drain (fuel : nat) (u : bytes) : option (list flag_out) :=
  match fuel with
  | O => None
  | S f =>
    match u_next_flag u with
    | (_, None) => Some []
    | (u', Some x) => match u_drain f u' with Some l => Some (x :: l) | None => None end
    end
  end.

Definition u_step (u : bytes) (o : sop) : bytes * sout :=
  match o with
  | NextFlag => let '(u', r) := u_next_flag u in (u', SFlag r)
  | NextValue => let '(u', r) := u_next_value_os u in (u', SValue r)
  | Advance n =>
    match u_advance_by n u with
    | (u', AdvOk) => (u', SAdv None)
    | (u', AdvErr i) => (u', SAdv (Some i))
    | (u', AdvPanic) => (u', SPanic)
    | (u', AdvOutOfFuel) => (u', SOutOfFuel)
    end
  | IsEmpty => (u, SBool (is_empty u))
  | IsNeg => match u_is_negative_number u with Ret b => (u, SBool b) | Panic => (u, SPanic) end
  | CloneDrain =>
    match u_drain (S (S (length u))) u with
    | Some l => (u, SDrain l)
    | None => (u, SOutOfFuel)
    end
  end.

Fixpoint u_run (u : bytes) (ops : list sop) : list sout :=
  match ops with
  | [] => []
  | o :: rest => let '(u', out) := u_step u o in out :: u_run u' rest
  end.

Fixpoint u_steps (u : bytes) (ops : list sop) : bytes :=
  match ops with
  | [] => u
  | o :: rest => u_steps (fst (u_step u o)) rest
  end.

(** [-x...] handed to the lexer: the [ShortFlags] of an argument, when it has one. *)
Definition short_of_arg (arg : bytes) : res (option sflags) :=
  match to_short arg with
  | Panic => Panic
  | Ret None => Ret None
  | Ret (Some r) => match sf_new r with Panic => Panic | Ret st => Ret (Some st) end
  end.
