(** C01 (2): which rich errors (Errors/RenderModel.v) an error of the PARSER MODEL stands for, and the
    theorem "every error the parser model can return is built by one of the modelled constructors, and
    rendering it does not panic and produces the specific message".

    The parser model's [error] carries the kind and the offending argument/token only; it does not say which
    of two constructors of one kind was used ([argument_conflict] / [subcommand_conflict]; the four of the
    unknown-token triage, whose choice depends on [strsim::jaro]).  [rich_alternatives e] lists, per kind,
    every constructor the parse path uses for that kind, applied to placeholder contents (the usage string is
    present: the [usage] feature is on, [create_usage_with_title] returns [Some]); the correspondence run
    compares the ordered context kinds / value shapes / message form of the implementation's error with these
    (vp/props/c01.py, stream errctx). *)
From Coq Require Import ZArith Ascii String.
From ClapModel Require Import Base.Bytes Base.Machine Base.Utf8.
From ClapModel Require Import Parse.Cmd Parse.Build Parse.Valid Parse.Errors Parse.Parser.
From ClapModel Require Import Errors.RenderModel ParseProofs.SitesComplete.
From RecordUpdate Require Import RecordSet.
Import RecordSetNotations.
Import ListNotations.
Open Scope N_scope.

Definition D : cmd := cmd_new [].
Definition U : option bytes := Some [].
Definition done_list {A} (r : rr A) : list A := match r with Done a => [a] | Panic _ => [] end.

Definition rich_of_kind (k : ekind) (a : bytes) : list rerror :=
  match k with
  | EInvalidValue => [invalid_value D [] [] a None]
  | EUnknownArgument => [unknown_argument D a None false U; unnecessary_double_dash D a U]
  | EInvalidSubcommand => [invalid_subcommand D a [] [] false U; unrecognized_subcommand D a U]
  | ENoEquals => [no_equals D a U]
  | EValueValidation => [value_validation D a [] []]
  | ETooManyValues => [too_many_values D [] a U]
  | ETooFewValues => [too_few_values D a 0 0 U]
  | EWrongNumberOfValues => [wrong_number_of_values D a 0 0 U]
  | EArgumentConflict => done_list (argument_conflict D a [] U) ++ done_list (subcommand_conflict D a [] U)
  | EMissingRequiredArgument => [missing_required_argument D [a] U]
  | EMissingSubcommand => [missing_subcommand D a [] U]
  | EInvalidUtf8 => [invalid_utf8 D U]
  | EDisplayHelp => [display_help D []]
  | EDisplayHelpOnMissing => [display_help_error D []]
  | EDisplayVersion => [display_version D []]
  | EIo | EFormat => []
  end.
Definition rich_alternatives (e : error) : list rerror :=
  rich_of_kind (e_kind e) (e_arg e)
  ++ match e_alt e with Some k => rich_of_kind k (e_arg e) | None => [] end.

Lemma rich_of_kind_constructed k a r : In r (rich_of_kind k a) -> constructed r /\ r_kind r = k.
Proof.
  destruct k; cbn [rich_of_kind In]; intros H;
    repeat match goal with
           | H : _ \/ _ |- _ => destruct H as [H|H]
           | H : False |- _ => destruct H
           end;
    try (subst r; split; [constructor|reflexivity]).
  (* ArgumentConflict *)
  apply in_app_or in H. destruct H as [H|H].
  - destruct (argument_conflict D a [] U) as [e|s] eqn:E; [|destruct H].
    destruct H as [<-|[]]. split; [eapply K_argument_conflict; exact E|].
    unfold argument_conflict in E. cbn in E. inversion E. reflexivity.
  - destruct (subcommand_conflict D a [] U) as [e|s] eqn:E; [|destruct H].
    destruct H as [<-|[]]. split; [eapply K_subcommand_conflict; exact E|].
    unfold subcommand_conflict in E. cbn in E. inversion E. reflexivity.
Qed.

Lemma rich_of_kind_nonempty k a : parser_kind k = true -> rich_of_kind k a <> [].
Proof. destruct k; cbn; intros H; try discriminate. Qed.

(** MAIN: for EVERY definition (any class) and token list, an error outcome of the parser model
    (1) stands for at least one rich error, each built by a constructor of error/mod.rs that the parse path calls;
    (2) rendering any of them does not panic, whatever [str::fmt::Debug] does;
    (3) where a specific message is expected (no pre-formatted message, kind is not InvalidUtf8), the context the
        constructor attached is the context [write_dynamic_context] asks for: it returns [true]. *)
Theorem parser_errors_render c0 toks e : do_parse c0 toks = OErr e ->
  rich_alternatives e <> []
  /\ forall r, In r (rich_alternatives e) ->
       constructed r
       /\ (r_kind r = e_kind e \/ Some (r_kind r) = e_alt e)
       /\ (forall dbg s, render dbg r <> Panic s)
       /\ (rich_expected r = true -> forall dbg, exists txt, write_dynamic_context dbg r = Done (true, txt)).
Proof.
  intros H. pose proof (parser_error_kinds _ _ _ H) as Hk. split.
  - unfold rich_alternatives. intros E. apply app_eq_nil in E. destruct E as [E _].
    exact (rich_of_kind_nonempty _ _ Hk E).
  - intros r Hin. unfold rich_alternatives in Hin. apply in_app_or in Hin.
    assert (Hc : constructed r /\ (r_kind r = e_kind e \/ Some (r_kind r) = e_alt e)).
    { destruct Hin as [Hin|Hin].
      - destruct (rich_of_kind_constructed _ _ _ Hin) as [Hc Hkk]. split; [exact Hc|left; exact Hkk].
      - destruct (e_alt e) as [k|]; [|destruct Hin].
        destruct (rich_of_kind_constructed _ _ _ Hin) as [Hc Hkk]. split; [exact Hc|right; rewrite Hkk; reflexivity]. }
    destruct Hc as [Hc Hkk]. split; [exact Hc|]. split; [exact Hkk|]. split.
    + intros dbg s. apply render_total.
    + intros Hr dbg. apply constructed_rich; assumption.
Qed.

(** what the model driver prints for an error: per alternative, message form and ordered (kind, shape) *)
Definition msg_form (r : rerror) : N := match r_msg r with None => 0 | Some (MRaw _) => 1 | Some (MFormatted _) => 2 end.
Definition ckind_index (k : ckind) : N :=
  match k with
  | CInvalidSubcommand => 0 | CInvalidArg => 1 | CPriorArg => 2 | CValidSubcommand => 3 | CValidValue => 4
  | CInvalidValue => 5 | CActualNumValues => 6 | CExpectedNumValues => 7 | CMinValues => 8 | CSuggestedCommand => 9
  | CSuggestedSubcommand => 10 | CSuggestedArg => 11 | CSuggestedValue => 12 | CTrailingArg => 13 | CSuggested => 14
  | CUsage => 15 | CCustom => 16 end.
Definition shape_index (s : vshape) : N :=
  match s with ShNone => 0 | ShBool => 1 | ShString => 2 | ShStrings => 3 | ShStyled => 4 | ShStyleds => 5 | ShNumber => 6 end.
(** (message form, [(ContextKind index in enum order, ContextValue variant index)], rich message expected) *)
Definition error_signature (e : error) : list (N * list (N * N) * bool) :=
  List.map (fun r => (msg_form r, List.map (fun p => (ckind_index (fst p), shape_index (snd p))) (ctx_shapes r), rich_expected r))
           (rich_alternatives e).

(** the same without the texts (what is extracted: the constructor functions build strings, and an extracted
    [String] module would shadow OCaml's): a literal table computed from the constructors, proved equal *)
Definition sig_of (r : rerror) : N * list (N * N) * bool :=
  (msg_form r, List.map (fun p => (ckind_index (fst p), shape_index (snd p))) (ctx_shapes r), rich_expected r).
Definition kind_index (k : ekind) : nat :=
  match k with
  | EInvalidValue => 0 | EUnknownArgument => 1 | EInvalidSubcommand => 2 | ENoEquals => 3 | EValueValidation => 4
  | ETooManyValues => 5 | ETooFewValues => 6 | EWrongNumberOfValues => 7 | EArgumentConflict => 8
  | EMissingRequiredArgument => 9 | EMissingSubcommand => 10 | EInvalidUtf8 => 11 | EDisplayHelp => 12
  | EDisplayHelpOnMissing => 13 | EDisplayVersion => 14 | EIo => 15 | EFormat => 16 end%nat.
Definition sig_table : list (list (N * list (N * N) * bool)) :=
  Eval vm_compute in List.map (fun k => List.map sig_of (rich_of_kind k [])) all_kinds.
Definition sig_of_kind (k : ekind) := nth (kind_index k) sig_table [].
Definition error_signature_table (e : error) : list (N * list (N * N) * bool) :=
  sig_of_kind (e_kind e) ++ match e_alt e with Some k => sig_of_kind k | None => [] end.
Lemma sig_of_kind_ok k a : List.map sig_of (rich_of_kind k a) = sig_of_kind k.
Proof. destruct k; reflexivity. Qed.
Theorem error_signature_table_ok e : error_signature_table e = error_signature e.
Proof.
  unfold error_signature_table, error_signature, rich_alternatives. fold sig_of.
  rewrite List.map_app, sig_of_kind_ok. destruct (e_alt e); [rewrite sig_of_kind_ok|]; reflexivity.
Qed.

(** non-vacuity: a concrete definition and argv whose outcome is an error (TooManyValues for `--flag=v`), with the
    signature the driver prints *)
Example renders_example :
  let f := (arg_new [102]) <| a_long := Some [102] |> <| a_action := Some ASetTrue |> in
  let c0 := (cmd_new [112]) <| c_args := [f] |> in
  exists e, do_parse c0 [[45; 45; 102; 61; 118]] = OErr e /\ e_kind e = ETooManyValues
            /\ error_signature e = [(0, [(1, 2); (5, 2); (15, 4)], true)].
Proof. vm_compute. eexists. repeat split. Qed.

Lemma conflict_ctors_total : forall c x others usage,
  (exists e, argument_conflict c x others usage = Done e) /\ (exists e, subcommand_conflict c x others usage = Done e).
Proof. intros c x o u. split; [apply argument_conflict_total|apply subcommand_conflict_total]. Qed.

Lemma parser_error_kinds_ne : forall c0 toks e,
  do_parse c0 toks = OErr e -> e_kind e <> EIo /\ e_kind e <> EFormat.
Proof.
  intros c0 toks e H. pose proof (parser_error_kinds c0 toks e H) as K.
  split; intros E; rewrite E in K; discriminate K.
Qed.
