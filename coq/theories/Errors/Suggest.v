(** C10: suggestions ([parser/features/suggestions.rs]: [did_you_mean], [did_you_mean_flag]) and
    their three call sites ([Parser::did_you_mean_error], [Parser::match_arg_error],
    [Error::invalid_value]).

    The similarity [strsim::jaro] is *not* modelled: every definition and theorem below is
    parametric in an arbitrary function [sim : bytes -> bytes -> Q] (a Section variable), so
    "suggestions only name things that exist" holds whatever the similarity is.  For the
    correspondence run the driver instantiates [sim] with a table of exact rationals computed
    by the python side. *)
From ClapModel Require Import Base.Bytes Parse.Cmd Parse.Build.
From Coq Require Import QArith List Bool Sorting.Sorted.
Import ListNotations.

Section Sim.
Variable sim : bytes -> bytes -> Q.

(** [confidence > 0.7] *)
Definition threshold : Q := 7 # 10.
Definition q_gt (a b : Q) : bool := negb (Qle_bool a b).

(** [candidates.binary_search_by(|probe| if probe.0 > confidence {Greater} else {Less})
    .unwrap_or_else(|e| e)] followed by [insert(pos, ..)].  The comparator never answers
    [Equal], so the search returns [Err(pos)]; on a vector sorted by ascending confidence the
    predicate [probe.0 > confidence] is monotone and [pos] is its partition point: the index of
    the first element whose confidence is greater.  ([dym_sorted] shows the vector is always
    sorted, so the linear scan below and the binary search agree.) *)
Fixpoint insert_cand (conf : Q) (pv : bytes) (l : list (Q * bytes)) : list (Q * bytes) :=
  match l with
  | [] => [(conf, pv)]
  | (c, p) :: t => if q_gt c conf then (conf, pv) :: l else (c, p) :: insert_cand conf pv t
  end.

Definition dym_step (v : bytes) (acc : list (Q * bytes)) (pv : bytes) : list (Q * bytes) :=
  let confidence := sim v pv in
  if q_gt confidence threshold then insert_cand confidence pv acc else acc.

Definition dym_scored (v : bytes) (possible_values : list bytes) : list (Q * bytes) :=
  fold_left (dym_step v) possible_values [].

(** [did_you_mean] *)
Definition did_you_mean (v : bytes) (possible_values : list bytes) : list bytes :=
  map snd (dym_scored v possible_values).

(** [Vec::pop] *)
Definition pop_last {A} (l : list A) : option A := last (map Some l) None.

(** [Iterator::position] *)
Fixpoint position {A} (f : A -> bool) (l : list A) : option nat :=
  match l with
  | [] => None
  | x :: t => if f x then Some O else match position f t with Some n => Some (S n) | None => None end
  end.

(** [Iterator::min_by_key]: the first of the minimal elements *)
Fixpoint min_by_key {A} (l : list (nat * A)) : option (nat * A) :=
  match l with
  | [] => None
  | (k, a) :: t =>
      match min_by_key t with
      | Some (k', a') => if Nat.ltb k' k then Some (k', a') else Some (k, a)
      | None => Some (k, a)
      end
  end.

(** [did_you_mean_flag]: [longs] are the long keys of the current command, [subcommands] the
    pairs (name, long keys after [_build_self]) of its subcommands, [remaining_args] the
    arguments not yet consumed. *)
Definition did_you_mean_flag (arg : bytes) (remaining_args : list bytes) (longs : list bytes)
           (subcommands : list (bytes * list bytes)) : option (bytes * option bytes) :=
  match pop_last (did_you_mean arg longs) with
  | Some candidate => Some (candidate, None)
  | None =>
      opt_map snd
        (min_by_key
           (Cmd.filter_map (fun sc : bytes * list bytes =>
              match pop_last (did_you_mean arg (snd sc)) with
              | None => None
              | Some candidate =>
                  match position (beq (fst sc)) remaining_args with
                  | None => None
                  | Some score => Some (score, (candidate, Some (fst sc)))
                  end
              end) subcommands))
  end.

(** ** the call sites *)
(** [Parser::did_you_mean_error] on the built command [c]: the suggestion it puts into
    [ContextKind::SuggestedArg] (second component [None]) or into the "'<sub> --<flag>' exists"
    hint (second component [Some sub]). *)
Definition flag_suggestion (c : cmd) (arg : bytes) (remaining_args : list bytes) : option (bytes * option bytes) :=
  did_you_mean_flag arg remaining_args (long_keys c)
                    (map (fun s => (c_name s, long_keys (build_self s))) (c_subs c)).
(** [Parser::match_arg_error]: [ContextKind::SuggestedSubcommand] *)
Definition subcommand_suggestions (c : cmd) (tok : bytes) : list bytes :=
  did_you_mean tok (all_subcommand_names c).
(** [Error::invalid_value]: [ContextKind::SuggestedValue] *)
Definition value_suggestion (bad_val : bytes) (good_vals : list bytes) : option bytes :=
  pop_last (did_you_mean bad_val good_vals).

(** ** proofs *)
Lemma insert_cand_in conf pv l x : In x (insert_cand conf pv l) <-> x = (conf, pv) \/ In x l.
Proof.
  induction l as [|[c p] t IH]; cbn.
  - split; [intros [H|[]]; left; symmetry; exact H | intros [H|[]]; left; symmetry; exact H].
  - destruct (q_gt c conf); cbn.
    + split; [intros [H|H]; [left; symmetry; exact H|right; exact H]
             |intros [H|H]; [left; symmetry; exact H|right; exact H]].
    + rewrite IH. tauto.
Qed.

Lemma dym_scored_in_gen v cands : forall acc x,
  In x (fold_left (dym_step v) cands acc) <->
  In x acc \/ (In (snd x) cands /\ fst x = sim v (snd x) /\ q_gt (sim v (snd x)) threshold = true).
Proof.
  induction cands as [|pv t IH]; intros acc x; cbn [fold_left].
  - cbn. tauto.
  - rewrite IH. unfold dym_step. destruct (q_gt (sim v pv) threshold) eqn:E.
    + rewrite insert_cand_in. cbn [In]. split.
      * intros [[->|H]|H]; [right; cbn; repeat split; [left; reflexivity|exact E]|left; exact H|].
        right. destruct H as [H1 H2]. split; [right; exact H1|exact H2].
      * intros [H|[[H1|H1] [H2 H3]]]; [left; right; exact H| |right; repeat split; assumption].
        left; left. destruct x as [q p]. cbn in *. subst. reflexivity.
    + cbn [In]. split.
      * intros [H|[H1 H2]]; [left; exact H|right; split; [right; exact H1|exact H2]].
      * intros [H|[[H1|H1] [H2 H3]]]; [left; exact H| |right; repeat split; assumption].
        subst pv. rewrite E in H3. discriminate H3.
Qed.

(** exactly the candidates whose similarity exceeds the threshold, nothing else *)
Theorem dym_iff v cands p :
  In p (did_you_mean v cands) <-> In p cands /\ q_gt (sim v p) threshold = true.
Proof.
  unfold did_you_mean, dym_scored. rewrite in_map_iff. split.
  - intros [[q p'] [Hp Hin]]. cbn in Hp. subst p'. apply dym_scored_in_gen in Hin.
    destruct Hin as [[]|[H1 [_ H3]]]. cbn in *. split; assumption.
  - intros [H1 H2]. exists (sim v p, p). split; [reflexivity|].
    apply dym_scored_in_gen. right. cbn. repeat split; assumption.
Qed.

(** suggestions are drawn from the candidates, for every similarity function *)
Theorem dym_subset v cands p : In p (did_you_mean v cands) -> In p cands.
Proof. intros H. apply dym_iff in H. exact (proj1 H). Qed.

(** the vector is sorted by ascending confidence at every step *)
Definition conf_le (a b : Q * bytes) : Prop := Qle (fst a) (fst b).

Lemma q_gt_false a b : q_gt a b = false -> Qle a b.
Proof. unfold q_gt. intros H. apply negb_false_iff in H. apply Qle_bool_iff. exact H. Qed.
Lemma q_gt_true a b : q_gt a b = true -> Qlt b a.
Proof.
  unfold q_gt. intros H. apply negb_true_iff in H. apply Qnot_le_lt. intros Hle.
  apply Qle_bool_iff in Hle. rewrite Hle in H. discriminate H.
Qed.

Lemma insert_cand_sorted conf pv l :
  StronglySorted conf_le l -> StronglySorted conf_le (insert_cand conf pv l).
Proof.
  induction l as [|[c p] t IH]; intros Hs; cbn.
  - constructor; constructor.
  - inversion Hs as [|? ? Ht Hall]; subst. destruct (q_gt c conf) eqn:E.
    + constructor; [exact Hs|]. constructor.
      * unfold conf_le; cbn. apply Qlt_le_weak, q_gt_true, E.
      * apply Forall_forall. intros y Hy. rewrite Forall_forall in Hall. specialize (Hall y Hy).
        unfold conf_le in *; cbn in *. eapply Qle_trans; [apply Qlt_le_weak, q_gt_true, E|exact Hall].
    + constructor; [apply IH, Ht|]. apply Forall_forall. intros y Hy.
      apply insert_cand_in in Hy. destruct Hy as [->|Hy].
      * unfold conf_le; cbn. apply q_gt_false, E.
      * rewrite Forall_forall in Hall. apply Hall, Hy.
Qed.

Theorem dym_sorted v cands : StronglySorted conf_le (dym_scored v cands).
Proof.
  unfold dym_scored.
  assert (H : forall acc, StronglySorted conf_le acc -> StronglySorted conf_le (fold_left (dym_step v) cands acc)).
  { induction cands as [|pv t IH]; intros acc Ha; cbn [fold_left]; [exact Ha|].
    apply IH. unfold dym_step. destruct (q_gt _ _); [apply insert_cand_sorted, Ha|exact Ha]. }
  apply H. constructor.
Qed.

Lemma pop_last_in {A} (l : list A) x : pop_last l = Some x -> In x l.
Proof.
  unfold pop_last. induction l as [|a t IH]; cbn; [discriminate|].
  destruct t as [|b t']; cbn in *.
  - intros H; injection H as ->. left; reflexivity.
  - intros H. right. apply IH. exact H.
Qed.

Lemma position_in {A} (f : A -> bool) l n : position f l = Some n -> exists x, In x l /\ f x = true.
Proof.
  revert n. induction l as [|a t IH]; cbn; [discriminate|]. intros n.
  destruct (f a) eqn:E.
  - intros _. exists a. split; [left; reflexivity|exact E].
  - destruct (position f t) as [k|]; [|discriminate]. intros _.
    destruct (IH k eq_refl) as [x [H1 H2]]. exists x. split; [right; exact H1|exact H2].
Qed.

Lemma min_by_key_in {A} (l : list (nat * A)) x : min_by_key l = Some x -> In x l.
Proof.
  revert x. induction l as [|[k a] t IH]; cbn [min_by_key]; [discriminate|]. intros x.
  destruct (min_by_key t) as [[k' a']|].
  - destruct (Nat.ltb k' k); intros H; injection H as <-; [right; apply IH; reflexivity|left; reflexivity].
  - intros H; injection H as <-. left; reflexivity.
Qed.

Lemma in_filter_map {A B} (f : A -> option B) l y : In y (Cmd.filter_map f l) -> exists x, In x l /\ f x = Some y.
Proof.
  induction l as [|a t IH]; cbn; [intros []|]. destruct (f a) eqn:E.
  - intros [<-|H]; [exists a; split; [left; reflexivity|exact E]|].
    destruct (IH H) as [x [H1 H2]]. exists x. split; [right; exact H1|exact H2].
  - intros H. destruct (IH H) as [x [H1 H2]]. exists x. split; [right; exact H1|exact H2].
Qed.

(** a suggested flag is a long of the current command, or a long of a subcommand that is named
    in the remaining arguments -- and that subcommand is one of the given ones *)
Theorem flag_sound arg rem longs subs f o :
  did_you_mean_flag arg rem longs subs = Some (f, o) ->
  match o with
  | None => In f longs
  | Some n => exists ls, In (n, ls) subs /\ In f ls /\ In n rem
  end.
Proof.
  unfold did_you_mean_flag. destruct (pop_last (did_you_mean arg longs)) as [cand|] eqn:E.
  - intros H; injection H as <- <-. apply (dym_subset arg). apply pop_last_in. exact E.
  - destruct (min_by_key _) as [[k [cand o']]|] eqn:Em; cbn; [|discriminate].
    intros H; injection H as <- <-.
    apply min_by_key_in in Em. apply in_filter_map in Em. destruct Em as [[n ls] [Hin Hf]].
    cbn [fst snd] in Hf. destruct (pop_last (did_you_mean arg ls)) as [cd|] eqn:Ec; [|discriminate].
    destruct (position (beq n) rem) as [sc|] eqn:Ep; [|discriminate].
    injection Hf as _ <- <-. exists ls. split; [exact Hin|]. split.
    + apply (dym_subset arg). apply pop_last_in. exact Ec.
    + destruct (position_in _ _ _ Ep) as [x [Hx Hb]]. apply beq_eq in Hb. subst x. exact Hx.
Qed.

End Sim.

(** ** what the long keys of a command are: longs and aliases of its (non-positional) arguments *)
Definition arg_has_long (a : arg) (l : bytes) : Prop :=
  a_long a = Some l \/ In l (map fst (a_aliases a)).

Lemma long_keys_defined c l : In l (long_keys c) -> exists a, In a (c_args c) /\ arg_has_long a l.
Proof.
  unfold long_keys, keymap. intros H. apply in_filter_map in H. destruct H as [[k a] [Hin Hk]].
  cbn in Hk. destruct k as [s|l'|n]; try discriminate. injection Hk as ->.
  apply in_flat_map in Hin. destruct Hin as [a0 [Ha0 Hin]]. apply in_map_iff in Hin.
  destruct Hin as [k [Hk Hkin]]. injection Hk as -> <-. exists a0. split; [exact Ha0|].
  unfold arg_keys in Hkin. destruct (a_index a0).
  - destruct Hkin as [H|[]]; discriminate H.
  - repeat (apply in_app_or in Hkin; destruct Hkin as [Hkin|Hkin]).
    + destruct (a_short a0); [destruct Hkin as [H|[]]; discriminate H|destruct Hkin].
    + destruct (a_long a0) as [lg|] eqn:El; [|destruct Hkin]. destruct Hkin as [H|[]]. injection H as ->.
      left. exact El.
    + apply in_map_iff in Hkin. destruct Hkin as [x [H _]]. discriminate H.
    + apply in_map_iff in Hkin. destruct Hkin as [x [H Hx]]. injection H as <-.
      right. apply in_map. exact Hx.
Qed.

Lemma all_subcommand_names_defined c n :
  In n (all_subcommand_names c) -> exists s, In s (c_subs c) /\ aliases_to s n = true.
Proof.
  unfold all_subcommand_names. intros H. apply in_flat_map in H. destruct H as [s [Hs Hn]].
  exists s. split; [exact Hs|]. unfold aliases_to. destruct Hn as [<-|Hn].
  - rewrite beq_refl. reflexivity.
  - apply orb_true_iff. right. apply existsb_exists. exists n. split; [exact Hn|apply beq_refl].
Qed.

(** ** the three call sites, for every similarity function *)
Theorem flag_suggestion_exists sim c arg rem f o :
  flag_suggestion sim c arg rem = Some (f, o) ->
  match o with
  | None => exists a, In a (c_args c) /\ arg_has_long a f
  | Some n => In n rem /\
              exists s, In s (c_subs c) /\ c_name s = n /\
                        exists a, In a (c_args (build_self s)) /\ arg_has_long a f
  end.
Proof.
  unfold flag_suggestion. intros H. apply flag_sound in H. destruct o as [n|].
  - destruct H as [ls [Hin [Hf Hr]]]. split; [exact Hr|].
    apply in_map_iff in Hin. destruct Hin as [s [Hs Hsin]]. injection Hs as <- <-.
    exists s. split; [exact Hsin|]. split; [reflexivity|]. apply long_keys_defined. exact Hf.
  - apply long_keys_defined. exact H.
Qed.

Theorem subcommand_suggestions_exist sim c tok n :
  In n (subcommand_suggestions sim c tok) -> exists s, In s (c_subs c) /\ aliases_to s n = true.
Proof. unfold subcommand_suggestions. intros H. apply dym_subset in H. apply all_subcommand_names_defined. exact H. Qed.

Theorem value_suggestion_exists sim bad good s :
  value_suggestion sim bad good = Some s -> In s good.
Proof. unfold value_suggestion. intros H. apply pop_last_in in H. apply dym_subset in H. exact H. Qed.

(** non-vacuity: with a similarity that likes everything, suggestions are produced *)
Local Open Scope N_scope.
Example dym_example :
  did_you_mean (fun _ _ => 1%Q) [116] [[97]; [98]] = [[97]; [98]].
Proof. reflexivity. Qed.
Example flag_example_sub :
  did_you_mean_flag (fun a b => if beq b [120] then 1%Q else 0%Q) [121] [[115]] [[122]] [([115], [[120]])]
  = Some ([120], Some [115]).
Proof. reflexivity. Qed.
