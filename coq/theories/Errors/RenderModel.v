(** C01 (2): "the error can always be rendered".

    Model of the error VALUE ([clap_builder/src/error/mod.rs]: kind, message [Raw | Formatted | none],
    context = ordered list of (ContextKind, ContextValue), source, help flag), of every constructor the
    parser / validator / built-in value parsers call (which context kinds each attaches, in which order,
    with which value shape), of [Error::render]/[formatted], [Message::formatted],
    [format_error_message], [RichFormatter::format_error], [write_dynamic_context], [write_values_list],
    [did_you_mean], [try_help], [put_usage], [get_help_flag] ([clap_builder/src/error/format.rs]).

    One Gallina function per Rust function, same branch structure; styles are the plain ones (every
    [{style}] / [{style:#}] renders to nothing), so the result is the text.  Panic sites are visible:
      - [Panic 276]: [others.pop().unwrap()] in [argument_conflict] / [subcommand_conflict] (mod.rs),
      - [Panic 175]: [error.kind().as_str().unwrap()] in the ArgumentConflict arm of
        [write_dynamic_context] (format.rs), the only unwrap/expect/index of format.rs
        ([ctx_format_sites_match], table regenerated from the source).
    External std function: [str_debug] = [<str as Debug>::fmt] used by [Escape] (Section variable). *)
From Coq Require Import ZArith Ascii String.   (* first: List's length/++ must stay the visible ones *)
From ClapModel Require Import Base.Bytes Base.Machine Base.Utf8.
From ClapModel Require Import Parse.Cmd Parse.Errors Parse.Parser.
From ClapModel Require Gen.ErrorCtx.
From RecordUpdate Require Import RecordSet.
Import RecordSetNotations.
Import ListNotations.
Open Scope N_scope.

(** ---------- strings of the Rust source as bytes ---------- *)
Definition bs (s : string) : bytes := List.map (fun a => N.of_nat (nat_of_ascii a)) (list_ascii_of_string s).
Definition z_to_dec (z : Z) : bytes :=
  match z with Zneg p => 45 :: n_to_dec (Npos p) | _ => n_to_dec (Z.to_N z) end.

(** ---------- the error value ---------- *)
Inductive ckind :=
| CInvalidSubcommand | CInvalidArg | CPriorArg | CValidSubcommand | CValidValue | CInvalidValue
| CActualNumValues | CExpectedNumValues | CMinValues | CSuggestedCommand | CSuggestedSubcommand
| CSuggestedArg | CSuggestedValue | CTrailingArg | CSuggested | CUsage | CCustom.
Definition all_ckinds : list ckind :=
  [CInvalidSubcommand; CInvalidArg; CPriorArg; CValidSubcommand; CValidValue; CInvalidValue;
   CActualNumValues; CExpectedNumValues; CMinValues; CSuggestedCommand; CSuggestedSubcommand;
   CSuggestedArg; CSuggestedValue; CTrailingArg; CSuggested; CUsage; CCustom].
Definition ckind_eqb (a b : ckind) : bool :=
  match a, b with
  | CInvalidSubcommand, CInvalidSubcommand | CInvalidArg, CInvalidArg | CPriorArg, CPriorArg
  | CValidSubcommand, CValidSubcommand | CValidValue, CValidValue | CInvalidValue, CInvalidValue
  | CActualNumValues, CActualNumValues | CExpectedNumValues, CExpectedNumValues | CMinValues, CMinValues
  | CSuggestedCommand, CSuggestedCommand | CSuggestedSubcommand, CSuggestedSubcommand
  | CSuggestedArg, CSuggestedArg | CSuggestedValue, CSuggestedValue | CTrailingArg, CTrailingArg
  | CSuggested, CSuggested | CUsage, CUsage | CCustom, CCustom => true
  | _, _ => false
  end.
Definition ckind_name (k : ckind) : string :=
  match k with
  | CInvalidSubcommand => "InvalidSubcommand" | CInvalidArg => "InvalidArg" | CPriorArg => "PriorArg"
  | CValidSubcommand => "ValidSubcommand" | CValidValue => "ValidValue" | CInvalidValue => "InvalidValue"
  | CActualNumValues => "ActualNumValues" | CExpectedNumValues => "ExpectedNumValues" | CMinValues => "MinValues"
  | CSuggestedCommand => "SuggestedCommand" | CSuggestedSubcommand => "SuggestedSubcommand"
  | CSuggestedArg => "SuggestedArg" | CSuggestedValue => "SuggestedValue" | CTrailingArg => "TrailingArg"
  | CSuggested => "Suggested" | CUsage => "Usage" | CCustom => "Custom"
  end%string.

(** [ContextValue]; a [StyledStr] is its text *)
Inductive cvalue :=
| VNone | VBool (b : bool) | VString (s : bytes) | VStrings (l : list bytes)
| VStyled (s : bytes) | VStyleds (l : list bytes) | VNumber (z : Z).
(** the shape only (what the correspondence run compares) *)
Inductive vshape := ShNone | ShBool | ShString | ShStrings | ShStyled | ShStyleds | ShNumber.
Definition shape_of (v : cvalue) : vshape :=
  match v with VNone => ShNone | VBool _ => ShBool | VString _ => ShString | VStrings _ => ShStrings
             | VStyled _ => ShStyled | VStyleds _ => ShStyleds | VNumber _ => ShNumber end.

Inductive message := MRaw (s : bytes) | MFormatted (s : bytes).

Record rerror := mkR {
  r_kind : ekind; r_ctx : list (ckind * cvalue); r_msg : option message;
  r_source : option bytes; r_help_flag : option bytes }.
#[export] Instance eta_rerror : Settable _ := settable! mkR <r_kind; r_ctx; r_msg; r_source; r_help_flag>.

Inductive rr (A : Type) := Done (a : A) | Panic (site : N).
Arguments Done {A}. Arguments Panic {A}.
Definition rr_bind {A B} (r : rr A) (f : A -> rr B) : rr B := match r with Done a => f a | Panic s => Panic s end.
Definition rr_expect {A} (site : N) (o : option A) : rr A := match o with Some a => Done a | None => Panic site end.

(** [FlatMap::get]: first entry with the key; [insert_unchecked]/[extend_unchecked] append *)
Fixpoint ctx_get (k : ckind) (l : list (ckind * cvalue)) : option cvalue :=
  match l with [] => None | (k', v) :: t => if ckind_eqb k' k then Some v else ctx_get k t end.
Definition eget (e : rerror) (k : ckind) := ctx_get k (r_ctx e).
Definition extend_context_unchecked (e : rerror) (l : list (ckind * cvalue)) := e <| r_ctx := r_ctx e ++ l |>.
Definition insert_context_unchecked (e : rerror) (k : ckind) (v : cvalue) := e <| r_ctx := r_ctx e ++ [(k, v)] |>.

(** [ErrorKind::as_str] (error/kind.rs); [kind_has_msg_match] ties the Some/None column to the source *)
Definition kind_as_str (k : ekind) : option bytes :=
  match k with
  | EInvalidValue => Some (bs "one of the values isn't valid for an argument")
  | EUnknownArgument => Some (bs "unexpected argument found")
  | EInvalidSubcommand => Some (bs "unrecognized subcommand")
  | ENoEquals => Some (bs "equal is needed when assigning values to one of the arguments")
  | EValueValidation => Some (bs "invalid value for one of the arguments")
  | ETooManyValues => Some (bs "unexpected value for an argument found")
  | ETooFewValues => Some (bs "more values required for an argument")
  | EWrongNumberOfValues => Some (bs "too many or too few values for an argument")
  | EArgumentConflict => Some (bs "an argument cannot be used with one or more of the other specified arguments")
  | EMissingRequiredArgument => Some (bs "one or more required arguments were not provided")
  | EMissingSubcommand => Some (bs "a subcommand is required but one was not provided")
  | EInvalidUtf8 => Some (bs "invalid UTF-8 was detected in one or more arguments")
  | EDisplayHelp | EDisplayHelpOnMissing | EDisplayVersion | EIo | EFormat => None
  end.
Definition ekind_name (k : ekind) : string :=
  match k with
  | EInvalidValue => "InvalidValue" | EUnknownArgument => "UnknownArgument" | EInvalidSubcommand => "InvalidSubcommand"
  | ENoEquals => "NoEquals" | EValueValidation => "ValueValidation" | ETooManyValues => "TooManyValues"
  | ETooFewValues => "TooFewValues" | EWrongNumberOfValues => "WrongNumberOfValues"
  | EArgumentConflict => "ArgumentConflict" | EMissingRequiredArgument => "MissingRequiredArgument"
  | EMissingSubcommand => "MissingSubcommand" | EInvalidUtf8 => "InvalidUtf8" | EDisplayHelp => "DisplayHelp"
  | EDisplayHelpOnMissing => "DisplayHelpOnMissingArgumentOrSubcommand" | EDisplayVersion => "DisplayVersion"
  | EIo => "Io" | EFormat => "Format"
  end%string.

(** ---------- [get_help_flag] (format.rs) on the command model ---------- *)
Definition get_user_help_flag (c : cmd) : option bytes :=
  match List.find (fun a => match a_get_action a with AHelp | AHelpShort | AHelpLong => true | _ => false end) (c_args c) with
  | None => None
  | Some a => match a_long a with
              | Some l => Some (bs "--" ++ l)
              | None => match a_short a with Some s => Some (bs "-" ++ encode_utf8 s) | None => None end
              end
  end.
Definition get_help_flag (c : cmd) : option bytes :=
  if negb (is_set s_disable_help_flag c) then Some (bs "--help")
  else match get_user_help_flag c with
       | Some f => Some f
       | None => if has_subcommands c && negb (is_set s_disable_help_sub c) then Some (bs "help") else None
       end.

(** ---------- constructors (error/mod.rs) ---------- *)
Definition enew (k : ekind) : rerror := mkR k [] None None None.
Definition with_cmd (c : cmd) (e : rerror) : rerror := e <| r_help_flag := get_help_flag c |>.
Definition set_message (e : rerror) (m : message) : rerror := e <| r_msg := Some m |>.
Definition for_app (k : ekind) (c : cmd) (styled : bytes) : rerror := with_cmd c (set_message (enew k) (MFormatted styled)).
Definition with_usage (e : rerror) (usage : option bytes) : rerror :=
  match usage with Some u => insert_context_unchecked e CUsage (VStyled u) | None => e end.

Definition display_help (c : cmd) (styled : bytes) := for_app EDisplayHelp c styled.
Definition display_help_error (c : cmd) (styled : bytes) := for_app EDisplayHelpOnMissing c styled.
Definition display_version (c : cmd) (styled : bytes) := for_app EDisplayVersion c styled.

(** [Vec::pop] *)
Definition vec_pop {A} (l : list A) : option A := match rev l with x :: _ => Some x | [] => None end.
(** the [match others.len() { 0 => None, 1 => String(others.pop().unwrap()), _ => Strings(others) }] block *)
Definition others_value (others : list bytes) : rr cvalue :=
  match length others with
  | O => Done VNone
  | S O => rr_bind (rr_expect 276 (vec_pop others)) (fun x => Done (VString x))
  | _ => Done (VStrings others)
  end.
Definition argument_conflict (c : cmd) (arg : bytes) (others : list bytes) (usage : option bytes) : rr rerror :=
  let err := with_cmd c (enew EArgumentConflict) in
  rr_bind (others_value others) (fun ov =>
  Done (with_usage (extend_context_unchecked err [(CInvalidArg, VString arg); (CPriorArg, ov)]) usage)).
Definition subcommand_conflict (c : cmd) (sub : bytes) (others : list bytes) (usage : option bytes) : rr rerror :=
  let err := with_cmd c (enew EArgumentConflict) in
  rr_bind (others_value others) (fun ov =>
  Done (with_usage (extend_context_unchecked err [(CInvalidSubcommand, VString sub); (CPriorArg, ov)]) usage)).
Definition no_equals (c : cmd) (arg : bytes) (usage : option bytes) : rerror :=
  with_usage (extend_context_unchecked (with_cmd c (enew ENoEquals)) [(CInvalidArg, VString arg)]) usage.
(** [suggestion] = [did_you_mean(bad_val, good_vals).pop()] (strsim::jaro; C10 owns it): a parameter here *)
Definition invalid_value (c : cmd) (bad_val : bytes) (good_vals : list bytes) (arg : bytes) (suggestion : option bytes) : rerror :=
  let err := extend_context_unchecked (with_cmd c (enew EInvalidValue))
               [(CInvalidArg, VString arg); (CInvalidValue, VString bad_val); (CValidValue, VStrings good_vals)] in
  match suggestion with Some s => insert_context_unchecked err CSuggestedValue (VString s) | None => err end.
Definition empty_value (c : cmd) (good_vals : list bytes) (arg : bytes) (suggestion : option bytes) : rerror :=
  invalid_value c [] good_vals arg suggestion.
Definition invalid_subcommand (c : cmd) (subcmd : bytes) (dym : list bytes) (name : bytes) (trailing : bool)
           (usage : option bytes) : rerror :=
  let suggestions :=
    if trailing then [bs "to pass '" ++ subcmd ++ bs "' as a value, use '" ++ name ++ bs " -- " ++ subcmd ++ bs "'"] else [] in
  with_usage (extend_context_unchecked (with_cmd c (enew EInvalidSubcommand))
                [(CInvalidSubcommand, VString subcmd); (CSuggestedSubcommand, VStrings dym); (CSuggested, VStyleds suggestions)]) usage.
Definition unrecognized_subcommand (c : cmd) (subcmd : bytes) (usage : option bytes) : rerror :=
  with_usage (extend_context_unchecked (with_cmd c (enew EInvalidSubcommand)) [(CInvalidSubcommand, VString subcmd)]) usage.
Definition missing_required_argument (c : cmd) (required : list bytes) (usage : option bytes) : rerror :=
  with_usage (extend_context_unchecked (with_cmd c (enew EMissingRequiredArgument)) [(CInvalidArg, VStrings required)]) usage.
Definition missing_subcommand (c : cmd) (parent : bytes) (available : list bytes) (usage : option bytes) : rerror :=
  with_usage (extend_context_unchecked (with_cmd c (enew EMissingSubcommand))
                [(CInvalidSubcommand, VString parent); (CValidSubcommand, VStrings available)]) usage.
Definition invalid_utf8 (c : cmd) (usage : option bytes) : rerror := with_usage (with_cmd c (enew EInvalidUtf8)) usage.
Definition too_many_values (c : cmd) (val arg : bytes) (usage : option bytes) : rerror :=
  with_usage (extend_context_unchecked (with_cmd c (enew ETooManyValues))
                [(CInvalidArg, VString arg); (CInvalidValue, VString val)]) usage.
Definition too_few_values (c : cmd) (arg : bytes) (min_vals curr_vals : N) (usage : option bytes) : rerror :=
  with_usage (extend_context_unchecked (with_cmd c (enew ETooFewValues))
                [(CInvalidArg, VString arg); (CMinValues, VNumber (as_i64 min_vals));
                 (CActualNumValues, VNumber (as_i64 curr_vals))]) usage.
(** [value_validation(arg, val, err)] does not take the command; the value parsers call [.with_cmd(cmd)] on the result *)
Definition value_validation (c : cmd) (arg val : bytes) (source : bytes) : rerror :=
  with_cmd c (extend_context_unchecked ((enew EValueValidation) <| r_source := Some source |>)
                [(CInvalidArg, VString arg); (CInvalidValue, VString val)]).
Definition wrong_number_of_values (c : cmd) (arg : bytes) (num_vals curr_vals : N) (usage : option bytes) : rerror :=
  with_usage (extend_context_unchecked (with_cmd c (enew EWrongNumberOfValues))
                [(CInvalidArg, VString arg); (CExpectedNumValues, VNumber (as_i64 num_vals));
                 (CActualNumValues, VNumber (as_i64 curr_vals))]) usage.
Definition unknown_argument (c : cmd) (arg : bytes) (dym : option (bytes * option bytes)) (trailing : bool)
           (usage : option bytes) : rerror :=
  let suggestions := if trailing then [bs "to pass '" ++ arg ++ bs "' as a value, use '-- " ++ arg ++ bs "'"] else [] in
  let err := with_usage (extend_context_unchecked (with_cmd c (enew EUnknownArgument)) [(CInvalidArg, VString arg)]) usage in
  let '(err, suggestions) :=
    match dym with
    | Some (flag, Some sub) => (err, suggestions ++ [bs "'" ++ sub ++ bs " " ++ flag ++ bs "' exists"])
    | Some (flag, None) => (insert_context_unchecked err CSuggestedArg (VString flag), suggestions)
    | None => (err, suggestions)
    end in
  if negb (is_nil suggestions) then insert_context_unchecked err CSuggested (VStyleds suggestions) else err.
Definition unnecessary_double_dash (c : cmd) (arg : bytes) (usage : option bytes) : rerror :=
  let s := bs "subcommand '" ++ arg ++ bs "' exists; to use it, remove the '--' before it" in
  with_usage (extend_context_unchecked (with_cmd c (enew EUnknownArgument))
                [(CInvalidArg, VString arg); (CSuggested, VStyleds [s])]) usage.

(** ---------- rendering (error/format.rs) ---------- *)
Section Render.
Variable str_debug : bytes -> bytes.      (* <str as Debug>::fmt *)

Definition TAB := bs "  ".
Definition NL := bs (String (ascii_of_nat 10) EmptyString).
Definition is_ws (c : N) := (c =? 32) || ((9 <=? c) && (c <=? 13)).   (* ASCII part of char::is_whitespace *)
(** [Escape]'s Display *)
Definition escape (s : bytes) : bytes := if existsb is_ws s then str_debug s else s.
Definition start_error : bytes := bs "error: ".
Definition singular_or_plural (n : Z) : bytes := if (1 <? n)%Z then bs " were provided" else bs " was provided".
Definition put_usage (usage : bytes) : bytes := NL ++ NL ++ usage.
Definition try_help (help : option bytes) : bytes :=
  match help with
  | Some h => NL ++ NL ++ bs "For more information, try '" ++ h ++ bs "'." ++ NL
  | None => NL
  end.
Fixpoint join_with (sep : bytes) (f : bytes -> bytes) (l : list bytes) : bytes :=
  match l with [] => [] | [x] => f x | x :: t => f x ++ sep ++ join_with sep f t end.
Definition write_values_list (list_name : bytes) (vals : option cvalue) : bytes :=
  match vals with
  | Some (VStrings pv) =>
      if negb (is_nil pv) then NL ++ TAB ++ bs "[" ++ list_name ++ bs ": " ++ join_with (bs ", ") escape pv ++ bs "]" else []
  | _ => []
  end.
Definition did_you_mean (context : bytes) (possibles : cvalue) : bytes :=
  TAB ++ bs "tip:" ++
  match possibles with
  | VString p => bs " a similar " ++ context ++ bs " exists: '" ++ p ++ bs "'"
  | VStrings ps =>
      (if Nat.eqb (length ps) 1 then bs " a similar " ++ context ++ bs " exists: "
       else bs " some similar " ++ context ++ bs "s exist: ")
      ++ join_with (bs ", ") (fun p => bs "'" ++ p ++ bs "'") ps
  | _ => []
  end.

(** [write_dynamic_context]: (returned bool, text appended) *)
Definition write_dynamic_context (e : rerror) : rr (bool * bytes) :=
  match r_kind e with
  | EArgumentConflict =>
      let prior_arg := eget e CPriorArg in
      rr_bind
        (match eget e CInvalidArg with
         | Some (VString invalid_arg) =>
             if match prior_arg with Some (VString p) => beq p invalid_arg | _ => false end
             then Done (None, bs "the argument '" ++ invalid_arg ++ bs "' cannot be used multiple times")
             else Done (prior_arg, bs "the argument '" ++ invalid_arg ++ bs "' cannot be used with")
         | _ =>
             match eget e CInvalidSubcommand with
             | Some (VString invalid_arg) => Done (prior_arg, bs "the subcommand '" ++ invalid_arg ++ bs "' cannot be used with")
             | _ => rr_bind (rr_expect 175 (kind_as_str (r_kind e))) (fun s => Done (prior_arg, s))
             end
         end)
        (fun x =>
           let '(prior_arg, head) := x in
           Done (true, head ++
             match prior_arg with
             | Some (VStrings values) => bs ":" ++ concat (List.map (fun v => NL ++ TAB ++ v) values)
             | Some (VString value) => bs " '" ++ value ++ bs "'"
             | Some _ => bs " one or more of the other specified arguments"
             | None => []
             end))
  | ENoEquals =>
      match eget e CInvalidArg with
      | Some (VString a) => Done (true, bs "equal sign is needed when assigning values to '" ++ a ++ bs "'")
      | _ => Done (false, [])
      end
  | EInvalidValue =>
      match eget e CInvalidArg, eget e CInvalidValue with
      | Some (VString a), Some (VString v) =>
          Done (true,
                (if is_nil v then bs "a value is required for '" ++ a ++ bs "' but none was supplied"
                 else bs "invalid value '" ++ v ++ bs "' for '" ++ a ++ bs "'")
                ++ write_values_list (bs "possible values") (eget e CValidValue))
      | _, _ => Done (false, [])
      end
  | EInvalidSubcommand =>
      match eget e CInvalidSubcommand with
      | Some (VString s) => Done (true, bs "unrecognized subcommand '" ++ s ++ bs "'")
      | _ => Done (false, [])
      end
  | EMissingRequiredArgument =>
      match eget e CInvalidArg with
      | Some (VStrings l) =>
          Done (true, bs "the following required arguments were not provided:" ++ concat (List.map (fun v => NL ++ TAB ++ v) l))
      | _ => Done (false, [])
      end
  | EMissingSubcommand =>
      match eget e CInvalidSubcommand with
      | Some (VString s) =>
          Done (true, bs "'" ++ s ++ bs "' requires a subcommand but one was not provided"
                      ++ write_values_list (bs "subcommands") (eget e CValidSubcommand))
      | _ => Done (false, [])
      end
  | EInvalidUtf8 => Done (false, [])
  | ETooManyValues =>
      match eget e CInvalidArg, eget e CInvalidValue with
      | Some (VString a), Some (VString v) =>
          Done (true, bs "unexpected value '" ++ v ++ bs "' for '" ++ a ++ bs "' found; no more were expected")
      | _, _ => Done (false, [])
      end
  | ETooFewValues =>
      match eget e CInvalidArg, eget e CActualNumValues, eget e CMinValues with
      | Some (VString a), Some (VNumber actual), Some (VNumber min) =>
          Done (true, z_to_dec min ++ bs " values required by '" ++ a ++ bs "'; only " ++ z_to_dec actual
                      ++ singular_or_plural actual)
      | _, _, _ => Done (false, [])
      end
  | EValueValidation =>
      match eget e CInvalidArg, eget e CInvalidValue with
      | Some (VString a), Some (VString v) =>
          Done (true, bs "invalid value '" ++ v ++ bs "' for '" ++ a ++ bs "'"
                      ++ match r_source e with Some s => bs ": " ++ s | None => [] end)
      | _, _ => Done (false, [])
      end
  | EWrongNumberOfValues =>
      match eget e CInvalidArg, eget e CActualNumValues, eget e CExpectedNumValues with
      | Some (VString a), Some (VNumber actual), Some (VNumber num) =>
          Done (true, z_to_dec num ++ bs " values required for '" ++ a ++ bs "' but " ++ z_to_dec actual
                      ++ singular_or_plural actual)
      | _, _, _ => Done (false, [])
      end
  | EUnknownArgument =>
      match eget e CInvalidArg with
      | Some (VString a) => Done (true, bs "unexpected argument '" ++ a ++ bs "' found")
      | _ => Done (false, [])
      end
  | EDisplayHelp | EDisplayHelpOnMissing | EDisplayVersion | EIo | EFormat => Done (false, [])
  end.

(** [RichFormatter::format_error] *)
Definition format_error (e : rerror) : rr bytes :=
  rr_bind (write_dynamic_context e) (fun d =>
  let head :=
    if fst d then snd d
    else match kind_as_str (r_kind e) with
         | Some msg => msg
         | None => match r_source e with Some s => s | None => bs "unknown cause" end
         end in
  let sug (k : ckind) (what : bytes) (suggested : bool) : bytes * bool :=
    match eget e k with
    | Some valid => (NL ++ (if suggested then [] else NL) ++ did_you_mean what valid, true)
    | None => ([], suggested)
    end in
  let '(t1, s1) := sug CSuggestedSubcommand (bs "subcommand") false in
  let '(t2, s2) := sug CSuggestedArg (bs "argument") s1 in
  let '(t3, s3) := sug CSuggestedValue (bs "value") s2 in
  let t4 := match eget e CSuggested with
            | Some (VStyleds l) => (if s3 then [] else NL) ++ concat (List.map (fun s => NL ++ TAB ++ bs "tip: " ++ s) l)
            | _ => [] end in
  let t5 := match eget e CUsage with Some (VStyled u) => put_usage u | _ => [] end in
  Done (start_error ++ head ++ t1 ++ t2 ++ t3 ++ t4 ++ t5 ++ try_help (r_help_flag e))).

(** [format_error_message] as called from [Message::formatted] (cmd = None, usage = None) *)
Definition format_error_message (message : bytes) : bytes := start_error ++ message.
(** [Error::formatted] / [Error::render] *)
Definition render (e : rerror) : rr bytes :=
  match r_msg e with
  | Some (MRaw s) => Done (format_error_message s)
  | Some (MFormatted s) => Done s
  | None => format_error e
  end.

(** ** rendering never panics, for ANY error value *)
Theorem write_dynamic_context_total e : forall s, write_dynamic_context e <> Panic s.
Proof.
  intros s. unfold write_dynamic_context.
  destruct (r_kind e) eqn:Ek; try discriminate;
    repeat match goal with
           | |- context [match ?x with _ => _ end] => destruct x; try discriminate
           end.
Qed.

Theorem render_total e : forall s, render e <> Panic s.
Proof.
  intros s. unfold render. destruct (r_msg e) as [[m|m]|]; try discriminate.
  unfold format_error. pose proof (write_dynamic_context_total e) as H.
  destruct (write_dynamic_context e) as [d|x]; [|exfalso; exact (H x eq_refl)].
  cbn [rr_bind].
  repeat match goal with |- context [let '(a, b) := ?x in _] => destruct x end. discriminate.
Qed.
End Render.

(** ---------- "constructed by one of the constructors the parse path calls" ---------- *)
Inductive constructed : rerror -> Prop :=
| K_display_help c s : constructed (display_help c s)
| K_display_help_error c s : constructed (display_help_error c s)
| K_display_version c s : constructed (display_version c s)
| K_argument_conflict c arg others usage e : argument_conflict c arg others usage = Done e -> constructed e
| K_subcommand_conflict c sub others usage e : subcommand_conflict c sub others usage = Done e -> constructed e
| K_no_equals c arg usage : constructed (no_equals c arg usage)
| K_invalid_value c bad good arg sg : constructed (invalid_value c bad good arg sg)
| K_invalid_subcommand c sub dym name tr usage : constructed (invalid_subcommand c sub dym name tr usage)
| K_unrecognized_subcommand c sub usage : constructed (unrecognized_subcommand c sub usage)
| K_missing_required_argument c req usage : constructed (missing_required_argument c req usage)
| K_missing_subcommand c parent avail usage : constructed (missing_subcommand c parent avail usage)
| K_invalid_utf8 c usage : constructed (invalid_utf8 c usage)
| K_too_many_values c val arg usage : constructed (too_many_values c val arg usage)
| K_too_few_values c arg mn cur usage : constructed (too_few_values c arg mn cur usage)
| K_value_validation c arg val src : constructed (value_validation c arg val src)
| K_wrong_number_of_values c arg n cur usage : constructed (wrong_number_of_values c arg n cur usage)
| K_unknown_argument c arg dym tr usage : constructed (unknown_argument c arg dym tr usage)
| K_unnecessary_double_dash c arg usage : constructed (unnecessary_double_dash c arg usage).

(** the two constructors with an [unwrap] never reach it *)
Theorem others_value_total others : forall s, others_value others <> Panic s.
Proof.
  intros s. unfold others_value. destruct others as [|x [|y t]]; try discriminate.
Qed.
Theorem argument_conflict_total c arg others usage : exists e, argument_conflict c arg others usage = Done e.
Proof.
  unfold argument_conflict. pose proof (others_value_total others) as H.
  destruct (others_value others) as [v|s]; [eexists; reflexivity|exfalso; exact (H s eq_refl)].
Qed.
Theorem subcommand_conflict_total c sub others usage : exists e, subcommand_conflict c sub others usage = Done e.
Proof.
  unfold subcommand_conflict. pose proof (others_value_total others) as H.
  destruct (others_value others) as [v|s]; [eexists; reflexivity|exfalso; exact (H s eq_refl)].
Qed.

(** the ordered context kinds and shapes of an error *)
Definition ctx_kinds (e : rerror) : list ckind := List.map fst (r_ctx e).
Definition ctx_shapes (e : rerror) : list (ckind * vshape) := List.map (fun p => (fst p, shape_of (snd p))) (r_ctx e).
Definition usage_k (usage : option bytes) : list ckind := match usage with Some _ => [CUsage] | None => [] end.

(** ** a constructed error has the context its kind's arm of [write_dynamic_context] asks for: the specific
    message is produced (the generic [ErrorKind::as_str] text is used for InvalidUtf8 only) *)
Definition rich_expected (e : rerror) : bool :=
  match r_msg e with
  | Some _ => false
  | None => match r_kind e with
            | EInvalidUtf8 | EDisplayHelp | EDisplayHelpOnMissing | EDisplayVersion | EIo | EFormat => false
            | _ => true end
  end.

Lemma ctx_get_app_l k l1 l2 v : ctx_get k l1 = Some v -> ctx_get k (l1 ++ l2) = Some v.
Proof.
  induction l1 as [|[k' v'] t IH]; cbn; [discriminate|]. destruct (ckind_eqb k' k); [auto|exact IH].
Qed.

Theorem constructed_rich str_debug e : constructed e -> rich_expected e = true ->
  exists txt, write_dynamic_context str_debug e = Done (true, txt).
Proof.
  intros Hc Hr. destruct Hc;
    try (match goal with H : _ = Done _ |- _ =>
           unfold argument_conflict, subcommand_conflict in H;
           destruct (others_value _); [|discriminate H]; cbn in H; inversion H; subst; clear H
         end);
    try unfold unknown_argument;
    repeat match goal with
           | x : option (bytes * option bytes) |- _ => destruct x as [[? [?|]]|]
           | x : option bytes |- _ => destruct x
           | x : bool |- _ => destruct x
           end;
    try (cbn in Hr; discriminate Hr);
    cbn; repeat match goal with |- context [if ?b then _ else _] => destruct b end; cbn; eexists; reflexivity.
Qed.

(** ---------- the tables, tied to the source ---------- *)
Open Scope string_scope.
Theorem kind_has_msg_match :
  List.map (fun k => (ekind_name k, is_some (kind_as_str k))) all_kinds = Gen.ErrorCtx.gen_kind_has_msg.
Proof. vm_compute. reflexivity. Qed.
Theorem context_kinds_match : List.map ckind_name all_ckinds = Gen.ErrorCtx.gen_context_kinds.
Proof. vm_compute. reflexivity. Qed.
(** format.rs has one unwrap and nothing else that can panic: [Panic 175] *)
Theorem ctx_format_sites_match : Gen.ErrorCtx.gen_format_sites = [("write_dynamic_context", "unwrap", 0%N);
                                      ("Error::argument_conflict", "unwrap", 0%N); ("Error::subcommand_conflict", "unwrap", 0%N)].
Proof. reflexivity. Qed.

(** what each constructor attaches: (fn, kind, sets a message, unconditional kinds in order, conditional kinds in order) *)
Definition model_ctor_ctx : list (string * string * bool * list string * list string) :=
  let n := List.map ckind_name in
  [ ("display_help", ekind_name EDisplayHelp, true, [], []);
    ("display_help_error", ekind_name EDisplayHelpOnMissing, true, [], []);
    ("display_version", ekind_name EDisplayVersion, true, [], []);
    ("argument_conflict", ekind_name EArgumentConflict, false, n [CInvalidArg; CPriorArg], n [CUsage]);
    ("subcommand_conflict", ekind_name EArgumentConflict, false, n [CInvalidSubcommand; CPriorArg], n [CUsage]);
    ("empty_value", "=invalid_value", false, [], []);
    ("no_equals", ekind_name ENoEquals, false, n [CInvalidArg], n [CUsage]);
    ("invalid_value", ekind_name EInvalidValue, false, n [CInvalidArg; CInvalidValue; CValidValue], n [CSuggestedValue]);
    ("invalid_subcommand", ekind_name EInvalidSubcommand, false, n [CInvalidSubcommand; CSuggestedSubcommand; CSuggested], n [CUsage]);
    ("unrecognized_subcommand", ekind_name EInvalidSubcommand, false, n [CInvalidSubcommand], n [CUsage]);
    ("missing_required_argument", ekind_name EMissingRequiredArgument, false, n [CInvalidArg], n [CUsage]);
    ("missing_subcommand", ekind_name EMissingSubcommand, false, n [CInvalidSubcommand; CValidSubcommand], n [CUsage]);
    ("invalid_utf8", ekind_name EInvalidUtf8, false, [], n [CUsage]);
    ("too_many_values", ekind_name ETooManyValues, false, n [CInvalidArg; CInvalidValue], n [CUsage]);
    ("too_few_values", ekind_name ETooFewValues, false, n [CInvalidArg; CMinValues; CActualNumValues], n [CUsage]);
    ("value_validation", ekind_name EValueValidation, false, n [CInvalidArg; CInvalidValue], []);
    ("wrong_number_of_values", ekind_name EWrongNumberOfValues, false, n [CInvalidArg; CExpectedNumValues; CActualNumValues], n [CUsage]);
    ("unknown_argument", ekind_name EUnknownArgument, false, n [CInvalidArg], n [CUsage; CSuggestedArg; CSuggested]);
    ("unnecessary_double_dash", ekind_name EUnknownArgument, false, n [CInvalidArg; CSuggested], n [CUsage]) ].
Theorem ctor_ctx_match : model_ctor_ctx = Gen.ErrorCtx.gen_ctor_ctx.
Proof. vm_compute. reflexivity. Qed.
Close Scope string_scope.

(** ... and the Gallina constructors attach exactly that, for all arguments *)
Definition opt_k {A} (o : option A) (k : ckind) : list ckind := match o with Some _ => [k] | None => [] end.
Theorem ctor_ctx_kinds :
  (forall c s, ctx_kinds (display_help c s) = [] /\ r_msg (display_help c s) = Some (MFormatted s))
  /\ (forall c s, ctx_kinds (display_help_error c s) = [] /\ r_msg (display_help_error c s) = Some (MFormatted s))
  /\ (forall c s, ctx_kinds (display_version c s) = [] /\ r_msg (display_version c s) = Some (MFormatted s))
  /\ (forall c a o u e, argument_conflict c a o u = Done e -> ctx_kinds e = [CInvalidArg; CPriorArg] ++ opt_k u CUsage /\ r_msg e = None)
  /\ (forall c a o u e, subcommand_conflict c a o u = Done e -> ctx_kinds e = [CInvalidSubcommand; CPriorArg] ++ opt_k u CUsage /\ r_msg e = None)
  /\ (forall c a u, ctx_kinds (no_equals c a u) = [CInvalidArg] ++ opt_k u CUsage)
  /\ (forall c b g a sg, ctx_kinds (invalid_value c b g a sg) = [CInvalidArg; CInvalidValue; CValidValue] ++ opt_k sg CSuggestedValue)
  /\ (forall c s d n t u, ctx_kinds (invalid_subcommand c s d n t u) = [CInvalidSubcommand; CSuggestedSubcommand; CSuggested] ++ opt_k u CUsage)
  /\ (forall c s u, ctx_kinds (unrecognized_subcommand c s u) = [CInvalidSubcommand] ++ opt_k u CUsage)
  /\ (forall c r u, ctx_kinds (missing_required_argument c r u) = [CInvalidArg] ++ opt_k u CUsage)
  /\ (forall c p a u, ctx_kinds (missing_subcommand c p a u) = [CInvalidSubcommand; CValidSubcommand] ++ opt_k u CUsage)
  /\ (forall c u, ctx_kinds (invalid_utf8 c u) = opt_k u CUsage)
  /\ (forall c v a u, ctx_kinds (too_many_values c v a u) = [CInvalidArg; CInvalidValue] ++ opt_k u CUsage)
  /\ (forall c a m n u, ctx_kinds (too_few_values c a m n u) = [CInvalidArg; CMinValues; CActualNumValues] ++ opt_k u CUsage)
  /\ (forall c a v s, ctx_kinds (value_validation c a v s) = [CInvalidArg; CInvalidValue])
  /\ (forall c a m n u, ctx_kinds (wrong_number_of_values c a m n u) = [CInvalidArg; CExpectedNumValues; CActualNumValues] ++ opt_k u CUsage)
  /\ (forall c a d t u, ctx_kinds (unknown_argument c a d t u)
        = [CInvalidArg] ++ opt_k u CUsage
          ++ match d with Some (_, None) => [CSuggestedArg] | _ => [] end
          ++ (if t || match d with Some (_, Some _) => true | _ => false end then [CSuggested] else []))
  /\ (forall c a u, ctx_kinds (unnecessary_double_dash c a u) = [CInvalidArg; CSuggested] ++ opt_k u CUsage).
Proof.
  repeat split; intros;
    try (match goal with H : _ = Done _ |- _ =>
           unfold argument_conflict, subcommand_conflict in H;
           destruct (others_value _); [|discriminate H]; inversion H
         end);
    repeat match goal with
           | x : option (bytes * option bytes) |- _ => destruct x as [[? [?|]]|]
           | x : option bytes |- _ => destruct x
           | x : bool |- _ => destruct x
           end; reflexivity.
Qed.
