(** C10: the kind -> stream -> exit-code table of the model (Parse/Errors.v) against the table
    regenerated from the Rust sources on every run (Gen/ErrorTables.v, written by
    translators/tables.py from error/kind.rs, error/mod.rs and util/mod.rs).

    [gen_stream], [gen_use_stderr], [gen_exit_code] interpret the generated data exactly as the
    Rust functions they were read from ([Error::stream]: first matching arm, else the default
    arm; [use_stderr]: comparison with one stream; [exit_code]: a two-way choice on
    [use_stderr]).  A change of the variant list, of an arm, of the comparison or of one of the
    two constants changes the generated file and the theorems below are re-checked against it. *)
From Coq Require Import String List ZArith Bool.
From ClapModel Require Import Parse.Errors Gen.ErrorTables.
Import ListNotations.
Open Scope string_scope.

(** Rust name of each variant of the model's [ekind] *)
Definition kind_name (k : ekind) : string :=
  match k with
  | EInvalidValue => "InvalidValue" | EUnknownArgument => "UnknownArgument"
  | EInvalidSubcommand => "InvalidSubcommand" | ENoEquals => "NoEquals"
  | EValueValidation => "ValueValidation" | ETooManyValues => "TooManyValues"
  | ETooFewValues => "TooFewValues" | EWrongNumberOfValues => "WrongNumberOfValues"
  | EArgumentConflict => "ArgumentConflict" | EMissingRequiredArgument => "MissingRequiredArgument"
  | EMissingSubcommand => "MissingSubcommand" | EInvalidUtf8 => "InvalidUtf8"
  | EDisplayHelp => "DisplayHelp"
  | EDisplayHelpOnMissing => "DisplayHelpOnMissingArgumentOrSubcommand"
  | EDisplayVersion => "DisplayVersion" | EIo => "Io" | EFormat => "Format"
  end.

Definition str_mem (s : string) (l : list string) : bool := existsb (String.eqb s) l.

(** [Error::stream] read off the generated arms *)
Fixpoint arms_lookup (arms : list (list string * gstream)) (dflt : gstream) (n : string) : gstream :=
  match arms with
  | [] => dflt
  | (pats, s) :: t => if str_mem n pats then s else arms_lookup t dflt n
  end.
Definition gen_stream (n : string) : gstream := arms_lookup gen_stream_arms gen_stream_default n.
Definition gstream_eqb (a b : gstream) : bool :=
  match a, b with GStdout, GStdout | GStderr, GStderr => true | _, _ => false end.
(** [Error::use_stderr] *)
Definition gen_use_stderr (n : string) : bool := gstream_eqb (gen_stream n) gen_use_stderr_when.
(** [Error::exit_code] *)
Definition gen_exit_code (n : string) : Z := if gen_use_stderr n then gen_code_if_stderr else gen_code_else.

Definition to_gstream (s : stream) : gstream := match s with Stdout => GStdout | Stderr => GStderr end.

Definition ekind_eqb (a b : ekind) : bool := String.eqb (kind_name a) (kind_name b).

(** * the model's variant list is the source's, in declaration order *)
Lemma kind_names_match : map kind_name all_kinds = gen_kind_names.
Proof. reflexivity. Qed.

Lemma all_kinds_complete : forall k, In k all_kinds.
Proof. intros k; destruct k; cbn; tauto. Qed.

Lemma all_kinds_nodup : NoDup all_kinds.
Proof.
  unfold all_kinds.
  repeat (constructor; [cbn; intros H; repeat (destruct H as [H|H]; [discriminate H|]); exact H|]).
  constructor.
Qed.

Lemma kind_name_inj a b : kind_name a = kind_name b -> a = b.
Proof. destruct a, b; cbn; intros H; try reflexivity; discriminate H. Qed.

Lemma gen_name_is_kind n : In n gen_kind_names -> exists k, kind_name k = n.
Proof.
  rewrite <- kind_names_match. intros H. apply in_map_iff in H. destruct H as [k [Hk _]]. exists k. exact Hk.
Qed.

(** * the model's stream / use_stderr / exit_code equal the source's for every kind *)
Lemma stream_matches_source k : to_gstream (kind_stream k) = gen_stream (kind_name k).
Proof. destruct k; reflexivity. Qed.
Lemma use_stderr_matches_source k : use_stderr k = gen_use_stderr (kind_name k).
Proof. destruct k; reflexivity. Qed.
Lemma exit_code_matches_source k : exit_code k = gen_exit_code (kind_name k).
Proof. destruct k; reflexivity. Qed.

Theorem table_matches_source :
  map kind_name all_kinds = gen_kind_names /\
  forall k, to_gstream (kind_stream k) = gen_stream (kind_name k) /\
            use_stderr k = gen_use_stderr (kind_name k) /\
            exit_code k = gen_exit_code (kind_name k).
Proof.
  split; [exact kind_names_match|]. intros k.
  split; [apply stream_matches_source|split; [apply use_stderr_matches_source|apply exit_code_matches_source]].
Qed.

(** * the exit contract, for all kinds of the model *)
Theorem exit_contract : forall k,
  (exit_code k = 0%Z <-> k = EDisplayHelp \/ k = EDisplayVersion) /\
  (exit_code k = 0%Z \/ exit_code k = 2%Z) /\
  (use_stderr k = false <-> k = EDisplayHelp \/ k = EDisplayVersion) /\
  (kind_stream k = Stdout <-> k = EDisplayHelp \/ k = EDisplayVersion) /\
  (exit_code k = 0%Z <-> use_stderr k = false).
Proof.
  intros k; destruct k; cbn; repeat split;
    try (left; reflexivity); try (right; reflexivity);
    try (intros H; try reflexivity; try discriminate H;
         try (destruct H as [H|H]; discriminate H); tauto).
Qed.

(** * the exit contract stated on the table read from the source: for every variant name that
    [enum ErrorKind] declares today *)
Theorem exit_contract_source : forall n, In n gen_kind_names ->
  (gen_exit_code n = 0%Z <-> n = "DisplayHelp" \/ n = "DisplayVersion") /\
  (gen_exit_code n = 0%Z \/ gen_exit_code n = 2%Z) /\
  (gen_use_stderr n = false <-> n = "DisplayHelp" \/ n = "DisplayVersion") /\
  (gen_stream n = GStdout <-> n = "DisplayHelp" \/ n = "DisplayVersion").
Proof.
  intros n Hn. destruct (gen_name_is_kind n Hn) as [k <-].
  rewrite <- exit_code_matches_source, <- use_stderr_matches_source, <- stream_matches_source.
  destruct (exit_contract k) as [H1 [H2 [H3 [H4 _]]]].
  assert (Hh : forall k, (k = EDisplayHelp \/ k = EDisplayVersion) <->
               (kind_name k = "DisplayHelp" \/ kind_name k = "DisplayVersion")).
  { intros k0; split; intros [H|H].
    - left; rewrite H; reflexivity. - right; rewrite H; reflexivity.
    - left; apply kind_name_inj; exact H. - right; apply kind_name_inj; exact H. }
  repeat split.
  - intros H; apply Hh, H1, H. - intros H; apply H1, Hh, H.
  - exact H2.
  - intros H; apply Hh, H3, H. - intros H; apply H3, Hh, H.
  - intros H; apply Hh, H4. destruct (kind_stream k); [reflexivity|discriminate H].
  - intros H; apply Hh, H4 in H. rewrite H. reflexivity.
Qed.

(** non-vacuity: both classes are inhabited *)
Example exit_contract_help : exit_code EDisplayHelp = 0%Z /\ use_stderr EDisplayHelp = false.
Proof. split; reflexivity. Qed.
Example exit_contract_help_on_missing :
  exit_code EDisplayHelpOnMissing = 2%Z /\ use_stderr EDisplayHelpOnMissing = true.
Proof. split; reflexivity. Qed.
