(** Proofs about the textwrap model (C20).

    Specification-level notions first ([Wrapped], [InsNL], [lines], [line_fits], ...), then:
    - find_words: [concat (find_words l) = l], shape of the words ([good_words], [word_ok]);
    - the faithful look-behind loop [wrap_loop] equals the look-ahead formulation [goP];
    - every call of [wrap_words] rewrites its input in the sense of [WrappedP];
    - [wrap] / [styled_pieces] theorems, content and newline corollaries;
    - display width of escape sequences, the width bound for plain text. *)
From ClapModel Require Import Base.Bytes Wrap.WrapModel.
Open Scope N_scope.

(* ------------------------------------------------------------------ specification notions *)

Definition no_nl (s : str) : Prop := forallb (fun c => negb (c =? NL)) s = true.

(** [WrappedP P s o]: [o] is [s] where some non-empty runs of non-newline whitespace have been
    replaced by a line break followed by an indent satisfying [P]; everything else is kept. *)
Inductive WrappedP (P : str -> Prop) : str -> str -> Prop :=
| W_nil : WrappedP P [] []
| W_keep c s o : WrappedP P s o -> WrappedP P (c :: s) (c :: o)
| W_break w ind s o : w <> [] -> all_ws w = true -> no_nl w -> P ind ->
    WrappedP P s o -> WrappedP P (w ++ s) (NL :: ind ++ o).

(** plain text: the indent is the line's carry-over indent [ind] (whitespace, no newline) *)
Definition Wrapped (ind : str) : str -> str -> Prop :=
  WrappedP (fun i => i = ind /\ all_ws i = true /\ no_nl i).
(** styled text: the indent is some whitespace (the wrapper's possibly stale carry-over) *)
Definition WrappedW : str -> str -> Prop := WrappedP (fun i => all_ws i = true).
(** strict reading: only U+0020 is replaced *)
Definition all_sp (w : str) : bool := forallb (fun c => c =? SP) w.
Inductive WrappedS (ind : str) : str -> str -> Prop :=
| WS_nil : WrappedS ind [] []
| WS_keep c s o : WrappedS ind s o -> WrappedS ind (c :: s) (c :: o)
| WS_break w s o : w <> [] -> all_sp w = true -> all_sp ind = true ->
    WrappedS ind s o -> WrappedS ind (w ++ s) (NL :: ind ++ o).

(** the carry-over indent of a line: its first word when that is blank *)
Definition indent_of (line : str) : str :=
  match find_words line with
  | w :: _ => if all_ws w then w else []
  | [] => []
  end.

(** [InsNL a b]: [b] is [a] with some line breaks inserted *)
Inductive InsNL : str -> str -> Prop :=
| I_nil : InsNL [] []
| I_keep c a b : InsNL a b -> InsNL (c :: a) (c :: b)
| I_ins a b : InsNL a b -> InsNL a (NL :: b).

Definition nonws (s : str) : str := filter (fun c => negb (is_ws c)) s.
(** visible skeleton: non-whitespace characters and line breaks *)
Definition skeleton (s : str) : str := filter (fun c => negb (is_ws c) || (c =? NL)) s.

(** [str::split('\n')] *)
Fixpoint lines_acc (cur : str) (o : str) : list str :=
  match o with
  | [] => [cur]
  | c :: t => if c =? NL then cur :: lines_acc [] t else lines_acc (cur ++ [c]) t
  end.
Definition lines (o : str) : list str := lines_acc [] o.

(** newline only as the very last character (what [split_inclusive] yields) *)
Fixpoint nl_last (l : str) : bool :=
  match l with
  | [] => true
  | c :: t => if c =? NL then match t with [] => true | _ => false end else nl_last t
  end.

(** plain text: no ASCII control character except the line terminator *)
Definition plain (s : str) : bool := forallb (fun c => negb (is_ascii_control c) || (c =? NL)) s.
Definition no_ctrl (s : str) : bool := forallb (fun c => negb (is_ascii_control c)) s.

(* ------------------------------------------------------------------ whitespace, trim_end *)

Lemma is_ws_NL : is_ws NL = true. Proof. reflexivity. Qed.
Lemma is_ws_SP : is_ws SP = true. Proof. reflexivity. Qed.

Lemma all_ws_app a b : all_ws (a ++ b) = all_ws a && all_ws b.
Proof. apply forallb_app. Qed.

Lemma all_ws_rev w : all_ws (rev w) = all_ws w.
Proof.
  unfold all_ws. induction w as [|c t IH]; cbn [rev forallb]; [reflexivity|].
  rewrite forallb_app, IH. cbn [forallb]. rewrite andb_true_r. apply andb_comm.
Qed.

Lemma no_nl_app a b : no_nl (a ++ b) <-> no_nl a /\ no_nl b.
Proof. unfold no_nl. rewrite forallb_app. apply andb_true_iff. Qed.

Lemma no_nl_rev a : no_nl (rev a) <-> no_nl a.
Proof.
  induction a as [|c a IH]; cbn [rev]; [tauto|].
  rewrite no_nl_app, IH. unfold no_nl. cbn [forallb]. rewrite !andb_true_iff. tauto.
Qed.

Lemma drop_ws_spec s : exists w, s = w ++ drop_ws s /\ all_ws w = true.
Proof.
  induction s as [|c t IH]; cbn [drop_ws].
  - exists []. split; reflexivity.
  - destruct (is_ws c) eqn:E.
    + destruct IH as [w [Hw Ha]]. exists (c :: w). split.
      * cbn [app]. f_equal. exact Hw.
      * cbn [all_ws forallb]. rewrite E. exact Ha.
    + exists []. split; reflexivity.
Qed.

Lemma trim_end_spec s : exists t, s = trim_end s ++ t /\ all_ws t = true.
Proof.
  unfold trim_end. destruct (drop_ws_spec (rev s)) as [w [Hw Ha]].
  exists (rev w). split.
  - rewrite <- rev_app_distr, <- Hw. symmetry. apply rev_involutive.
  - rewrite all_ws_rev. exact Ha.
Qed.

Lemma drop_ws_head s : match drop_ws s with [] => True | c :: _ => is_ws c = false end.
Proof.
  induction s as [|c t IH]; cbn [drop_ws]; [exact I|].
  destruct (is_ws c) eqn:E; [exact IH|exact E].
Qed.

(** the trimmed string does not end with whitespace *)
Lemma trim_end_last s p c : trim_end s = p ++ [c] -> is_ws c = false.
Proof.
  unfold trim_end. intros H. pose proof (drop_ws_head (rev s)) as Hh.
  assert (E: drop_ws (rev s) = c :: rev p).
  { rewrite <- (rev_involutive (drop_ws (rev s))), H, rev_app_distr. reflexivity. }
  rewrite E in Hh. exact Hh.
Qed.

Lemma drop_ws_all w : all_ws w = true -> forall s, drop_ws (w ++ s) = drop_ws s.
Proof.
  induction w as [|c w IH]; intros H s; [reflexivity|].
  cbn [all_ws forallb] in H. apply andb_true_iff in H. destruct H as [H1 H2].
  cbn [app drop_ws]. rewrite H1. apply IH. exact H2.
Qed.

Lemma trim_end_app_ws a t : all_ws t = true -> trim_end (a ++ t) = trim_end a.
Proof.
  intros H. unfold trim_end. rewrite rev_app_distr, drop_ws_all; [reflexivity|].
  rewrite all_ws_rev. exact H.
Qed.

Lemma trim_end_all_ws t : all_ws t = true -> trim_end t = [].
Proof. intros H. rewrite <- (app_nil_l t), trim_end_app_ws by exact H. reflexivity. Qed.

Lemma trim_end_nonws_last a c : is_ws c = false -> trim_end (a ++ [c]) = a ++ [c].
Proof.
  intros H. unfold trim_end. rewrite rev_app_distr. cbn [rev app drop_ws]. rewrite H.
  cbn [rev]. rewrite rev_involutive. reflexivity.
Qed.

Lemma trim_end_idem s : trim_end (trim_end s) = trim_end s.
Proof.
  destruct (trim_end s) as [|x l] eqn:E using rev_ind; [reflexivity|].
  clear IHl. apply trim_end_nonws_last. exact (trim_end_last _ _ _ E).
Qed.

(** trimming a concatenation *)
Lemma trim_end_app a b :
  trim_end (a ++ b) = match trim_end b with [] => trim_end a | _ => a ++ trim_end b end.
Proof.
  destruct (trim_end_spec b) as [t [Hb Ht]].
  destruct (trim_end b) as [|y m] eqn:E.
  - cbn [app] in Hb. subst t. apply trim_end_app_ws. exact Ht.
  - destruct (@exists_last _ (y :: m)) as [l [x Hl]]; [discriminate|].
    rewrite Hb at 1. rewrite app_assoc, trim_end_app_ws by exact Ht.
    rewrite Hl in *. rewrite app_assoc. apply trim_end_nonws_last.
    exact (trim_end_last _ _ _ E).
Qed.

Lemma in_trim_end c s : In c (trim_end s) -> In c s.
Proof.
  destruct (trim_end_spec s) as [t [H _]]. intros Hi. rewrite H. apply in_or_app. left. exact Hi.
Qed.

(** a word that ends with U+0020 *)
Definition ends_sp (w : str) : Prop := exists p, w = p ++ [SP].

Lemma trim_end_ends_sp w : ends_sp w ->
  exists t, w = trim_end w ++ t /\ t <> [] /\ all_ws t = true.
Proof.
  intros [p Hp]. destruct (trim_end_spec w) as [t [Ht Ha]].
  exists t. split; [exact Ht|]. split; [|exact Ha].
  intro E. subst t. rewrite app_nil_r in Ht.
  assert (E2: trim_end w = p ++ [SP]) by congruence.
  apply trim_end_last in E2. discriminate.
Qed.

(* ------------------------------------------------------------------ WrappedP basics *)

Lemma WrappedP_app_keep P a s o : WrappedP P s o -> WrappedP P (a ++ s) (a ++ o).
Proof. induction a as [|c a IH]; cbn [app]; intros H; [exact H|]. constructor. auto. Qed.

Lemma WrappedP_refl P s : WrappedP P s s.
Proof. rewrite <- (app_nil_r s). apply WrappedP_app_keep. constructor. Qed.

Lemma WrappedP_app P a a' b b' : WrappedP P a a' -> WrappedP P b b' -> WrappedP P (a ++ b) (a' ++ b').
Proof.
  intros Ha Hb. induction Ha as [|c s o Ha IH|w ind s o Hne Hw Hn Hp Ha IH].
  - exact Hb.
  - cbn [app]. constructor. exact IH.
  - rewrite <- app_assoc. cbn [app]. rewrite <- app_assoc. apply W_break; assumption.
Qed.

Lemma WrappedP_mono (P Q : str -> Prop) s o :
  (forall i, P i -> Q i) -> WrappedP P s o -> WrappedP Q s o.
Proof.
  intros H W. induction W; [constructor|constructor; assumption|].
  apply W_break; auto.
Qed.

Lemma Wrapped_is_WrappedW ind s o : Wrapped ind s o -> WrappedW s o.
Proof. apply WrappedP_mono. intros i [_ [H _]]. exact H. Qed.

Lemma nonws_app a b : nonws (a ++ b) = nonws a ++ nonws b.
Proof. apply filter_app. Qed.

Lemma nonws_all_ws w : all_ws w = true -> nonws w = [].
Proof.
  induction w as [|c w IH]; intros H; [reflexivity|].
  cbn [all_ws forallb] in H. apply andb_true_iff in H. destruct H as [H1 H2].
  cbn [nonws filter]. rewrite H1. cbn [negb]. apply IH. exact H2.
Qed.

(** content: the non-whitespace characters are unchanged *)
Lemma WrappedW_nonws s o : WrappedW s o -> nonws o = nonws s.
Proof.
  intros W. induction W as [|c s o W IH|w ind s o Hne Hw Hn Hp W IH].
  - reflexivity.
  - cbn [nonws filter]. fold (nonws o) (nonws s). rewrite IH. reflexivity.
  - change (NL :: ind ++ o) with ([NL] ++ ind ++ o).
    rewrite !nonws_app, IH, (nonws_all_ws w Hw), (nonws_all_ws ind Hp). reflexivity.
Qed.

Lemma skeleton_app a b : skeleton (a ++ b) = skeleton a ++ skeleton b.
Proof. apply filter_app. Qed.

Lemma skeleton_ws_nonl w : all_ws w = true -> no_nl w -> skeleton w = [].
Proof.
  induction w as [|c w IH]; intros H Hn; [reflexivity|].
  cbn [all_ws forallb] in H. apply andb_true_iff in H. destruct H as [H1 H2].
  unfold no_nl in Hn. cbn [forallb] in Hn. apply andb_true_iff in Hn. destruct Hn as [Hn1 Hn2].
  cbn [skeleton filter]. rewrite H1. apply negb_true_iff in Hn1. rewrite Hn1. cbn [negb orb].
  apply IH; assumption.
Qed.

Lemma InsNL_refl a : InsNL a a.
Proof. induction a; constructor; assumption. Qed.

Lemma InsNL_app a a' b b' : InsNL a a' -> InsNL b b' -> InsNL (a ++ b) (a' ++ b').
Proof. intros Ha Hb. induction Ha; cbn [app]; [exact Hb|constructor; assumption|constructor; assumption]. Qed.

(** newlines: the skeleton (non-whitespace characters and line breaks) only gains line breaks *)
Lemma Wrapped_skeleton ind s o : Wrapped ind s o -> InsNL (skeleton s) (skeleton o).
Proof.
  intros W. induction W as [|c s o W IH|w i s o Hne Hw Hn [Hi [Hiw Hin]] W IH].
  - constructor.
  - cbn [skeleton filter]. fold (skeleton s) (skeleton o).
    destruct (negb (is_ws c) || (c =? NL)); [constructor|]; exact IH.
  - change (NL :: i ++ o) with ([NL] ++ i ++ o).
    rewrite !skeleton_app, (skeleton_ws_nonl w Hw Hn), (skeleton_ws_nonl i Hiw Hin).
    cbn [app]. change (skeleton [NL]) with [NL]. cbn [app]. constructor. exact IH.
Qed.

(* ------------------------------------------------------------------ split_inclusive *)

Lemma nl_last_no_nl a : no_nl a -> nl_last a = true.
Proof.
  induction a as [|c a IH]; intros H; [reflexivity|].
  unfold no_nl in H. cbn [forallb] in H. apply andb_true_iff in H. destruct H as [H1 H2].
  cbn [nl_last]. apply negb_true_iff in H1. rewrite H1. apply IH. exact H2.
Qed.

Lemma nl_last_snoc a : no_nl a -> nl_last (a ++ [NL]) = true.
Proof.
  induction a as [|c a IH]; intros H; [reflexivity|].
  unfold no_nl in H. cbn [forallb] in H. apply andb_true_iff in H. destruct H as [H1 H2].
  cbn [app nl_last]. apply negb_true_iff in H1. rewrite H1. apply IH. exact H2.
Qed.

(** a line with its newline at the end, decomposed *)
Lemma nl_last_inv l : nl_last l = true -> exists b, no_nl b /\ (l = b \/ l = b ++ [NL]).
Proof.
  induction l as [|c l IH]; intros H.
  - exists []. split; [reflexivity|left; reflexivity].
  - cbn [nl_last] in H. destruct (c =? NL) eqn:E.
    + destruct l; [|discriminate]. apply N.eqb_eq in E. subst c.
      exists []. split; [reflexivity|right; reflexivity].
    + destruct (IH H) as [b [Hb Hl]]. exists (c :: b). split.
      * unfold no_nl. cbn [forallb]. rewrite E. exact Hb.
      * destruct Hl as [-> | ->]; [left|right]; reflexivity.
Qed.

Lemma split_inclusive_aux_spec s : forall cur, no_nl cur ->
  concat (split_inclusive_aux s cur) = rev cur ++ s /\
  Forall (fun l => nl_last l = true) (split_inclusive_aux s cur).
Proof.
  induction s as [|c s IH]; intros cur Hc; cbn [split_inclusive_aux].
  - destruct cur as [|x cur].
    + split; [reflexivity|constructor].
    + split; [cbn [concat]; rewrite !app_nil_r; reflexivity|].
      constructor; [|constructor]. apply nl_last_no_nl. apply no_nl_rev. exact Hc.
  - destruct (c =? NL) eqn:E.
    + apply N.eqb_eq in E. subst c. destruct (IH [] eq_refl) as [H1 H2]. split.
      * cbn [concat]. rewrite H1. cbn [rev app]. rewrite <- app_assoc. reflexivity.
      * constructor; [|exact H2]. cbn [rev]. apply nl_last_snoc. apply no_nl_rev. exact Hc.
    + assert (Hc': no_nl (c :: cur)). { unfold no_nl. cbn [forallb]. rewrite E. exact Hc. }
      destruct (IH (c :: cur) Hc') as [H1 H2]. split; [|exact H2].
      rewrite H1. cbn [rev]. rewrite <- app_assoc. reflexivity.
Qed.

Lemma split_inclusive_concat s : concat (split_inclusive s) = s.
Proof. exact (proj1 (split_inclusive_aux_spec s [] eq_refl)). Qed.

Lemma split_inclusive_nl_last s : Forall (fun l => nl_last l = true) (split_inclusive s).
Proof. exact (proj2 (split_inclusive_aux_spec s [] eq_refl)). Qed.

(* ------------------------------------------------------------------ find_words *)

Lemma find_words_aux_concat line : forall cur b, concat (find_words_aux line cur b) = rev cur ++ line.
Proof.
  induction line as [|ch rest IH]; intros cur b; cbn [find_words_aux].
  - destruct cur; [reflexivity|]. cbn [concat]. rewrite !app_nil_r. reflexivity.
  - destruct (b && negb (ch =? SP)).
    + cbn [concat]. rewrite IH. reflexivity.
    + rewrite IH. cbn [rev]. rewrite <- app_assoc. reflexivity.
Qed.

Lemma find_words_concat line : concat (find_words line) = line.
Proof. apply find_words_aux_concat. Qed.

(** the shape of a word: no U+0020 except as a trailing run *)
Definition word_ok (w : str) : Prop := exists u k, w = u ++ repeat SP k /\ ~ In SP u.

Lemma all_ws_repeat_sp k : all_ws (repeat SP k) = true.
Proof. induction k; [reflexivity|]. cbn [repeat all_ws forallb]. exact IHk. Qed.

Lemma word_ok_trim w : word_ok w -> ~ In SP (trim_end w).
Proof.
  intros [u [k [-> Hu]]] Hi. rewrite trim_end_app_ws in Hi by apply all_ws_repeat_sp.
  apply Hu. apply in_trim_end. exact Hi.
Qed.

(** every word but the last ends with U+0020 and has no newline; the last has its newline last *)
Inductive good_words : list str -> Prop :=
| gw_nil : good_words []
| gw_last w : nl_last w = true -> good_words [w]
| gw_cons w n rest : ends_sp w -> no_nl w -> good_words (n :: rest) -> good_words (w :: n :: rest).

Lemma find_words_aux_good line : forall x b,
  nl_last line = true -> no_nl x ->
  (b = true -> exists p, x = p ++ [SP]) ->
  (exists u k, x = u ++ repeat SP k /\ ~ In SP u /\ (b = false -> k = O)) ->
  good_words (find_words_aux line (rev x) b) /\ Forall word_ok (find_words_aux line (rev x) b).
Proof.
  induction line as [|ch rest IH]; intros x b Hl Hx Hb Hs; cbn [find_words_aux].
  - destruct (rev x) eqn:E.
    + split; constructor.
    + rewrite <- E, rev_involutive. split.
      * constructor. apply nl_last_no_nl. exact Hx.
      * constructor; [|constructor]. destruct Hs as [u [k [H1 [H2 _]]]]. exists u, k. tauto.
  - rewrite rev_involutive.
    cbn [nl_last] in Hl.
    destruct (ch =? NL) eqn:En.
    + (* the line terminator: rest = [] *)
      destruct rest; [|discriminate]. apply N.eqb_eq in En. subst ch.
      change (NL =? SP) with false. cbn [negb]. rewrite andb_true_r.
      destruct b.
      * cbn [find_words_aux]. split.
        -- apply gw_cons; [apply Hb; reflexivity|exact Hx|constructor; reflexivity].
        -- constructor. { destruct Hs as [u [k [H1 [H2 _]]]]. exists u, k. tauto. }
           constructor; [|constructor]. exists [NL], O. split; [reflexivity|].
           intros [H|[]]. discriminate.
      * cbn [find_words_aux rev]. rewrite rev_involutive. split.
        -- constructor. apply nl_last_snoc. exact Hx.
        -- constructor; [|constructor]. destruct Hs as [u [k [H1 [H2 H3]]]].
           rewrite (H3 eq_refl) in H1. cbn [repeat] in H1. rewrite app_nil_r in H1. subst x.
           exists (u ++ [NL]), O. split; [cbn [repeat]; rewrite app_nil_r; reflexivity|].
           intros Hi. apply in_app_or in Hi. destruct Hi as [Hi|[Hi|[]]]; [tauto|discriminate].
    + destruct (b && negb (ch =? SP)) eqn:Eb.
      * (* split before ch *)
        apply andb_true_iff in Eb. destruct Eb as [Eb1 Eb2]. subst b.
        apply negb_true_iff in Eb2. rewrite Eb2.
        assert (Hrec: good_words (find_words_aux rest (rev [ch]) false) /\
                      Forall word_ok (find_words_aux rest (rev [ch]) false)).
        { apply IH; [exact Hl| |discriminate|].
          - unfold no_nl. cbn [forallb]. rewrite En. reflexivity.
          - exists [ch], O. split; [reflexivity|]. split; [|reflexivity].
            intros [H|[]]. subst ch. discriminate. }
        cbn [rev app] in Hrec. destruct Hrec as [G F]. split.
        -- destruct (find_words_aux rest [ch] false) eqn:E.
           ++ constructor. apply nl_last_no_nl. exact Hx.
           ++ apply gw_cons; [apply Hb; reflexivity|exact Hx|exact G].
        -- constructor; [|exact F]. destruct Hs as [u [k [H1 [H2 _]]]]. exists u, k. tauto.
      * change (ch :: rev x) with ([ch] ++ rev x). rewrite <- (rev_involutive [ch]), <- rev_app_distr.
        cbn [rev app].
        apply IH; [exact Hl| | |].
        -- apply no_nl_app. split; [exact Hx|]. unfold no_nl. cbn [forallb]. rewrite En. reflexivity.
        -- intros E. apply N.eqb_eq in E. subst ch. exists x. reflexivity.
        -- destruct Hs as [u [k [H1 [H2 H3]]]].
           destruct (ch =? SP) eqn:Es.
           ++ apply N.eqb_eq in Es. subst ch. exists u, (S k). split; [|split; [exact H2|discriminate]].
              subst x. rewrite <- app_assoc. f_equal. change [SP] with (repeat SP 1).
              rewrite <- repeat_app. f_equal. lia.
           ++ rewrite andb_false_iff in Eb. destruct Eb as [Eb|Eb]; [|discriminate].
              rewrite (H3 Eb) in H1. cbn [repeat] in H1. rewrite app_nil_r in H1. subst x.
              exists (u ++ [ch]), O. split; [cbn [repeat]; rewrite app_nil_r; reflexivity|].
              split; [|reflexivity]. intros Hi. apply in_app_or in Hi.
              destruct Hi as [Hi|[Hi|[]]]; [tauto|]. subst ch. discriminate.
Qed.

Lemma find_words_good line : nl_last line = true ->
  good_words (find_words line) /\ Forall word_ok (find_words line).
Proof.
  intros H. unfold find_words. change (@nil N) with (rev (@nil N)).
  apply find_words_aux_good; [exact H|reflexivity|discriminate|].
  exists [], O. split; [reflexivity|]. split; [intros []|reflexivity].
Qed.

(* ------------------------------------------------------------------ the wrapping loop *)
Section P.
Variable ch_width : N -> N.
Variable utf8_len : N -> N.
Notation display_width := (display_width ch_width).
Notation blen := (blen utf8_len).
Notation wrap_loop := (wrap_loop ch_width utf8_len).
Notation wrap_words := (wrap_words ch_width utf8_len).
Notation wrap_lines := (wrap_lines ch_width utf8_len).
Notation wrap := (wrap ch_width utf8_len).
Notation styled_lines := (styled_lines ch_width utf8_len).
Notation styled_pieces := (styled_pieces ch_width utf8_len).
Notation styled_wrap := (styled_wrap ch_width utf8_len).

Lemma blen_app a b : blen (a ++ b) = blen a + blen b.
Proof.
  induction a as [|c a IH]; cbn [app WrapModel.blen fold_right]; [reflexivity|].
  fold (blen (a ++ b)) (blen a). rewrite IH. lia.
Qed.

(** [word.len() - trimmed.len()] never underflows *)
Lemma trimmed_delta_no_underflow w : blen (trim_end w) <= blen w.
Proof.
  destruct (trim_end_spec w) as [t [H _]]. rewrite H at 2. rewrite blen_app. lia.
Qed.

Definition cy_len (cy : option (list N)) : N := match cy with Some c => blen c | None => 0 end.
Definition cy_out (cy : option (list N)) : list (list N) := match cy with Some c => [c] | None => [] end.

(** Look-ahead formulation: [p] is the previous word, already accounted for in [lw] but not yet
    emitted, because whether it is emitted trimmed depends on the next word. *)
Fixpoint goP (hard : N) (cy : option (list N)) (lw : N) (p : list N) (ws : list (list N))
  : list (list N) * N :=
  match ws with
  | [] => ([p], lw)
  | w :: rest =>
      let ww := display_width (trim_end w) in
      let d := blen w - blen (trim_end w) in
      if hard <? lw + ww then
        (trim_end p :: [NL] :: cy_out cy ++ fst (goP hard cy (cy_len cy + (ww + d)) w rest),
         snd (goP hard cy (cy_len cy + (ww + d)) w rest))
      else (p :: fst (goP hard cy (lw + (ww + d)) w rest), snd (goP hard cy (lw + (ww + d)) w rest))
  end.

(** the faithful look-behind loop computes exactly the look-ahead formulation *)
Lemma wrap_loop_goP ws : forall hard cy lw p acc,
  wrap_loop hard cy lw (p :: acc) ws =
  (rev acc ++ fst (goP hard cy lw p ws), snd (goP hard cy lw p ws)).
Proof.
  induction ws as [|w rest IH]; intros hard cy lw p acc.
  - reflexivity.
  - cbn [WrapModel.wrap_loop goP].
    destruct (hard <? lw + display_width (trim_end w)).
    + destruct cy as [c|]; cbn [cy_len cy_out]; rewrite IH; cbn [fst snd rev app];
        rewrite <- !app_assoc; reflexivity.
    + rewrite IH. cbn [fst snd rev app]. rewrite <- !app_assoc. reflexivity.
Qed.

Lemma wrap_loop_first hard cy lw w rest :
  wrap_loop hard cy lw [] (w :: rest) =
  goP hard cy (lw + (display_width (trim_end w) + (blen w - blen (trim_end w)))) w rest.
Proof.
  cbn [WrapModel.wrap_loop]. rewrite wrap_loop_goP. cbn [rev app].
  destruct (goP _ _ _ _ _). reflexivity.
Qed.

Lemma goP_wrapped (P : list N -> Prop) hard c : forall ws lw p,
  good_words (p :: ws) -> (ws <> [] -> P c) ->
  WrappedP P (concat (p :: ws)) (concat (fst (goP hard (Some c) lw p ws))).
Proof.
  induction ws as [|w rest IH]; intros lw p G HP.
  - cbn [goP fst]. apply WrappedP_refl.
  - inversion G as [| |p' w' r' He Hn G']; subst.
    assert (HP': rest <> [] -> P c) by (intros _; apply HP; discriminate).
    cbn [goP]. destruct (hard <? _).
    + cbn [fst cy_out]. destruct (trim_end_ends_sp p He) as [t [Ht [Hne Ha]]].
      cbn [concat app]. rewrite Ht at 1. rewrite <- app_assoc.
      apply WrappedP_app_keep.
      apply W_break; [exact Hne|exact Ha| |apply HP; discriminate|].
      * rewrite Ht in Hn. apply no_nl_app in Hn. tauto.
      * apply (IH _ w G' HP').
    + cbn [fst]. change (concat (p :: ?x)) with (p ++ concat x).
      apply WrappedP_app_keep. apply (IH _ w G' HP').
Qed.

(** the carry-over a call of [LineWrapper::wrap] works with *)
Definition carry_of (st : line_wrapper) (words : list (list N)) : option (list N) :=
  match carryover st with
  | Some c => Some c
  | None => match words with
            | [] => None
            | w :: _ => Some (if all_ws w then w else [])
            end
  end.

Lemma wrap_words_state st words :
  carryover (snd (wrap_words st words)) = carry_of st words /\
  hard_width (snd (wrap_words st words)) = hard_width st.
Proof.
  unfold WrapModel.wrap_words. fold (carry_of st words).
  destruct (wrap_loop _ _ _ _ _). split; reflexivity.
Qed.

Lemma wrap_words_out st w rest :
  fst (wrap_words st (w :: rest)) =
  fst (goP (hard_width st) (carry_of st (w :: rest))
         (line_width st + (display_width (trim_end w) + (blen w - blen (trim_end w)))) w rest).
Proof.
  unfold WrapModel.wrap_words. fold (carry_of st (w :: rest)).
  rewrite wrap_loop_first. destruct (goP _ _ _ _ _). reflexivity.
Qed.

Lemma wrap_words_wrapped (P : list N -> Prop) st words :
  good_words words ->
  (forall c w n rest, words = w :: n :: rest -> carry_of st words = Some c -> P c) ->
  WrappedP P (concat words) (concat (fst (wrap_words st words))).
Proof.
  intros G HP. destruct words as [|w rest].
  - unfold WrapModel.wrap_words. cbn [WrapModel.wrap_loop rev fst concat]. constructor.
  - rewrite wrap_words_out.
    destruct (carry_of st (w :: rest)) as [c|] eqn:Ec.
    + apply goP_wrapped; [exact G|]. intros Hne. destruct rest as [|n rest']; [congruence|].
      eapply HP; reflexivity.
    + unfold carry_of in Ec. destruct (carryover st); discriminate.
Qed.

(* ------------------------------------------------------------------ wrap (plain text) *)

Lemma indent_of_carry st line :
  carryover st = None ->
  forall c w n rest, find_words line = w :: n :: rest -> carry_of st (find_words line) = Some c ->
  c = indent_of line.
Proof.
  intros Hst c w n rest Hw. unfold carry_of, indent_of. rewrite Hst, Hw. congruence.
Qed.

Lemma wrap_line_wrapped st line :
  nl_last line = true -> carryover st = None ->
  Wrapped (indent_of line) line (concat (fst (wrap_words st (find_words line)))).
Proof.
  intros Hl Hst. destruct (find_words_good line Hl) as [G _].
  rewrite <- (find_words_concat line) at 2.
  apply wrap_words_wrapped; [exact G|].
  intros c w n rest Hw Hc. rewrite (indent_of_carry st line Hst c w n rest Hw Hc).
  split; [reflexivity|].
  unfold indent_of. rewrite Hw. destruct (all_ws w) eqn:Ea; [|split; reflexivity].
  split; [exact Ea|]. rewrite Hw in G. inversion G; assumption.
Qed.

Lemma wrap_lines_spec ls : forall st, Forall (fun l => nl_last l = true) ls ->
  exists outs, concat (wrap_lines st ls) = concat outs /\
               Forall2 (fun line o => Wrapped (indent_of line) line o) ls outs.
Proof.
  induction ls as [|line rest IH]; intros st HF.
  - exists []. split; [reflexivity|constructor].
  - inversion HF as [|? ? Hl HF']; subst. cbn [WrapModel.wrap_lines].
    pose proof (wrap_line_wrapped (lw_reset st) line Hl eq_refl) as HW.
    destruct (wrap_words (lw_reset st) (find_words line)) as [out st'].
    destruct (IH st' HF') as [outs [H1 H2]].
    exists (concat out :: outs). split.
    + rewrite concat_app, H1. reflexivity.
    + constructor; [exact HW|exact H2].
Qed.

Theorem wrap_rewrap s hard :
  exists outs, wrap s hard = concat outs /\
               Forall2 (fun line o => Wrapped (indent_of line) line o) (split_inclusive s) outs.
Proof. apply wrap_lines_spec. apply split_inclusive_nl_last. Qed.

Lemma Forall2_wrapped_nonws ls outs :
  Forall2 (fun line o => Wrapped (indent_of line) line o) ls outs ->
  nonws (concat outs) = nonws (concat ls).
Proof.
  intros H. induction H as [|l o ls outs W H IH]; [reflexivity|].
  cbn [concat]. rewrite !nonws_app, IH. f_equal.
  apply WrappedW_nonws. eapply Wrapped_is_WrappedW. exact W.
Qed.

Lemma Forall2_wrapped_skeleton ls outs :
  Forall2 (fun line o => Wrapped (indent_of line) line o) ls outs ->
  InsNL (skeleton (concat ls)) (skeleton (concat outs)).
Proof.
  intros H. induction H as [|l o ls outs W H IH]; [constructor|].
  cbn [concat]. rewrite !skeleton_app. apply InsNL_app; [|exact IH].
  eapply Wrapped_skeleton. exact W.
Qed.

Theorem wrap_content s hard : nonws (wrap s hard) = nonws s.
Proof.
  destruct (wrap_rewrap s hard) as [outs [H1 H2]].
  rewrite H1, (Forall2_wrapped_nonws _ _ H2), split_inclusive_concat. reflexivity.
Qed.

Theorem wrap_newlines_kept s hard : InsNL (skeleton s) (skeleton (wrap s hard)).
Proof.
  destruct (wrap_rewrap s hard) as [outs [H1 H2]].
  rewrite H1. rewrite <- (split_inclusive_concat s) at 1.
  apply Forall2_wrapped_skeleton. exact H2.
Qed.

(** the indent is a whitespace prefix of its line *)
Lemma indent_of_prefix line : exists rest, line = indent_of line ++ rest /\ all_ws (indent_of line) = true.
Proof.
  unfold indent_of. pose proof (find_words_concat line) as H.
  destruct (find_words line) as [|w r]; [exists line; split; reflexivity|].
  destruct (all_ws w) eqn:E; [|exists line; split; reflexivity].
  exists (concat r). split; [symmetry; exact H|exact E].
Qed.

(* ------------------------------------------------------------------ StyledStr::wrap *)

Definition carry_ws (st : line_wrapper) : Prop :=
  match carryover st with Some c => all_ws c = true | None => True end.

Lemma carry_of_ws st words c : carry_ws st -> carry_of st words = Some c -> all_ws c = true.
Proof.
  unfold carry_ws, carry_of. destruct (carryover st) as [c0|].
  - intros H E. congruence.
  - intros _. destruct words as [|w r]; [discriminate|]. intros E. inversion E; subst.
    destruct (all_ws w) eqn:Ea; [exact Ea|reflexivity].
Qed.

Lemma wrap_words_carry_ws st words : carry_ws st -> carry_ws (snd (wrap_words st words)).
Proof.
  intros H. unfold carry_ws at 1. rewrite (proj1 (wrap_words_state st words)).
  destruct (carry_of st words) as [c|] eqn:E; [|exact I]. exact (carry_of_ws st words c H E).
Qed.

Lemma styled_lines_spec ls : forall st i_pos,
  Forall (fun l => nl_last l = true) ls -> carry_ws st ->
  WrappedW (concat ls) (concat (fst (fst (styled_lines st i_pos ls)))) /\
  carry_ws (snd (fst (styled_lines st i_pos ls))).
Proof.
  induction ls as [|line rest IH]; intros st i_pos HF Hc.
  - cbn [WrapModel.styled_lines fst snd concat]. split; [constructor|exact Hc].
  - inversion HF as [|? ? Hl HF']; subst. cbn [WrapModel.styled_lines].
    set (st1 := if i_pos then lw_reset st else st).
    assert (Hc1: carry_ws st1). { subst st1. destruct i_pos; [exact I|exact Hc]. }
    pose proof (wrap_words_carry_ws st1 (find_words line) Hc1) as Hc2.
    assert (HW: WrappedW line (concat (fst (wrap_words st1 (find_words line))))).
    { destruct (find_words_good line Hl) as [G _].
      rewrite <- (find_words_concat line) at 1.
      apply wrap_words_wrapped; [exact G|].
      intros c w n r _ E. exact (carry_of_ws st1 _ c Hc1 E). }
    destruct (wrap_words st1 (find_words line)) as [out st2]. cbn [fst snd] in *.
    destruct (IH st2 (ends_with_nl line) HF' Hc2) as [H1 H2].
    destruct (styled_lines st2 (ends_with_nl line) rest) as [[outs st3] a3]. cbn [fst snd concat] in *.
    split; [|exact H2]. rewrite concat_app. apply WrappedP_app; assumption.
Qed.

(** escape pieces are copied verbatim; text pieces are rewrapped *)
Definition piece_rel (seg o : bool * list N) : Prop :=
  fst o = fst seg /\ (if fst seg then WrappedW (snd seg) (snd o) else snd o = snd seg).

Lemma styled_pieces_spec segs : forall st a, carry_ws st -> Forall2 piece_rel segs (styled_pieces st a segs).
Proof.
  induction segs as [|[b content] rest IH]; intros st a Hc; cbn [WrapModel.styled_pieces].
  - constructor.
  - destruct b.
    + pose proof (styled_lines_spec (split_inclusive content) st a
                    (split_inclusive_nl_last content) Hc) as [H1 H2].
      destruct (styled_lines st a (split_inclusive content)) as [[out st'] a'].
      cbn [fst snd] in *. constructor; [|apply IH; exact H2].
      split; [reflexivity|]. cbn [fst snd]. rewrite split_inclusive_concat in H1. exact H1.
    + constructor; [split; reflexivity|apply IH; exact Hc].
Qed.

Theorem styled_wrap_spec segs hard :
  exists out, Forall2 piece_rel segs out /\ styled_wrap segs hard = trim_end (concat (map snd out)).
Proof.
  exists (styled_pieces (lw_new hard) false segs). split; [|reflexivity].
  apply styled_pieces_spec. exact I.
Qed.

End P.

(* ------------------------------------------------------------------ display width *)
Section Width.
Variable ch_width : N -> N.
Notation display_width := (display_width ch_width).
Notation dw_aux := (dw_aux ch_width).

(** sum of the character widths *)
Definition sumw (s : list N) : N := fold_right (fun c a => ch_width c + a) 0 s.

Lemma sumw_app a b : sumw (a ++ b) = sumw a + sumw b.
Proof.
  induction a as [|c a IH]; cbn [app sumw fold_right]; [reflexivity|].
  fold (sumw (a ++ b)) (sumw a). rewrite IH. lia.
Qed.

Lemma no_ctrl_app a b : no_ctrl (a ++ b) = no_ctrl a && no_ctrl b.
Proof. apply forallb_app. Qed.

Lemma dw_aux_no_ctrl a : no_ctrl a = true ->
  forall r acc, dw_aux (a ++ r) false acc = dw_aux r false (acc + sumw a).
Proof.
  induction a as [|c a IH]; intros H r acc.
  - cbn [app sumw fold_right]. rewrite N.add_0_r. reflexivity.
  - cbn [no_ctrl forallb] in H. apply andb_true_iff in H. destruct H as [H1 H2].
    apply negb_true_iff in H1. cbn [app WrapModel.dw_aux]. rewrite H1. cbn [andb].
    rewrite (IH H2). f_equal. cbn [sumw fold_right]. fold (sumw a). lia.
Qed.

(** without control characters the display width is the sum of the character widths *)
Lemma display_width_no_ctrl a : no_ctrl a = true -> display_width a = sumw a.
Proof.
  intros H. unfold WrapModel.display_width. rewrite <- (app_nil_r a) at 1.
  rewrite (dw_aux_no_ctrl a H). cbn [WrapModel.dw_aux]. lia.
Qed.

(** inside a control sequence nothing counts until the next 'm' *)
Lemma dw_aux_in_sequence params :
  forallb (fun c => negb (c =? 109)) params = true ->
  forall r acc, dw_aux (params ++ r) true acc = dw_aux r true acc.
Proof.
  induction params as [|c p IH]; intros H r acc; [reflexivity|].
  cbn [forallb] in H. apply andb_true_iff in H. destruct H as [H1 H2].
  apply negb_true_iff in H1. cbn [app WrapModel.dw_aux]. rewrite H1. cbn [andb].
  destruct (is_ascii_control c); apply (IH H2).
Qed.

(** ESC [ params m has zero width *)
Theorem ansi_zero a params b :
  no_ctrl a = true -> no_ctrl b = true -> forallb (fun c => negb (c =? 109)) params = true ->
  display_width (a ++ 27 :: 91 :: params ++ 109 :: b) = display_width a + display_width b.
Proof.
  intros Ha Hb Hp.
  rewrite (display_width_no_ctrl a Ha), (display_width_no_ctrl b Hb).
  unfold WrapModel.display_width. rewrite (dw_aux_no_ctrl a Ha).
  cbn [WrapModel.dw_aux]. change (is_ascii_control 27) with true. cbv iota.
  change (is_ascii_control 91) with false. change (91 =? 109) with false. cbn [andb]. cbv iota.
  rewrite (dw_aux_in_sequence params Hp). cbn [WrapModel.dw_aux].
  change (is_ascii_control 109) with false. change (109 =? 109) with true. cbn [andb]. cbv iota.
  rewrite <- (app_nil_r b) at 1. rewrite (dw_aux_no_ctrl b Hb). cbn [WrapModel.dw_aux]. lia.
Qed.

(* ------------------------------------------------------------------ the width bound *)

(** a line fits: within the width once trailing whitespace is removed, or nothing after its
    whitespace indent can be broken (no U+0020 left: a single unbreakable word) *)
Definition line_fits (hard : N) (ln : list N) : Prop :=
  display_width (trim_end ln) <= hard \/
  exists ind u, trim_end ln = ind ++ u /\ all_ws ind = true /\ ~ In SP u.

Lemma lines_acc_app_nonl a : no_nl a -> forall cur o, lines_acc cur (a ++ o) = lines_acc (cur ++ a) o.
Proof.
  induction a as [|c a IH]; intros H cur o.
  - rewrite app_nil_r. reflexivity.
  - unfold no_nl in H. cbn [forallb] in H. apply andb_true_iff in H. destruct H as [H1 H2].
    apply negb_true_iff in H1. cbn [app lines_acc]. rewrite H1. rewrite (IH H2).
    rewrite <- app_assoc. reflexivity.
Qed.

Lemma lines_acc_app_nl a : forall cur b, lines_acc cur (a ++ NL :: b) = lines_acc cur a ++ lines b.
Proof.
  induction a as [|c a IH]; intros cur b.
  - reflexivity.
  - cbn [app lines_acc]. destruct (c =? NL); rewrite IH; reflexivity.
Qed.

Lemma plain_app a b : plain (a ++ b) = plain a && plain b.
Proof. apply forallb_app. Qed.

Lemma plain_no_nl_no_ctrl a : plain a = true -> no_nl a -> no_ctrl a = true.
Proof.
  induction a as [|c a IH]; intros H Hn; [reflexivity|].
  cbn [plain forallb] in H. apply andb_true_iff in H. destruct H as [H1 H2].
  unfold no_nl in Hn. cbn [forallb] in Hn. apply andb_true_iff in Hn. destruct Hn as [Hn1 Hn2].
  change (no_ctrl (c :: a)) with (negb (is_ascii_control c) && no_ctrl a).
  rewrite (IH H2 Hn2), andb_true_r.
  apply negb_true_iff in Hn1. rewrite Hn1, orb_false_r in H1. exact H1.
Qed.

Lemma no_ctrl_trim a : no_ctrl a = true -> no_ctrl (trim_end a) = true.
Proof.
  destruct (trim_end_spec a) as [t [H _]]. intros Hc. rewrite H, no_ctrl_app in Hc.
  apply andb_true_iff in Hc. tauto.
Qed.

Lemma plain_trim_no_ctrl w : plain w = true -> nl_last w = true -> no_ctrl (trim_end w) = true.
Proof.
  intros Hp Hl. destruct (nl_last_inv w Hl) as [b [Hb [-> | ->]]].
  - apply no_ctrl_trim. apply plain_no_nl_no_ctrl; assumption.
  - rewrite trim_end_app_ws by reflexivity. apply no_ctrl_trim.
    rewrite plain_app in Hp. apply andb_true_iff in Hp. apply plain_no_nl_no_ctrl; tauto.
Qed.

Lemma sumw_trim_le a : sumw (trim_end a) <= sumw a.
Proof. destruct (trim_end_spec a) as [t [H _]]. rewrite H at 2. rewrite sumw_app. lia. Qed.

Lemma forallb_concat_Forall (f : N -> bool) ws :
  forallb f (concat ws) = true -> Forall (fun w => forallb f w = true) ws.
Proof.
  induction ws as [|w ws IH]; intros H; [constructor|].
  cbn [concat] in H. rewrite forallb_app in H. apply andb_true_iff in H.
  constructor; tauto.
Qed.

Section Bound.
Variable utf8_len : N -> N.
Hypothesis ws_narrow : forall c, is_ws c = true -> ch_width c <= utf8_len c.
Notation blen := (blen utf8_len).

Lemma sumw_ws_le_blen t : all_ws t = true -> sumw t <= blen t.
Proof.
  induction t as [|c t IH]; intros H; [cbn; lia|].
  cbn [all_ws forallb] in H. apply andb_true_iff in H. destruct H as [H1 H2].
  cbn [sumw WrapModel.blen fold_right]. fold (sumw t) (blen t).
  specialize (IH H2). specialize (ws_narrow c H1). lia.
Qed.

(** what [line_width] adds for a word is at least the word's real width *)
Lemma word_sumw_bound w : plain w = true -> nl_last w = true ->
  sumw w <= display_width (trim_end w) + (blen w - blen (trim_end w)).
Proof.
  intros Hp Hl. rewrite (display_width_no_ctrl _ (plain_trim_no_ctrl w Hp Hl)).
  destruct (trim_end_spec w) as [t [H Ht]].
  clear Hp Hl. generalize dependent (trim_end w). intros tw H. subst w.
  rewrite sumw_app, (blen_app utf8_len).
  pose proof (sumw_ws_le_blen t Ht). lia.
Qed.

Lemma fits_line hard cur q :
  no_ctrl cur = true -> no_ctrl (trim_end q) = true -> ~ In SP (trim_end q) ->
  (all_ws cur = true \/ sumw cur + sumw (trim_end q) <= hard) ->
  line_fits hard (cur ++ q).
Proof.
  intros Hc Hq Hs HB. unfold line_fits. rewrite trim_end_app.
  destruct (trim_end q) as [|x l] eqn:E.
  - left. destruct HB as [HB|HB].
    + rewrite (trim_end_all_ws cur HB). cbn. lia.
    + rewrite (display_width_no_ctrl _ (no_ctrl_trim cur Hc)).
      pose proof (sumw_trim_le cur). lia.
  - destruct HB as [HB|HB].
    + right. exists cur, (x :: l). tauto.
    + left. rewrite display_width_no_ctrl, sumw_app; [exact HB|].
      rewrite no_ctrl_app, Hc, Hq. reflexivity.
Qed.

Definition wfact (w : list N) : Prop := ~ In SP (trim_end w) /\ plain w = true.

Lemma good_words_head w rest : good_words (w :: rest) -> nl_last w = true.
Proof. intros G. inversion G; subst; [assumption|]. apply nl_last_no_nl. assumption. Qed.

Lemma lines_acc_last hard cur p :
  nl_last p = true -> line_fits hard [] ->
  (forall p0, trim_end p0 = trim_end p -> line_fits hard (cur ++ p0)) ->
  Forall (line_fits hard) (lines_acc cur p).
Proof.
  intros Hl H0 H. destruct (nl_last_inv p Hl) as [b [Hb [-> | ->]]].
  - assert (E: lines_acc cur b = [cur ++ b]).
    { rewrite <- (app_nil_r b) at 1. rewrite (lines_acc_app_nonl b Hb). reflexivity. }
    rewrite E. constructor; [|constructor]. apply H. reflexivity.
  - rewrite (lines_acc_app_nonl b Hb). cbn [lines_acc]. change (NL =? NL) with true. cbv iota.
    constructor; [|constructor; [exact H0|constructor]].
    apply H. rewrite trim_end_app_ws by reflexivity. reflexivity.
Qed.

Lemma line_fits_nil hard : line_fits hard [].
Proof. left. cbn. lia. Qed.

Lemma goP_fits hard c : all_ws c = true -> forall ws lw p cur,
  good_words (p :: ws) -> Forall wfact (p :: ws) ->
  (ws <> [] -> no_nl c /\ no_ctrl c = true) ->
  no_ctrl cur = true ->
  sumw cur + sumw p <= lw ->
  (all_ws cur = true \/ sumw cur + sumw (trim_end p) <= hard) ->
  Forall (line_fits hard)
    (lines_acc cur (concat (fst (goP ch_width utf8_len hard (Some c) lw p ws)))).
Proof.
  intros Hcw. induction ws as [|w rest IH]; intros lw p cur G F Hc Hcur HA HB.
  - cbn [goP fst concat]. rewrite app_nil_r.
    inversion G as [|? Hl|]; subst. inversion F as [|? ? [Fs Fp] _]; subst.
    apply lines_acc_last; [exact Hl|apply line_fits_nil|].
    intros p0 E. apply fits_line; [exact Hcur| | |].
    + rewrite E. apply plain_trim_no_ctrl; assumption.
    + rewrite E. exact Fs.
    + rewrite E. exact HB.
  - inversion G as [| |? ? ? He Hn G']; subst.
    inversion F as [|? ? [Fs Fp] F']; subst.
    assert (Fw: wfact w) by (inversion F'; assumption). destruct Fw as [Fws Fwp].
    pose proof (good_words_head _ _ G') as Hwl.
    pose proof (plain_no_nl_no_ctrl p Fp Hn) as Hpc.
    pose proof (word_sumw_bound w Fwp Hwl) as Hwb.
    assert (HP': rest <> [] -> no_nl c /\ no_ctrl c = true) by (intros _; apply Hc; discriminate).
    destruct (Hc ltac:(discriminate)) as [Hcn Hcc].
    cbn [goP].
    destruct (hard <? lw + WrapModel.display_width ch_width (trim_end w)) eqn:E.
    + cbn [fst cy_out cy_len concat app].
      assert (Hnt: no_nl (trim_end p)).
      { destruct (trim_end_spec p) as [t [Ht _]]. rewrite Ht in Hn. apply no_nl_app in Hn. tauto. }
      rewrite (lines_acc_app_nonl _ Hnt). cbn [lines_acc]. change (NL =? NL) with true. cbv iota.
      constructor.
      * apply fits_line; [exact Hcur| | |].
        -- rewrite trim_end_idem. apply no_ctrl_trim. exact Hpc.
        -- rewrite trim_end_idem. exact Fs.
        -- rewrite trim_end_idem. exact HB.
      * rewrite (lines_acc_app_nonl _ Hcn). cbn [app].
        apply IH; [exact G'|exact F'|exact HP'|exact Hcc| |left; exact Hcw].
        pose proof (sumw_ws_le_blen c Hcw). lia.
    + apply N.ltb_ge in E. cbn [fst concat].
      rewrite (lines_acc_app_nonl _ Hn).
      apply IH; [exact G'|exact F'|exact HP'| | |].
      * rewrite no_ctrl_app, Hcur, Hpc. reflexivity.
      * rewrite sumw_app. lia.
      * right. rewrite sumw_app.
        rewrite (display_width_no_ctrl _ (plain_trim_no_ctrl w Fwp Hwl)) in E. lia.
Qed.

(** one input line, fresh wrapper *)
Lemma wrap_line_fits st line :
  nl_last line = true -> plain line = true -> carryover st = None -> line_width st = 0 ->
  Forall (line_fits (hard_width st))
    (lines (concat (fst (wrap_words ch_width utf8_len st (find_words line))))).
Proof.
  intros Hl Hp Hst Hlw. destruct (find_words_good line Hl) as [G Fo].
  assert (Fp: Forall (fun w => plain w = true) (find_words line)).
  { apply forallb_concat_Forall. rewrite find_words_concat. exact Hp. }
  destruct (find_words line) as [|w rest] eqn:Ew.
  - cbn. constructor; [apply line_fits_nil|constructor].
  - rewrite wrap_words_out. unfold carry_of. rewrite Hst, Hlw. unfold lines.
    assert (F: Forall wfact (w :: rest)).
    { clear - Fo Fp. induction Fo as [|x l Hx Fo IH]; [constructor|].
      inversion Fp; subst. constructor; [|apply IH; assumption].
      split; [apply word_ok_trim; exact Hx|assumption]. }
    assert (Fw: wfact w) by (inversion F; assumption). destruct Fw as [_ Fwp].
    apply goP_fits; [destruct (all_ws w) eqn:Ea; [exact Ea|reflexivity]|exact G|exact F| |reflexivity| |left; reflexivity].
    + intros Hne. destruct rest as [|n rest']; [congruence|].
      inversion G as [| |? ? ? He Hn G']; subst.
      destruct (all_ws w); [|split; reflexivity].
      split; [exact Hn|apply plain_no_nl_no_ctrl; assumption].
    + pose proof (word_sumw_bound w Fwp (good_words_head _ _ G)). cbn [sumw fold_right]. lia.
Qed.

(** a rewrapped line that ends with a newline still ends with it *)
Lemma WrappedP_ends_nl (P : list N -> Prop) S o : WrappedP P S o ->
  forall s, S = s ++ [NL] -> exists o', o = o' ++ [NL].
Proof.
  intros W. induction W as [|c S o W IH|w ind S o Hne Hw Hn Hp W IH]; intros s E.
  - destruct s; discriminate.
  - destruct s as [|x s].
    + cbn [app] in E. inversion E; subst. inversion W as [| |w ? ? ? Hne ? ? ? ? E1]; subst.
      * exists []. reflexivity.
      * destruct w; [congruence|discriminate].
    + cbn [app] in E. inversion E; subst. destruct (IH s eq_refl) as [o' ->].
      exists (x :: o'). reflexivity.
  - destruct (@exists_last _ S) as [S2 [x HS]].
    { intros ->. rewrite app_nil_r in E. subst w. apply no_nl_app in Hn.
      destruct Hn as [_ Hn]. discriminate. }
    subst S. rewrite app_assoc in E. apply app_inj_tail in E. destruct E as [_ ->].
    destruct (IH S2 eq_refl) as [o' ->].
    exists (NL :: ind ++ o'). cbn [app]. rewrite <- app_assoc. reflexivity.
Qed.

(** what [split_inclusive] yields: every line but the last ends with its newline *)
Inductive good_lines : list (list N) -> Prop :=
| gl_nil : good_lines []
| gl_last l : no_nl l -> good_lines [l]
| gl_cons b rest : no_nl b -> good_lines rest -> good_lines ((b ++ [NL]) :: rest).

Lemma split_inclusive_aux_good s : forall cur, no_nl cur -> good_lines (split_inclusive_aux s cur).
Proof.
  induction s as [|c s IH]; intros cur Hc; cbn [split_inclusive_aux].
  - destruct cur as [|x cur]; [constructor|]. apply gl_last. apply no_nl_rev. exact Hc.
  - destruct (c =? NL) eqn:E.
    + apply N.eqb_eq in E. subst c. cbn [rev]. apply gl_cons; [apply no_nl_rev; exact Hc|].
      apply IH. reflexivity.
    + apply IH. unfold no_nl. cbn [forallb]. rewrite E. exact Hc.
Qed.

Lemma wrap_lines_fits ls : forall st, good_lines ls -> Forall (fun l => plain l = true) ls ->
  Forall (line_fits (hard_width st)) (lines (concat (wrap_lines ch_width utf8_len st ls))).
Proof.
  induction ls as [|line rest IH]; intros st GL FP.
  - cbn. constructor; [apply line_fits_nil|constructor].
  - inversion FP as [|? ? Hp FP']; subst. cbn [WrapModel.wrap_lines].
    assert (Hl: nl_last line = true).
    { inversion GL; subst; [apply nl_last_no_nl; assumption|apply nl_last_snoc; assumption]. }
    pose proof (wrap_line_fits (lw_reset st) line Hl Hp eq_refl eq_refl) as HF.
    pose proof (wrap_line_wrapped ch_width utf8_len (lw_reset st) line Hl eq_refl) as HW.
    pose proof (proj2 (wrap_words_state ch_width utf8_len (lw_reset st) (find_words line))) as Hh.
    destruct (WrapModel.wrap_words ch_width utf8_len (lw_reset st) (find_words line)) as [out st'].
    cbn [fst snd] in *. cbn [lw_reset hard_width] in Hh, HF.
    rewrite concat_app.
    inversion GL as [|l Hn|b rest' Hn GL']; subst.
    + cbn [WrapModel.wrap_lines concat]. rewrite app_nil_r. exact HF.
    + destruct (WrappedP_ends_nl _ _ _ HW b eq_refl) as [o' Ho]. rewrite Ho in *.
      rewrite <- app_assoc. cbn [app]. unfold lines at 1. rewrite lines_acc_app_nl.
      apply Forall_app. split.
      * unfold lines in HF. rewrite lines_acc_app_nl in HF. apply Forall_app in HF. tauto.
      * rewrite <- Hh. apply IH; assumption.
Qed.

Theorem wrap_width s hard :
  plain s = true ->
  Forall (line_fits hard) (lines (WrapModel.wrap ch_width utf8_len s hard)).
Proof.
  intros Hp. unfold WrapModel.wrap.
  change hard with (hard_width (lw_new hard)) at 1.
  apply wrap_lines_fits.
  - apply split_inclusive_aux_good. reflexivity.
  - apply forallb_concat_Forall. rewrite split_inclusive_concat. exact Hp.
Qed.

End Bound.
End Width.

(* ------------------------------------------------------------------ the strict (U+0020-only) reading *)

(** the only whitespace the text uses is U+0020 and the newline *)
Definition only_sp_nl (s : list N) : Prop := Forall (fun c => is_ws c = true -> c = SP \/ c = NL) s.

Lemma only_sp_nl_all_sp w : only_sp_nl w -> all_ws w = true -> no_nl w -> all_sp w = true.
Proof.
  induction w as [|c w IH]; intros Ho Hw Hn; [reflexivity|].
  inversion Ho as [|? ? Hc Ho']; subst.
  cbn [all_ws forallb] in Hw. apply andb_true_iff in Hw. destruct Hw as [Hw1 Hw2].
  unfold no_nl in Hn. cbn [forallb] in Hn. apply andb_true_iff in Hn. destruct Hn as [Hn1 Hn2].
  cbn [all_sp forallb]. fold (all_sp w). rewrite (IH Ho' Hw2 Hn2), andb_true_r.
  destruct (Hc Hw1) as [-> | ->]; [reflexivity|discriminate].
Qed.

Lemma Wrapped_strict ind s o :
  Wrapped ind s o -> only_sp_nl s -> only_sp_nl ind -> WrappedS ind s o.
Proof.
  intros W. induction W as [|c s o W IH|w i s o Hne Hw Hn [Hi [Hiw Hin]] W IH]; intros Hs Hind.
  - constructor.
  - constructor. apply IH; [inversion Hs; assumption|exact Hind].
  - subst i. unfold only_sp_nl in Hs. apply Forall_app in Hs. destruct Hs as [Hs1 Hs2].
    apply WS_break; [exact Hne| | |apply IH; assumption].
    + apply only_sp_nl_all_sp; assumption.
    + apply only_sp_nl_all_sp; assumption.
Qed.

Section Strict.
Variable ch_width : N -> N.
Variable utf8_len : N -> N.

Theorem wrap_strict_on_plain s hard : only_sp_nl s ->
  exists outs, WrapModel.wrap ch_width utf8_len s hard = concat outs /\
    Forall2 (fun line o => WrappedS (indent_of line) line o) (split_inclusive s) outs.
Proof.
  intros Hs. destruct (wrap_rewrap ch_width utf8_len s hard) as [outs [H1 H2]].
  exists outs. split; [exact H1|].
  rewrite <- (split_inclusive_concat s) in Hs.
  clear H1. induction H2 as [|l o ls outs' W H2 IH]; [constructor|].
  cbn [concat] in Hs. unfold only_sp_nl in Hs. apply Forall_app in Hs. destruct Hs as [Hl Hr].
  constructor; [|apply IH; exact Hr].
  apply Wrapped_strict; [exact W|exact Hl|].
  destruct (indent_of_prefix l) as [r [E _]]. rewrite E in Hl.
  apply Forall_app in Hl. tauto.
Qed.
End Strict.

(* ------------------------------------------------------------------ observations (witnesses) *)

Definition w1 (c : N) : N := 1.

(** The strict reading fails in general: "a\t b" at width 1 becomes "a\nb", the tab is dropped
    with the space ([trim_end] trims all Unicode whitespace, breaks happen only after U+0020). *)
Lemma strict_reading_refuted :
  exists s hard,
    filter (fun c => negb (c =? SP) && negb (c =? NL)) (WrapModel.wrap w1 utf8_len_std s hard) <>
    filter (fun c => negb (c =? SP) && negb (c =? NL)) s.
Proof. exists [97; 9; 32; 98], 1. vm_compute. discriminate. Qed.

(** [display_width] treats ANY ASCII control character as the start of an escape sequence that
    runs to the next 'm': "x a\tbb" is believed to be 3 columns wide and is not wrapped at width 3,
    although the sum of its character widths (tab counted 0) is 5 and it has a breakable space. *)
Lemma width_control_char_refuted :
  exists s hard ln,
    In ln (lines (WrapModel.wrap (table_width [(9, 0)]) utf8_len_std s hard)) /\
    hard < sumw (table_width [(9, 0)]) (trim_end ln) /\
    (forall ind u, trim_end ln = ind ++ u -> all_ws ind = true -> In SP u).
Proof.
  exists [120; 32; 97; 9; 98; 98], 3, [120; 32; 97; 9; 98; 98].
  split; [vm_compute; left; reflexivity|]. split; [vm_compute; reflexivity|].
  intros ind u E Ha. vm_compute in E. destruct ind as [|c ind].
  - cbn [app] in E. subst u. cbn. tauto.
  - cbn [app] in E. inversion E; subst. discriminate.
Qed.

(** StyledStr::wrap does not reset the wrapper between text pieces: after a piece that ends with a
    blank line the carry-over "indent" is the blank line itself, and an inserted break becomes two
    line breaks ("\n" ESC[1m " a" at width 0 gives "\n" ESC[1m "\n\na").  The plain-text relation
    ([Wrapped], indent without newline) therefore does not hold for styled text; [WrappedW] does. *)
Lemma styled_stale_carryover_witness :
  styled_wrap_before_fix w1 utf8_len_std [(true, [10]); (false, [27; 91; 49; 109]); (true, [32; 97])] 0
  = [10; 27; 91; 49; 109; 10; 10; 97]
  /\ styled_wrap w1 utf8_len_std [(true, [10]); (false, [27; 91; 49; 109]); (true, [32; 97])] 0
  = [10; 27; 91; 49; 109; 10; 32; 97].
Proof. split; vm_compute; reflexivity. Qed.

(** hypotheses of the theorems are satisfiable / sanity examples (the textwrap unit tests) *)
Example wrap_simple : WrapModel.wrap w1 utf8_len_std [102;111;111;32;98;97;114;32;98;97;122] 5
  = [102;111;111;10;98;97;114;10;98;97;122].
Proof. vm_compute. reflexivity. Qed.
Example wrap_leading_ws : WrapModel.wrap w1 utf8_len_std [32;102;111;111;98;97;114;32;98;97;122] 6
  = [10;32;102;111;111;98;97;114;10;32;98;97;122].
Proof. vm_compute. reflexivity. Qed.
Example plain_example : plain [102;111;111;32;98;97;114;10;98] = true.
Proof. reflexivity. Qed.
Example ws_narrow_example : forall c, is_ws c = true -> w1 c <= utf8_len_std c.
Proof. intros c _. unfold w1, utf8_len_std. destruct (c <? 128), (c <? 2048), (c <? 65536); lia. Qed.
Example only_sp_nl_example : only_sp_nl [97; 32; 98; 10].
Proof. unfold only_sp_nl. repeat (apply Forall_cons; [intros H; first [discriminate H | auto]|]). apply Forall_nil. Qed.
Example ansi_zero_example : no_ctrl [97] = true /\ forallb (fun c => negb (c =? 109)) [51;56;59;53;59;49] = true.
Proof. split; reflexivity. Qed.
