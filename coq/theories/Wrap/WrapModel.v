(** Executable model of clap_builder's vendored textwrap (C20).

    Strings are lists of code points ([list N]).  One function per Rust function:

      [is_ws]                 char::is_whitespace (Unicode White_Space)
      [trim_end]              str::trim_end
      [all_ws]                [s.trim().is_empty()]
      [find_words]            word_separators.rs  find_words_ascii_space
      [split_inclusive]       str::split_inclusive('\n')
      [display_width]         core.rs  display_width (control-sequence skipping loop)
      [wrap_loop]/[wrap_words] wrap_algorithms.rs  LineWrapper::wrap
      [wrap]                  textwrap/mod.rs  wrap
      [styled_pieces]/[styled_wrap]  styled_str.rs  StyledStr::wrap
      [styled_display_width]  styled_str.rs  StyledStr::display_width

    External oracles are Section variables: [ch_width] (unicode-width's
    [UnicodeWidthChar::width(ch).unwrap_or(0)]) and [utf8_len] ([char::len_utf8]); the Rust code
    mixes BYTE lengths ([word.len() - trimmed.len()], [carryover.len()]) with display widths,
    and the model does the same.

    usize arithmetic: [line_width + word_width] is at most a small multiple of the byte length of
    the text wrapped so far, so it cannot overflow a 64-bit usize for any text that fits in memory;
    the model uses unbounded [N] for it (hypothesis, stated in ASSUMPTIONS).  [hard_width] is any N.
    The only unsigned subtraction, [word.len() - trimmed.len()], cannot underflow because
    [trimmed] is a prefix of [word] (lemma [WrapProofs.trimmed_delta_no_underflow]). *)
From ClapModel Require Import Base.Bytes.
Open Scope N_scope.

Notation chr := N (only parsing).
Notation str := (list N) (only parsing).

Definition NL : chr := 10.
Definition SP : chr := 32.

(** Rust [char::is_whitespace]: U+0009..U+000D, U+0020, U+0085, U+00A0, U+1680, U+2000..U+200A,
    U+2028, U+2029, U+202F, U+205F, U+3000. *)
Definition is_ws (c : chr) : bool :=
  ((9 <=? c) && (c <=? 13)) || (c =? 32) || (c =? 133) || (c =? 160) || (c =? 5760)
  || ((8192 <=? c) && (c <=? 8202)) || (c =? 8232) || (c =? 8233) || (c =? 8239)
  || (c =? 8287) || (c =? 12288).

Fixpoint drop_ws (s : str) : str :=
  match s with
  | [] => []
  | c :: t => if is_ws c then drop_ws t else s
  end.

(** [str::trim_end] *)
Definition trim_end (s : str) : str := rev (drop_ws (rev s)).

(** [s.trim().is_empty()] *)
Definition all_ws (s : str) : bool := forallb is_ws s.

(** [find_words_ascii_space]: a word ends before a non-space character that follows U+0020.
    [cur] is the reversed slice [line[start..idx]]. *)
Fixpoint find_words_aux (line : str) (cur : str) (in_whitespace : bool) : list str :=
  match line with
  | [] => match cur with [] => [] | _ => [rev cur] end        (* if start < line.len() *)
  | ch :: rest =>
      let next_whitespace := (ch =? SP) in
      if in_whitespace && negb next_whitespace
      then rev cur :: find_words_aux rest [ch] next_whitespace
      else find_words_aux rest (ch :: cur) next_whitespace
  end.
Definition find_words (line : str) : list str := find_words_aux line [] false.

(** [str::split_inclusive('\n')] *)
Fixpoint split_inclusive_aux (s : str) (cur : str) : list str :=
  match s with
  | [] => match cur with [] => [] | _ => [rev cur] end
  | c :: t => if c =? NL then rev (c :: cur) :: split_inclusive_aux t []
              else split_inclusive_aux t (c :: cur)
  end.
Definition split_inclusive (s : str) : list str := split_inclusive_aux s [].

(** [char::len_utf8] *)
Definition utf8_len_std (c : chr) : N :=
  if c <? 128 then 1 else if c <? 2048 then 2 else if c <? 65536 then 3 else 4.

(** UTF-8 encoder (used by the driver to print results, and to justify [utf8_len_std]). *)
Definition encode_char (c : chr) : bytes :=
  if c <? 128 then [c]
  else if c <? 2048 then [192 + c / 64; 128 + c mod 64]
  else if c <? 65536 then [224 + c / 4096; 128 + (c / 64) mod 64; 128 + c mod 64]
  else [240 + c / 262144; 128 + (c / 4096) mod 64; 128 + (c / 64) mod 64; 128 + c mod 64].
Definition encode (s : str) : bytes := flat_map encode_char s.

(** A finite width table (code point, width), default 1: how the driver instantiates [ch_width]
    with the widths the implementation's unicode-width reports for the characters of a case. *)
Fixpoint table_width (tbl : list (N * N)) (c : chr) : N :=
  match tbl with
  | [] => 1
  | (k, w) :: t => if k =? c then w else table_width t c
  end.

Section W.
Variable ch_width : chr -> N.
Variable utf8_len : chr -> N.

(** [char::is_ascii_control]: U+0000..U+001F and U+007F *)
Definition is_ascii_control (c : chr) : bool := (c <? 32) || (c =? 127).

(** core.rs [display_width]: an ASCII control character starts a control sequence, the next 'm'
    ends it; width is counted only outside. *)
Fixpoint dw_aux (s : str) (control_sequence : bool) (width : N) : N :=
  match s with
  | [] => width
  | ch :: t =>
      if is_ascii_control ch then dw_aux t true width
      else if control_sequence && (ch =? 109) then dw_aux t false width      (* continue *)
      else if control_sequence then dw_aux t true width
      else dw_aux t false (width + ch_width ch)
  end.
Definition display_width (s : str) : N := dw_aux s false 0.

(** [str::len] in bytes *)
Definition blen (s : str) : N := fold_right (fun c a => utf8_len c + a) 0 s.

Record line_wrapper := { hard_width : N; line_width : N; carryover : option str }.

Definition lw_new (hard : N) : line_wrapper :=
  {| hard_width := hard; line_width := 0; carryover := None |}.
Definition lw_reset (st : line_wrapper) : line_wrapper :=
  {| hard_width := hard_width st; line_width := 0; carryover := None |}.

(** The [while i < words.len()] loop of [LineWrapper::wrap].  The vector is kept as a zipper:
    [acc] is [words[0..i]] reversed (so its head is [words[i-1]]), [ws] is [words[i..]].
    [i != 0] is "[acc] is not empty"; the inner [if 0 < i] is then always true. *)
Fixpoint wrap_loop (hard : N) (cy : option str) (lw : N) (acc ws : list str) : list str * N :=
  match ws with
  | [] => (rev acc, lw)
  | word :: rest =>
      let trimmed := trim_end word in
      let word_width := display_width trimmed in
      let trimmed_delta := blen word - blen trimmed in
      match acc with
      | [] => wrap_loop hard cy (lw + (word_width + trimmed_delta)) [word] rest
      | last :: before =>
          if hard <? lw + word_width then
            let acc1 := [NL] :: trim_end last :: before in
            let '(acc2, lw1) := match cy with
                                | Some c => (c :: acc1, blen c)
                                | None => (acc1, 0)
                                end in
            wrap_loop hard cy (lw1 + (word_width + trimmed_delta)) (word :: acc2) rest
          else wrap_loop hard cy (lw + (word_width + trimmed_delta)) (word :: acc) rest
      end
  end.

(** [LineWrapper::wrap] *)
Definition wrap_words (st : line_wrapper) (words : list str) : list str * line_wrapper :=
  let cy := match carryover st with
            | Some c => Some c
            | None => match words with
                      | [] => None
                      | w :: _ => Some (if all_ws w then w else [])
                      end
            end in
  let '(out, lw) := wrap_loop (hard_width st) cy (line_width st) [] words in
  (out, {| hard_width := hard_width st; line_width := lw; carryover := cy |}).

(** textwrap [wrap]: per [split_inclusive('\n')] line: reset, find words, wrap; join. *)
Fixpoint wrap_lines (st : line_wrapper) (lines : list str) : list str :=
  match lines with
  | [] => []
  | line :: rest =>
      let '(out, st') := wrap_words (lw_reset st) (find_words line) in
      out ++ wrap_lines st' rest
  end.
Definition wrap (content : str) (hard : N) : str :=
  concat (wrap_lines (lw_new hard) (split_inclusive content)).

(** [StyledStr::wrap].  A styled string is given by its segmentation: [(true, text)] for the
    pieces [iter_text] yields, [(false, esc)] for the bytes between them (copied verbatim).
    The wrapper is reset whenever the previous line ended with a newline ([after_newline]), also
    across text pieces (repaired behaviour, /repo 63452b4; the pre-repair function, which reset only
    for the 2nd.. line of one piece, is kept below as [styled_wrap_before_fix]). *)
Definition ends_with_nl (l : str) : bool := match rev l with 10 :: _ => true | _ => false end.

Fixpoint styled_lines (st : line_wrapper) (after_nl : bool) (lines : list str)
  : list str * line_wrapper * bool :=
  match lines with
  | [] => ([], st, after_nl)
  | line :: rest =>
      let st1 := if after_nl then lw_reset st else st in
      let '(out, st2) := wrap_words st1 (find_words line) in
      let '(outs, st3, a3) := styled_lines st2 (ends_with_nl line) rest in
      (out ++ outs, st3, a3)
  end.

Fixpoint styled_pieces (st : line_wrapper) (after_nl : bool) (segs : list (bool * str)) : list (bool * str) :=
  match segs with
  | [] => []
  | (is_text, content) :: rest =>
      if (is_text : bool) then
        let '(out, st', a') := styled_lines st after_nl (split_inclusive content) in
        (true, concat out) :: styled_pieces st' a' rest
      else (false, content) :: styled_pieces st after_nl rest
  end.

Definition styled_wrap (segs : list (bool * str)) (hard : N) : str :=
  trim_end (concat (map snd (styled_pieces (lw_new hard) false segs))).

(** the function as it was before the repair *)
Fixpoint styled_lines_before_fix (st : line_wrapper) (i_pos : bool) (lines : list str)
  : list str * line_wrapper :=
  match lines with
  | [] => ([], st)
  | line :: rest =>
      let st1 := if i_pos then lw_reset st else st in
      let '(out, st2) := wrap_words st1 (find_words line) in
      let '(outs, st3) := styled_lines_before_fix st2 true rest in
      (out ++ outs, st3)
  end.
Fixpoint styled_pieces_before_fix (st : line_wrapper) (segs : list (bool * str)) : list (bool * str) :=
  match segs with
  | [] => []
  | (is_text, content) :: rest =>
      if (is_text : bool) then
        let '(out, st') := styled_lines_before_fix st false (split_inclusive content) in
        (true, concat out) :: styled_pieces_before_fix st' rest
      else (false, content) :: styled_pieces_before_fix st rest
  end.
Definition styled_wrap_before_fix (segs : list (bool * str)) (hard : N) : str :=
  trim_end (concat (map snd (styled_pieces_before_fix (lw_new hard) segs))).

(** [StyledStr::display_width]: sum over the text pieces *)
Definition styled_display_width (segs : list (bool * str)) : N :=
  fold_right (fun (p : bool * str) (a : N) => if fst p then display_width (snd p) + a else a) 0 segs.

End W.

(** The [last]/[current] pointer arithmetic of [StyledStr::wrap]: from the byte ranges of the
    text pieces to the segmentation (gaps are pushed only when non-empty). *)
Fixpoint pieces_of_ranges (s : bytes) (pos : nat) (ranges : list (nat * nat)) : list (bool * bytes) :=
  match ranges with
  | [] => match s with [] => [] | _ => [(false, s)] end
  | (a, b) :: rest =>
      let gap := firstn (a - pos) s in
      let s1 := skipn (a - pos) s in
      let txt := firstn (b - a) s1 in
      let s2 := skipn (b - a) s1 in
      match gap with
      | [] => (true, txt) :: pieces_of_ranges s2 b rest
      | _ => (false, gap) :: (true, txt) :: pieces_of_ranges s2 b rest
      end
  end.
