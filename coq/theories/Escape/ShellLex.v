(** C17 -- small lexer models of the quoting rules of the target shells.

    Each shell is a character-driven state machine [step : state -> N -> state * list ev].
    Events classify what happened to the characters read:
      [Lit c]  the character c became part of the payload of a string literal or comment (data);
      [Qm c]   a quoting mark of a POSIX-shell word ('...', "...", \x): part of no payload and
               no token boundary (zsh/bash words are concatenations of quoted pieces);
      [Str c]  a structural character (delimiter, operator, bare-word character, quote that opens
               or closes a literal in fish/PowerShell/elvish/nushell);
      [Act c]  a character read in an expanding position inside a literal ($ or ` in "...").
    The token skeleton of a script is its event list with the [Lit] (and [Qm]) events erased.
    The machines are written from the shells' documentation (nushell: nu-parser 0.88.1 lex.rs);
    they are part of the trusted base. *)
From ClapModel Require Import Base.Bytes.
Open Scope N_scope.

Inductive ev := Lit (c : N) | Qm (c : N) | Str (c : N) | Act (c : N).

Section Run.
  Context {S : Type}.
  Variable step : S -> N -> S * list ev.

  Fixpoint final (st : S) (l : list N) : S :=
    match l with
    | [] => st
    | c :: r => final (fst (step st c)) r
    end.

  Fixpoint events (st : S) (l : list N) : list ev :=
    match l with
    | [] => []
    | c :: r => snd (step st c) ++ events (fst (step st c)) r
    end.
End Run.

Definition is_data (e : ev) : bool := match e with Lit _ | Qm _ => true | _ => false end.
Fixpoint lits (l : list ev) : list N :=
  match l with
  | [] => []
  | Lit c :: r => c :: lits r
  | _ :: r => lits r
  end.
(** the token skeleton: everything that is not literal payload or a word-internal quoting mark *)
Definition skeleton (l : list ev) : list ev := filter (fun e => negb (is_data e)) l.

Definition is_ws (c : N) : bool := (c =? 32) || (c =? 9).

(** ** fish *)
Inductive fstate := FB (* between words *) | FW (* in a bare word *) | FBS (* after a bare backslash *)
  | FSQ | FSQB (* '...' / after \ in it *) | FDQ | FDQB (* "..." / after \ in it *) | FC (* # comment *).

Definition fish_step (st : fstate) (c : N) : fstate * list ev :=
  match st with
  | FB | FW =>
    if c =? 39 then (FSQ, [Str 39])
    else if c =? 34 then (FDQ, [Str 34])
    else if c =? 92 then (FBS, [])
    else if (c =? 35) && (match st with FB => true | _ => false end) then (FC, [Str 35])
    else if is_ws c || (c =? 10) || (c =? 59) then (FB, [Str c])
    else (FW, [Str c])
  | FBS => if c =? 10 then (FW, []) else (FW, [Str 92; Str c])
  | FSQ =>
    if c =? 92 then (FSQB, [])
    else if c =? 39 then (FW, [Str 39])
    else (FSQ, [Lit c])
  | FSQB =>
    if (c =? 92) || (c =? 39) then (FSQ, [Lit c]) else (FSQ, [Lit 92; Lit c])
  | FDQ =>
    if c =? 34 then (FW, [Str 34])
    else if c =? 92 then (FDQB, [])
    else if c =? 36 then (FDQ, [Act 36])
    else (FDQ, [Lit c])
  | FDQB =>
    if (c =? 34) || (c =? 36) || (c =? 92) then (FDQ, [Lit c])
    else if c =? 10 then (FDQ, [])
    else (FDQ, [Lit 92; Lit c])
  | FC => if c =? 10 then (FB, [Str 10]) else (FC, [Lit c])
  end.

(** ** POSIX-like words: zsh and bash *)
Inductive zstate := ZB | ZW | ZBS | ZSQ | ZDQ | ZDQB | ZC.

Definition sh_step (st : zstate) (c : N) : zstate * list ev :=
  match st with
  | ZB | ZW =>
    if c =? 39 then (ZSQ, [Qm 39])
    else if c =? 34 then (ZDQ, [Qm 34])
    else if c =? 92 then (ZBS, [])
    else if (c =? 35) && (match st with ZB => true | _ => false end) then (ZC, [Str 35])
    else if is_ws c || (c =? 10) then (ZB, [Str c])
    else if (c =? 59) || (c =? 38) || (c =? 124) || (c =? 40) || (c =? 41) || (c =? 60) || (c =? 62)
      then (ZB, [Str c])
    else if (c =? 36) || (c =? 96) then (ZW, [Act c])
    else (ZW, [Str c])
  | ZBS => if c =? 10 then (ZW, []) else (ZW, [Qm 92; Lit c])
  | ZSQ => if c =? 39 then (ZW, [Qm 39]) else (ZSQ, [Lit c])
  | ZDQ =>
    if c =? 34 then (ZW, [Qm 34])
    else if c =? 92 then (ZDQB, [])
    else if (c =? 36) || (c =? 96) then (ZDQ, [Act c])
    else (ZDQ, [Lit c])
  | ZDQB =>
    if (c =? 36) || (c =? 96) || (c =? 34) || (c =? 92) then (ZDQ, [Lit c])
    else if c =? 10 then (ZDQ, [])
    else (ZDQ, [Lit 92; Lit c])
  | ZC => if c =? 10 then (ZB, [Str 10]) else (ZC, [Lit c])
  end.

(** ** zsh, second level: an [_arguments] spec / a [_describe] item after the shell removed the
    quotes.  A backslash protects the next character; '[' opens and ']' closes the option
    description; ':' separates the fields that follow (Src/Zle/computil.c, parse_cadef: the scan
    for the closing bracket or the next colon skips the character after every backslash). *)
Inductive zsstate := ZsPre | ZsPreB | ZsDescr | ZsDescrB | ZsField | ZsFieldB.

Definition zspec_step (st : zsstate) (c : N) : zsstate * list ev :=
  match st with
  | ZsPre =>
    if c =? 92 then (ZsPreB, [])
    else if c =? 91 then (ZsDescr, [Str 91])
    else if c =? 58 then (ZsField, [Str 58])
    else (ZsPre, [Str c])
  | ZsPreB => (ZsPre, [Str 92; Str c])
  | ZsDescr =>
    if c =? 92 then (ZsDescrB, [])
    else if c =? 93 then (ZsField, [Str 93])
    else (ZsDescr, [Lit c])
  | ZsDescrB => (ZsDescr, [Lit c])
  | ZsField =>
    if c =? 92 then (ZsFieldB, [])
    else if c =? 58 then (ZsField, [Str 58])
    else (ZsField, [Lit c])
  | ZsFieldB => (ZsField, [Lit c])
  end.

(** ** PowerShell.  All of U+0027 U+2018 U+2019 U+201A U+201B are single-quote characters and
    U+0022 U+201C U+201D U+201E double-quote characters for the tokenizer (CharTraits
    IsSingleQuote / IsDoubleQuote); inside '...' two consecutive single-quote characters stand
    for the second one. *)
Inductive pstate := PB | PW | PSQ | PSQQ | PDQ | PDQQ | PDQB | PC.

Definition ps_is_sq (c : N) : bool :=
  (c =? 39) || (c =? 8216) || (c =? 8217) || (c =? 8218) || (c =? 8219).
Definition ps_is_dq (c : N) : bool :=
  (c =? 34) || (c =? 8220) || (c =? 8221) || (c =? 8222).

Definition ps_bare (st : pstate) (c : N) : pstate * list ev :=
  if ps_is_sq c then (PSQ, [Str 39])
  else if ps_is_dq c then (PDQ, [Str 34])
  else if (c =? 35) && (match st with PB => true | _ => false end) then (PC, [Str 35])
  else if is_ws c || (c =? 10) || (c =? 13) || (c =? 59) || (c =? 44) || (c =? 40) || (c =? 41)
       || (c =? 123) || (c =? 125) || (c =? 124)
    then (PB, [Str c])
  else (PW, [Str c]).

Definition ps_step (st : pstate) (c : N) : pstate * list ev :=
  match st with
  | PB | PW => ps_bare st c
  | PSQ => if ps_is_sq c then (PSQQ, []) else (PSQ, [Lit c])
  | PSQQ =>
    if ps_is_sq c then (PSQ, [Lit c])
    else let '(st', e) := ps_bare PW c in (st', Str 39 :: e)
  | PDQ =>
    if ps_is_dq c then (PDQQ, [])
    else if c =? 96 then (PDQB, [])
    else if c =? 36 then (PDQ, [Act 36])
    else (PDQ, [Lit c])
  | PDQQ =>
    if ps_is_dq c then (PDQ, [Lit c])
    else let '(st', e) := ps_bare PW c in (st', Str 34 :: e)
  | PDQB => (PDQ, [Lit 96; Lit c])
  | PC => if c =? 10 then (PB, [Str 10]) else (PC, [Lit c])
  end.

(** ** elvish: '...' with '' for a quote; "..." with backslash escapes and no interpolation. *)
Inductive estate := EB | EW | ESQ | ESQQ | EDQ | EDQB | EC.

Definition el_bare (st : estate) (c : N) : estate * list ev :=
  if c =? 39 then (ESQ, [Str 39])
  else if c =? 34 then (EDQ, [Str 34])
  else if (c =? 35) && (match st with EB => true | _ => false end) then (EC, [Str 35])
  else if is_ws c || (c =? 10) || (c =? 13) || (c =? 59) || (c =? 40) || (c =? 41)
       || (c =? 123) || (c =? 125) || (c =? 124) || (c =? 91) || (c =? 93)
    then (EB, [Str c])
  else (EW, [Str c]).

Definition el_step (st : estate) (c : N) : estate * list ev :=
  match st with
  | EB | EW => el_bare st c
  | ESQ => if c =? 39 then (ESQQ, []) else (ESQ, [Lit c])
  | ESQQ =>
    if c =? 39 then (ESQ, [Lit 39])
    else let '(st', e) := el_bare EW c in (st', Str 39 :: e)
  | EDQ =>
    if c =? 34 then (EW, [Str 34])
    else if c =? 92 then (EDQB, [])
    else (EDQ, [Lit c])
  | EDQB => (EDQ, [Lit 92; Lit c])
  | EC => if c =? 10 then (EB, [Str 10]) else (EC, [Lit c])
  end.

(** ** nushell (nu-parser 0.88.1 lex.rs): '#' at a token start opens a comment that runs to the
    next '\n' (a '\r' does not end it); '...' and `...` are raw, "..." has backslash escapes. *)
Inductive nstate := NB | NW | NSQ | NBT | NDQ | NDQB | NC.

Definition nu_step (st : nstate) (c : N) : nstate * list ev :=
  match st with
  | NB | NW =>
    if c =? 39 then (NSQ, [Str 39])
    else if c =? 96 then (NBT, [Str 96])
    else if c =? 34 then (NDQ, [Str 34])
    else if (c =? 35) && (match st with NB => true | _ => false end) then (NC, [Str 35])
    else if is_ws c || (c =? 10) || (c =? 13) || (c =? 59) || (c =? 124) || (c =? 91) || (c =? 93)
         || (c =? 123) || (c =? 125) || (c =? 40) || (c =? 41) || (c =? 44) || (c =? 58)
      then (NB, [Str c])
    else (NW, [Str c])
  | NSQ => if c =? 39 then (NW, [Str 39]) else (NSQ, [Lit c])
  | NBT => if c =? 96 then (NW, [Str 96]) else (NBT, [Lit c])
  | NDQ =>
    if c =? 34 then (NW, [Str 34])
    else if c =? 92 then (NDQB, [])
    else (NDQ, [Lit c])
  | NDQB => (NDQ, [Lit 92; Lit c])
  | NC => if c =? 10 then (NB, [Str 10]) else (NC, [Lit c])
  end.
