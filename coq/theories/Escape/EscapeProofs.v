(** C17 -- proofs: [replace] meets the specification of [str::replace]; every escape function,
    placed in the quoting context the generator emits it in, is read back by that shell's lexer
    model as literal payload only, ends in the state it started in, and yields the intended
    payload -- for every string and every continuation. *)
From ClapModel Require Import Base.Bytes Gen.EscapeTables Escape.EscapeModel Escape.ShellLex.
Open Scope N_scope.

(** * [replace] *)

Lemma replace_aux_skip pat rep : forall s n,
  replace_aux pat rep n s = replace_aux pat rep O (skipn n s).
Proof.
  induction s as [|c s IH]; intros [|n]; cbn [replace_aux skipn]; try reflexivity.
  apply IH.
Qed.

(** The three equations that characterise left-to-right, non-overlapping replacement. *)
Lemma replace_nil pat rep : pat <> [] -> replace pat rep [] = [].
Proof. destruct pat; [congruence|reflexivity]. Qed.

Lemma replace_match pat rep s : pat <> [] -> starts_with s pat = true ->
  replace pat rep s = rep ++ replace pat rep (skipn (length pat) s).
Proof.
  intros Hp Hs. destruct pat as [|p pat]; [congruence|].
  unfold replace. destruct s as [|c s]; [discriminate|].
  cbn [replace_aux]. rewrite Hs. cbn [length pred skipn].
  rewrite replace_aux_skip. reflexivity.
Qed.

Lemma replace_nomatch pat rep c s : pat <> [] -> starts_with (c :: s) pat = false ->
  replace pat rep (c :: s) = c :: replace pat rep s.
Proof.
  intros Hp Hs. destruct pat as [|p pat]; [congruence|].
  unfold replace. cbn [replace_aux]. rewrite Hs. reflexivity.
Qed.

Lemma replace_empty_pat rep s : replace [] rep s = rep ++ flat_map (fun c => c :: rep) s.
Proof. reflexivity. Qed.

(** no occurrence: identity *)
Lemma replace_absent pat rep : pat <> [] -> forall s,
  (forall i, starts_with (skipn i s) pat = false) -> replace pat rep s = s.
Proof.
  intros Hp. induction s as [|c s IH]; intros H.
  - apply replace_nil; assumption.
  - rewrite replace_nomatch; [|assumption|exact (H O)].
    f_equal. apply IH. intros i. exact (H (S i)).
Qed.

(** a pattern of one character: character-wise substitution *)
Definition subst1 (p : N) (rep : str) (c : N) : str := if c =? p then rep else [c].

Lemma replace_single p rep s : replace [p] rep s = flat_map (subst1 p rep) s.
Proof.
  induction s as [|c s IH]; [reflexivity|].
  cbn [flat_map]. unfold subst1 at 1. destruct (N.eqb_spec c p) as [->|Hne].
  - rewrite replace_match; [|discriminate|cbn [starts_with]; rewrite N.eqb_refl; destruct s; reflexivity].
    cbn [length skipn]. now rewrite IH.
  - rewrite replace_nomatch; [|discriminate|].
    + now rewrite IH.
    + cbn [starts_with]. apply N.eqb_neq in Hne. rewrite Hne. reflexivity.
Qed.

(** * chains *)

Lemma apply_chain_app t1 t2 s : apply_chain (t1 ++ t2) s = apply_chain t2 (apply_chain t1 s).
Proof.
  revert s. induction t1 as [|[p r] t1 IH]; intros s; cbn [apply_chain app]; [reflexivity|apply IH].
Qed.

Definition single_pat (pr : str * str) : bool := match fst pr with [_] => true | _ => false end.
Definition all_single (t : chain) : bool := forallb single_pat t.
Definition keys (t : chain) : list N := map (fun pr => hd 0 (fst pr)) t.

Lemma flat_map_flat_map {A B C} (f : A -> list B) (g : B -> list C) l :
  flat_map g (flat_map f l) = flat_map (fun a => flat_map g (f a)) l.
Proof.
  induction l as [|a l IH]; [reflexivity|].
  cbn [flat_map]. rewrite flat_map_app. now rewrite IH.
Qed.

(** a chain of single-character replacements acts character by character *)
Lemma apply_chain_charwise t : all_single t = true -> forall s,
  apply_chain t s = flat_map (fun c => apply_chain t [c]) s.
Proof.
  induction t as [|[p r] t IH]; intros Hs s.
  - cbn [apply_chain]. induction s as [|c s IHs]; [reflexivity|]. cbn [flat_map app]. now rewrite <- IHs.
  - cbn [all_single forallb] in Hs. apply andb_true_iff in Hs. destruct Hs as [Hp Ht].
    destruct p as [|p [|q p']]; try discriminate.
    cbn [apply_chain]. rewrite replace_single. rewrite (IH Ht).
    rewrite flat_map_flat_map. apply flat_map_ext. intros c.
    rewrite replace_single. rewrite (IH Ht (flat_map _ [c])). cbn [flat_map]. now rewrite app_nil_r.
Qed.

Lemma apply_chain_other t c : all_single t = true -> ~ In c (keys t) -> apply_chain t [c] = [c].
Proof.
  induction t as [|[p r] t IH]; intros Hs Hn; [reflexivity|].
  cbn [all_single forallb] in Hs. apply andb_true_iff in Hs. destruct Hs as [Hp Ht].
  destruct p as [|p [|q p']]; try discriminate.
  cbn [apply_chain]. rewrite replace_single. cbn [flat_map app]. unfold subst1.
  destruct (N.eqb_spec c p) as [->|Hne].
  - exfalso. apply Hn. cbn. now left.
  - rewrite app_nil_r. apply IH; [assumption|]. intros Hin. apply Hn. cbn. now right.
Qed.

(** * the machines: composition *)

Section RunFacts.
  Context {S : Type}.
  Variable step : S -> N -> S * list ev.

  Lemma final_app st a b : final step st (a ++ b) = final step (final step st a) b.
  Proof. revert st. induction a as [|c a IH]; intros st; cbn [final app]; [reflexivity|apply IH]. Qed.

  Lemma events_app st a b :
    events step st (a ++ b) = events step st a ++ events step (final step st a) b.
  Proof.
    revert st. induction a as [|c a IH]; intros st; cbn [events final app]; [reflexivity|].
    rewrite IH. now rewrite app_assoc.
  Qed.

  (** [transparent st chunk payload]: read in state [st], [chunk] produces exactly the literal
      payload [payload] -- no structural and no active event -- and leaves the machine in [st]. *)
  Definition transparent (st : S) (chunk payload : list N) : Prop :=
    final step st chunk = st /\ events step st chunk = map Lit payload.

  (** the same for a POSIX word, where quoting marks may occur inside the chunk *)
  Definition word_transparent (st : S) (chunk payload : list N) : Prop :=
    final step st chunk = st /\ forallb is_data (events step st chunk) = true
    /\ lits (events step st chunk) = payload.

  Lemma transparent_nil st : transparent st [] [].
  Proof. split; reflexivity. Qed.

  Lemma transparent_app st a b pa pb :
    transparent st a pa -> transparent st b pb -> transparent st (a ++ b) (pa ++ pb).
  Proof.
    intros [Fa Ea] [Fb Eb]. split.
    - rewrite final_app, Fa. exact Fb.
    - rewrite events_app, Fa, Ea, Eb. now rewrite map_app.
  Qed.

  Lemma transparent_flat_map st (esc pay : N -> list N) :
    (forall c, transparent st (esc c) (pay c)) ->
    forall s, transparent st (flat_map esc s) (flat_map pay s).
  Proof.
    intros H. induction s as [|c s IH]; [apply transparent_nil|].
    cbn [flat_map]. apply transparent_app; [apply H|apply IH].
  Qed.

  (** what transparency means for a whole script: whatever follows the chunk is lexed exactly
      as if the chunk were absent, and the chunk contributes payload only *)
  Lemma transparent_context st chunk payload rest :
    transparent st chunk payload ->
    final step st (chunk ++ rest) = final step st rest /\
    events step st (chunk ++ rest) = map Lit payload ++ events step st rest.
  Proof.
    intros [F E]. split.
    - now rewrite final_app, F.
    - now rewrite events_app, F, E.
  Qed.

  Lemma lits_app a b : lits (a ++ b) = lits a ++ lits b.
  Proof. induction a as [|[c|c|c|c] a IH]; cbn [lits app]; try assumption; [reflexivity|now rewrite IH]. Qed.

  Lemma lits_map_Lit l : lits (map Lit l) = l.
  Proof. induction l as [|c l IH]; cbn [lits map]; [reflexivity|now rewrite IH]. Qed.

  Lemma skeleton_app a b : skeleton (a ++ b) = skeleton a ++ skeleton b.
  Proof. apply filter_app. Qed.

  Lemma skeleton_data l : forallb is_data l = true -> skeleton l = [].
  Proof.
    induction l as [|e l IH]; [reflexivity|]. cbn [forallb]. intros H.
    apply andb_true_iff in H. destruct H as [He Hl]. unfold skeleton. cbn [filter].
    rewrite He. cbn [negb]. apply IH. exact Hl.
  Qed.

  Lemma data_map_Lit l : forallb is_data (map Lit l) = true.
  Proof. induction l as [|c l IH]; [reflexivity|exact IH]. Qed.

  Lemma word_transparent_nil st : word_transparent st [] [].
  Proof. repeat split. Qed.

  Lemma word_transparent_app st a b pa pb :
    word_transparent st a pa -> word_transparent st b pb -> word_transparent st (a ++ b) (pa ++ pb).
  Proof.
    intros (Fa & Da & La) (Fb & Db & Lb). repeat split.
    - rewrite final_app, Fa. exact Fb.
    - rewrite events_app, Fa, forallb_app, Da, Db. reflexivity.
    - rewrite events_app, Fa, lits_app, La, Lb. reflexivity.
  Qed.

  Lemma word_transparent_flat_map st (esc pay : N -> list N) :
    (forall c, word_transparent st (esc c) (pay c)) ->
    forall s, word_transparent st (flat_map esc s) (flat_map pay s).
  Proof.
    intros H. induction s as [|c s IH]; [apply word_transparent_nil|].
    cbn [flat_map]. apply word_transparent_app; [apply H|apply IH].
  Qed.

  Lemma word_transparent_context st chunk payload rest :
    word_transparent st chunk payload ->
    final step st (chunk ++ rest) = final step st rest /\
    skeleton (events step st (chunk ++ rest)) = skeleton (events step st rest) /\
    lits (events step st (chunk ++ rest)) = payload ++ lits (events step st rest).
  Proof.
    intros (F & D & L). repeat split.
    - now rewrite final_app, F.
    - rewrite events_app, F, skeleton_app, (skeleton_data _ D). reflexivity.
    - now rewrite events_app, F, lits_app, L.
  Qed.

  Lemma transparent_word st chunk payload :
    transparent st chunk payload -> word_transparent st chunk payload.
  Proof.
    intros [F E]. repeat split; [exact F| |]; rewrite E; [apply data_map_Lit|apply lits_map_Lit].
  Qed.
End RunFacts.

Lemma flat_map_singleton {A B} (f : A -> B) l : flat_map (fun c => [f c]) l = map f l.
Proof. induction l as [|a l IH]; [reflexivity|]. cbn [flat_map map app]. now rewrite IH. Qed.

(** * per-context theorems *)

(** Proof pattern.  A chain of single-character replacements is character-wise; a character that
    is a key of the table is a concrete number (compute both sides); any other character is
    unchanged by the chain, and -- because every character the lexer treats specially in this
    state is a key -- is read as one literal character. *)
Ltac key_cases Hin :=
  cbn in Hin;
  repeat (destruct Hin as [Hin|Hin]; [subst; vm_compute; repeat split; reflexivity|]);
  contradiction.

Ltac not_key Hout :=
  repeat match goal with
  | |- context [N.eqb ?c ?k] =>
      destruct (N.eqb_spec c k) as [?|?]; [exfalso; apply Hout; subst; cbn; tauto|]
  end.

Ltac default_case stp Hout :=
  repeat (progress (cbn [final events stp fst snd app map orb andb]; not_key Hout)).

(** ** fish, '...' : option/flag help and subcommand about (-d '...'). *)
Definition fish_help_chain : chain := fish_escape_help_pre ++ fish_escape_string_base.

Lemma fish_escape_help_chain s : fish_escape_help s = apply_chain fish_help_chain s.
Proof. unfold fish_escape_help, fish_escape_string, fish_help_chain. now rewrite apply_chain_app. Qed.

Lemma fish_sq_char c :
  transparent fish_step FSQ (apply_chain fish_help_chain [c]) [flat1 c].
Proof.
  destruct (in_dec N.eq_dec c (keys fish_help_chain)) as [Hin|Hout].
  - key_cases Hin.
  - rewrite apply_chain_other by (reflexivity || assumption).
    unfold transparent, flat1. default_case fish_step Hout. split; reflexivity.
Qed.

Theorem fish_sq_transparent s :
  transparent fish_step FSQ (fish_escape_help s) (flatten s).
Proof.
  rewrite fish_escape_help_chain, apply_chain_charwise by reflexivity.
  unfold flatten. rewrite <- flat_map_singleton.
  apply transparent_flat_map. exact fish_sq_char.
Qed.

(** ** elvish, '...' *)
Definition elvish_help_chain : chain := elvish_escape_help_pre ++ elvish_escape_string_chain.

Lemma elvish_escape_help_chain s : elvish_escape_help s = apply_chain elvish_help_chain s.
Proof. unfold elvish_escape_help, elvish_escape_string, elvish_help_chain. now rewrite apply_chain_app. Qed.

Lemma elvish_sq_char c :
  transparent el_step ESQ (apply_chain elvish_help_chain [c]) [flat1 c].
Proof.
  destruct (in_dec N.eq_dec c (keys elvish_help_chain)) as [Hin|Hout].
  - key_cases Hin.
  - rewrite apply_chain_other by (reflexivity || assumption).
    unfold transparent, flat1. default_case el_step Hout. split; reflexivity.
Qed.

Theorem elvish_sq_transparent s :
  transparent el_step ESQ (elvish_escape_help s) (flatten s).
Proof.
  rewrite elvish_escape_help_chain, apply_chain_charwise by reflexivity.
  unfold flatten. rewrite <- flat_map_singleton.
  apply transparent_flat_map. exact elvish_sq_char.
Qed.

(** ** nushell, '#' comment: the flattened text contains no newline, so the comment ends exactly at
    the newline the generator writes. *)
Lemma nushell_char c :
  transparent nu_step NC (apply_chain nushell_single_line_chain [c]) [flat1 c].
Proof.
  destruct (in_dec N.eq_dec c (keys nushell_single_line_chain)) as [Hin|Hout].
  - key_cases Hin.
  - rewrite apply_chain_other by (reflexivity || assumption).
    unfold transparent, flat1. default_case nu_step Hout. split; reflexivity.
Qed.

Theorem nushell_comment_transparent s :
  transparent nu_step NC (nushell_single_line s) (flatten s).
Proof.
  unfold nushell_single_line. rewrite apply_chain_charwise by reflexivity.
  unfold flatten. rewrite <- flat_map_singleton.
  apply transparent_flat_map. exact nushell_char.
Qed.

(** ** zsh level 1: inside a '...' piece of a word.  A quote in the text becomes '\'' (close,
    escaped quote, reopen): quoting marks inside one word, payload "'". *)
Definition zsh_l1_char (c : N) : str :=
  if c =? 39 then [39] else apply_chain zsh_escape_help_chain [c].
Definition zsh_l1 (s : str) : str := flat_map zsh_l1_char s.

Lemma zsh_sq_char c :
  word_transparent sh_step ZSQ (apply_chain zsh_escape_help_chain [c]) (zsh_l1_char c).
Proof.
  destruct (in_dec N.eq_dec c (keys zsh_escape_help_chain)) as [Hin|Hout].
  - key_cases Hin.
  - unfold zsh_l1_char. rewrite apply_chain_other by (reflexivity || assumption).
    unfold word_transparent. default_case sh_step Hout. repeat split; reflexivity.
Qed.

Theorem zsh_sq_word_transparent s :
  word_transparent sh_step ZSQ (zsh_escape_help s) (zsh_l1 s).
Proof.
  unfold zsh_escape_help, zsh_l1. rewrite apply_chain_charwise by reflexivity.
  apply word_transparent_flat_map. exact zsh_sq_char.
Qed.

(** ** zsh level 2: the payload of level 1 inside the [description] of an option spec, and
    inside a ':'-separated field ('name:description' items of _describe, possible-value tooltips). *)
Lemma zsh_descr_char c : transparent zspec_step ZsDescr (zsh_l1_char c) [flat1 c].
Proof.
  destruct (in_dec N.eq_dec c (keys zsh_escape_help_chain)) as [Hin|Hout].
  - key_cases Hin.
  - unfold zsh_l1_char. rewrite apply_chain_other by (reflexivity || assumption).
    unfold transparent, flat1. default_case zspec_step Hout. split; reflexivity.
Qed.

Lemma zsh_field_char c : transparent zspec_step ZsField (zsh_l1_char c) [flat1 c].
Proof.
  destruct (in_dec N.eq_dec c (keys zsh_escape_help_chain)) as [Hin|Hout].
  - key_cases Hin.
  - unfold zsh_l1_char. rewrite apply_chain_other by (reflexivity || assumption).
    unfold transparent, flat1. default_case zspec_step Hout. split; reflexivity.
Qed.

Theorem zsh_descr_transparent s : transparent zspec_step ZsDescr (zsh_l1 s) (flatten s).
Proof.
  unfold zsh_l1, flatten. rewrite <- flat_map_singleton.
  apply transparent_flat_map. exact zsh_descr_char.
Qed.

Theorem zsh_field_transparent s : transparent zspec_step ZsField (zsh_l1 s) (flatten s).
Proof.
  unfold zsh_l1, flatten. rewrite <- flat_map_singleton.
  apply transparent_flat_map. exact zsh_field_char.
Qed.

(** ** zsh, positional help: escaped in line by [write_positionals_of]; no newline flattening. *)
Definition zsh_pos_l1_char (c : N) : str :=
  if c =? 39 then [39] else apply_chain zsh_positional_help_chain [c].
Definition zsh_pos_l1 (s : str) : str := flat_map zsh_pos_l1_char s.

Lemma zsh_pos_sq_char c :
  word_transparent sh_step ZSQ (apply_chain zsh_positional_help_chain [c]) (zsh_pos_l1_char c).
Proof.
  destruct (in_dec N.eq_dec c (keys zsh_positional_help_chain)) as [Hin|Hout].
  - key_cases Hin.
  - unfold zsh_pos_l1_char. rewrite apply_chain_other by (reflexivity || assumption).
    unfold word_transparent. default_case sh_step Hout. repeat split; reflexivity.
Qed.

Theorem zsh_pos_sq_word_transparent s :
  word_transparent sh_step ZSQ (zsh_positional_help s) (zsh_pos_l1 s).
Proof.
  unfold zsh_positional_help, zsh_pos_l1. rewrite apply_chain_charwise by reflexivity.
  apply word_transparent_flat_map. exact zsh_pos_sq_char.
Qed.

Lemma zsh_pos_field_char c : transparent zspec_step ZsField (zsh_pos_l1_char c) [c].
Proof.
  destruct (in_dec N.eq_dec c (keys zsh_positional_help_chain)) as [Hin|Hout].
  - key_cases Hin.
  - unfold zsh_pos_l1_char. rewrite apply_chain_other by (reflexivity || assumption).
    unfold transparent. default_case zspec_step Hout. split; reflexivity.
Qed.

Lemma flat_map_ret (l : list N) : flat_map (fun c => [c]) l = l.
Proof. induction l as [|a l IH]; [reflexivity|]. cbn [flat_map app]. now rewrite IH. Qed.

Theorem zsh_pos_field_transparent s : transparent zspec_step ZsField (zsh_pos_l1 s) s.
Proof.
  pose proof (transparent_flat_map zspec_step ZsField _ _ zsh_pos_field_char s) as H.
  rewrite flat_map_ret in H. exact H.
Qed.

(** ** PowerShell, '...': every single-quote character of the tokenizer is doubled. *)
Definition powershell_help_chain : chain := powershell_escape_help_pre ++ powershell_escape_string_chain.

Lemma powershell_escape_help_chain s : powershell_escape_help s = apply_chain powershell_help_chain s.
Proof.
  unfold powershell_escape_help, powershell_escape_string, powershell_help_chain.
  destruct s; [reflexivity|]. now rewrite apply_chain_app.
Qed.

Lemma powershell_sq_char c :
  transparent ps_step PSQ (apply_chain powershell_help_chain [c]) [flat1 c].
Proof.
  destruct (in_dec N.eq_dec c (keys powershell_help_chain)) as [Hin|Hout].
  - key_cases Hin.
  - rewrite apply_chain_other by (reflexivity || assumption).
    unfold transparent, flat1. cbn [final events ps_step fst snd app map]. unfold ps_is_sq.
    default_case ps_step Hout. split; reflexivity.
Qed.

Theorem powershell_sq_transparent s :
  transparent ps_step PSQ (powershell_escape_help s) (flatten s).
Proof.
  rewrite powershell_escape_help_chain, apply_chain_charwise by reflexivity.
  unfold flatten. rewrite <- flat_map_singleton.
  apply transparent_flat_map. exact powershell_sq_char.
Qed.

(** ** fish, possible-value help: level 1 is the double-quoted [-a "..."] argument (only backslash-dquote,
    backslash-dollar, backslash-backslash are escapes, the dollar sign is live); its payload is the '...'-escaped text that fish tokenises again
    when the completion is offered (level 2, [fish_sq_transparent]). *)
Definition fish_pv_chain : chain := fish_help_chain ++ fish_escape_double_quoted_chain.

Lemma fish_possible_value_help_chain s : fish_possible_value_help s = apply_chain fish_pv_chain s.
Proof.
  unfold fish_possible_value_help, fish_escape_double_quoted, fish_pv_chain.
  now rewrite fish_escape_help_chain, apply_chain_app.
Qed.

Lemma fish_dq_char c :
  transparent fish_step FDQ (apply_chain fish_pv_chain [c]) (apply_chain fish_help_chain [c]).
Proof.
  destruct (in_dec N.eq_dec c (keys fish_pv_chain)) as [Hin|Hout].
  - key_cases Hin.
  - assert (Hout' : ~ In c (keys fish_help_chain)).
    { intros H. apply Hout. unfold fish_pv_chain, keys. rewrite map_app. apply in_or_app. now left. }
    rewrite !apply_chain_other by (reflexivity || assumption).
    unfold transparent. default_case fish_step Hout. split; reflexivity.
Qed.

Theorem fish_dq_transparent s :
  transparent fish_step FDQ (fish_possible_value_help s) (fish_escape_help s).
Proof.
  rewrite fish_possible_value_help_chain, fish_escape_help_chain.
  rewrite (apply_chain_charwise fish_pv_chain) by reflexivity.
  rewrite (apply_chain_charwise fish_help_chain) by reflexivity.
  apply transparent_flat_map. exact fish_dq_char.
Qed.

(** ** sensitivity: the chains as they were before the repairs do not have the property
    (each witness was first reported by the oracle on the real scripts). *)
Example powershell_two_quote_chain_insufficient :
  let old : chain := [([10], [32]); ([39], [39; 39]); ([8217], [39; 8217])] in
  ~ transparent ps_step PSQ (apply_chain old [8216]) [8216].
Proof. intros old [F _]. vm_compute in F. discriminate. Qed.

Example fish_help_alone_insufficient_in_double_quotes :
  ~ transparent fish_step FDQ (fish_escape_help [34]) (fish_escape_help [34]).
Proof. intros [F _]. vm_compute in F. discriminate. Qed.

Example fish_help_alone_live_dollar :
  events fish_step FDQ (fish_escape_help [36]) = [Act 36].
Proof. vm_compute. reflexivity. Qed.

Example zsh_positional_without_backslash_rule_insufficient :
  let old : chain := [([91], [92; 91]); ([93], [92; 93]); ([39], [39; 92; 39; 39]); ([58], [92; 58])] in
  events zspec_step ZsField (apply_chain old [92] ++ [58]) = [Lit 58].
Proof. vm_compute. reflexivity. Qed.

Example replace_order_matters_fish :
  (* quote before backslash: the backslash of the quote's escape is doubled again *)
  let swapped : chain := [([39], [92; 39]); ([92], [92; 92])] in
  final fish_step FSQ (apply_chain swapped [39]) = FW.
Proof. vm_compute. reflexivity. Qed.

(** ** bash: the generator reads no descriptive text. *)
Lemma bash_no_text : bash_uses_text = false.
Proof. vm_compute. reflexivity. Qed.

(** * statements in context form (what the property file pins) *)

Lemma fish_sq_context s rest :
  final fish_step FSQ (fish_escape_help s ++ rest) = final fish_step FSQ rest /\
  events fish_step FSQ (fish_escape_help s ++ rest) = map Lit (flatten s) ++ events fish_step FSQ rest.
Proof. apply transparent_context, fish_sq_transparent. Qed.

(** the literal closes exactly where the generator closes it *)
Lemma fish_sq_closes s rest :
  events fish_step FB (39 :: fish_escape_help s ++ 39 :: rest) =
  Str 39 :: map Lit (flatten s) ++ Str 39 :: events fish_step FW rest.
Proof.
  change (events fish_step FB (39 :: fish_escape_help s ++ 39 :: rest))
    with (Str 39 :: events fish_step FSQ (fish_escape_help s ++ 39 :: rest)).
  f_equal. destruct (fish_sq_context s (39 :: rest)) as [_ E]. rewrite E. reflexivity.
Qed.

Lemma elvish_sq_context s rest :
  final el_step ESQ (elvish_escape_help s ++ rest) = final el_step ESQ rest /\
  events el_step ESQ (elvish_escape_help s ++ rest) = map Lit (flatten s) ++ events el_step ESQ rest.
Proof. apply transparent_context, elvish_sq_transparent. Qed.

Lemma nushell_comment_context s rest :
  final nu_step NC (nushell_single_line s ++ rest) = final nu_step NC rest /\
  events nu_step NC (nushell_single_line s ++ rest) = map Lit (flatten s) ++ events nu_step NC rest.
Proof. apply transparent_context, nushell_comment_transparent. Qed.

(** the comment ends at the newline the generator writes, and only there *)
Lemma nushell_comment_closes s rest :
  events nu_step NB (35 :: nushell_single_line s ++ 10 :: rest) =
  Str 35 :: map Lit (flatten s) ++ Str 10 :: events nu_step NB rest.
Proof.
  change (events nu_step NB (35 :: nushell_single_line s ++ 10 :: rest))
    with (Str 35 :: events nu_step NC (nushell_single_line s ++ 10 :: rest)).
  f_equal. destruct (nushell_comment_context s (10 :: rest)) as [_ E]. rewrite E. reflexivity.
Qed.

Lemma zsh_sq_context s rest :
  final sh_step ZSQ (zsh_escape_help s ++ rest) = final sh_step ZSQ rest /\
  skeleton (events sh_step ZSQ (zsh_escape_help s ++ rest)) = skeleton (events sh_step ZSQ rest) /\
  lits (events sh_step ZSQ (zsh_escape_help s ++ rest)) = zsh_l1 s ++ lits (events sh_step ZSQ rest).
Proof. apply word_transparent_context, zsh_sq_word_transparent. Qed.

Lemma zsh_descr_context s rest :
  final zspec_step ZsDescr (zsh_l1 s ++ rest) = final zspec_step ZsDescr rest /\
  events zspec_step ZsDescr (zsh_l1 s ++ rest) = map Lit (flatten s) ++ events zspec_step ZsDescr rest.
Proof. apply transparent_context, zsh_descr_transparent. Qed.

Lemma zsh_field_context s rest :
  final zspec_step ZsField (zsh_l1 s ++ rest) = final zspec_step ZsField rest /\
  events zspec_step ZsField (zsh_l1 s ++ rest) = map Lit (flatten s) ++ events zspec_step ZsField rest.
Proof. apply transparent_context, zsh_field_transparent. Qed.

Lemma zsh_pos_sq_context s rest :
  final sh_step ZSQ (zsh_positional_help s ++ rest) = final sh_step ZSQ rest /\
  skeleton (events sh_step ZSQ (zsh_positional_help s ++ rest)) = skeleton (events sh_step ZSQ rest) /\
  lits (events sh_step ZSQ (zsh_positional_help s ++ rest)) = zsh_pos_l1 s ++ lits (events sh_step ZSQ rest).
Proof. apply word_transparent_context, zsh_pos_sq_word_transparent. Qed.

Lemma zsh_pos_field_context s rest :
  final zspec_step ZsField (zsh_pos_l1 s ++ rest) = final zspec_step ZsField rest /\
  events zspec_step ZsField (zsh_pos_l1 s ++ rest) = map Lit s ++ events zspec_step ZsField rest.
Proof. apply transparent_context, zsh_pos_field_transparent. Qed.

Lemma powershell_sq_context s rest :
  final ps_step PSQ (powershell_escape_help s ++ rest) = final ps_step PSQ rest /\
  events ps_step PSQ (powershell_escape_help s ++ rest) = map Lit (flatten s) ++ events ps_step PSQ rest.
Proof. apply transparent_context, powershell_sq_transparent. Qed.

(** the literal closes at the generator's quote when what follows is not a quote character
    (the generators write ")" or "," or a newline after it) *)
Lemma powershell_sq_closes s c rest : ps_is_sq c = false ->
  events ps_step PB (39 :: powershell_escape_help s ++ 39 :: c :: rest) =
  Str 39 :: map Lit (flatten s) ++ Str 39 :: events ps_step PW (c :: rest).
Proof.
  intros Hc.
  change (events ps_step PB (39 :: powershell_escape_help s ++ 39 :: c :: rest))
    with (Str 39 :: events ps_step PSQ (powershell_escape_help s ++ 39 :: c :: rest)).
  f_equal. destruct (powershell_sq_context s (39 :: c :: rest)) as [_ E]. rewrite E. f_equal.
  change (events ps_step PSQ (39 :: c :: rest))
    with (snd (ps_step PSQQ c) ++ events ps_step (fst (ps_step PSQQ c)) rest).
  cbn [ps_step]. rewrite Hc. cbn [events]. destruct (ps_bare PW c) as [st' e] eqn:B.
  cbn [fst snd app]. change (ps_step PW c) with (ps_bare PW c). rewrite B. reflexivity.
Qed.

Lemma fish_dq_context s rest :
  final fish_step FDQ (fish_possible_value_help s ++ rest) = final fish_step FDQ rest /\
  events fish_step FDQ (fish_possible_value_help s ++ rest) =
    map Lit (fish_escape_help s) ++ events fish_step FDQ rest.
Proof. apply transparent_context, fish_dq_transparent. Qed.

(** both levels: what the double-quoted list hands on is the '...'-escaped text, which is in turn
    literal payload -- the flattened help -- when fish tokenises the list entries *)
Lemma fish_possible_value_two_levels s rest2 :
  lits (events fish_step FDQ (fish_possible_value_help s)) = fish_escape_help s /\
  events fish_step FSQ (lits (events fish_step FDQ (fish_possible_value_help s)) ++ rest2) =
    map Lit (flatten s) ++ events fish_step FSQ rest2.
Proof.
  destruct (fish_dq_transparent s) as [_ E]. rewrite E, lits_map_Lit. split; [reflexivity|].
  apply fish_sq_context.
Qed.

(** [flatten]: same length, no newline, every other character unchanged. *)
Lemma flatten_spec s : ~ In 10 (flatten s) /\ length (flatten s) = length s /\
  (forall i, nth i (flatten s) 0 = if nth i s 0 =? 10 then 32 else nth i s 0).
Proof.
  unfold flatten. repeat split.
  - intros H. apply in_map_iff in H. destruct H as [c [Hc _]]. unfold flat1 in Hc.
    destruct (N.eqb_spec c 10); [discriminate|congruence].
  - apply map_length.
  - intros i. change 0 with (flat1 0) at 1. rewrite map_nth. reflexivity.
Qed.

(** * non-vacuity: the hypotheses of the implications above are satisfiable, and [replace] computes
    what str::replace computes on the classic cases *)
Example replace_match_hyp : [97; 97] <> [] /\ starts_with [97; 97; 97] [97; 97] = true.
Proof. split; [discriminate|reflexivity]. Qed.
Example replace_nomatch_hyp : [39] <> [] /\ starts_with [97; 39] [39] = false.
Proof. split; [discriminate|reflexivity]. Qed.
Example replace_absent_hyp : forall i, starts_with (skipn i [97; 98]) [39] = false.
Proof. intros [|[|[|i]]]; reflexivity. Qed.
Example replace_non_overlapping : replace [97; 97] [98] [97; 97; 97; 97; 97] = [98; 98; 97].
Proof. reflexivity. Qed.
Example replace_empty_pattern : replace [] [45] [97; 98] = [45; 97; 45; 98; 45].
Proof. reflexivity. Qed.
Example replace_grows : replace [39] [39; 92; 39; 39] [97; 39; 98] = [97; 39; 92; 39; 39; 98].
Proof. reflexivity. Qed.
Example powershell_closes_hyp : ps_is_sq 41 = false /\ ps_is_sq 44 = false /\ ps_is_sq 10 = false.
Proof. repeat split. Qed.
Example fish_example :
  events fish_step FB (39 :: fish_escape_help [97; 39; 92; 10; 36] ++ [39; 32; 45])
  = [Str 39; Lit 97; Lit 39; Lit 92; Lit 32; Lit 36; Str 39; Str 32; Str 45].
Proof. vm_compute. reflexivity. Qed.

(** known finding C17-zsh-tooltip-dquote: a possible-value tooltip is written name\:"tooltip" inside a
    ((...)) action, which _arguments evals; [zsh_escape_help] leaves the double quote alone, so at that
    (third, unmodelled-in-the-theorems) level it closes the string. *)
Example zsh_tooltip_dquote_closes_eval_level :
  zsh_l1 [34] = [34] /\ final sh_step ZDQ (zsh_l1 [34]) = ZW /\
  (* whereas the characters escape_help does treat stay inside: *)
  final sh_step ZDQ (zsh_l1 [36; 96; 92]) = ZDQ /\
  events sh_step ZDQ (zsh_l1 [36; 96; 92]) = [Lit 36; Lit 96; Lit 92].
Proof. vm_compute. repeat split. Qed.

(** * the property's own wording: same token skeleton whatever the text.
    For any script prefix [pre] that leaves the lexer inside the literal (state [st]) and any
    suffix [post], replacing the escaped text of one slot by the escaped form of any other text
    changes neither the skeleton nor the final state.  (Slot by slot this gives the statement for
    every assignment of texts to all slots.) *)
Section SameSkeleton.
  Context {S : Type}.
  Variable step : S -> N -> S * list ev.

  Lemma word_transparent_erase st0 pre chunk payload post st :
    final step st0 pre = st -> word_transparent step st chunk payload ->
    skeleton (events step st0 (pre ++ chunk ++ post)) = skeleton (events step st0 (pre ++ post)) /\
    final step st0 (pre ++ chunk ++ post) = final step st0 (pre ++ post).
  Proof.
    intros Hpre Hc. destruct (word_transparent_context step st chunk payload post Hc) as (F & Sk & _).
    split.
    - rewrite (events_app step st0 pre (chunk ++ post)), (events_app step st0 pre post).
      rewrite !skeleton_app, Hpre. now rewrite Sk.
    - rewrite (final_app step st0 pre (chunk ++ post)), (final_app step st0 pre post), Hpre. exact F.
  Qed.

  Lemma same_skeleton st0 st pre post c1 p1 c2 p2 :
    final step st0 pre = st -> word_transparent step st c1 p1 -> word_transparent step st c2 p2 ->
    skeleton (events step st0 (pre ++ c1 ++ post)) = skeleton (events step st0 (pre ++ c2 ++ post)) /\
    final step st0 (pre ++ c1 ++ post) = final step st0 (pre ++ c2 ++ post).
  Proof.
    intros Hpre H1 H2.
    destruct (word_transparent_erase st0 pre c1 p1 post st Hpre H1) as [A1 B1].
    destruct (word_transparent_erase st0 pre c2 p2 post st Hpre H2) as [A2 B2].
    split; congruence.
  Qed.
End SameSkeleton.

Lemma same_skeleton_fish s1 s2 pre post : final fish_step FB pre = FSQ ->
  skeleton (events fish_step FB (pre ++ fish_escape_help s1 ++ post)) =
  skeleton (events fish_step FB (pre ++ fish_escape_help s2 ++ post)) /\
  final fish_step FB (pre ++ fish_escape_help s1 ++ post) = final fish_step FB (pre ++ fish_escape_help s2 ++ post).
Proof.
  intros H. eapply same_skeleton; [exact H| |]; apply transparent_word, fish_sq_transparent.
Qed.

Lemma same_skeleton_fish_list s1 s2 pre post : final fish_step FB pre = FDQ ->
  skeleton (events fish_step FB (pre ++ fish_possible_value_help s1 ++ post)) =
  skeleton (events fish_step FB (pre ++ fish_possible_value_help s2 ++ post)) /\
  final fish_step FB (pre ++ fish_possible_value_help s1 ++ post) =
  final fish_step FB (pre ++ fish_possible_value_help s2 ++ post).
Proof.
  intros H. eapply same_skeleton; [exact H| |]; apply transparent_word, fish_dq_transparent.
Qed.

Lemma same_skeleton_zsh s1 s2 pre post : final sh_step ZB pre = ZSQ ->
  skeleton (events sh_step ZB (pre ++ zsh_escape_help s1 ++ post)) =
  skeleton (events sh_step ZB (pre ++ zsh_escape_help s2 ++ post)) /\
  final sh_step ZB (pre ++ zsh_escape_help s1 ++ post) = final sh_step ZB (pre ++ zsh_escape_help s2 ++ post).
Proof.
  intros H. eapply same_skeleton; [exact H| |]; apply zsh_sq_word_transparent.
Qed.

Lemma same_skeleton_powershell s1 s2 pre post : final ps_step PB pre = PSQ ->
  skeleton (events ps_step PB (pre ++ powershell_escape_help s1 ++ post)) =
  skeleton (events ps_step PB (pre ++ powershell_escape_help s2 ++ post)) /\
  final ps_step PB (pre ++ powershell_escape_help s1 ++ post) =
  final ps_step PB (pre ++ powershell_escape_help s2 ++ post).
Proof.
  intros H. eapply same_skeleton; [exact H| |]; apply transparent_word, powershell_sq_transparent.
Qed.

Lemma same_skeleton_elvish s1 s2 pre post : final el_step EB pre = ESQ ->
  skeleton (events el_step EB (pre ++ elvish_escape_help s1 ++ post)) =
  skeleton (events el_step EB (pre ++ elvish_escape_help s2 ++ post)) /\
  final el_step EB (pre ++ elvish_escape_help s1 ++ post) = final el_step EB (pre ++ elvish_escape_help s2 ++ post).
Proof.
  intros H. eapply same_skeleton; [exact H| |]; apply transparent_word, elvish_sq_transparent.
Qed.

Lemma same_skeleton_nushell s1 s2 pre post : final nu_step NB pre = NC ->
  skeleton (events nu_step NB (pre ++ nushell_single_line s1 ++ post)) =
  skeleton (events nu_step NB (pre ++ nushell_single_line s2 ++ post)) /\
  final nu_step NB (pre ++ nushell_single_line s1 ++ post) = final nu_step NB (pre ++ nushell_single_line s2 ++ post).
Proof.
  intros H. eapply same_skeleton; [exact H| |]; apply transparent_word, nushell_comment_transparent.
Qed.

(** the hypotheses are satisfiable: prefixes taken from real generated lines *)
(* prefixes: c -d QUOTE / -a DQUOTE v BACKSLASH t QUOTE / QUOTE -a [ / , QUOTE / cand -a QUOTE / two spaces, hash, space *)
Example same_skeleton_hyps :
  final fish_step FB [99; 32; 45; 100; 32; 39] = FSQ /\
  final fish_step FB [45; 97; 32; 34; 118; 92; 116; 39] = FDQ /\
  final sh_step ZB [39; 45; 97; 91] = ZSQ /\
  final ps_step PB [44; 32; 39] = PSQ /\
  final el_step EB [99; 97; 110; 100; 32; 45; 97; 32; 39] = ESQ /\
  final nu_step NB [32; 32; 35; 32] = NC.
Proof. vm_compute. repeat split. Qed.
