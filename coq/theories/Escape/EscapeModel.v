(** C17 -- model of the escaping functions of the completion-script generators.

    Strings are lists of Unicode scalar values ([list N]); a Rust [&str] is such a list (the
    driver decodes/encodes UTF-8 with [Base.Utf8]).  [replace] is [str::replace(from, to)]:
    all non-overlapping matches, found left to right, are replaced.  Every escape function of
    clap_complete/src/aot/shells/{fish,zsh,powershell,elvish}.rs and of clap_complete_nushell
    is a composition of [.replace] calls; the (from, to) tables are read off the Rust source on
    every run into [Gen/EscapeTables.v]; this file transcribes how each function composes them. *)
From ClapModel Require Import Base.Bytes Gen.EscapeTables.
Open Scope N_scope.

Definition str := list N.
Definition chain := list (str * str).

(** [replace_aux pat rep skip s]: [skip] elements of [s] still belong to the match just replaced. *)
Fixpoint replace_aux (pat rep : str) (skip : nat) (s : str) : str :=
  match s with
  | [] => []
  | c :: s' =>
    match skip with
    | S k => replace_aux pat rep k s'
    | O => if starts_with s pat
           then rep ++ replace_aux pat rep (pred (length pat)) s'
           else c :: replace_aux pat rep O s'
    end
  end.

(** [str::replace]; with an empty pattern Rust matches at every boundary. *)
Definition replace (pat rep s : str) : str :=
  match pat with
  | [] => rep ++ flat_map (fun c => c :: rep) s
  | _ => replace_aux pat rep O s
  end.

Fixpoint apply_chain (t : chain) (s : str) : str :=
  match t with
  | [] => s
  | (p, r) :: t' => apply_chain t' (replace p r s)
  end.

(** fish.rs *)
Definition fish_escape_string (s : str) (escape_comma : bool) : str :=
  let string := apply_chain fish_escape_string_base s in
  if escape_comma then apply_chain fish_escape_string_comma string else string.

Definition fish_escape_help (help : str) : str :=
  fish_escape_string (apply_chain fish_escape_help_pre help) false.

(** escape_double_quoted, and the possible-value help as value_completion emits it inside the
    double-quoted [-a "..."] list: [escape_double_quoted(&escape_help(help))] *)
Definition fish_escape_double_quoted (s : str) : str := apply_chain fish_escape_double_quoted_chain s.
Definition fish_possible_value_help (help : str) : str := fish_escape_double_quoted (fish_escape_help help).

(** zsh.rs *)
Definition zsh_escape_help (s : str) : str := apply_chain zsh_escape_help_chain s.
Definition zsh_escape_value (s : str) : str := apply_chain zsh_escape_value_chain s.
(** the in-line escaping of a positional's help in [write_positionals_of] (after " -- " is prefixed) *)
Definition zsh_positional_help (s : str) : str := apply_chain zsh_positional_help_chain s.

(** powershell.rs; [escape_help (Some help) data] with [data = ""]: an empty help yields [data]. *)
Definition powershell_escape_string (s : str) : str := apply_chain powershell_escape_string_chain s.
Definition powershell_escape_help (help : str) : str :=
  match help with
  | [] => []
  | _ => powershell_escape_string (apply_chain powershell_escape_help_pre help)
  end.

(** elvish.rs *)
Definition elvish_escape_string (s : str) : str := apply_chain elvish_escape_string_chain s.
Definition elvish_escape_help (help : str) : str :=
  elvish_escape_string (apply_chain elvish_escape_help_pre help).

(** clap_complete_nushell: single_line_styled_str *)
Definition nushell_single_line (s : str) : str := apply_chain nushell_single_line_chain s.

(** Newline flattening: what a one-line slot is meant to contain. *)
Definition flat1 (c : N) : N := if c =? 10 then 32 else c.
Definition flatten (s : str) : str := map flat1 s.

(** bash.rs: the accessors the bash generator calls, against the accessors that return
    descriptive text. *)
Definition ascii (l : list N) := l.
Definition text_accessors : list (list N) := [
  (* get_help *)            [103;101;116;95;104;101;108;112];
  (* get_long_help *)       [103;101;116;95;108;111;110;103;95;104;101;108;112];
  (* get_about *)           [103;101;116;95;97;98;111;117;116];
  (* get_long_about *)      [103;101;116;95;108;111;110;103;95;97;98;111;117;116];
  (* get_before_help *)     [103;101;116;95;98;101;102;111;114;101;95;104;101;108;112];
  (* get_before_long_help *)[103;101;116;95;98;101;102;111;114;101;95;108;111;110;103;95;104;101;108;112];
  (* get_after_help *)      [103;101;116;95;97;102;116;101;114;95;104;101;108;112];
  (* get_after_long_help *) [103;101;116;95;97;102;116;101;114;95;108;111;110;103;95;104;101;108;112]
].
Definition mem_str (x : list N) (l : list (list N)) : bool := existsb (beq x) l.
Definition bash_uses_text : bool := existsb (fun a => mem_str a text_accessors) bash_accessors.
