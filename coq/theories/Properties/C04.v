(** Property C04: typed values are exactly what the value parser's language admits.
    This file contains only the pinned statements; models live in Value/*.v, proofs in
    Value/*Proofs.v, the literal/factory/case-folding tables in Gen/*.v (regenerated from the
    sources by translators/tables.py on every build). *)
From Coq Require Import ZArith List Bool.
From ClapModel Require Import Base.Bytes Base.Machine Base.Utf8.
From ClapModel Require Import Value.ValueBase Value.IntParse Value.IntParseProofs Value.IntFactory Value.IntFactoryProofs.
From ClapModel Require Import Value.BoolParse Value.BoolParseProofs Value.PossibleValues Value.PossibleValuesProofs.
From ClapModel Require Import Value.ValueParsers Value.ValueParsersProofs Value.TypedStore Value.TypedStoreProofs.
From ClapModel Require Import Gen.BoolTables.
Import ListNotations.

(** RangedI64ValueParser<T> with bounds r, T = [tmin..tmax]: accepted = well-formed UTF-8 (implied
    by the syntax), [+-]?[0-9]+, and the unbounded integer reading lies in i64, in the declared
    range and in T; the result is that reading -- never wrapped, never truncated. *)
Theorem C04_i64 : forall r tmin tmax s v,
  ranged_i64 r tmin tmax s = VOk v <->
  utf8_valid s = true /\ decimal_signed s /\ intval s = v /\ (i64_min <= v <= i64_max)%Z /\
  in_range r v /\ (tmin <= v <= tmax)%Z.
Proof. exact ranged_i64_spec. Qed.
Print Assumptions C04_i64.

(** RangedU64ValueParser<T>: +?[0-9]+ (a leading '-' is refused, even "-0"). *)
Theorem C04_u64 : forall r tmin tmax s v,
  ranged_u64 r tmin tmax s = VOk v <->
  utf8_valid s = true /\ decimal_unsigned s /\ intval s = v /\ (0 <= v <= u64_max)%Z /\
  in_range r v /\ (tmin <= v <= tmax)%Z.
Proof. exact ranged_u64_spec. Qed.
Print Assumptions C04_u64.

(** str::parse itself: the decimal language with the big-integer reading, for any bounds. *)
Theorem C04_str_parse : forall signed tmin tmax s v, (tmin <= 0 <= tmax)%Z ->
  (parse_int signed tmin tmax s = IOk v <->
   decimal signed s /\ intval s = v /\ (tmin <= v <= tmax)%Z).
Proof. exact parse_int_spec. Qed.
Print Assumptions C04_str_parse.

(** value_parser!(T) for T = u8 … i64 (table regenerated from the source): it can be built, with or
    without debug assertions, and accepts exactly the decimals inside T (u64 through the unsigned
    parser, all others through the i64 parser). *)
Theorem C04_factories : forall dbg t,
  exists r, factory_parser dbg t = Some (factory_kind t, r) /\
  forall s v, ranged_parse (factory_kind t) r t s = VOk v <->
    utf8_valid s = true /\ decimal (kind_signed (factory_kind t)) s /\ intval s = v /\
    (ity_min t <= v <= ity_max t)%Z.
Proof. exact factories_spec. Qed.
Print Assumptions C04_factories.

(** value_parser!(T).range(u): whenever it can be built it accepts exactly the decimals inside u and T;
    a side left open in u falls back to T's bound, never to anything wider. *)
Theorem C04_range_narrows : forall dbg t u k r s v,
  int_parser dbg t (Some u) = Some (k, r) ->
  (ranged_parse k r t s = VOk v <->
   utf8_valid s = true /\ decimal (kind_signed (factory_kind t)) s /\ intval s = v /\
   in_range u v /\ (ity_min t <= v <= ity_max t)%Z).
Proof. exact int_parser_spec. Qed.
Print Assumptions C04_range_narrows.

(** BoolValueParser: "true" and "false", byte for byte. *)
Theorem C04_bool : forall s b,
  bool_parse s = VOk b <-> s = (if b then lit_true else lit_false).
Proof. exact bool_parse_spec. Qed.
Print Assumptions C04_bool.

(** BoolishValueParser: the regenerated TRUE_LITERALS / FALSE_LITERALS, ASCII-case-insensitively
    (std's Unicode-aware to_lowercase adds nothing: no literal contains 'k', checked on the table). *)
Theorem C04_boolish : forall s b,
  boolish_parse s = VOk b <->
  utf8_valid s = true /\ exists l, In l (if b then true_literals else false_literals) /\ ascii_ci_eq s l.
Proof. exact boolish_parse_spec. Qed.
Print Assumptions C04_boolish.

(** FalseyValueParser: every well-formed string is accepted; false exactly for "" and the false literals. *)
Theorem C04_falsey : forall s b,
  falsey_parse s = VOk b <->
  utf8_valid s = true /\
  (b = false <-> s = [] \/ exists l, In l false_literals /\ ascii_ci_eq s l).
Proof. exact falsey_parse_spec. Qed.
Print Assumptions C04_falsey.

(** NonEmptyStringValueParser *)
Theorem C04_nonempty : forall s s',
  nonempty_parse s = VOk s' <-> s <> [] /\ utf8_valid s = true /\ s' = s.
Proof. exact nonempty_parse_spec. Qed.
Print Assumptions C04_nonempty.

(** PossibleValuesParser: accepted = well-formed and equal to a declared name or alias -- byte for
    byte unless ignore_case, caselessly (caseless_eq) if ignore_case; the value is the typed string. *)
Theorem C04_possible : forall uni ic pvs s s',
  possible_parse uni ic pvs s = VOk s' <->
  utf8_valid s = true /\ s' = s /\
  exists pv n, In pv pvs /\ In n (name_and_aliases pv) /\
               (if ic then caseless_eq uni n s else n = s).
Proof. exact possible_parse_spec. Qed.
Print Assumptions C04_possible.

(** ... and for ASCII tables and candidates "caselessly" is ASCII case-insensitivity, with or
    without the cargo feature `unicode`. *)
Theorem C04_possible_ascii : forall uni pvs s,
  is_ascii s = true ->
  (forall pv n, In pv pvs -> In n (name_and_aliases pv) -> is_ascii n = true) ->
  (possible_parse uni true pvs s = VOk s <->
   exists pv n, In pv pvs /\ In n (name_and_aliases pv) /\ ascii_ci_eq n s).
Proof. exact possible_parse_ascii. Qed.
Print Assumptions C04_possible_ascii.

(** EnumValueParser: the first variant declaring the candidate. *)
Theorem C04_enum : forall uni ic vs s i,
  enum_parse uni ic vs s = VOk i <->
  utf8_valid s = true /\
  exists pv, nth_error vs i = Some pv /\ variant_declares uni ic pv s /\
    forall j pv', (j < i)%nat -> nth_error vs j = Some pv' -> ~ variant_declares uni ic pv' s.
Proof. exact enum_parse_spec. Qed.
Print Assumptions C04_enum.

(** Every rejection by a built-in value parser is InvalidUtf8 (exactly for ill-formed input of a parser
    that goes through to_str) or the parser's refusal kind (ValueValidation / InvalidValue), and the
    latter names the argument. *)
Theorem C04_reject_kind : forall p s k, vparse p s = VErr k ->
  (k = InvalidUtf8 /\ utf8_valid s = false /\ reports_utf8 p = true) \/
  (k = refusal_kind p /\ kind_names_arg k = true).
Proof. exact reject_kind. Qed.
Print Assumptions C04_reject_kind.

(** Full reading "every rejection names the argument": refuted by InvalidUtf8 (known finding
    C04-invalid-utf8-unnamed); it holds for every well-formed candidate. *)
Theorem C04_reject_names_arg_refuted :
  exists p s k, vparse p s = VErr k /\ kind_names_arg k = false.
Proof. exact reject_names_arg_refuted. Qed.
Print Assumptions C04_reject_names_arg_refuted.

Theorem C04_reject_names_arg_partial : forall p s k,
  vparse p s = VErr k -> utf8_valid s = true -> kind_names_arg k = true.
Proof. exact reject_names_arg_utf8. Qed.
Print Assumptions C04_reject_names_arg_partial.

(** Typed store: every history of typed get/remove calls on a well-formed store produces the outputs
    of the abstract machine on the finite map id -> entry (astep: a get is a look-up; a remove is the
    same look-up followed, on success only, by deleting that id), ends in a store that is that map,
    stays well-formed, and never hits an internal expect. *)
Theorem C04_typed_store : forall dbg ops st m, wf_store st -> (forall i, lookup st i = m i) ->
  let '(xs, st') := run dbg st ops in
  let '(ys, m') := arun dbg (valid_args st) m ops in
  Forall2 out_sim xs ys /\ (forall i, lookup st' i = m' i) /\ wf_store st' /\
  valid_args st' = valid_args st /\ ~ In OPanic xs.
Proof. exact run_refines. Qed.
Print Assumptions C04_typed_store.

(** What one abstract step does: gets change nothing; a failing access changes nothing; unknown id and
    wrong type fail; success returns the entry's values and (remove) deletes exactly that id. *)
Theorem C04_typed_store_step : forall dbg valid m o,
  let '(y, m') := astep dbg valid m o in
  (is_get o = true -> m' = m) /\
  (forall e, y = OErr e -> m' = m) /\
  (o <> Ids -> averify dbg valid (op_id o) = Some UnknownArgument -> y = OErr UnknownArgument) /\
  (o <> Ids -> averify dbg valid (op_id o) = None ->
   forall e, m (op_id o) = Some e ->
     (infer_type_id e (op_tag o) <> op_tag o ->
        y = OErr (Downcast (infer_type_id e (op_tag o)) (op_tag o))) /\
     (infer_type_id e (op_tag o) = op_tag o ->
        y = (if op_one o then out_first (op_tag o) e else out_all (op_tag o) e) /\
        m' = (if is_get o then m else adelete m (op_id o)))) /\
  (o <> Ids -> averify dbg valid (op_id o) = None -> m (op_id o) = None -> y = ONone /\ m' = m).
Proof. exact astep_spec. Qed.
Print Assumptions C04_typed_store_step.

(** Observation: the stricter "a failing try_remove_one preserves the order of ids()" is false
    (remove_entry, then insert at the end); the property speaks of the stored values only. *)
Theorem C04_store_order_refuted :
  exists st a T e, wf_store st /\
    fst (step true st (RemoveOne a T)) = OErr e /\
    map fst (args (snd (step true st (RemoveOne a T)))) <> map fst (args st).
Proof. exact store_order_refuted. Qed.
Print Assumptions C04_store_order_refuted.

(** * Round 2: the value-parser theorems connected to the PARSER
    (ParseProofs/TypedInv.v: invariant; TypedView.v: typed values and the bridge to the models above;
    TypedReject.v: rejection side; TypedAccess.v: the typed store of a parse result; TypedExamples.v).
    The parser-model modules are required without Import: their names are written qualified. *)
From ClapModel Require Parse.Cmd Parse.Build Parse.Valid Parse.Matcher Parse.Errors Parse.Parser.
From ClapModel Require ParseProofs.Relations ParseProofs.Totality ParseProofs.Provenance ParseProofs.Dispatch ParseProofs.KindSound ParseProofs.Unparse ParseProofs.UnparseTop ParseProofs.Globals ParseProofs.Invariant ParseProofs.IndexInv ParseProofs.TotalityMain.
From ClapModel Require ParseProofs.TypedInv ParseProofs.TypedView ParseProofs.TypedAccess ParseProofs.TypedReject ParseProofs.TypedMerge ParseProofs.TypedExamples.

(** The state predicate of round 2.  The matcher model stores raw values only (the typed values of
    MatchedArg::vals are value_parser.parse_ref of them, pushed by the same add_val_to call); "typed" for a
    level therefore means: every raw value in the entry of an ARGUMENT of the level was accepted by that
    argument's value parser. *)
Theorem C04_typed_entries_spec :
  forall (c : Cmd.cmd) (l : list (Cmd.id * Matcher.marg)),
         TypedInv.typed_entries c l <->
         (forall (i : Cmd.id) (m : Matcher.marg) (a : Cmd.arg) (vp : Cmd.vparser),
          In (i, m) l ->
          Cmd.find_arg c i = Some a ->
          Cmd.a_vp a = Some vp -> Forall (Forall (fun v : bytes => Parser.vp_parse vp v = None)) (Matcher.m_raw m)).
Proof. exact TypedInv.typed_entries_spec. Qed.
Print Assumptions C04_typed_entries_spec.

(** THE INVARIANT, EVERY LEVEL.  For every command that passes the validity gate (sub-levels are gated by
    the parser itself) and every token list: the state get_matches_with hands back -- on success AND on error
    (what the caller receives under ignore_errors) -- is typed at this level and at every level of the recorded
    subcommand chain.  Command-line, environment, default, conditional-default and default-missing values and the
    action literals all go through push_arg_values, the only place that appends to an argument's entry.
    (holds = partial correctness; panics are excluded by C01 for the class plain.) *)
Theorem C04_parser_typed_levels :
  forall (fuel : nat) (c : Cmd.cmd) (toks : list bytes) (st0 : Parser.ps),
         Valid.assert_app c = true ->
         TypedInv.TS c st0 -> Dispatch.holds (TypedInv.TS c) (TypedInv.TS c) (Parser.get_matches_with fuel c toks st0).
Proof. exact TypedInv.gmw_typed. Qed.
Print Assumptions C04_parser_typed_levels.

(** what typed_matches says: this level, then the recorded subcommand -- a level of the lazily built child
    definition, or the capture of an external subcommand (accepted by the external value parser) *)
Theorem C04_typed_matches_unfold :
  forall (c : Cmd.cmd) (args : list (Cmd.id * Matcher.marg)) (sub : option (bytes * Matcher.matches)),
         TypedInv.typed_matches c (Matcher.Matches args sub) ->
         TypedInv.typed_entries c args /\
         match sub with
         | Some (n, sm) =>
             (exists sc : Cmd.cmd, Build.build_subcommand c n = Some sc /\ TypedInv.typed_matches sc sm) \/
             (exists vals : list bytes,
                sm = Matcher.Matches [(Parser.ext_id, Dispatch.ext_marg vals)] None /\
                Forall (TypedInv.accepts (Cmd.opt_default Cmd.VPOsString (Cmd.c_ext_vp c))) vals)
         | None => True
         end.
Proof. exact TypedInv.typed_matches_inv. Qed.
Print Assumptions C04_typed_matches_unfold.

(** root level of any valid definition, any token list *)
Theorem C04_root_typed :
  forall (c0 : Cmd.cmd) (toks : list bytes),
         Valid.valid c0 = true ->
         Dispatch.holds
           (fun st : Parser.ps => TypedInv.typed_matches (Build.build_self c0) (Matcher.into_inner (Parser.mt st)))
           (fun st : Parser.ps => TypedInv.typed_matches (Build.build_self c0) (Matcher.into_inner (Parser.mt st)))
           (Parser.get_matches_with (S (S (Cmd.depth (Build.build_self c0)))) (Build.build_self c0) toks Parser.ps_new).
Proof. exact TypedInv.root_typed. Qed.
Print Assumptions C04_root_typed.

(** parse_top: what is reported is the globals merge (reported, C09) of a chain that is typed at every level *)
Theorem C04_parse_top_typed :
  forall (c0 : Cmd.cmd) (argv : list bytes) (m : Matcher.matches),
         Parser.parse_top c0 argv = Parser.OOk m ->
         exists (c0' : Cmd.cmd) (st : Parser.ps),
           (c0' = c0 \/ (exists b : bytes, c0' = TypedInv.with_bin c0 (Some b))) /\
           m = Relations.reported c0' st /\
           TypedInv.typed_matches (Build.build_self c0') (Matcher.into_inner (Parser.mt st)).
Proof. exact TypedInv.parse_top_typed. Qed.
Print Assumptions C04_parse_top_typed.

(** ... and when no argument on the reported chain is global, the reported matches ARE that chain *)
Theorem C04_do_parse_typed_noglobals :
  forall (c0 : Cmd.cmd) (toks : list bytes) (m : Matcher.matches),
         Parser.do_parse c0 toks = Parser.OOk m ->
         (forall st : Parser.ps,
          Parser.used_global_args (S (Parser.matches_depth (Matcher.into_inner (Parser.mt st))))
            (Build.build_recursive (S (S (Cmd.depth (Build.build_self c0)))) c0) (Matcher.into_inner (Parser.mt st)) =
          []) -> TypedInv.typed_matches (Build.build_self c0) m.
Proof. exact TypedInv.do_parse_typed_noglobals. Qed.
Print Assumptions C04_do_parse_typed_noglobals.

(** THROUGH THE GLOBALS MERGE (ParseProofs/TypedMerge.v).  A typed chain, level by level: each level has a spec
    (id -> value parser: cmd_spec c for a level of the command c, ext_spec c for the capture of an external
    subcommand) and what the accessors can reach at that level is accepted by the parser its spec names. *)
Theorem C04_typed_chain :
  forall (c : Cmd.cmd) (m : Matcher.matches),
         TypedInv.typed_matches c m ->
         exists sps : list TypedMerge.spec,
           TypedMerge.chain_specs c m sps /\ Forall2 TypedMerge.typed_lv sps (Globals.levels m).
Proof. exact TypedMerge.typed_chain. Qed.
Print Assumptions C04_typed_chain.

(** The merge keeps every level typed PROVIDED the definitions agree on the parser of each global id wherever that id
    has an entry (globals_consistent) -- the entry copied to the other levels keeps the typed values its own
    level's parser produced. *)
Theorem C04_merge_typed :
  forall (fuel : nat) (globals : list Cmd.id) (m : Matcher.matches) (sps : list TypedMerge.spec),
         (Parser.matches_depth m <= fuel)%nat ->
         Forall2 TypedMerge.typed_lv sps (Globals.levels m) ->
         TypedMerge.globals_consistent globals sps (Globals.levels m) ->
         Forall2 TypedMerge.typed_lv sps (Globals.levels (fst (Globals.filled fuel globals m))).
Proof. exact TypedMerge.merge_typed. Qed.
Print Assumptions C04_merge_typed.

(** what _do_parse reports, level by level, after the merge *)
Theorem C04_do_parse_merged_typed :
  forall (c0 : Cmd.cmd) (toks : list bytes) (m : Matcher.matches),
         Parser.do_parse c0 toks = Parser.OOk m ->
         exists (st : Parser.ps) (sps : list TypedMerge.spec),
           m = Relations.reported c0 st /\
           TypedMerge.chain_specs (Build.build_self c0) (Matcher.into_inner (Parser.mt st)) sps /\
           (TypedMerge.globals_consistent
              (Parser.used_global_args (S (Parser.matches_depth (Matcher.into_inner (Parser.mt st))))
                 (Build.build_recursive (S (S (Cmd.depth (Build.build_self c0)))) c0)
                 (Matcher.into_inner (Parser.mt st))) sps (Globals.levels (Matcher.into_inner (Parser.mt st))) ->
            Forall2 TypedMerge.typed_lv sps (Globals.levels m)).
Proof. exact TypedMerge.do_parse_merged_typed. Qed.
Print Assumptions C04_do_parse_merged_typed.

(** Rejection side, first half: a value outside the language of the argument's parser is never among the values
    a typed level stores for that argument. *)
Theorem C04_never_stored :
  forall (c : Cmd.cmd) (l : list (Cmd.id * Matcher.marg)) (i : Cmd.id) (m : Matcher.marg) 
           (a : Cmd.arg) (vp : Cmd.vparser) (v : bytes),
         TypedInv.typed_entries c l ->
         In (i, m) l ->
         Cmd.find_arg c i = Some a ->
         Cmd.a_vp a = Some vp -> Parser.vp_parse vp v <> None -> ~ In v (concat (Matcher.m_raw m)).
Proof. exact TypedInv.never_stored. Qed.
Print Assumptions C04_never_stored.

(** str::parse::<i64> of the parser model = the digit-by-digit model of C04 (C04_str_parse) *)
Theorem C04_parse_i64_agree :
  forall s : bytes,
         Parser.parse_i64 s =
         match TypedView.IP.parse_i64 s with
         | TypedView.IP.IOk z => Some z
         | TypedView.IP.IErr _ => None
         end.
Proof. exact TypedView.parse_i64_agree. Qed.
Print Assumptions C04_parse_i64_agree.

(** The value parsers a definition of the parser model can name (String, Bool, the u8 parser of Count from the
    regenerated factory table, RangedI64ValueParser<i64> with inclusive bounds) are C04's: accepted = VOk,
    rejected with the same kind.  (OsString accepts everything and has no C04 counterpart.) *)
Theorem C04_vp_bridge :
  forall (vp : Cmd.vparser) (p : TypedView.VP.vparser) (s : bytes),
         TypedView.embed vp = Some p ->
         match TypedView.VP.vparse p s with
         | VOk _ => Parser.vp_parse vp s = None
         | VErr k => Parser.vp_parse vp s = Some (TypedView.ek k)
         end.
Proof. exact TypedView.bridge. Qed.
Print Assumptions C04_vp_bridge.

(** typed_value vp raw = value_parser.parse_ref(raw): it exists exactly when the parser model accepts *)
Theorem C04_typed_value_accepts :
  forall (vp : Cmd.vparser) (s : bytes),
         TypedInv.accepts vp s <-> (exists v : TypedView.tv, TypedView.typed_value vp s = Some v).
Proof. exact TypedView.typed_value_accepts. Qed.
Print Assumptions C04_typed_value_accepts.

(** Typed and raw have the same shape, and each typed value is the image of the raw value at the same place. *)
Theorem C04_entry_typed_view :
  forall (c : Cmd.cmd) (l : list (Cmd.id * Matcher.marg)) (i : Cmd.id) (m : Matcher.marg) 
           (a : Cmd.arg) (vp : Cmd.vparser),
         TypedInv.typed_entries c l ->
         In (i, m) l ->
         Cmd.find_arg c i = Some a ->
         Cmd.a_vp a = Some vp -> exists tvs : list (list TypedView.tv), TypedView.typed_of vp (Matcher.m_raw m) tvs.
Proof. exact TypedView.entry_typed_view. Qed.
Print Assumptions C04_entry_typed_view.

(** Ranged integer argument: every stored raw string is well-formed, a decimal [+-]?[0-9]+ whose unbounded integer
    reading lies in the declared range AND in the target type, and that reading IS the typed value (never wrapped
    or truncated). *)
Theorem C04_stored_i64 :
  forall (c : Cmd.cmd) (l : list (Cmd.id * Matcher.marg)),
         TypedInv.typed_entries c l ->
         forall (i : Cmd.id) (m : Matcher.marg) (a : Cmd.arg),
         In (i, m) l ->
         Cmd.find_arg c i = Some a ->
         forall lo hi : Z,
         Cmd.a_vp a = Some (Cmd.VPI64 lo hi) ->
         Forall
           (Forall
              (fun s : bytes =>
               TypedView.int_reading lo hi i64_min i64_max s /\
               TypedView.typed_value (Cmd.VPI64 lo hi) s =
               Some (TypedView.TVal (TypedView.VP.TVInt (TypedView.IPP.intval s))))) (Matcher.m_raw m).
Proof. exact TypedView.stored_i64. Qed.
Print Assumptions C04_stored_i64.

(** the u8 parser of ArgAction::Count: 0..255, inside u8 *)
Theorem C04_stored_count :
  forall (c : Cmd.cmd) (l : list (Cmd.id * Matcher.marg)),
         TypedInv.typed_entries c l ->
         forall (i : Cmd.id) (m : Matcher.marg) (a : Cmd.arg),
         In (i, m) l ->
         Cmd.find_arg c i = Some a ->
         Cmd.a_vp a = Some Cmd.VPCount ->
         Forall
           (Forall
              (fun s : bytes =>
               TypedView.int_reading 0 255 0 255 s /\
               TypedView.typed_value Cmd.VPCount s =
               Some (TypedView.TVal (TypedView.VP.TVInt (TypedView.IPP.intval s))))) (Matcher.m_raw m).
Proof. exact TypedView.stored_count. Qed.
Print Assumptions C04_stored_count.

(** bool argument: exactly "true" / "false", typed value the corresponding boolean *)
Theorem C04_stored_bool :
  forall (c : Cmd.cmd) (l : list (Cmd.id * Matcher.marg)),
         TypedInv.typed_entries c l ->
         forall (i : Cmd.id) (m : Matcher.marg) (a : Cmd.arg),
         In (i, m) l ->
         Cmd.find_arg c i = Some a ->
         Cmd.a_vp a = Some Cmd.VPBool ->
         Forall
           (Forall
              (fun s : bytes =>
               exists b : bool,
                 s = (if b then TypedView.BP.lit_true else TypedView.BP.lit_false) /\
                 TypedView.typed_value Cmd.VPBool s = Some (TypedView.TVal (TypedView.VP.TVBool b)))) 
           (Matcher.m_raw m).
Proof. exact TypedView.stored_bool. Qed.
Print Assumptions C04_stored_bool.

(** String argument: well-formed UTF-8, the typed value is the string itself *)
Theorem C04_stored_string :
  forall (c : Cmd.cmd) (l : list (Cmd.id * Matcher.marg)),
         TypedInv.typed_entries c l ->
         forall (i : Cmd.id) (m : Matcher.marg) (a : Cmd.arg),
         In (i, m) l ->
         Cmd.find_arg c i = Some a ->
         Cmd.a_vp a = Some Cmd.VPString ->
         Forall
           (Forall
              (fun s : bytes =>
               utf8_valid s = true /\
               TypedView.typed_value Cmd.VPString s = Some (TypedView.TVal (TypedView.VP.TVStr s)))) 
           (Matcher.m_raw m).
Proof. exact TypedView.stored_string. Qed.
Print Assumptions C04_stored_string.

(** Rejection side, whole line: an invocation of C02's un-parser class (any mix of --opt=v, --opt v.., clusters,
    positional runs) in which the occurrences give an argument a value outside its parser's language is NOT
    accepted (conservation: an accepting parse would report it; the invariant: it cannot). *)
Theorem C04_bad_value_not_accepted :
  forall (c : Cmd.cmd) (f : nat) (its : list Unparse.item) (a : Cmd.arg) (vp : Cmd.vparser)
           (gs : Actions.groups) (v : bytes),
         Unparse.conv c = true ->
         Cmd.is_set Cmd.s_ignore_errors c = false ->
         Unparse.wf_items c Parser.PSValuesDone 1 its = true ->
         In a (Cmd.c_args c) ->
         Cmd.a_vp a = Some vp ->
         UnparseTop.denote_arg c (Cmd.a_id a) its = Some gs ->
         In v (concat gs) ->
         Parser.vp_parse vp v <> None ->
         forall st : Parser.ps, Parser.get_matches_with (S f) c (Unparse.render its) Parser.ps_new <> Parser.ROk st.
Proof. exact TypedReject.bad_value_not_accepted. Qed.
Print Assumptions C04_bad_value_not_accepted.

(** When parse_top rejects with a value-error kind, a level of the chain has an argument a and a value v coming from
    the line or the definition such that a's value parser -- the parser model's and, through the bridge, C04's --
    refuses v with exactly the reported kind and the error carries a's id (the model's error record names the
    argument for every kind; the implementation's InvalidUtf8 message does not print it: finding
    C04-invalid-utf8-unnamed); or the value belongs to an external subcommand; or an occurrence has an empty
    value list (InvalidValue); or an external subcommand name is not UTF-8. *)
Theorem C04_value_error_sound :
  forall (c0 : Cmd.cmd) (argv : list bytes) (e : Errors.error),
         Totality.plain c0 = true ->
         (forall b : option bytes, Valid.valid (TypedInv.with_bin c0 b) = true) ->
         Valid.valid c0 = true ->
         Parser.parse_top c0 argv = Parser.OErr e ->
         TypedReject.value_kind (Errors.e_kind e) ->
         exists (b : option bytes) (T : list bytes) (c' : Cmd.cmd) (T' : list bytes),
           KindSound.suffix_of T argv /\
           KindSound.reach (Build.build_self (TypedInv.with_bin c0 b)) T c' T' /\
           (TypedReject.refused_by c' T' e \/
            (exists v : bytes,
               In v T' /\
               Cmd.is_set Cmd.s_allow_external c' = true /\
               Parser.vp_parse (Cmd.opt_default Cmd.VPOsString (Cmd.c_ext_vp c')) v = Some (Errors.e_kind e)) \/
            Errors.e_kind e = Errors.EInvalidValue /\
            (exists (a : Cmd.arg) (raw : list bytes) (r : Cmd.vrange),
               In a (Cmd.c_args c') /\
               KindSound.occurs c' T' a /\
               Cmd.a_num a = Some r /\
               Errors.e_arg e = Cmd.a_id a /\ ErrorSound.count_breaks (Errors.e_kind e) r (N.of_nat (length raw))) \/
            Errors.e_kind e = Errors.EInvalidUtf8 /\
            (exists tok : bytes, In tok T' /\ utf8_valid tok = false /\ Cmd.is_set Cmd.s_allow_external c' = true)).
Proof. exact TypedReject.value_error_sound. Qed.
Print Assumptions C04_value_error_sound.

(** TYPED ACCESS ON THE RESULT OF THE PARSE.  store_of c l is the ArgMatches whose entries are the matcher entries l
    (same keys, same order; an argument's entry declares its parser's type id and holds a typed value next to each
    raw value; a group's entry declares none).  For every successful root level of a valid plain definition it
    satisfies the store invariant of C04_typed_store (keys unique by C02's index invariant). *)
Theorem C04_parse_store_wf :
  forall (rend : Cmd.vparser -> bytes -> bytes) (c0 : Cmd.cmd) (toks : list bytes) (st : Parser.ps),
         Totality.plain c0 = true ->
         Valid.valid c0 = true ->
         Parser.get_matches_with (S (S (Cmd.depth (Build.build_self c0)))) (Build.build_self c0) toks Parser.ps_new =
         Parser.ROk st ->
         TypedAccess.TSP.wf_store (TypedAccess.store_of rend (Build.build_self c0) (Matcher.mt_args (Parser.mt st))).
Proof. exact TypedAccess.parse_store_wf. Qed.
Print Assumptions C04_parse_store_wf.

(** what the accessors can reach IS what the parser stored: same look-up, declared type = the type of the
    argument's value parser, raw and typed side by side, every typed value the image of an accepted raw value *)
Theorem C04_parse_store_typed :
  forall (rend : Cmd.vparser -> bytes -> bytes) (c0 : Cmd.cmd) (toks : list bytes) (st : Parser.ps),
         Valid.valid c0 = true ->
         Parser.get_matches_with (S (S (Cmd.depth (Build.build_self c0)))) (Build.build_self c0) toks Parser.ps_new =
         Parser.ROk st ->
         forall (i : id) (en : entry),
         TypedAccess.TSP.lookup (TypedAccess.store_of rend (Build.build_self c0) (Matcher.mt_args (Parser.mt st))) i =
         Some en ->
         exists ma : Matcher.marg,
           Matcher.fm_get i (Matcher.mt_args (Parser.mt st)) = Some ma /\
           en = TypedAccess.entry_of rend (Build.build_self c0) i ma /\
           TypedAccess.TSt.e_raw en = Matcher.m_raw ma /\
           (forall (a : Cmd.arg) (vp : Cmd.vparser),
            Cmd.find_arg (Build.build_self c0) i = Some a ->
            Cmd.a_vp a = Some vp ->
            TypedAccess.TSt.e_type en = Some (Cmd.vp_type vp) /\
            TypedAccess.TSt.e_vals en = map (map (fun r : bytes => (Cmd.vp_type vp, rend vp r))) (Matcher.m_raw ma) /\
            (exists tvs : list (list TypedView.tv), TypedView.typed_of vp (Matcher.m_raw ma) tvs)).
Proof. exact TypedAccess.parse_store_typed. Qed.
Print Assumptions C04_parse_store_typed.

(** every history of typed get/remove calls on the result of the parse refines the finite map and never hits an internal expect *)
Theorem C04_parse_store_access :
  forall (rend : Cmd.vparser -> bytes -> bytes) (c0 : Cmd.cmd) (toks : list bytes) (st : Parser.ps),
         Totality.plain c0 = true ->
         Valid.valid c0 = true ->
         Parser.get_matches_with (S (S (Cmd.depth (Build.build_self c0)))) (Build.build_self c0) toks Parser.ps_new =
         Parser.ROk st ->
         forall (dbg : bool) (ops : list TypedAccess.TSt.op),
         let
         '(xs, S') :=
          TypedAccess.TSt.run dbg (TypedAccess.store_of rend (Build.build_self c0) (Matcher.mt_args (Parser.mt st)))
            ops in
          let
          '(ys, m') :=
           TypedAccess.TSP.arun dbg
             (TypedAccess.TSt.valid_args
                (TypedAccess.store_of rend (Build.build_self c0) (Matcher.mt_args (Parser.mt st))))
             (TypedAccess.TSP.lookup (TypedAccess.store_of rend (Build.build_self c0) (Matcher.mt_args (Parser.mt st))))
             ops in
           Forall2 TypedAccess.TSP.out_sim xs ys /\
           (forall i : id, TypedAccess.TSP.lookup S' i = m' i) /\
           TypedAccess.TSP.wf_store S' /\
           TypedAccess.TSt.valid_args S' =
           TypedAccess.TSt.valid_args
             (TypedAccess.store_of rend (Build.build_self c0) (Matcher.mt_args (Parser.mt st))) /\
           ~ In TypedAccess.TSt.OPanic xs.
Proof. exact TypedAccess.parse_store_access. Qed.
Print Assumptions C04_parse_store_access.

(** a failing access -- whatever the reason -- leaves every entry exactly as the parser stored it *)
Theorem C04_parse_failing_access :
  forall (rend : Cmd.vparser -> bytes -> bytes) (c0 : Cmd.cmd) (toks : list bytes) (st : Parser.ps),
         Totality.plain c0 = true ->
         Valid.valid c0 = true ->
         Parser.get_matches_with (S (S (Cmd.depth (Build.build_self c0)))) (Build.build_self c0) toks Parser.ps_new =
         Parser.ROk st ->
         forall (dbg : bool) (o : TypedAccess.TSt.op) (e : TypedAccess.TSt.merr),
         fst
           (TypedAccess.TSt.step dbg (TypedAccess.store_of rend (Build.build_self c0) (Matcher.mt_args (Parser.mt st)))
              o) = TypedAccess.TSt.OErr e ->
         forall i : id,
         TypedAccess.TSP.lookup
           (snd
              (TypedAccess.TSt.step dbg
                 (TypedAccess.store_of rend (Build.build_self c0) (Matcher.mt_args (Parser.mt st))) o)) i =
         option_map (TypedAccess.entry_of rend (Build.build_self c0) i)
           (Matcher.fm_get i (Matcher.mt_args (Parser.mt st))).
Proof. exact TypedAccess.parse_failing_access. Qed.
Print Assumptions C04_parse_failing_access.

(** an id that is neither an argument nor a group of the command fails (debug builds) *)
Theorem C04_parse_unknown_id :
  forall (rend : Cmd.vparser -> bytes -> bytes) (c0 : Cmd.cmd) (toks : list bytes) (st : Parser.ps),
         Totality.plain c0 = true ->
         Valid.valid c0 = true ->
         Parser.get_matches_with (S (S (Cmd.depth (Build.build_self c0)))) (Build.build_self c0) toks Parser.ps_new =
         Parser.ROk st ->
         forall o : TypedAccess.TSt.op,
         o <> TypedAccess.TSt.Ids ->
         TypedAccess.TSP.op_id o <> [] ->
         Cmd.id_exists (Build.build_self c0) (TypedAccess.TSP.op_id o) = false ->
         fst
           (TypedAccess.TSt.step true
              (TypedAccess.store_of rend (Build.build_self c0) (Matcher.mt_args (Parser.mt st))) o) =
         TypedAccess.TSt.OErr TypedAccess.TSt.UnknownArgument.
Proof. exact TypedAccess.parse_unknown_id. Qed.
Print Assumptions C04_parse_unknown_id.

(** a type other than the one of the argument's value parser fails with a downcast error *)
Theorem C04_parse_wrong_type :
  forall (rend : Cmd.vparser -> bytes -> bytes) (c0 : Cmd.cmd) (toks : list bytes) (st : Parser.ps),
         Totality.plain c0 = true ->
         Valid.valid c0 = true ->
         Parser.get_matches_with (S (S (Cmd.depth (Build.build_self c0)))) (Build.build_self c0) toks Parser.ps_new =
         Parser.ROk st ->
         forall (dbg : bool) (o : TypedAccess.TSt.op) (a : Cmd.arg) (vp : Cmd.vparser) (ma : Matcher.marg),
         o <> TypedAccess.TSt.Ids ->
         Cmd.find_arg (Build.build_self c0) (TypedAccess.TSP.op_id o) = Some a ->
         Cmd.a_vp a = Some vp ->
         Matcher.fm_get (TypedAccess.TSP.op_id o) (Matcher.mt_args (Parser.mt st)) = Some ma ->
         Cmd.vp_type vp <> TypedAccess.TSP.op_tag o ->
         fst
           (TypedAccess.TSt.step dbg (TypedAccess.store_of rend (Build.build_self c0) (Matcher.mt_args (Parser.mt st)))
              o) = TypedAccess.TSt.OErr (TypedAccess.TSt.Downcast (Cmd.vp_type vp) (TypedAccess.TSP.op_tag o)).
Proof. exact TypedAccess.parse_wrong_type. Qed.
Print Assumptions C04_parse_wrong_type.

(** ... and at EVERY level of the recursion (the hypotheses of C02_level_indices: any depth, any entry state satisfying
    the index invariant and the typed invariant -- in particular the fresh state a child level starts from):
    the ArgMatches of the level satisfies the store invariant, *)
Theorem C04_level_store_wf :
  forall (rend : Cmd.vparser -> bytes -> bytes) (fuel : nat) (c : Cmd.cmd) (toks : list bytes)
           (st0 st : Parser.ps),
         Totality.tree_ok fuel c ->
         Invariant.G c IndexInv.idx_inv TotalityMain.trivV st0 ->
         Parser.get_matches_with fuel c toks st0 = Parser.ROk st ->
         TypedAccess.TSP.wf_store (TypedAccess.store_of rend c (Matcher.mt_args (Parser.mt st))).
Proof. exact TypedAccess.level_store_wf. Qed.
Print Assumptions C04_level_store_wf.

(** its accessors read the level's matcher entries (typed as above), *)
Theorem C04_level_store_typed :
  forall (rend : Cmd.vparser -> bytes -> bytes) (fuel : nat) (c : Cmd.cmd) (toks : list bytes)
           (st0 st : Parser.ps),
         Totality.tree_ok fuel c ->
         TypedInv.TS c st0 ->
         Parser.get_matches_with fuel c toks st0 = Parser.ROk st ->
         forall (i : id) (en : entry),
         TypedAccess.TSP.lookup (TypedAccess.store_of rend c (Matcher.mt_args (Parser.mt st))) i = Some en ->
         exists ma : Matcher.marg,
           Matcher.fm_get i (Matcher.mt_args (Parser.mt st)) = Some ma /\
           en = TypedAccess.entry_of rend c i ma /\
           TypedAccess.TSt.e_raw en = Matcher.m_raw ma /\
           (forall (a : Cmd.arg) (vp : Cmd.vparser),
            Cmd.find_arg c i = Some a ->
            Cmd.a_vp a = Some vp ->
            TypedAccess.TSt.e_type en = Some (Cmd.vp_type vp) /\
            TypedAccess.TSt.e_vals en = map (map (fun r : bytes => (Cmd.vp_type vp, rend vp r))) (Matcher.m_raw ma) /\
            (exists tvs : list (list TypedView.tv), TypedView.typed_of vp (Matcher.m_raw ma) tvs)).
Proof. exact TypedAccess.level_store_typed. Qed.
Print Assumptions C04_level_store_typed.

(** every history of typed accesses on it refines the finite map, *)
Theorem C04_level_store_access :
  forall (rend : Cmd.vparser -> bytes -> bytes) (fuel : nat) (c : Cmd.cmd) (toks : list bytes)
           (st0 st : Parser.ps),
         Totality.tree_ok fuel c ->
         Invariant.G c IndexInv.idx_inv TotalityMain.trivV st0 ->
         Parser.get_matches_with fuel c toks st0 = Parser.ROk st ->
         forall (dbg : bool) (ops : list TypedAccess.TSt.op),
         let
         '(xs, S') := TypedAccess.TSt.run dbg (TypedAccess.store_of rend c (Matcher.mt_args (Parser.mt st))) ops in
          let
          '(ys, m') :=
           TypedAccess.TSP.arun dbg
             (TypedAccess.TSt.valid_args (TypedAccess.store_of rend c (Matcher.mt_args (Parser.mt st))))
             (TypedAccess.TSP.lookup (TypedAccess.store_of rend c (Matcher.mt_args (Parser.mt st)))) ops in
           Forall2 TypedAccess.TSP.out_sim xs ys /\
           (forall i : id, TypedAccess.TSP.lookup S' i = m' i) /\
           TypedAccess.TSP.wf_store S' /\
           TypedAccess.TSt.valid_args S' =
           TypedAccess.TSt.valid_args (TypedAccess.store_of rend c (Matcher.mt_args (Parser.mt st))) /\
           ~ In TypedAccess.TSt.OPanic xs.
Proof. exact TypedAccess.level_store_access. Qed.
Print Assumptions C04_level_store_access.

(** and a failing access leaves every entry as the parser stored it. *)
Theorem C04_level_failing_access :
  forall (rend : Cmd.vparser -> bytes -> bytes) (fuel : nat) (c : Cmd.cmd) (toks : list bytes)
           (st0 st : Parser.ps),
         Totality.tree_ok fuel c ->
         Invariant.G c IndexInv.idx_inv TotalityMain.trivV st0 ->
         Parser.get_matches_with fuel c toks st0 = Parser.ROk st ->
         forall (dbg : bool) (o : TypedAccess.TSt.op) (e : TypedAccess.TSt.merr),
         fst (TypedAccess.TSt.step dbg (TypedAccess.store_of rend c (Matcher.mt_args (Parser.mt st))) o) =
         TypedAccess.TSt.OErr e ->
         forall i : id,
         TypedAccess.TSP.lookup
           (snd (TypedAccess.TSt.step dbg (TypedAccess.store_of rend c (Matcher.mt_args (Parser.mt st))) o)) i =
         option_map (TypedAccess.entry_of rend c i) (Matcher.fm_get i (Matcher.mt_args (Parser.mt st))).
Proof. exact TypedAccess.level_failing_access. Qed.
Print Assumptions C04_level_failing_access.

(** `p --num +7 -vv --qu abc sub --k=2` parses; line, env and literal values stored at both levels *)
Theorem C04_ex_parse :
  exists m sm : Matcher.matches,
           Parser.parse_top TypedExamples.TypedEx.c0 TypedExamples.TypedEx.argv = Parser.OOk m /\
           TypedExamples.TypedEx.sub_of m = Some sm /\
           TypedExamples.TypedEx.raws m TypedExamples.TypedEx.w_num = Some [[[43; 55]]] /\
           TypedExamples.TypedEx.raws m [118] = Some [[[50]]] /\
           TypedExamples.TypedEx.raws m TypedExamples.TypedEx.w_qu = Some [[Cmd.s_true]] /\
           TypedExamples.TypedEx.raws m TypedExamples.TypedEx.w_lvl = Some [[[55]]] /\
           TypedExamples.TypedEx.raws m [119] = Some [[[97; 98; 99]]] /\
           TypedExamples.TypedEx.raws sm [107] = Some [[[50]]].
Proof. exact TypedExamples.TypedEx.ex_parse. Qed.
Print Assumptions C04_ex_parse.

(** Non-vacuity (ParseProofs/TypedExamples.v): prog --num <i64 -5..10, default 3> -v (Count) --qu (SetTrue)
    --lvl <i64 0..100, env 7> <word> sub --k <i64 1..2> *)
Theorem C04_ex_valid :
  Valid.valid TypedExamples.TypedEx.c0 = true /\ Totality.plain TypedExamples.TypedEx.c0 = true.
Proof. exact TypedExamples.TypedEx.ex_valid. Qed.
Print Assumptions C04_ex_valid.

Theorem C04_ex_valid_any_bin :
  forall b : option bytes, Valid.valid (TypedInv.with_bin TypedExamples.TypedEx.c0 b) = true.
Proof. exact TypedExamples.TypedEx.ex_valid_any_bin. Qed.
Print Assumptions C04_ex_valid_any_bin.

Theorem C04_ex_typed :
  TypedView.typed_value (Cmd.VPI64 (-5) 10) [43; 55] = Some (TypedView.TVal (TVInt 7)) /\
         TypedView.typed_value Cmd.VPCount [50] = Some (TypedView.TVal (TVInt 2)) /\
         TypedView.typed_value Cmd.VPBool Cmd.s_true = Some (TypedView.TVal (TVBool true)) /\
         TypedView.typed_value (Cmd.VPI64 (-5) 10) [49; 49] = None /\
         Parser.vp_parse (Cmd.VPI64 (-5) 10) [49; 49] = Some Errors.EValueValidation.
Proof. exact TypedExamples.TypedEx.ex_typed. Qed.
Print Assumptions C04_ex_typed.

(** `p --num 11`: a value error naming the argument *)
Theorem C04_ex_reject :
  exists err : Errors.error,
           Parser.parse_top TypedExamples.TypedEx.c0 TypedExamples.TypedEx.argv_bad = Parser.OErr err /\
           Errors.e_kind err = Errors.EValueValidation /\ Errors.e_arg err = TypedExamples.TypedEx.w_num.
Proof. exact TypedExamples.TypedEx.ex_reject. Qed.
Print Assumptions C04_ex_reject.

(** the hypotheses of C04_bad_value_not_accepted hold for the rendered invocation `--num 11 -vv` *)
Theorem C04_ex_bad_rendered :
  Unparse.conv TypedExamples.TypedEx.c = true /\
         Cmd.is_set Cmd.s_ignore_errors TypedExamples.TypedEx.c = false /\
         Unparse.wf_items TypedExamples.TypedEx.c Parser.PSValuesDone 1 TypedExamples.TypedEx.its = true /\
         In (nth 0 (Cmd.c_args TypedExamples.TypedEx.c) TypedExamples.TypedEx.n) (Cmd.c_args TypedExamples.TypedEx.c) /\
         Cmd.a_vp (nth 0 (Cmd.c_args TypedExamples.TypedEx.c) TypedExamples.TypedEx.n) = Some (Cmd.VPI64 (-5) 10) /\
         Cmd.a_id (nth 0 (Cmd.c_args TypedExamples.TypedEx.c) TypedExamples.TypedEx.n) = TypedExamples.TypedEx.w_num /\
         UnparseTop.denote_arg TypedExamples.TypedEx.c TypedExamples.TypedEx.w_num TypedExamples.TypedEx.its =
         Some [[[49; 49]]] /\
         Parser.vp_parse (Cmd.VPI64 (-5) 10) [49; 49] <> None /\
         Unparse.render TypedExamples.TypedEx.its =
         [TypedExamples.TypedEx.dd TypedExamples.TypedEx.w_num; [49; 49]; [45; 118; 118]].
Proof. exact TypedExamples.TypedEx.ex_bad_rendered. Qed.
Print Assumptions C04_ex_bad_rendered.

(** a history with a wrong type, a failed remove, an unknown id, then successful accesses, on a parse result *)
Theorem C04_ex_access :
  exists st : Parser.ps,
           Parser.get_matches_with (S (S (Cmd.depth TypedExamples.TypedEx.c))) TypedExamples.TypedEx.c
             TypedExamples.TypedEx.toks1 Parser.ps_new = Parser.ROk st /\
           (let S0 :=
              TypedAccess.store_of TypedExamples.TypedEx.rend0 TypedExamples.TypedEx.c (Matcher.mt_args (Parser.mt st))
              in
            fst
              (run true S0
                 [GetOne TypedExamples.TypedEx.w_num 0; RemoveOne TypedExamples.TypedEx.w_num 2; 
                  GetOne [122] 4; GetOne TypedExamples.TypedEx.w_num 4; RemoveOne [118] 3; 
                  GetOne [118] 3]) =
            [OErr (Downcast 4 0); OErr (Downcast 4 2); OErr UnknownArgument; OOne [43; 55]; OOne [50]; ONone]).
Proof. exact TypedExamples.TypedEx.ex_access. Qed.
Print Assumptions C04_ex_access.

(** OBSERVATION (replayed on the implementation, see docs/notes/C04.md): the invariant is about what the PARSER
    stores.  The globals merge that follows copies entries between levels by id alone; if a subcommand defines its
    own argument with the id of an ancestor's global argument and another value parser, the ancestor's level
    reports under that id a value its own argument's parser refuses. *)
Theorem C04_merged_typed_refuted :
  exists (c1 : Cmd.cmd) (argv1 : list bytes) (m : Matcher.matches) (a : Cmd.arg) (ma : Matcher.marg),
           Valid.valid c1 = true /\
           Totality.plain c1 = true /\
           Parser.parse_top c1 argv1 = Parser.OOk m /\
           Cmd.find_arg (Build.build_self c1) [103] = Some a /\
           Cmd.a_vp a = Some (Cmd.VPI64 0 9) /\
           Matcher.fm_get [103] (Matcher.ms_args m) = Some ma /\
           Matcher.m_raw ma = [[[97; 98; 99]]] /\
           Parser.vp_parse (Cmd.VPI64 0 9) [97; 98; 99] = Some Errors.EValueValidation.
Proof. exact TypedExamples.TypedEx.merged_typed_refuted. Qed.
Print Assumptions C04_merged_typed_refuted.

(** the ordinary use of a global argument (defined at the root, copied into the subcommand by the build step, given
    after the subcommand name) satisfies globals_consistent; both reported levels hold the value *)
Theorem C04_ex_merge_consistent :
  exists (m : Matcher.matches) (st : Parser.ps),
           Valid.valid TypedExamples.TypedEx.ck = true /\
           Parser.do_parse TypedExamples.TypedEx.ck (tl TypedExamples.TypedEx.argv_k) = Parser.OOk m /\
           m = Relations.reported TypedExamples.TypedEx.ck st /\
           TypedMerge.chain_specs (Build.build_self TypedExamples.TypedEx.ck) (Matcher.into_inner (Parser.mt st))
             [TypedMerge.cmd_spec (Build.build_self TypedExamples.TypedEx.ck);
              TypedMerge.cmd_spec TypedExamples.TypedEx.sck] /\
           TypedMerge.globals_consistent
             (Parser.used_global_args (S (Parser.matches_depth (Matcher.into_inner (Parser.mt st))))
                (Build.build_recursive (S (S (Cmd.depth (Build.build_self TypedExamples.TypedEx.ck))))
                   TypedExamples.TypedEx.ck) (Matcher.into_inner (Parser.mt st)))
             [TypedMerge.cmd_spec (Build.build_self TypedExamples.TypedEx.ck);
              TypedMerge.cmd_spec TypedExamples.TypedEx.sck] (Globals.levels (Matcher.into_inner (Parser.mt st))) /\
           TypedExamples.TypedEx.raws m TypedExamples.TypedEx.w_cfg = Some [[[52]]] /\
           Cmd.opt_map (fun sm : Matcher.matches => TypedExamples.TypedEx.raws sm TypedExamples.TypedEx.w_cfg)
             (TypedExamples.TypedEx.sub_of m) = Some (Some [[[52]]]).
Proof. exact TypedExamples.TypedEx.ex_merge_consistent. Qed.
Print Assumptions C04_ex_merge_consistent.

(** ===================================================================================================
    ROUND 4: the parser model names the boolish / falsey / non-empty / possible-value parsers and the ranged
    parsers of every integer width (Cmd.vparser: VPBoolish, VPFalsey, VPNonEmpty, VPPossible ic pvs,
    VPRanged t lo hi; Parser.vp_parse delegates to the models of Value/*.v).  Every whole-parse theorem above
    (C04_parser_typed_levels, C04_parse_top_typed, C04_merge_typed, C04_never_stored, C04_value_error_sound,
    the C04_parse_store theorems) now quantify over commands using them; C04_vp_bridge covers them through embed.
    Below: what a stored value of each looks like (ParseProofs/TypedWide.v).
    =================================================================================================== *)
From ClapModel Require ParseProofs.TypedWide ParseProofs.TypedWideExamples ParseProofs.ErrorSound.

(** LANGUAGE EQUALITY for all ten parser names of the parser model: accepted by vp_parse <-> in the documented
    language, with the typed value stored next to the raw one (both directions: nothing outside the language is
    ever stored, nothing inside it is refused). *)
Theorem C04_accepts_reading :
  forall (vp : Cmd.vparser) (s : bytes), TypedInv.accepts vp s <-> TypedWide.stored_reading vp s.
Proof. exact TypedWide.accepts_reading. Qed.
Print Assumptions C04_accepts_reading.

(** ... where stored_reading says, for the five parsers of this round: boolish = one of the documented literals
    (tables regenerated from str_to_bool.rs) ASCII-case-insensitively, typed value its truth value; falsey = any
    well-formed string, false exactly for "" and the false literals; non-empty; possible values = a declared name
    or alias of ANY value of the list (hidden or not), compared by name_eq (equality without ignore_case, caseless
    with it); ranged = a decimal ([+-]?[0-9]+, +?[0-9]+ for u64) whose UNBOUNDED reading lies in the declared bounds
    and in the target type, typed value that reading. *)
Theorem C04_stored_reading_wide :
  forall s : bytes,
  (TypedWide.stored_reading Cmd.VPBoolish s <->
   utf8_valid s = true /\
   exists b : bool, (exists l, In l (literals b) /\ ascii_ci_eq s l) /\
                    TypedView.typed_value Cmd.VPBoolish s = Some (TypedView.TVal (TVBool b))) /\
  (TypedWide.stored_reading Cmd.VPFalsey s <->
   utf8_valid s = true /\
   exists b : bool, (b = false <-> s = [] \/ exists l, In l false_literals /\ ascii_ci_eq s l) /\
                    TypedView.typed_value Cmd.VPFalsey s = Some (TypedView.TVal (TVBool b))) /\
  (TypedWide.stored_reading Cmd.VPNonEmpty s <->
   s <> [] /\ utf8_valid s = true /\ TypedView.typed_value Cmd.VPNonEmpty s = Some (TypedView.TVal (TVStr s))) /\
  (forall (ic : bool) (pvs : list (possible_value * bool)),
   TypedWide.stored_reading (Cmd.VPPossible ic pvs) s <->
   utf8_valid s = true /\
   (exists pv h n, In (pv, h) pvs /\ In n (name_and_aliases pv) /\ name_eq Parser.clap_unicode ic n s) /\
   TypedView.typed_value (Cmd.VPPossible ic pvs) s = Some (TypedView.TVal (TVStr s))) /\
  (forall (t : ity) (lo hi : Z),
   TypedWide.stored_reading (Cmd.VPRanged t lo hi) s <->
   (utf8_valid s = true /\ decimal (TypedWide.ranged_signed t) s /\
    (lo <= intval s <= hi)%Z /\ (ity_min t <= intval s <= ity_max t)%Z) /\
   TypedView.typed_value (Cmd.VPRanged t lo hi) s = Some (TypedView.TVal (TVInt (intval s)))).
Proof. exact TypedWide.stored_reading_wide_spec. Qed.
Print Assumptions C04_stored_reading_wide.

(** any typed level (C04_parser_typed_levels supplies them), an entry of an argument with that parser *)
Theorem C04_stored_boolish :
  forall (c : Cmd.cmd) (l : list (Cmd.id * Matcher.marg)),
         TypedInv.typed_entries c l ->
         forall (i : Cmd.id) (m : Matcher.marg) (a : Cmd.arg),
         In (i, m) l ->
         Cmd.find_arg c i = Some a ->
         Cmd.a_vp a = Some Cmd.VPBoolish ->
         Forall
           (Forall
              (fun s : bytes =>
               utf8_valid s = true /\
               exists b : bool, (exists lit, In lit (literals b) /\ ascii_ci_eq s lit) /\
                                TypedView.typed_value Cmd.VPBoolish s = Some (TypedView.TVal (TVBool b))))
           (Matcher.m_raw m).
Proof. exact TypedWide.stored_boolish. Qed.
Print Assumptions C04_stored_boolish.

Theorem C04_stored_falsey :
  forall (c : Cmd.cmd) (l : list (Cmd.id * Matcher.marg)),
         TypedInv.typed_entries c l ->
         forall (i : Cmd.id) (m : Matcher.marg) (a : Cmd.arg),
         In (i, m) l ->
         Cmd.find_arg c i = Some a ->
         Cmd.a_vp a = Some Cmd.VPFalsey ->
         Forall
           (Forall
              (fun s : bytes =>
               utf8_valid s = true /\
               exists b : bool, (b = false <-> s = [] \/ exists lit, In lit false_literals /\ ascii_ci_eq s lit) /\
                                TypedView.typed_value Cmd.VPFalsey s = Some (TypedView.TVal (TVBool b))))
           (Matcher.m_raw m).
Proof. exact TypedWide.stored_falsey. Qed.
Print Assumptions C04_stored_falsey.

Theorem C04_stored_nonempty :
  forall (c : Cmd.cmd) (l : list (Cmd.id * Matcher.marg)),
         TypedInv.typed_entries c l ->
         forall (i : Cmd.id) (m : Matcher.marg) (a : Cmd.arg),
         In (i, m) l ->
         Cmd.find_arg c i = Some a ->
         Cmd.a_vp a = Some Cmd.VPNonEmpty ->
         Forall
           (Forall
              (fun s : bytes =>
               s <> [] /\ utf8_valid s = true /\
               TypedView.typed_value Cmd.VPNonEmpty s = Some (TypedView.TVal (TVStr s)))) (Matcher.m_raw m).
Proof. exact TypedWide.stored_nonempty. Qed.
Print Assumptions C04_stored_nonempty.

(** possible values: every stored string is a declared name or alias of some value of the list -- hidden values
    included --, byte for byte when ic = false, caselessly when ic = true; the typed value is the string as typed *)
Theorem C04_stored_possible :
  forall (c : Cmd.cmd) (l : list (Cmd.id * Matcher.marg)),
         TypedInv.typed_entries c l ->
         forall (i : Cmd.id) (m : Matcher.marg) (a : Cmd.arg),
         In (i, m) l ->
         Cmd.find_arg c i = Some a ->
         forall (ic : bool) (pvs : list (possible_value * bool)),
         Cmd.a_vp a = Some (Cmd.VPPossible ic pvs) ->
         Forall
           (Forall
              (fun s : bytes =>
               utf8_valid s = true /\
               (exists pv h n, In (pv, h) pvs /\ In n (name_and_aliases pv) /\ name_eq Parser.clap_unicode ic n s) /\
               TypedView.typed_value (Cmd.VPPossible ic pvs) s = Some (TypedView.TVal (TVStr s))))
           (Matcher.m_raw m).
Proof. exact TypedWide.stored_possible. Qed.
Print Assumptions C04_stored_possible.

(** ... and that ic is the ARGUMENT's ignore_case setting for every argument the spec reader builds (pv_coherent) *)
Theorem C04_stored_possible_arg :
  forall (c : Cmd.cmd) (l : list (Cmd.id * Matcher.marg)) (i : Cmd.id) (m : Matcher.marg) (a : Cmd.arg)
         (ic : bool) (pvs : list (possible_value * bool)),
         TypedInv.typed_entries c l ->
         In (i, m) l ->
         Cmd.find_arg c i = Some a ->
         Cmd.a_vp a = Some (Cmd.VPPossible ic pvs) ->
         Cmd.pv_coherent a = true ->
         Forall
           (Forall
              (fun s : bytes =>
               utf8_valid s = true /\
               exists pv h n, In (pv, h) pvs /\ In n (name_and_aliases pv) /\
                              name_eq Parser.clap_unicode (Cmd.a_ignore_case a) n s)) (Matcher.m_raw m).
Proof. exact TypedWide.stored_possible_arg. Qed.
Print Assumptions C04_stored_possible_arg.

(** ranged integer of any width: decimal, unbounded reading inside the declared bounds AND the type, typed value =
    that reading (never wrapped, never truncated) *)
Theorem C04_stored_ranged :
  forall (c : Cmd.cmd) (l : list (Cmd.id * Matcher.marg)),
         TypedInv.typed_entries c l ->
         forall (i : Cmd.id) (m : Matcher.marg) (a : Cmd.arg),
         In (i, m) l ->
         Cmd.find_arg c i = Some a ->
         forall (t : ity) (lo hi : Z),
         Cmd.a_vp a = Some (Cmd.VPRanged t lo hi) ->
         Forall
           (Forall
              (fun s : bytes =>
               (utf8_valid s = true /\ decimal (TypedWide.ranged_signed t) s /\
                (lo <= intval s <= hi)%Z /\ (ity_min t <= intval s <= ity_max t)%Z) /\
               TypedView.typed_value (Cmd.VPRanged t lo hi) s = Some (TypedView.TVal (TVInt (intval s)))))
           (Matcher.m_raw m).
Proof. exact TypedWide.stored_ranged. Qed.
Print Assumptions C04_stored_ranged.

(** HIDDEN possible values are values: a declared name or alias is accepted whether or not hide(true) was called on
    its value, with or without ignore_case (a seeded change filtered hidden values out before matching). *)
Theorem C04_hidden_accepted :
  forall (ic : bool) (pvs : list (possible_value * bool)) (pv : possible_value) (h : bool) (n : bytes),
         In (pv, h) pvs -> In n (name_and_aliases pv) -> utf8_valid n = true ->
         TypedInv.accepts (Cmd.VPPossible ic pvs) n /\
         TypedView.typed_value (Cmd.VPPossible ic pvs) n = Some (TypedView.TVal (TVStr n)).
Proof. exact TypedWide.hidden_accepted. Qed.
Print Assumptions C04_hidden_accepted.

(** case-insensitively ONLY when asked: without ignore_case exactly the declared spellings are accepted *)
Theorem C04_possible_exact :
  forall (pvs : list (possible_value * bool)) (s : bytes),
         TypedInv.accepts (Cmd.VPPossible false pvs) s <->
         utf8_valid s = true /\ exists pv h, In (pv, h) pvs /\ In s (name_and_aliases pv).
Proof. exact TypedWide.possible_exact. Qed.
Print Assumptions C04_possible_exact.

(** ... and with it, ASCII names match ASCII candidates ASCII-case-insensitively *)
Theorem C04_possible_caseless :
  forall (pvs : list (possible_value * bool)) (pv : possible_value) (h : bool) (n s : bytes),
         In (pv, h) pvs -> In n (name_and_aliases pv) -> is_ascii n = true -> is_ascii s = true ->
         ascii_ci_eq n s -> TypedInv.accepts (Cmd.VPPossible true pvs) s.
Proof. exact TypedWide.possible_caseless. Qed.
Print Assumptions C04_possible_caseless.

(** a ranged parser of a narrow type never accepts a string whose reading is outside the type, whatever bounds were
    declared; and every decimal inside both is accepted *)
Theorem C04_ranged_no_wrap :
  forall (t : ity) (lo hi : Z) (s : bytes),
         TypedInv.accepts (Cmd.VPRanged t lo hi) s ->
         (ity_min t <= intval s <= ity_max t)%Z /\ (lo <= intval s <= hi)%Z.
Proof. exact TypedWide.ranged_no_wrap. Qed.
Print Assumptions C04_ranged_no_wrap.

Theorem C04_ranged_complete :
  forall (t : ity) (lo hi : Z) (s : bytes),
         utf8_valid s = true -> decimal (TypedWide.ranged_signed t) s ->
         (lo <= intval s <= hi)%Z -> (ity_min t <= intval s <= ity_max t)%Z ->
         TypedInv.accepts (Cmd.VPRanged t lo hi) s.
Proof. exact TypedWide.ranged_complete. Qed.
Print Assumptions C04_ranged_complete.

(** AT parse_top, every level of what is reported, through the globals merge (hypothesis globals_consistent as in
    C04_do_parse_merged_typed; trivially true when no global argument is in use): whatever the accessors can reach
    under an id lies in the documented language of the parser the level's definition gives that id. *)
Theorem C04_parse_top_stored :
  forall (c0 : Cmd.cmd) (argv : list bytes) (m : Matcher.matches),
         Parser.parse_top c0 argv = Parser.OOk m ->
         exists (c0' : Cmd.cmd) (st : Parser.ps) (sps : list TypedMerge.spec),
           (c0' = c0 \/ (exists b : bytes, c0' = TypedInv.with_bin c0 (Some b))) /\
           m = Relations.reported c0' st /\
           TypedMerge.chain_specs (Build.build_self c0') (Matcher.into_inner (Parser.mt st)) sps /\
           (TypedMerge.globals_consistent
              (Parser.used_global_args (S (Parser.matches_depth (Matcher.into_inner (Parser.mt st))))
                 (Build.build_recursive (S (S (Cmd.depth (Build.build_self c0')))) c0')
                 (Matcher.into_inner (Parser.mt st))) sps (Globals.levels (Matcher.into_inner (Parser.mt st))) ->
            Forall2 TypedWide.read_lv sps (Globals.levels m)).
Proof. exact TypedWide.parse_top_stored. Qed.
Print Assumptions C04_parse_top_stored.

(** the root level spelled out: what get_raw of the top-level ArgMatches returns for an argument of the built root
    definition *)
Theorem C04_parse_top_root_stored :
  forall (c0 : Cmd.cmd) (argv : list bytes) (m : Matcher.matches),
         Parser.parse_top c0 argv = Parser.OOk m ->
         exists (c0' : Cmd.cmd) (st : Parser.ps) (sps : list TypedMerge.spec),
           (c0' = c0 \/ (exists b : bytes, c0' = TypedInv.with_bin c0 (Some b))) /\
           m = Relations.reported c0' st /\
           TypedMerge.chain_specs (Build.build_self c0') (Matcher.into_inner (Parser.mt st)) sps /\
           (TypedMerge.globals_consistent
              (Parser.used_global_args (S (Parser.matches_depth (Matcher.into_inner (Parser.mt st))))
                 (Build.build_recursive (S (S (Cmd.depth (Build.build_self c0')))) c0')
                 (Matcher.into_inner (Parser.mt st))) sps (Globals.levels (Matcher.into_inner (Parser.mt st))) ->
            forall (i : Cmd.id) (ma : Matcher.marg) (a : Cmd.arg) (vp : Cmd.vparser),
            Matcher.fm_get i (Matcher.ms_args m) = Some ma ->
            Cmd.find_arg (Build.build_self c0') i = Some a ->
            Cmd.a_vp a = Some vp -> Forall (Forall (TypedWide.stored_reading vp)) (Matcher.m_raw ma)).
Proof. exact TypedWide.parse_top_root_stored. Qed.
Print Assumptions C04_parse_top_root_stored.

(** what read_lv says *)
Theorem C04_read_lv_spec :
  forall (sp : TypedMerge.spec) (l : list (Cmd.id * Matcher.marg)),
         TypedWide.read_lv sp l <->
         (forall (i : Cmd.id) (ma : Matcher.marg) (vp : Cmd.vparser),
          Matcher.fm_get i l = Some ma -> sp i = Some vp ->
          Forall (Forall (TypedWide.stored_reading vp)) (Matcher.m_raw ma)).
Proof. exact TypedWide.read_lv_spec. Qed.
Print Assumptions C04_read_lv_spec.

(** the carrier of value_parser!(T) in the parser model is the one the regenerated factory table gives *)
Theorem C04_ity_pkind_factory :
  forall (dbg : bool) (t : ity), exists r : range, factory_parser dbg t = Some (Parser.ity_pkind t, r).
Proof. exact TypedView.ity_pkind_factory. Qed.
Print Assumptions C04_ity_pkind_factory.

(** Non-vacuity (TypedWideExamples.v; each line replayed on the implementation: corpus/C04/stored_wide.typed_wide_examples.cases): a command
    with all five parser kinds is valid and coherent, ... *)
Theorem C04_ex_wide_valid :
  Valid.valid TypedWideExamples.WideEx.c0 = true /\ Totality.plain TypedWideExamples.WideEx.c0 = true /\
  forallb Cmd.pv_coherent (Cmd.c_args TypedWideExamples.WideEx.c) = true.
Proof. exact TypedWideExamples.WideEx.ex_wide_valid. Qed.
Print Assumptions C04_ex_wide_valid.

(** ... `--mode SECRET --exact Off --level 5 --port 65535 --big 18446744073709551615 --keep "" --name x` parses and
    stores a hidden value in another case (ignore_case), a hidden value in its exact spelling, both range ends,
    u64::MAX, the empty string for falsey, and the env literal "YES" for the boolish flag, ... *)
Theorem C04_ex_wide_parse :
  exists m : Matcher.matches,
    Parser.parse_top TypedWideExamples.WideEx.c0 TypedWideExamples.WideEx.argv = Parser.OOk m /\
    TypedWideExamples.WideEx.raws m TypedWideExamples.WideEx.w_mode = Some [[TypedWideExamples.WideEx.s_SECRET]] /\
    TypedWideExamples.WideEx.raws m TypedWideExamples.WideEx.w_exact = Some [[TypedWideExamples.WideEx.s_Off]] /\
    TypedWideExamples.WideEx.raws m TypedWideExamples.WideEx.w_level = Some [[[53%N]]] /\
    TypedWideExamples.WideEx.raws m TypedWideExamples.WideEx.w_port = Some [[TypedWideExamples.WideEx.d_65535]] /\
    TypedWideExamples.WideEx.raws m TypedWideExamples.WideEx.w_big = Some [[TypedWideExamples.WideEx.d_u64max]] /\
    TypedWideExamples.WideEx.raws m TypedWideExamples.WideEx.w_on = Some [[TypedWideExamples.WideEx.s_YES]] /\
    TypedWideExamples.WideEx.raws m TypedWideExamples.WideEx.w_keep = Some [[[]]] /\
    TypedWideExamples.WideEx.raws m TypedWideExamples.WideEx.w_name = Some [[[120%N]]].
Proof. exact TypedWideExamples.WideEx.ex_wide_parse. Qed.
Print Assumptions C04_ex_wide_parse.

(** ... with these typed values, ... *)
Theorem C04_ex_wide_typed :
  TypedView.typed_value (Cmd.VPPossible true TypedWideExamples.WideEx.mode_pvs) TypedWideExamples.WideEx.s_SECRET =
    Some (TypedView.TVal (TVStr TypedWideExamples.WideEx.s_SECRET)) /\
  TypedView.typed_value (Cmd.VPRanged U16 1024 65535) TypedWideExamples.WideEx.d_65535 =
    Some (TypedView.TVal (TVInt 65535)) /\
  TypedView.typed_value (Cmd.VPRanged U64 0 TypedWideExamples.WideEx.u64_max) TypedWideExamples.WideEx.d_u64max =
    Some (TypedView.TVal (TVInt TypedWideExamples.WideEx.u64_max)) /\
  TypedView.typed_value Cmd.VPBoolish TypedWideExamples.WideEx.s_YES = Some (TypedView.TVal (TVBool true)) /\
  TypedView.typed_value Cmd.VPFalsey [] = Some (TypedView.TVal (TVBool false)) /\
  TypedView.typed_value Cmd.VPFalsey TypedWideExamples.WideEx.s_off = Some (TypedView.TVal (TVBool false)) /\
  TypedView.typed_value Cmd.VPFalsey [120%N] = Some (TypedView.TVal (TVBool true)) /\
  TypedView.typed_value Cmd.VPNonEmpty [120%N] = Some (TypedView.TVal (TVStr [120%N])).
Proof. exact TypedWideExamples.WideEx.ex_wide_typed. Qed.
Print Assumptions C04_ex_wide_typed.

(** ... and the rejections name the argument: 65536 does not wrap in a u16, 6 and 261 (= 5 mod 256) are outside
    1..=5, "-0" and 2^64 are no u64, "off" is not "Off" without ignore_case, "fas" is no name, "" is empty, a
    non-UTF-8 byte is InvalidUtf8 (the model's error carries the id; the implementation's message does not print
    it: known finding C04-invalid-utf8-unnamed) *)
Theorem C04_ex_wide_reject :
  TypedWideExamples.WideEx.rejects
    [[112%N]; TypedWideExamples.WideEx.dd TypedWideExamples.WideEx.w_port; TypedWideExamples.WideEx.d_65536]
    Errors.EValueValidation TypedWideExamples.WideEx.w_port /\
  TypedWideExamples.WideEx.rejects
    [[112%N]; TypedWideExamples.WideEx.dd TypedWideExamples.WideEx.w_level; [54%N]]
    Errors.EValueValidation TypedWideExamples.WideEx.w_level /\
  TypedWideExamples.WideEx.rejects
    [[112%N]; TypedWideExamples.WideEx.dd TypedWideExamples.WideEx.w_level; [50%N; 54%N; 49%N]]
    Errors.EValueValidation TypedWideExamples.WideEx.w_level /\
  TypedWideExamples.WideEx.rejects
    [[112%N]; TypedWideExamples.WideEx.dd (TypedWideExamples.WideEx.w_big ++ [61%N; 45%N; 48%N])]
    Errors.EValueValidation TypedWideExamples.WideEx.w_big /\
  TypedWideExamples.WideEx.rejects
    [[112%N]; TypedWideExamples.WideEx.dd TypedWideExamples.WideEx.w_big; TypedWideExamples.WideEx.d_u64over]
    Errors.EValueValidation TypedWideExamples.WideEx.w_big /\
  TypedWideExamples.WideEx.rejects
    [[112%N]; TypedWideExamples.WideEx.dd TypedWideExamples.WideEx.w_exact; TypedWideExamples.WideEx.s_off]
    Errors.EInvalidValue TypedWideExamples.WideEx.w_exact /\
  TypedWideExamples.WideEx.rejects
    [[112%N]; TypedWideExamples.WideEx.dd TypedWideExamples.WideEx.w_mode; [102%N; 97%N; 115%N]]
    Errors.EInvalidValue TypedWideExamples.WideEx.w_mode /\
  TypedWideExamples.WideEx.rejects
    [[112%N]; TypedWideExamples.WideEx.dd TypedWideExamples.WideEx.w_name; []]
    Errors.EInvalidValue TypedWideExamples.WideEx.w_name /\
  TypedWideExamples.WideEx.rejects
    [[112%N]; TypedWideExamples.WideEx.dd TypedWideExamples.WideEx.w_keep; [255%N]]
    Errors.EInvalidUtf8 TypedWideExamples.WideEx.w_keep.
Proof. exact TypedWideExamples.WideEx.ex_wide_reject. Qed.
Print Assumptions C04_ex_wide_reject.

(** the hypotheses of C04_parse_top_root_stored are satisfiable: that parse, one level, no global in use *)
Theorem C04_ex_wide_root :
  exists (m : Matcher.matches) (st : Parser.ps),
    Parser.parse_top TypedWideExamples.WideEx.c0 TypedWideExamples.WideEx.argv = Parser.OOk m /\
    m = Relations.reported TypedWideExamples.WideEx.c0 st /\
    TypedMerge.chain_specs (Build.build_self TypedWideExamples.WideEx.c0) (Matcher.into_inner (Parser.mt st))
      [TypedMerge.cmd_spec (Build.build_self TypedWideExamples.WideEx.c0)] /\
    TypedMerge.globals_consistent
      (Parser.used_global_args (S (Parser.matches_depth (Matcher.into_inner (Parser.mt st))))
         (Build.build_recursive (S (S (Cmd.depth (Build.build_self TypedWideExamples.WideEx.c0))))
            TypedWideExamples.WideEx.c0) (Matcher.into_inner (Parser.mt st)))
      [TypedMerge.cmd_spec (Build.build_self TypedWideExamples.WideEx.c0)]
      (Globals.levels (Matcher.into_inner (Parser.mt st))).
Proof. exact TypedWideExamples.WideEx.ex_wide_root. Qed.
Print Assumptions C04_ex_wide_root.

(** C10's language predicate (ErrorSound.in_lang: what C10_kind_sound says a rejected value is NOT in) is the documented
    language, for all ten parser names *)
Theorem C04_in_lang_reading :
  forall (vp : Cmd.vparser) (s : bytes), ErrorSound.in_lang vp s <-> TypedWide.stored_reading vp s.
Proof. exact TypedWide.in_lang_reading. Qed.
Print Assumptions C04_in_lang_reading.

(** two names, one parser: the parser model's older constructors are instances of VPRanged (the i64 parser with
    inclusive bounds; the u8 parser an ArgAction::Count argument gets by default) -- so every statement about
    VPRanged also reads the older ones, and vice versa *)
Theorem C04_ranged_alias :
  forall (lo hi : Z) (s : bytes),
         Parser.vp_parse (Cmd.VPRanged I64 lo hi) s = Parser.vp_parse (Cmd.VPI64 lo hi) s /\
         Parser.vp_parse (Cmd.VPRanged U8 0 255) s = Parser.vp_parse Cmd.VPCount s.
Proof. exact TypedWide.ranged_alias. Qed.
Print Assumptions C04_ranged_alias.

(** "anything else is rejected with a value error", at the parser model's value parsers, all ten names: a string
    outside the documented language gets one of the three value-error kinds (InvalidUtf8 only when it is ill-formed);
    push_arg_values then raises it with the argument's id (C10: push_arg_values_sound), and C04_value_error_sound
    traces every value error of parse_top back to such a refusal.  Conversely a refusal means "outside". *)
Theorem C04_outside_reading_rejected :
  forall (vp : Cmd.vparser) (s : bytes),
         ~ TypedWide.stored_reading vp s ->
         exists k : Errors.ekind,
           Parser.vp_parse vp s = Some k /\
           In k [Errors.EInvalidUtf8; Errors.EInvalidValue; Errors.EValueValidation] /\
           (k = Errors.EInvalidUtf8 -> utf8_valid s = false).
Proof. exact TypedWide.outside_reading_rejected. Qed.
Print Assumptions C04_outside_reading_rejected.

Theorem C04_rejected_outside_reading :
  forall (vp : Cmd.vparser) (s : bytes) (k : Errors.ekind),
         Parser.vp_parse vp s = Some k -> ~ TypedWide.stored_reading vp s.
Proof. exact TypedWide.rejected_outside_reading. Qed.
Print Assumptions C04_rejected_outside_reading.
