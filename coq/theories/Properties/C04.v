(** Property C04: typed values are exactly what the value parser's language admits.
    This file contains only the pinned statements; models live in Value/*.v, proofs in
    Value/*Proofs.v, the literal/factory/case-folding tables in Gen/*.v (regenerated from the
    sources by translators/tables.py on every build). *)
From Coq Require Import ZArith List Bool.
From ClapModel Require Import Base.Bytes Base.Machine Base.Utf8.
From ClapModel Require Import Value.ValueBase Value.IntParse Value.IntParseProofs Value.IntFactory Value.IntFactoryProofs.
From ClapModel Require Import Value.BoolParse Value.BoolParseProofs Value.PossibleValues Value.PossibleValuesProofs.
From ClapModel Require Import Value.ValueParsers Value.ValueParsersProofs Value.TypedStore Value.TypedStoreProofs.
From ClapModel Require Import Gen.BoolTables.
Import ListNotations.

(** RangedI64ValueParser<T> with bounds r, T = [tmin..tmax]: accepted = well-formed UTF-8 (implied
    by the syntax), [+-]?[0-9]+, and the unbounded integer reading lies in i64, in the declared
    range and in T; the result is that reading -- never wrapped, never truncated. *)
Theorem C04_i64 : forall r tmin tmax s v,
  ranged_i64 r tmin tmax s = VOk v <->
  utf8_valid s = true /\ decimal_signed s /\ intval s = v /\ (i64_min <= v <= i64_max)%Z /\
  in_range r v /\ (tmin <= v <= tmax)%Z.
Proof. exact ranged_i64_spec. Qed.
Print Assumptions C04_i64.

(** RangedU64ValueParser<T>: +?[0-9]+ (a leading '-' is refused, even "-0"). *)
Theorem C04_u64 : forall r tmin tmax s v,
  ranged_u64 r tmin tmax s = VOk v <->
  utf8_valid s = true /\ decimal_unsigned s /\ intval s = v /\ (0 <= v <= u64_max)%Z /\
  in_range r v /\ (tmin <= v <= tmax)%Z.
Proof. exact ranged_u64_spec. Qed.
Print Assumptions C04_u64.

(** str::parse itself: the decimal language with the big-integer reading, for any bounds. *)
Theorem C04_str_parse : forall signed tmin tmax s v, (tmin <= 0 <= tmax)%Z ->
  (parse_int signed tmin tmax s = IOk v <->
   decimal signed s /\ intval s = v /\ (tmin <= v <= tmax)%Z).
Proof. exact parse_int_spec. Qed.
Print Assumptions C04_str_parse.

(** value_parser!(T) for T = u8 … i64 (table regenerated from the source): it can be built, with or
    without debug assertions, and accepts exactly the decimals inside T (u64 through the unsigned
    parser, all others through the i64 parser). *)
Theorem C04_factories : forall dbg t,
  exists r, factory_parser dbg t = Some (factory_kind t, r) /\
  forall s v, ranged_parse (factory_kind t) r t s = VOk v <->
    utf8_valid s = true /\ decimal (kind_signed (factory_kind t)) s /\ intval s = v /\
    (ity_min t <= v <= ity_max t)%Z.
Proof. exact factories_spec. Qed.
Print Assumptions C04_factories.

(** value_parser!(T).range(u): whenever it can be built it accepts exactly the decimals inside u and T;
    a side left open in u falls back to T's bound, never to anything wider. *)
Theorem C04_range_narrows : forall dbg t u k r s v,
  int_parser dbg t (Some u) = Some (k, r) ->
  (ranged_parse k r t s = VOk v <->
   utf8_valid s = true /\ decimal (kind_signed (factory_kind t)) s /\ intval s = v /\
   in_range u v /\ (ity_min t <= v <= ity_max t)%Z).
Proof. exact int_parser_spec. Qed.
Print Assumptions C04_range_narrows.

(** BoolValueParser: "true" and "false", byte for byte. *)
Theorem C04_bool : forall s b,
  bool_parse s = VOk b <-> s = (if b then lit_true else lit_false).
Proof. exact bool_parse_spec. Qed.
Print Assumptions C04_bool.

(** BoolishValueParser: the regenerated TRUE_LITERALS / FALSE_LITERALS, ASCII-case-insensitively
    (std's Unicode-aware to_lowercase adds nothing: no literal contains 'k', checked on the table). *)
Theorem C04_boolish : forall s b,
  boolish_parse s = VOk b <->
  utf8_valid s = true /\ exists l, In l (if b then true_literals else false_literals) /\ ascii_ci_eq s l.
Proof. exact boolish_parse_spec. Qed.
Print Assumptions C04_boolish.

(** FalseyValueParser: every well-formed string is accepted; false exactly for "" and the false literals. *)
Theorem C04_falsey : forall s b,
  falsey_parse s = VOk b <->
  utf8_valid s = true /\
  (b = false <-> s = [] \/ exists l, In l false_literals /\ ascii_ci_eq s l).
Proof. exact falsey_parse_spec. Qed.
Print Assumptions C04_falsey.

(** NonEmptyStringValueParser *)
Theorem C04_nonempty : forall s s',
  nonempty_parse s = VOk s' <-> s <> [] /\ utf8_valid s = true /\ s' = s.
Proof. exact nonempty_parse_spec. Qed.
Print Assumptions C04_nonempty.

(** PossibleValuesParser: accepted = well-formed and equal to a declared name or alias -- byte for
    byte unless ignore_case, caselessly (caseless_eq) if ignore_case; the value is the typed string. *)
Theorem C04_possible : forall uni ic pvs s s',
  possible_parse uni ic pvs s = VOk s' <->
  utf8_valid s = true /\ s' = s /\
  exists pv n, In pv pvs /\ In n (name_and_aliases pv) /\
               (if ic then caseless_eq uni n s else n = s).
Proof. exact possible_parse_spec. Qed.
Print Assumptions C04_possible.

(** ... and for ASCII tables and candidates "caselessly" is ASCII case-insensitivity, with or
    without the cargo feature `unicode`. *)
Theorem C04_possible_ascii : forall uni pvs s,
  is_ascii s = true ->
  (forall pv n, In pv pvs -> In n (name_and_aliases pv) -> is_ascii n = true) ->
  (possible_parse uni true pvs s = VOk s <->
   exists pv n, In pv pvs /\ In n (name_and_aliases pv) /\ ascii_ci_eq n s).
Proof. exact possible_parse_ascii. Qed.
Print Assumptions C04_possible_ascii.

(** EnumValueParser: the first variant declaring the candidate. *)
Theorem C04_enum : forall uni ic vs s i,
  enum_parse uni ic vs s = VOk i <->
  utf8_valid s = true /\
  exists pv, nth_error vs i = Some pv /\ variant_declares uni ic pv s /\
    forall j pv', (j < i)%nat -> nth_error vs j = Some pv' -> ~ variant_declares uni ic pv' s.
Proof. exact enum_parse_spec. Qed.
Print Assumptions C04_enum.

(** Every rejection by a built-in value parser is InvalidUtf8 (exactly for ill-formed input of a parser
    that goes through to_str) or the parser's refusal kind (ValueValidation / InvalidValue), and the
    latter names the argument. *)
Theorem C04_reject_kind : forall p s k, vparse p s = VErr k ->
  (k = InvalidUtf8 /\ utf8_valid s = false /\ reports_utf8 p = true) \/
  (k = refusal_kind p /\ kind_names_arg k = true).
Proof. exact reject_kind. Qed.
Print Assumptions C04_reject_kind.

(** Full reading "every rejection names the argument": refuted by InvalidUtf8 (known finding
    C04-invalid-utf8-unnamed); it holds for every well-formed candidate. *)
Theorem C04_reject_names_arg_refuted :
  exists p s k, vparse p s = VErr k /\ kind_names_arg k = false.
Proof. exact reject_names_arg_refuted. Qed.
Print Assumptions C04_reject_names_arg_refuted.

Theorem C04_reject_names_arg_partial : forall p s k,
  vparse p s = VErr k -> utf8_valid s = true -> kind_names_arg k = true.
Proof. exact reject_names_arg_utf8. Qed.
Print Assumptions C04_reject_names_arg_partial.

(** Typed store: every history of typed get/remove calls on a well-formed store produces the outputs
    of the abstract machine on the finite map id -> entry (astep: a get is a look-up; a remove is the
    same look-up followed, on success only, by deleting that id), ends in a store that is that map,
    stays well-formed, and never hits an internal expect. *)
Theorem C04_typed_store : forall dbg ops st m, wf_store st -> (forall i, lookup st i = m i) ->
  let '(xs, st') := run dbg st ops in
  let '(ys, m') := arun dbg (valid_args st) m ops in
  Forall2 out_sim xs ys /\ (forall i, lookup st' i = m' i) /\ wf_store st' /\
  valid_args st' = valid_args st /\ ~ In OPanic xs.
Proof. exact run_refines. Qed.
Print Assumptions C04_typed_store.

(** What one abstract step does: gets change nothing; a failing access changes nothing; unknown id and
    wrong type fail; success returns the entry's values and (remove) deletes exactly that id. *)
Theorem C04_typed_store_step : forall dbg valid m o,
  let '(y, m') := astep dbg valid m o in
  (is_get o = true -> m' = m) /\
  (forall e, y = OErr e -> m' = m) /\
  (o <> Ids -> averify dbg valid (op_id o) = Some UnknownArgument -> y = OErr UnknownArgument) /\
  (o <> Ids -> averify dbg valid (op_id o) = None ->
   forall e, m (op_id o) = Some e ->
     (infer_type_id e (op_tag o) <> op_tag o ->
        y = OErr (Downcast (infer_type_id e (op_tag o)) (op_tag o))) /\
     (infer_type_id e (op_tag o) = op_tag o ->
        y = (if op_one o then out_first (op_tag o) e else out_all (op_tag o) e) /\
        m' = (if is_get o then m else adelete m (op_id o)))) /\
  (o <> Ids -> averify dbg valid (op_id o) = None -> m (op_id o) = None -> y = ONone /\ m' = m).
Proof. exact astep_spec. Qed.
Print Assumptions C04_typed_store_step.

(** Observation: the stricter "a failing try_remove_one preserves the order of ids()" is false
    (remove_entry, then insert at the end); the property speaks of the stored values only. *)
Theorem C04_store_order_refuted :
  exists st a T e, wf_store st /\
    fst (step true st (RemoveOne a T)) = OErr e /\
    map fst (args (snd (step true st (RemoveOne a T)))) <> map fst (args st).
Proof. exact store_order_refuted. Qed.
Print Assumptions C04_store_order_refuted.
