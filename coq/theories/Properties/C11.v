(** Property C11: parsing is deterministic, re-entrant and independent of build timing.
    This file contains only the pinned statements; the stateful model is Reentrancy/ReentrancyModel.v,
    the proofs are in Reentrancy/ReentrancyProofs.v. *)
From ClapModel Require Import Base.Bytes Base.Machine.
From ClapModel Require Import Parse.Cmd Parse.Build Parse.Errors Parse.Validator Parse.Parser.
From ClapModel Require Import Reentrancy.ReentrancyModel Reentrancy.ReentrancyProofs Reentrancy.ReentrancyParse.
From ClapModel Require Import Reentrancy.ReentrancyDym Reentrancy.ReentrancyGlobals Reentrancy.ReentrancyMsg Reentrancy.ReentrancyBuild Reentrancy.ReentrancyMarks Reentrancy.ReentrancyMarksMsg.
From ClapModel Require Import Parse.Valid Parse.Matcher ParseProofs.Dispatch.
From Coq Require Import List.
From RecordUpdate Require Import RecordSet.
Import RecordSetNotations ListNotations.

(** building is idempotent: the steps behind the Built flag are never re-run, whatever
    [expand_help_tree] the second call asks for *)
Theorem C11_build_self_idempotent : forall c, build_self (build_self c) = build_self c.
Proof. exact build_self_idempotent. Qed.
Print Assumptions C11_build_self_idempotent.

Theorem C11_build_self_guard : forall e e' c, build_self_x e' (build_self_x e c) = build_self_x e c.
Proof. exact build_self_x_guard. Qed.
Print Assumptions C11_build_self_guard.

Theorem C11_build_recursive_idempotent : forall n e e' c,
  build_recursive_x n e' (build_recursive_x n e c) = build_recursive_x n e c.
Proof. exact build_recursive_x_guard. Qed.
Print Assumptions C11_build_recursive_idempotent.

Theorem C11_build_bin_names_idempotent : forall n c,
  build_bin_names n (build_bin_names n c) = build_bin_names n c.
Proof. exact build_bin_names_idempotent. Qed.
Print Assumptions C11_build_bin_names_idempotent.

Theorem C11_build_idempotent : forall n c, build_op_with n (build_op_with n c) = build_op_with n c.
Proof. exact build_op_with_idempotent. Qed.
Print Assumptions C11_build_idempotent.

(** build timing: naming a command before or after it is built gives the same command *)
Theorem C11_names_commute_with_build : forall v w c,
  build_self (c <| c_bin_name := v |> <| c_display_name := w |>)
  = (build_self c) <| c_bin_name := v |> <| c_display_name := w |>.
Proof. exact names_commute_with_build. Qed.
Print Assumptions C11_names_commute_with_build.

(** [_build_subcommand] on a slot it already visited, or on a slot built earlier, changes nothing more *)
Theorem C11_build_subcommand_is_prepare : forall c name,
  build_subcommand c name = option_map (prepare c) (find (fun s => beq (c_name s) name) (c_subs c)).
Proof. exact build_subcommand_prepare. Qed.
Print Assumptions C11_build_subcommand_is_prepare.

Theorem C11_prepare_idempotent : forall p sc, prepare p (prepare p sc) = prepare p sc.
Proof. exact prepare_idempotent. Qed.
Print Assumptions C11_prepare_idempotent.

Theorem C11_prepare_after_build : forall p sc, prepare p (build_self sc) = prepare p sc.
Proof. exact prepare_build_self. Qed.
Print Assumptions C11_prepare_after_build.

(** the in-place mutation along ANY path of subcommands is absorbed by the normal form *)
Theorem C11_touch_preserves_normal_form : forall n b c path,
  norm n b (touch (root_prep b c) path) = norm n b c.
Proof. exact norm_touch. Qed.
Print Assumptions C11_touch_preserves_normal_form.

(** the state a parse leaves behind is the prepared root touched along a path *)
Theorem C11_parse_state : forall c argv,
  exists path, fst (step c (ParseMut argv)) = touch (build_self (fst (set_bin c argv))) path.
Proof. exact step_parse_state. Qed.
Print Assumptions C11_parse_state.

(** every by-reference call other than [build] (a parse that succeeds or fails, under program name
    [b]; the three render calls; clone; the subcommand building done by [did_you_mean_flag])
    preserves the normal form to every depth *)
Theorem C11_ops_preserve_normal_form : forall n b c o,
  good_name b = true -> op_under b c o = true -> is_build o = false ->
  norm n b (fst (step c o)) = norm n b c.
Proof. exact ops_preserve_normal_form. Qed.
Print Assumptions C11_ops_preserve_normal_form.

(** hence: after any finite history the definition has the normal form of the fresh definition *)
Theorem C11_history_normal_form : forall h n b c,
  good_name b = true -> hist_ok b c h = true -> norm n b (run c h) = norm n b c.
Proof. exact history_normal_form. Qed.
Print Assumptions C11_history_normal_form.

(** and the command the next parse starts from agrees with the one a fresh definition starts from *)
Theorem C11_history_next_parse_state : forall h n b c argv,
  good_name b = true -> hist_ok b c h = true ->
  argv_under b (run c h) argv = true -> argv_under b c argv = true ->
  norm_children n (build_self (fst (set_bin (run c h) argv))) = norm_children n (build_self (fst (set_bin c argv))).
Proof. exact history_next_parse_state. Qed.
Print Assumptions C11_history_next_parse_state.

(** the part of the statement that is false of the faithful model (and of the code): a definition
    built beforehand can report a different error kind (known finding C11-help-tree-after-build) *)
Theorem C11_built_beforehand_kind_refuted :
  exists c argv, parse_kind (build_op c) argv <> parse_kind c argv.
Proof. exact built_beforehand_kind_refuted. Qed.
Print Assumptions C11_built_beforehand_kind_refuted.

(** parser level: the token loop of a level reads the level's subcommands only through their signatures.
    This statement of the third pass is an equality of FUNCTIONS and is the only theorem of the property that
    still rests on functional_extensionality_dep; the pointwise statement (no axiom, also for arbitrary
    BinNameBuilt marks) is [C11_parser_reads_signatures_pointwise] below, and every other theorem uses that. *)
Theorem C11_parser_reads_signatures : forall c l',
  map sig (c_subs c) = map sig l' -> parse_loop (c <| c_subs := l' |>) = parse_loop c.
Proof. exact sh_parse_loop_fun. Qed.
Print Assumptions C11_parser_reads_signatures.

(** fourth pass (2): the same POINTWISE, closed under the global context, and for a command whose
    BinNameBuilt marks (in both setting words) are set to arbitrary values: the token loop reads neither the
    subcommands beyond their signatures nor the mark *)
Theorem C11_parser_reads_signatures_pointwise : forall c l' v v',
  map sig (c_subs c) = map sig l' ->
  forall toks ls st, parse_loop (rsm c l' v v') toks ls st = parse_loop c toks ls st.
Proof. exact shm_parse_loop. Qed.
Print Assumptions C11_parser_reads_signatures_pointwise.

(** the validator reads of a command: its arguments, its groups and four settings -- for ANY two commands *)
Theorem C11_validator_congruence : forall c c',
  c_args c' = c_args c -> c_groups c' = c_groups c ->
  is_set s_arg_required_else_help c' = is_set s_arg_required_else_help c ->
  is_set s_sub_required c' = is_set s_sub_required c ->
  is_set s_subs_negate_reqs c' = is_set s_subs_negate_reqs c ->
  is_set s_allow_missing_pos c' = is_set s_allow_missing_pos c ->
  forall m, validate c' m = validate c m.
Proof. exact v_validate. Qed.
Print Assumptions C11_validator_congruence.

(** everything [get_matches_with] does at a level after the token loop and the subcommand (pending occurrence,
    environment, defaults, validator) ignores the subcommand list and the marks *)
Theorem C11_level_post_reads_own_definition : forall c l v v' parsed,
  Dispatch.post (rsm c l v v') parsed = Dispatch.post c parsed.
Proof. exact post_rsm. Qed.
Print Assumptions C11_level_post_reads_own_definition.

(** two commands with the same normal form to every depth: same parser result, same visited names *)
Theorem C11_parse_normal_form : forall fuel c1 c2 toks st,
  (forall n, norm_children n c1 = norm_children n c2) ->
  get_matches_with fuel c1 toks st = get_matches_with fuel c2 toks st.
Proof. exact gmw_agree. Qed.
Print Assumptions C11_parse_normal_form.

Theorem C11_parse_names_normal_form : forall fuel c1 c2 toks st,
  (forall n, norm_children n c1 = norm_children n c2) ->
  map visit_names (parse_trace fuel c1 toks st) = map visit_names (parse_trace fuel c2 toks st).
Proof. exact trace_agree. Qed.
Print Assumptions C11_parse_names_normal_form.

(** history independence: after any finite history of parses (succeeding or failing, under program
    name [b]), renders, clones and did_you_mean mutations, the parser result (matcher or error with the
    parser state), the bin / display names of every command level visited, and the reported error
    are those of the fresh definition *)
Theorem C11_history_independence : forall h b c argv,
  good_name b = true -> hist_ok b c h = true ->
  argv_under b (run c h) argv = true -> argv_under b c argv = true ->
  parse_result (run c h) argv = parse_result c argv
  /\ parse_names (run c h) argv = parse_names c argv
  /\ err_of (fst (fst (parse_mut (run c h) argv))) = err_of (fst (fst (parse_mut c argv))).
Proof. exact history_independence. Qed.
Print Assumptions C11_history_independence.

(** ---- third pass (1a): the failing parse that mutates.  [parse_mut_dym fires] = the parse plus, when
    [fires] (the parse ended in [Parser::did_you_mean_error] and strsim::jaro found no similar long flag:
    not modelled, both values covered), [_build_self] on every subcommand of the deepest level reached
    ([suggestions::did_you_mean_flag]). ---- *)

(** on the path of the parse itself the guards of the modelled mutation never block: it reaches the
    failing level and builds each of its subcommands (built, not named) *)
Theorem C11_dym_reaches_failing_level : forall path root c,
  s_built (c_set c) = true -> (root = true \/ is_some (c_bin_name c) = true) ->
  sugg_build_at root (touch c path) path = touch_build c path.
Proof. exact sugg_after_touch. Qed.
Print Assumptions C11_dym_reaches_failing_level.

Theorem C11_dym_state : forall c argv,
  snd (parse_mut_dym true c argv)
  = touch_build (build_self (fst (set_bin c argv))) (trace_path (snd (fst (parse_mut c argv)))).
Proof. exact dym_state. Qed.
Print Assumptions C11_dym_state.

Theorem C11_dym_level_built : forall path c k,
  node_at (touch_build c path) path = Some k -> Forall (fun s => s_built (c_set s) = true) (c_subs k).
Proof. exact touch_build_level_built. Qed.
Print Assumptions C11_dym_level_built.

(** the mutating parse preserves the normal form, hence every history that contains such parses *)
Theorem C11_dym_preserves_normal_form : forall n b c x,
  good_name b = true -> xop_under b c x = true -> xis_build x = false ->
  norm n b (fst (xstep c x)) = norm n b c.
Proof. exact xstep_normal_form. Qed.
Print Assumptions C11_dym_preserves_normal_form.

Theorem C11_history_normal_form_dym : forall h n b c,
  good_name b = true -> xhist_ok b c h = true -> norm n b (xrun c h) = norm n b c.
Proof. exact xhistory_normal_form. Qed.
Print Assumptions C11_history_normal_form_dym.

(** two commands with the same normal form to every depth: every level the parse visits (parser levels
    and the levels of the `help <path>` walk) has the same own definition -- arguments including the
    inherited global arguments, in order; settings; version; bin / display name *)
Theorem C11_visited_levels_normal_form : forall fuel c1 c2 toks st,
  (forall n, norm_children n c1 = norm_children n c2) ->
  map visit_own (parse_trace fuel c1 toks st) = map visit_own (parse_trace fuel c2 toks st).
Proof. exact trace_own_agree. Qed.
Print Assumptions C11_visited_levels_normal_form.

(** history independence for histories that contain FAILING parses which build subcommands behind the
    caller's back: the later parse still gets the fresh parser result, names the subcommands
    ([_build_subcommand] must overwrite bin_name / usage_name of a subcommand that is already built) and
    finds the global arguments at every level it visits *)
Theorem C11_history_independence_dym : forall h b c argv,
  good_name b = true -> xhist_ok b c h = true ->
  argv_under b (xrun c h) argv = true -> argv_under b c argv = true ->
  parse_result (xrun c h) argv = parse_result c argv
  /\ parse_names (xrun c h) argv = parse_names c argv
  /\ err_of (fst (fst (parse_mut (xrun c h) argv))) = err_of (fst (fst (parse_mut c argv)))
  /\ parse_levels (xrun c h) argv = parse_levels c argv.
Proof. exact history_independence_dym. Qed.
Print Assumptions C11_history_independence_dym.

(** ---- third pass (1b): the propagation of global values runs on the mutated tree
    ([get_used_global_args] on [self] after the parser returned); the matches are insertion-ordered maps,
    so the order of the collected ids is observable through [ArgMatches::ids()]. ---- *)

(** the subcommand chain recorded in the parser result follows the nodes this very parse touched: each
    is settled (built and named by its parent), or it is the last one (an external subcommand) *)
Theorem C11_recorded_chain_follows_touched : forall fuel c toks st0 fu,
  mt_sub (mt st0) = None -> nodup_ids (all_subcommand_names c) = true ->
  holds (fun st => chain_ok fu (touch c (trace_path (parse_trace fuel c toks st0))) (mt_sub (mt st)))
        (fun st => chain_ok fu (touch c (trace_path (parse_trace fuel c toks st0))) (mt_sub (mt st)))
        (get_matches_with fuel c toks st0).
Proof. exact gmw_chain_ok. Qed.
Print Assumptions C11_recorded_chain_follows_touched.

(** on such a chain [get_used_global_args] returns the same LIST (ids, order, multiplicities) for two
    trees with the same normal form to every depth *)
Theorem C11_used_globals_normal_form : forall f c1 c2 m,
  (forall n, norm_children n c1 = norm_children n c2) ->
  chain_ok f c1 (ms_sub m) -> chain_ok f c2 (ms_sub m) ->
  used_global_args f c1 m = used_global_args f c2 m.
Proof. exact uga_agree. Qed.
Print Assumptions C11_used_globals_normal_form.

Theorem C11_valid_root_names_distinct : forall c, valid c = true -> root_names_distinct c = true.
Proof. exact valid_root_names_distinct. Qed.
Print Assumptions C11_valid_root_names_distinct.

(** the COMPLETE outcome of the next parse -- matches of every level after [propagate_globals], or the
    error -- after any finite history (failing and mutating parses, renders, clones) is the fresh one *)
Theorem C11_history_outcome : forall h b c argv,
  good_name b = true -> xhist_ok b c h = true ->
  argv_under b (xrun c h) argv = true -> argv_under b c argv = true ->
  root_names_distinct c = true ->
  fst (fst (parse_mut (xrun c h) argv)) = fst (fst (parse_mut c argv)).
Proof. exact history_outcome. Qed.
Print Assumptions C11_history_outcome.

(** in particular the ids of every level come in the same order *)
Theorem C11_history_ids_order : forall h b c argv,
  good_name b = true -> xhist_ok b c h = true ->
  argv_under b (xrun c h) argv = true -> argv_under b c argv = true ->
  root_names_distinct c = true ->
  outcome_ids (fst (fst (parse_mut (xrun c h) argv))) = outcome_ids (fst (fst (parse_mut c argv))).
Proof. exact history_ids_order. Qed.
Print Assumptions C11_history_ids_order.

(** ---- third pass (3): the name-dependent lines of the messages: the version line
    ([_render_version]: display name, version) and the head of the usage line ([get_usage_name_fallback]:
    the usage_name that [_build_subcommand] assigns from the parent's current bin name, a string [mid]
    rendered from the parent's own definition -- ANY function of it -- and the subcommand's names) of
    every level the parse visits are the same on a reused (any history, failing and mutating parses
    included), a cloned and a fresh definition; so is the reported error. ---- *)
Theorem C11_history_messages : forall mid h b c argv,
  good_name b = true -> xhist_ok b c h = true ->
  argv_under b (xrun c h) argv = true -> argv_under b c argv = true ->
  parse_lines mid (xrun c h) argv = parse_lines mid c argv
  /\ err_of (fst (fst (parse_mut (xrun c h) argv))) = err_of (fst (fst (parse_mut c argv))).
Proof. exact history_messages. Qed.
Print Assumptions C11_history_messages.

(** the representation of usage_name by bin_name is consistent: for a subcommand without flag names and
    a parent without required arguments ([mid] = one space) the stored bin_name IS that usage_name *)
Theorem C11_bin_name_is_usage_name : forall p s,
  c_long_flag s = None -> c_short_flag s = None ->
  c_bin_name (prepare p s) = Some (usage_name_at (fun _ => [32%N]) p (prepare p s))
  \/ (c_bin_name p = None /\ c_bin_name (prepare p s) = Some (c_name s)).
Proof. exact prepared_bin_is_usage_name_plain. Qed.
Print Assumptions C11_bin_name_is_usage_name.

(** ---- third pass (4), partial; COMPLETED by the fourth pass below: histories containing [build()].  The recorded finding
    C11-help-tree-after-build is delimited as a boolean family of DEFINITIONS: it needs a node with an
    auto-generated help subcommand, i.e. a definition outside [nohelp_tree] (help subcommand disabled at
    the node and all its subcommands to the given depth).  Full statement (not proved):
      forall h (may contain Build) b c argv, nohelp_tree (all depths) c = true -> hist under b ->
        parse_result (run c h) argv = parse_result c argv /\ parse_names ... /\ err_of ...
    Proved: the tree-building half of [build()], [_build_recursive(true)]; missing:
    [_build_bin_names_internal] (BinNameBuilt marks make the trees unequal as records). ---- *)

(** inside the class [_build_self(expand_help_tree = true)] is [_build_self(false)] *)
Theorem C11_expand_irrelevant_without_help_sub : forall c,
  s_disable_help_sub (c_gset c) = true -> build_self_x true c = build_self c.
Proof. exact expand_irrelevant. Qed.
Print Assumptions C11_expand_irrelevant_without_help_sub.

(** building every node beforehand, to any fuel, is absorbed by the normal form at every depth: with
    [expand_help_tree = false] for every definition, with [true] inside the class *)
Theorem C11_build_tree_preserves_normal_form_partial : forall n b f e c,
  (e = true -> nohelp_tree f c = true) ->
  norm n b (build_recursive_x f e c) = norm n b c.
Proof. exact build_tree_normal_form. Qed.
Print Assumptions C11_build_tree_preserves_normal_form_partial.

Theorem C11_build_subtree_preserves_normal_form_partial : forall n f e p sc,
  (e = true -> nohelp_tree f sc = true) ->
  norm_sub n p (build_recursive_x f e sc) = norm_sub n p sc.
Proof. exact norm_sub_build_recursive. Qed.
Print Assumptions C11_build_subtree_preserves_normal_form_partial.

(** ---- fourth pass (1): histories containing [build()], completed.  [clr] erases the BinNameBuilt marks in
    every node; [quiet_tree n b c] = no node of the lazily built tree (root and [n] levels below it, program
    name [b]) has the help subcommand enabled after [_build_self]; [help_family] is its complement: the family
    of the recorded finding C11-help-tree-after-build. ---- *)

(** the parser never reads the mark and reads subcommands only through [_build_subcommand]: two commands with
    the same normal form to every depth MODULO THE MARKS give the same parser result and visited names *)
Theorem C11_parse_normal_form_modulo_marks : forall fuel c1 c2 toks st,
  (forall n, clr (norm_children n c1) = clr (norm_children n c2)) ->
  get_matches_with fuel c1 toks st = get_matches_with fuel c2 toks st.
Proof. exact gmw_agreem. Qed.
Print Assumptions C11_parse_normal_form_modulo_marks.

Theorem C11_parse_names_normal_form_modulo_marks : forall fuel c1 c2 toks st,
  (forall n, clr (norm_children n c1) = clr (norm_children n c2)) ->
  map visit_names (parse_trace fuel c1 toks st) = map visit_names (parse_trace fuel c2 toks st).
Proof. exact trace_agreem. Qed.
Print Assumptions C11_parse_names_normal_form_modulo_marks.

(** [_build_bin_names_internal], any fuel, on a tree that is built as deep as it walks (what [build()] hands it):
    absorbed by the normal form modulo the marks -- the names it gives are overwritten ([bin_name]) or equal to
    the ones [_build_subcommand] computes later (display-name consistency) *)
Theorem C11_build_bin_names_normal_form : forall f n b y,
  built_to f y -> clr (norm n b (build_bin_names f y)) = clr (norm n b y).
Proof. exact norm_bbn. Qed.
Print Assumptions C11_build_bin_names_normal_form.

Theorem C11_build_bin_names_subtree_normal_form : forall f n p y,
  built_to f y -> c_display_name y <> None ->
  clr (norm_sub n p (build_bin_names f y)) = clr (norm_sub n p y).
Proof. exact norm_sub_bbn. Qed.
Print Assumptions C11_build_bin_names_subtree_normal_form.

(** at a node whose help subcommand is disabled once it is built, [expand_help_tree] is irrelevant *)
Theorem C11_expand_irrelevant_quiet_node : forall c,
  is_set s_disable_help_sub (build_self c) = true -> build_self_x true c = build_self c.
Proof. exact expand_irrelevant_q. Qed.
Print Assumptions C11_expand_irrelevant_quiet_node.

(** outside the family the tree-building half of [build()] preserves the normal form (no marks involved) *)
Theorem C11_build_tree_preserves_normal_form : forall n b f e c,
  (e = true -> quiet_tree f b c = true) -> norm n b (build_recursive_x f e c) = norm n b c.
Proof. exact build_tree_normal_form_q. Qed.
Print Assumptions C11_build_tree_preserves_normal_form.

(** [build()] with any fuel *)
Theorem C11_build_preserves_normal_form : forall n b f s,
  quiet_tree f b s = true -> clr (norm n b (build_op_with f s)) = clr (norm n b s).
Proof. exact build_op_normal_form. Qed.
Print Assumptions C11_build_preserves_normal_form.

(** the family is a function of the normal form modulo the marks, hence an invariant of every history *)
Theorem C11_family_invariant : forall b s c k,
  (forall n, clr (norm n b s) = clr (norm n b c)) -> quiet_tree k b s = quiet_tree k b c.
Proof. exact same_nf_quiet. Qed.
Print Assumptions C11_family_invariant.

(** every finite history of parses (failing, mutating), renders, clones and [build()] calls under one program
    name leaves the normal form of the fresh definition, modulo the marks *)
Theorem C11_history_normal_form_build : forall h b c n,
  good_name b = true -> (forall k, quiet_tree k b c = true) -> xhist_okb b c h = true ->
  clr (norm n b (xrun c h)) = clr (norm n b c).
Proof. intros h b c n Hg Hq Hh. exact (xhistory_normal_form_build h b c c Hg Hq (fun _ => eq_refl) Hh n). Qed.
Print Assumptions C11_history_normal_form_build.

(** HISTORY INDEPENDENCE WITH [build()]: outside the family of the finding, after any such history the parser
    result (matcher or error with the parser state), the bin / display names of every visited level and the
    reported error of the next parse are those of the fresh definition *)
Theorem C11_history_independence_build : forall h b c argv,
  good_name b = true -> (forall k, quiet_tree k b c = true) -> xhist_okb b c h = true ->
  argv_under b (xrun c h) argv = true -> argv_under b c argv = true ->
  parse_result (xrun c h) argv = parse_result c argv
  /\ parse_names (xrun c h) argv = parse_names c argv
  /\ err_of (fst (fst (parse_mut (xrun c h) argv))) = err_of (fst (fst (parse_mut c argv))).
Proof. exact history_independence_build. Qed.
Print Assumptions C11_history_independence_build.

(** a sufficient condition on the definition alone, one boolean: help subcommand disabled (a global setting)
    at every node *)
Theorem C11_nohelp_definitions_outside_family : forall b c,
  nohelp_all c = true -> forall k, quiet_tree k b c = true.
Proof. exact nohelp_all_quiet. Qed.
Print Assumptions C11_nohelp_definitions_outside_family.

(** the witness of the recorded finding lies in the family (already at depth 0: the root gets an
    auto-generated help subcommand), and the statement is refuted there *)
Theorem C11_finding_witness_in_family :
  exists b c argv, help_family 0 b c = true /\ parse_kind (build_op c) argv <> parse_kind c argv.
Proof. exact finding_witness_in_family. Qed.
Print Assumptions C11_finding_witness_in_family.

(** ---- fourth pass (3): the [mid] part of usage_name modelled: [mid_string sty mem p] =
    [Usage::get_required_usage_from(&[], None, true)] of the parent [p] (requirement graph, unrolling, required
    groups with their members, required options, required positionals by index), each piece followed by a space,
    unless SubcommandsNegateReqs / ArgsNegateSubcommands; [sty] / [mem] = the per-argument texts
    ([Arg::stylized(Some(true))], member text of [format_group]). ---- *)

(** it is rendered from the parent's own arguments, groups and two settings: not from its subcommands, names, marks *)
Theorem C11_mid_reads_own_definition : forall sty mem p p',
  c_args p' = c_args p -> c_groups p' = c_groups p ->
  is_set s_subs_negate_reqs p' = is_set s_subs_negate_reqs p ->
  is_set s_args_negate_subs p' = is_set s_args_negate_subs p ->
  mid_string sty mem p' = mid_string sty mem p.
Proof. exact own_mid_string. Qed.
Print Assumptions C11_mid_reads_own_definition.

(** version line and the REAL usage head (parent's bin name, its required arguments, the subcommand's names) of
    every visited level, and the error: equal on reused (any history with failing / mutating parses), cloned, fresh *)
Theorem C11_history_messages_usage_name : forall sty mem h b c argv,
  good_name b = true -> xhist_ok b c h = true ->
  argv_under b (xrun c h) argv = true -> argv_under b c argv = true ->
  parse_lines (mid_string sty mem) (xrun c h) argv = parse_lines (mid_string sty mem) c argv
  /\ err_of (fst (fst (parse_mut (xrun c h) argv))) = err_of (fst (fst (parse_mut c argv))).
Proof. exact history_messages_real. Qed.
Print Assumptions C11_history_messages_usage_name.

(** and that head is [bin_name(parent) ++ mid_string(parent) ++ sc_names(level)] *)
Theorem C11_usage_name_is_real : forall sty mem p k,
  usage_name_at (mid_string sty mem) p k = real_usage_name sty mem p k.
Proof. exact usage_name_at_real. Qed.
Print Assumptions C11_usage_name_is_real.

(** ---- fourth pass (1)+(3): the message lines for histories that contain [build()], outside the family ---- *)

(** the own definition of every visited level, modulo the marks *)
Theorem C11_visited_levels_normal_form_modulo_marks : forall fuel c1 c2 toks st,
  (forall n, clr (norm_children n c1) = clr (norm_children n c2)) ->
  map visit_ownm (parse_trace fuel c1 toks st) = map visit_ownm (parse_trace fuel c2 toks st).
Proof. exact trace_own_agreem. Qed.
Print Assumptions C11_visited_levels_normal_form_modulo_marks.

(** version line, real usage head and error after any history with [build()] calls = fresh *)
Theorem C11_history_messages_build : forall sty mem h b c argv,
  good_name b = true -> (forall k, quiet_tree k b c = true) -> xhist_okb b c h = true ->
  argv_under b (xrun c h) argv = true -> argv_under b c argv = true ->
  parse_lines (mid_string sty mem) (xrun c h) argv = parse_lines (mid_string sty mem) c argv
  /\ err_of (fst (fst (parse_mut (xrun c h) argv))) = err_of (fst (fst (parse_mut c argv))).
Proof. exact history_messages_build. Qed.
Print Assumptions C11_history_messages_build.

(** ---- round 5: the recorded finding C11-flatten-help-subcommand-shape, stated on the help model (C12's
    Help/HelpFlatten.v: [Command::flatten_help], [Command::build]; Help/HelpFlattenShape.v).  Names are qualified: the
    help model is required, not imported.

    [_check_help_and_version(expand_help_tree)] builds the generated [help] subcommand of a level in one of two shapes:
    lazily ([_build_self(false)]: the parser's descent, [render_help]) with the argument [[COMMAND]...], or expanded
    ([build()], which the flatten branch of [write_help_usage] calls on the clone) with copies of the subcommand trees.
    A definition the parser has entered keeps the lazy shape of that level; a fresh one gets the expanded shape when an
    ancestor's flattened help builds it.  [h_build_bin_names (S f) (h_set_names bin mid (h_build_recursive (S f) h))] is
    what [build()] makes of the subcommand [h] of a built level with bin name [bin] and mid string [mid]. ---- *)
From ClapModel Require Help.UsageModel Help.HelpFlatten Help.HelpFlattenShape Help.HelpFlattenLevel.

(** equal when [disable_help_subcommand] is set (or the level has no subcommands, or is built already): the two
    builds of the level are the same record, so every rendering of every definition agrees *)
Theorem C11_flatten_help_shape_disabled : forall c : UsageModel.hcmd,
  HelpFlattenShape.help_sub_off c = true -> HelpFlatten.h_build_self_x false c = HelpFlatten.h_build_self_x true c.
Proof. exact HelpFlattenShape.shape_disabled. Qed.
Print Assumptions C11_flatten_help_shape_disabled.

(** the lazily built shape in the built clone: not hidden, and its usage line is [name; "[COMMAND]..."] *)
Theorem C11_flatten_help_shape_lazy_line : forall f p bin t,
  exists h', HelpFlatten.h_build_bin_names (S f)
               (HelpFlatten.h_set_names bin (32%N :: t) (HelpFlatten.h_build_recursive (S f) (UsageModel.h_help_subcommand p))) = Some h'
    /\ UsageModel.hc_hide h' = false /\ UsageModel.hc_flatten h' = false /\ UsageModel.hc_name h' = UsageModel.s_help
    /\ UsageModel.usage_pieces h' = Some [bin ++ (32%N :: t) ++ UsageModel.s_help; HelpFlattenShape.s_cmd_lazy].
Proof. exact HelpFlattenShape.lazy_help_line. Qed.
Print Assumptions C11_flatten_help_shape_lazy_line.

(** the expanded shape in the built clone: not hidden, and its usage line is [name; "[COMMAND]"] -- the second piece
    iff the level has a visible subcommand, which a flattened level has *)
Theorem C11_flatten_help_shape_expanded_line : forall f p bin t he',
  HelpFlatten.h_build_bin_names (S f)
    (HelpFlatten.h_set_names bin (32%N :: t) (HelpFlatten.h_build_recursive (S f) (HelpFlatten.h_help_subcommand_expanded p))) = Some he' ->
  UsageModel.hc_hide he' = false /\ UsageModel.hc_flatten he' = false /\ UsageModel.hc_name he' = UsageModel.s_help
  /\ UsageModel.usage_pieces he'
     = Some ([bin ++ (32%N :: t) ++ UsageModel.s_help]
             ++ (if existsb HelpFlattenShape.vis_pred (UsageModel.hc_subs p) then [HelpFlattenShape.s_cmd_exp] else [])).
Proof. exact HelpFlattenShape.exp_help_line. Qed.
Print Assumptions C11_flatten_help_shape_expanded_line.

(** non-vacuity of the three classes *)
Theorem C11_flatten_help_shape_satisfiable :
  (HelpFlattenShape.help_sub_off HelpFlattenShape.sh_off = true /\ UsageModel.hc_built HelpFlattenShape.sh_off = false
   /\ is_nil (UsageModel.hc_subs HelpFlattenShape.sh_off) = false
   /\ HelpFlatten.flat_cond (HelpFlatten.h_build_self_x false HelpFlattenShape.sh_off) = true)
  /\ HelpFlattenShape.help_sub_off HelpFlattenShape.sh_on = false
  /\ (exists he', HelpFlatten.h_build_bin_names 3 (HelpFlatten.h_set_names [112%N] [32%N]
                    (HelpFlatten.h_build_recursive 3 (HelpFlatten.h_help_subcommand_expanded HelpFlattenShape.sh_on))) = Some he'
                  /\ UsageModel.usage_pieces he' = Some [[112%N; 32%N] ++ UsageModel.s_help; HelpFlattenShape.s_cmd_exp])
  /\ (exists hl', HelpFlatten.h_build_bin_names 3 (HelpFlatten.h_set_names [112%N] [32%N]
                    (HelpFlatten.h_build_recursive 3 (UsageModel.h_help_subcommand HelpFlattenShape.sh_on))) = Some hl'
                  /\ UsageModel.usage_pieces hl' = Some [[112%N; 32%N] ++ UsageModel.s_help; HelpFlattenShape.s_cmd_lazy]).
Proof. exact (conj HelpFlattenShape.shape_disabled_satisfiable HelpFlattenShape.shape_lines_satisfiable). Qed.
Print Assumptions C11_flatten_help_shape_satisfiable.

(** different otherwise, in exactly one place: the lazy and the eager build of an unbuilt level whose help subcommand is
    not disabled are the same record up to the LAST subcommand, the generated [help] in its two shapes *)
Theorem C11_flatten_help_shape_builds : forall c : UsageModel.hcmd, HelpFlattenShape.help_sub_off c = false ->
  exists P S0 A,
    HelpFlatten.h_build_self_x false c = HelpFlattenLevel.mk_level P (S0 ++ [UsageModel.h_help_subcommand P]) A
    /\ HelpFlatten.h_build_self_x true c = HelpFlattenLevel.mk_level P (S0 ++ [HelpFlatten.h_help_subcommand_expanded P]) A
    /\ map HelpFlattenShape.nh S0 = map HelpFlattenShape.nh (UsageModel.hc_subs P).
Proof. exact HelpFlattenLevel.shape_builds. Qed.
Print Assumptions C11_flatten_help_shape_builds.

(** the finding, exactly: for an unbuilt level [c] whose help subcommand is not disabled, flattened (the setting and a
    visible subcommand), the usage blocks of its two builds -- lazy: the parser entered the level earlier; eager: built
    for the rendering -- are the SAME lines followed by the line of the generated [help] subcommand, which reads
    [.. help "[COMMAND]..."] in the first and [.. help "[COMMAND]"] in the second.  The classifier of vp/props/c11.py
    ([flatten_help_shape]) normalises exactly this difference. *)
Theorem C11_flatten_help_shape_level : forall f (c : UsageModel.hcmd) ll le,
  HelpFlattenShape.help_sub_off c = false ->
  HelpFlatten.flat_cond (HelpFlatten.h_build_self_x false c) = true ->
  HelpFlatten.usage_lines (S f) (HelpFlatten.h_build_self_x false c) = Some ll ->
  HelpFlatten.usage_lines (S f) (HelpFlatten.h_build_self_x true c) = Some le ->
  exists common mid, HelpFlatten.h_mid_string (HelpFlatten.h_build_self_x false c) = Some mid
    /\ ll = common ++ [[UsageModel.bin_name_fallback (HelpFlatten.h_build_self_x false c) ++ mid ++ UsageModel.s_help; HelpFlattenShape.s_cmd_lazy]]
    /\ le = common ++ [[UsageModel.bin_name_fallback (HelpFlatten.h_build_self_x false c) ++ mid ++ UsageModel.s_help; HelpFlattenShape.s_cmd_exp]].
Proof. exact HelpFlattenLevel.flatten_help_shape_level. Qed.
Print Assumptions C11_flatten_help_shape_level.

Theorem C11_flatten_help_shape_level_satisfiable :
  HelpFlattenShape.help_sub_off HelpFlattenShape.sh_on = false
  /\ HelpFlatten.flat_cond (HelpFlatten.h_build_self_x false HelpFlattenShape.sh_on) = true
  /\ option_map (map HelpFlatten.line_text) (HelpFlatten.usage_lines 2 (HelpFlatten.h_build_self_x false HelpFlattenShape.sh_on))
     = Some [[112%N]; [112%N; 32%N; 97%N];
             [112%N; 32%N] ++ UsageModel.s_help ++ [32%N] ++ HelpFlattenShape.s_cmd_lazy]
  /\ option_map (map HelpFlatten.line_text) (HelpFlatten.usage_lines 2 (HelpFlatten.h_build_self_x true HelpFlattenShape.sh_on))
     = Some [[112%N]; [112%N; 32%N; 97%N];
             [112%N; 32%N] ++ UsageModel.s_help ++ [32%N] ++ HelpFlattenShape.s_cmd_exp].
Proof. exact HelpFlattenLevel.shape_level_satisfiable. Qed.
Print Assumptions C11_flatten_help_shape_level_satisfiable.
