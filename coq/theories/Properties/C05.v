(** Property C05: everything after [--] is delivered verbatim as positional values.
    Only pinned statements; proofs live in ParseProofs/Escape.v. *)
From ClapModel Require Import Base.Bytes Base.Machine Base.Utf8 Lex.OsStrExtModel.
From ClapModel Require Import Parse.Cmd Parse.Build Parse.Valid Parse.Matcher Parse.Errors Parse.Validator Parse.Parser.
From ClapModel Require Import ParseProofs.Escape.
From Coq Require Import ZArith.
From RecordUpdate Require Import RecordSet.
Import RecordSetNotations.
Open Scope N_scope.

(** Once [trailing_values] is set, the token loop of [Parser::parse] is the loop [absorb], which
    contains no classification of the current token at all (no [possible_subcommand], [is_escape],
    [to_long], [to_short], [parse_long_arg], [parse_short_arg], no pending-option branch): for
    every command, every token list and every parser state. *)
Theorem C05_trailing_loop_is_absorb : forall c toks ls st,
  l_trailing ls = true -> parse_loop c toks ls st = absorb c toks ls st.
Proof. exact trailing_is_absorb. Qed.
Print Assumptions C05_trailing_loop_is_absorb.

(** The result of the trailing-mode loop is [LDone] after a chain of [tstep]s (token compared with
    the terminator of the positional it goes to, then pushed), or the [tstop] of one iteration. *)
Theorem C05_trailing_outcome : forall c toks ls st,
  l_trailing ls = true -> toutcome c toks ls st (parse_loop c toks ls st).
Proof. exact trailing_outcome. Qed.
Print Assumptions C05_trailing_outcome.

(** No token after the escape selects a subcommand or the help subcommand. *)
Theorem C05_trailing_no_dispatch : forall c toks ls st r,
  l_trailing ls = true -> parse_loop c toks ls st = ROk r ->
  (exists st', r = LDone st') \/
  (exists pre tok rest st1, toks = pre ++ tok :: rest /\ r = LExternal tok rest st1 /\
                            is_set s_allow_external c = true).
Proof. exact trailing_no_dispatch. Qed.
Print Assumptions C05_trailing_no_dispatch.

(** [--] sets [trailing_values] (whatever follows it), unless the argument whose values are being
    collected accepts hyphen values. *)
Theorem C05_escape_recognised : forall c rest ls st sa,
  l_trailing ls = false ->
  sub_hit c dashdash ls = None ->
  state_arg c (l_pst ls) = ROk sa -> hyphen_pending sa = false ->
  parse_loop c (dashdash :: rest) ls st =
  parse_loop c rest (mkL (l_pst ls) (l_pos ls) (l_vaf ls) true) (st <| mt := start_trailing (mt st) |>).
Proof. exact escape_recognised. Qed.
Print Assumptions C05_escape_recognised.

(** The documented exception: an option still collecting values that accepts hyphen values takes
    [--] as a value and the loop keeps classifying. *)
Theorem C05_hyphen_opt_takes_dashdash : forall c rest ls st i a,
  l_trailing ls = false ->
  sub_hit c dashdash ls = None ->
  l_pst ls = PSOpt i -> find_arg c i = Some a -> a_hyphen a = true ->
  parse_loop c (dashdash :: rest) ls st =
  if check_terminator a dashdash
  then parse_loop c rest (mkL PSValuesDone (l_pos ls) (l_vaf ls) false) st
  else
    do m1 <- expect 297 (pending_values_push (mt st) i None false (Some dashdash));
    do more <- expect 299 (needs_more_vals m1 a);
    parse_loop c rest (mkL (if more then PSOpt i else PSValuesDone) (l_pos ls) (l_vaf ls) false)
               (st <| mt := m1 |>).
Proof. exact hyphen_opt_takes_dashdash. Qed.
Print Assumptions C05_hyphen_opt_takes_dashdash.

(** Verbatim delivery (class [sink]: after the escape every token goes to one multi-valued
    positional without terminator -- the last positional when [last]/[allow_missing_positional]
    is present, the current one otherwise).  After [--] and a non-empty tail the loop ends with
    the tail appended, byte for byte and in order, to the pending occurrence of that positional;
    the trailing index marks where the tail starts; entries, subcommand and index counter of the
    matcher are those of [flush_for a st], i.e. the state at the escape with the occurrence open
    there closed as it is closed when nothing follows the [--]. *)
Theorem C05_tail_verbatim : forall c tok tail ls st st' a,
  l_trailing ls = true -> sink_arg c (l_pos ls) = Some a ->
  parse_loop c (tok :: tail) ls st = ROk (LDone st') ->
  exists st0 p, flush_for c a st = ROk st0 /\
    mt_pending (mt st') = Some p /\ beq (p_id p) (a_id a) = true /\
    p_raw p = pend_raw (mt st0) ++ tok :: tail /\
    p_trailing_idx p = Some (pend_ti (mt st0)) /\
    mt_args (mt st') = mt_args (mt st0) /\ mt_sub (mt st') = mt_sub (mt st0) /\
    cur_idx st' = cur_idx st0.
Proof. exact trailing_done_sink. Qed.
Print Assumptions C05_tail_verbatim.

(** [react]'s delimiter block: with [dont_delimit_trailing_values] the values from the trailing
    index on are not split at all, whatever precedes them in the same occurrence. *)
Theorem C05_delimit_trailing_verbatim : forall c a before tail before',
  is_set s_dont_delimit_trailing c = true ->
  delimit c a before (Some (N.of_nat (length before))) = Some before' ->
  delimit c a (before ++ tail) (Some (N.of_nat (length before))) = Some (before' ++ tail).
Proof. exact delimit_trailing_verbatim. Qed.
Print Assumptions C05_delimit_trailing_verbatim.

(** ... and without a declared delimiter nothing is ever split; a value that does not contain the
    delimiter is never changed. *)
Theorem C05_delimit_no_delimiter : forall c a raw ti, a_delim a = None -> delimit c a raw ti = Some raw.
Proof. exact delimit_no_delimiter. Qed.
Print Assumptions C05_delimit_no_delimiter.

Theorem C05_delimit_clean_values : forall ddt db ti l i,
  forallb (fun v => negb (contains v db)) l = true -> delimit_go ddt db ti i l = Some l.
Proof. exact delimit_go_clean. Qed.
Print Assumptions C05_delimit_clean_values.

(** No token after the escape is a help or version request: a DisplayHelp/DisplayVersion error of
    the trailing-mode loop can only come out of closing a pending occurrence of an argument whose
    action is Help/Version (such arguments take no values), in a state reached by [tstep]s. *)
Theorem C05_trailing_no_display : forall c toks ls st e st',
  l_trailing ls = true -> parse_loop c toks ls st = RErr e st' -> is_display (e_kind e) = true ->
  exists pre tok rest ls1 st1 p a,
    toks = pre ++ tok :: rest /\ truns c (tok :: rest) pre ls st ls1 st1 /\
    mt_pending (mt st1) = Some p /\ find_arg c (p_id p) = Some a /\ display_action a = true.
Proof. exact trailing_no_display. Qed.
Print Assumptions C05_trailing_no_display.

(** Flags and options keep their values: closing an occurrence of [a] (the only way the tail
    reaches the matcher entries) changes no entry outside [touched c a] = [a] itself, the groups
    of [a], the arguments [a] overrides and those overriding [a]. *)
Theorem C05_prefix_entries_unchanged : forall c st st' p a x,
  mt_pending (mt st) = Some p -> find_arg c (p_id p) = Some a -> touched c a x = false ->
  resolve_pending c st = ROk st' -> get_entry x st' = get_entry x st.
Proof. exact resolve_pending_frame. Qed.
Print Assumptions C05_prefix_entries_unchanged.

(** The last hop: [push_arg_values] appends the collected (delimited) values, in order and
    byte for byte, to the last value group of the positional's entry. *)
Theorem C05_values_appended : forall c a raw st st' m gs g,
  push_arg_values c a raw st = ROk st' ->
  get_entry (a_id a) st = Some m -> m_raw m = gs ++ [g] ->
  exists m', get_entry (a_id a) st' = Some m' /\ m_raw m' = gs ++ [g ++ raw].
Proof. exact push_arg_values_entry. Qed.
Print Assumptions C05_values_appended.
