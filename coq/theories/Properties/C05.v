(** Property C05: everything after [--] is delivered verbatim as positional values.
    Only pinned statements; proofs live in ParseProofs/Escape.v. *)
From ClapModel Require Import Base.Bytes Base.Machine Base.Utf8.
From ClapModel Require Import Parse.Cmd Parse.Build Parse.Valid Parse.Matcher Parse.Errors Parse.Validator Parse.Parser.
From ClapModel Require Import ParseProofs.Escape.
From Coq Require Import ZArith.
From RecordUpdate Require Import RecordSet.
Import RecordSetNotations.
Open Scope N_scope.

(** Once [trailing_values] is set, the token loop of [Parser::parse] is the loop [absorb], which
    contains no classification of the current token at all (no [possible_subcommand], [is_escape],
    [to_long], [to_short], [parse_long_arg], [parse_short_arg], no pending-option branch): for
    every command, every token list and every parser state. *)
Theorem C05_trailing_loop_is_absorb : forall c toks ls st,
  l_trailing ls = true -> parse_loop c toks ls st = absorb c toks ls st.
Proof. exact trailing_is_absorb. Qed.
Print Assumptions C05_trailing_loop_is_absorb.

(** The result of the trailing-mode loop is [LDone] after a chain of [tstep]s (token compared with
    the terminator of the positional it goes to, then pushed), or the [tstop] of one iteration. *)
Theorem C05_trailing_outcome : forall c toks ls st,
  l_trailing ls = true -> toutcome c toks ls st (parse_loop c toks ls st).
Proof. exact trailing_outcome. Qed.
Print Assumptions C05_trailing_outcome.

(** No token after the escape selects a subcommand or the help subcommand. *)
Theorem C05_trailing_no_dispatch : forall c toks ls st r,
  l_trailing ls = true -> parse_loop c toks ls st = ROk r ->
  (exists st', r = LDone st') \/
  (exists pre tok rest st1, toks = pre ++ tok :: rest /\ r = LExternal tok rest st1 /\
                            is_set s_allow_external c = true).
Proof. exact trailing_no_dispatch. Qed.
Print Assumptions C05_trailing_no_dispatch.

(** [--] sets [trailing_values] (whatever follows it), unless the argument whose values are being
    collected accepts hyphen values. *)
Theorem C05_escape_recognised : forall c rest ls st sa,
  l_trailing ls = false ->
  sub_hit c dashdash ls = None ->
  state_arg c (l_pst ls) = ROk sa -> hyphen_pending sa = false ->
  parse_loop c (dashdash :: rest) ls st =
  parse_loop c rest (mkL (l_pst ls) (l_pos ls) (l_vaf ls) true) (st <| mt := start_trailing (mt st) |>).
Proof. exact escape_recognised. Qed.
Print Assumptions C05_escape_recognised.

(** The documented exception: an option still collecting values that accepts hyphen values takes
    [--] as a value and the loop keeps classifying. *)
Theorem C05_hyphen_opt_takes_dashdash : forall c rest ls st i a,
  l_trailing ls = false ->
  sub_hit c dashdash ls = None ->
  l_pst ls = PSOpt i -> find_arg c i = Some a -> a_hyphen a = true ->
  parse_loop c (dashdash :: rest) ls st =
  if check_terminator a dashdash
  then parse_loop c rest (mkL PSValuesDone (l_pos ls) (l_vaf ls) false) st
  else
    do m1 <- expect 297 (pending_values_push (mt st) i None false (Some dashdash));
    do more <- expect 299 (needs_more_vals m1 a);
    parse_loop c rest (mkL (if more then PSOpt i else PSValuesDone) (l_pos ls) (l_vaf ls) false)
               (st <| mt := m1 |>).
Proof. exact hyphen_opt_takes_dashdash. Qed.
Print Assumptions C05_hyphen_opt_takes_dashdash.
