(** Property C05: everything after [--] is delivered verbatim as positional values.
    Only pinned statements; proofs live in ParseProofs/Escape.v (the loop after the escape) and, round 2,
    ParseProofs/EscapeWalk.v (the loop before the escape), EscapeStore.v (pending values -> entry),
    EscapeTop.v (get_matches_with / do_parse / parse_top) and, round 3, EscapeAny.v (every shape of positionals,
    hyphen-accepting levels, global arguments), EscapeDdt.v (dont_delimit_trailing_values as a global setting),
    EscapeHyphen.v (delivery with hyphen-accepting arguments), EscapeAppend.v (Append positionals with num_args(1)). *)
From ClapModel Require Import Base.Bytes Base.Machine Base.Utf8 Lex.OsStrExtModel.
From ClapModel Require Import Parse.Cmd Parse.Build Parse.Valid Parse.Matcher Parse.Errors Parse.Validator Parse.Parser.
From ClapModel Require Import ParseProofs.Totality ParseProofs.Dispatch ParseProofs.Escape ParseProofs.EscapeWalk ParseProofs.EscapeStore ParseProofs.EscapeLevel ParseProofs.EscapeChain ParseProofs.EscapeDisplay ParseProofs.EscapeGlobals ParseProofs.EscapeTop ParseProofs.EscapeAny ParseProofs.EscapeDdt ParseProofs.EscapeHyphen ParseProofs.EscapeAppend.
From Coq Require Import ZArith.
From RecordUpdate Require Import RecordSet.
Import RecordSetNotations.
Open Scope N_scope.

(** Once [trailing_values] is set, the token loop of [Parser::parse] is the loop [absorb], which
    contains no classification of the current token at all (no [possible_subcommand], [is_escape],
    [to_long], [to_short], [parse_long_arg], [parse_short_arg], no pending-option branch): for
    every command, every token list and every parser state. *)
Theorem C05_trailing_loop_is_absorb : forall c toks ls st,
  l_trailing ls = true -> parse_loop c toks ls st = absorb c toks ls st.
Proof. exact trailing_is_absorb. Qed.
Print Assumptions C05_trailing_loop_is_absorb.

(** The result of the trailing-mode loop is [LDone] after a chain of [tstep]s (token compared with
    the terminator of the positional it goes to, then pushed), or the [tstop] of one iteration. *)
Theorem C05_trailing_outcome : forall c toks ls st,
  l_trailing ls = true -> toutcome c toks ls st (parse_loop c toks ls st).
Proof. exact trailing_outcome. Qed.
Print Assumptions C05_trailing_outcome.

(** No token after the escape selects a subcommand or the help subcommand. *)
Theorem C05_trailing_no_dispatch : forall c toks ls st r,
  l_trailing ls = true -> parse_loop c toks ls st = ROk r ->
  (exists st', r = LDone st') \/
  (exists pre tok rest st1, toks = pre ++ tok :: rest /\ r = LExternal tok rest st1 /\
                            is_set s_allow_external c = true).
Proof. exact trailing_no_dispatch. Qed.
Print Assumptions C05_trailing_no_dispatch.

(** [--] sets [trailing_values] (whatever follows it), unless the argument whose values are being
    collected accepts hyphen values. *)
Theorem C05_escape_recognised : forall c rest ls st sa,
  l_trailing ls = false ->
  sub_hit c dashdash ls = None ->
  state_arg c (l_pst ls) = ROk sa -> hyphen_pending sa = false ->
  parse_loop c (dashdash :: rest) ls st =
  parse_loop c rest (mkL (l_pst ls) (l_pos ls) (l_vaf ls) true) (st <| mt := start_trailing (mt st) |>).
Proof. exact escape_recognised. Qed.
Print Assumptions C05_escape_recognised.

(** The documented exception: an option still collecting values that accepts hyphen values takes
    [--] as a value and the loop keeps classifying. *)
Theorem C05_hyphen_opt_takes_dashdash : forall c rest ls st i a,
  l_trailing ls = false ->
  sub_hit c dashdash ls = None ->
  l_pst ls = PSOpt i -> find_arg c i = Some a -> a_hyphen a = true ->
  parse_loop c (dashdash :: rest) ls st =
  if check_terminator a dashdash
  then parse_loop c rest (mkL PSValuesDone (l_pos ls) (l_vaf ls) false) st
  else
    do m1 <- expect 297 (pending_values_push (mt st) i None false (Some dashdash));
    do more <- expect 299 (needs_more_vals m1 a);
    parse_loop c rest (mkL (if more then PSOpt i else PSValuesDone) (l_pos ls) (l_vaf ls) false)
               (st <| mt := m1 |>).
Proof. exact hyphen_opt_takes_dashdash. Qed.
Print Assumptions C05_hyphen_opt_takes_dashdash.

(** Verbatim delivery (class [sink]: after the escape every token goes to one multi-valued
    positional without terminator -- the last positional when [last]/[allow_missing_positional]
    is present, the current one otherwise).  After [--] and a non-empty tail the loop ends with
    the tail appended, byte for byte and in order, to the pending occurrence of that positional;
    the trailing index marks where the tail starts; entries, subcommand and index counter of the
    matcher are those of [flush_for a st], i.e. the state at the escape with the occurrence open
    there closed as it is closed when nothing follows the [--]. *)
Theorem C05_tail_verbatim : forall c tok tail ls st st' a,
  l_trailing ls = true -> sink_arg c (l_pos ls) = Some a ->
  parse_loop c (tok :: tail) ls st = ROk (LDone st') ->
  exists st0 p, flush_for c a st = ROk st0 /\
    mt_pending (mt st') = Some p /\ beq (p_id p) (a_id a) = true /\
    p_raw p = pend_raw (mt st0) ++ tok :: tail /\
    p_trailing_idx p = Some (pend_ti (mt st0)) /\
    mt_args (mt st') = mt_args (mt st0) /\ mt_sub (mt st') = mt_sub (mt st0) /\
    cur_idx st' = cur_idx st0.
Proof. exact trailing_done_sink. Qed.
Print Assumptions C05_tail_verbatim.

(** [react]'s delimiter block: with [dont_delimit_trailing_values] the values from the trailing
    index on are not split at all, whatever precedes them in the same occurrence. *)
Theorem C05_delimit_trailing_verbatim : forall c a before tail before',
  is_set s_dont_delimit_trailing c = true ->
  delimit c a before (Some (N.of_nat (length before))) = Some before' ->
  delimit c a (before ++ tail) (Some (N.of_nat (length before))) = Some (before' ++ tail).
Proof. exact delimit_trailing_verbatim. Qed.
Print Assumptions C05_delimit_trailing_verbatim.

(** ... and without a declared delimiter nothing is ever split; a value that does not contain the
    delimiter is never changed. *)
Theorem C05_delimit_no_delimiter : forall c a raw ti, a_delim a = None -> delimit c a raw ti = Some raw.
Proof. exact delimit_no_delimiter. Qed.
Print Assumptions C05_delimit_no_delimiter.

Theorem C05_delimit_clean_values : forall ddt db ti l i,
  forallb (fun v => negb (contains v db)) l = true -> delimit_go ddt db ti i l = Some l.
Proof. exact delimit_go_clean. Qed.
Print Assumptions C05_delimit_clean_values.

(** No token after the escape is a help or version request: a DisplayHelp/DisplayVersion error of
    the trailing-mode loop can only come out of closing a pending occurrence of an argument whose
    action is Help/Version (such arguments take no values), in a state reached by [tstep]s. *)
Theorem C05_trailing_no_display : forall c toks ls st e st',
  l_trailing ls = true -> parse_loop c toks ls st = RErr e st' -> is_display (e_kind e) = true ->
  exists pre tok rest ls1 st1 p a,
    toks = pre ++ tok :: rest /\ truns c (tok :: rest) pre ls st ls1 st1 /\
    mt_pending (mt st1) = Some p /\ find_arg c (p_id p) = Some a /\ display_action a = true.
Proof. exact trailing_no_display. Qed.
Print Assumptions C05_trailing_no_display.

(** Flags and options keep their values: closing an occurrence of [a] (the only way the tail
    reaches the matcher entries) changes no entry outside [touched c a] = [a] itself, the groups
    of [a], the arguments [a] overrides and those overriding [a]. *)
Theorem C05_prefix_entries_unchanged : forall c st st' p a x,
  mt_pending (mt st) = Some p -> find_arg c (p_id p) = Some a -> touched c a x = false ->
  resolve_pending c st = ROk st' -> get_entry x st' = get_entry x st.
Proof. exact resolve_pending_frame. Qed.
Print Assumptions C05_prefix_entries_unchanged.

(** The last hop: [push_arg_values] appends the collected (delimited) values, in order and
    byte for byte, to the last value group of the positional's entry. *)
Theorem C05_values_appended : forall c a raw st st' m gs g,
  push_arg_values c a raw st = ROk st' ->
  get_entry (a_id a) st = Some m -> m_raw m = gs ++ [g] ->
  exists m', get_entry (a_id a) st' = Some m' /\ m_raw m' = gs ++ [g ++ raw].
Proof. exact push_arg_values_entry. Qed.
Print Assumptions C05_values_appended.

(** * Round 2: from the loop to the whole parse *)

(** What the proofs need of one (built) command level; both follow from the build step and the
    validity gate, for every level of a [plain], [valid] definition. *)
Theorem C05_level_facts : forall c, wfc c -> assert_app c = true -> lvl c /\ lvl_store c.
Proof. exact (fun c Hw Ha => conj (lvl_of_wfc c Hw Ha) (lvl_store_of_wfc c Hw Ha)). Qed.
Print Assumptions C05_level_facts.

(** The loop BEFORE the escape.  For every level without hyphen-accepting arguments in which [--]
    is no subcommand name, every prefix, every two tails and every state satisfying the invariant
    [TV] (the pending occurrence belongs to an argument that takes values, its trailing index is
    in range -- trivially true of the states the loop is entered with): the two lines
    [pre ++ -- :: t1] and [pre ++ -- :: t2] either both continue in trailing mode from ONE state
    [(ls', st')] reached independently of the tails (again satisfying [TV], with the recorded
    subcommand unchanged), or both end inside [pre] with the same error/panic, or both hand
    [-- :: t1] / [-- :: t2] unread to the same subcommand, help subcommand or external subcommand
    selected by [pre]. *)
Theorem C05_escape_line_sim : forall c,
  (forall a, In a (c_args c) -> find_arg c (a_id a) = Some a) ->
  (forall a, In a (c_args c) -> a_index a <> None -> a_takes_value a = true) ->
  (forall a, In a (c_args c) -> a_hyphen a = false) ->
  (forall vaf, possible_subcommand c dashdash vaf = None) ->
  forall pre t1 t2 ls st, TV c st -> LTV c ls ->
  esim c t1 t2 ls st (parse_loop c (pre ++ dashdash :: t1) ls st) (parse_loop c (pre ++ dashdash :: t2) ls st).
Proof. exact escape_line_sim. Qed.
Print Assumptions C05_escape_line_sim.

(** (1a) [C05_trailing_no_display] closed: in trailing mode, from a state satisfying [TV], no
    DisplayHelp/DisplayVersion outcome exists at all. *)
Theorem C05_trailing_never_displays : forall c,
  (forall a, In a (c_args c) -> find_arg c (a_id a) = Some a) ->
  (forall a, In a (c_args c) -> a_index a <> None -> a_takes_value a = true) ->
  (forall a, In a (c_args c) -> display_action a = true -> a_takes_value a = false) ->
  forall toks ls st e st',
  l_trailing ls = true -> TV c st -> parse_loop c toks ls st = RErr e st' -> is_display (e_kind e) = false.
Proof. exact trailing_no_display_TV. Qed.
Print Assumptions C05_trailing_never_displays.

(** (1b) ... and for the whole line, from the states the loop is entered with: a help/version
    outcome of [pre ++ -- :: t] is the outcome of [pre ++ -- :: t2] for EVERY tail [t2] (the empty
    one included) -- no token of the tail caused it. *)
Theorem C05_display_not_from_tail : forall c,
  lvl c -> (forall a, In a (c_args c) -> a_hyphen a = false) ->
  (forall vaf, possible_subcommand c dashdash vaf = None) ->
  forall pre t t2 st0 e st',
  mt_pending (mt st0) = None ->
  parse_loop c (pre ++ dashdash :: t) ls0 st0 = RErr e st' -> is_display (e_kind e) = true ->
  parse_loop c (pre ++ dashdash :: t2) ls0 st0 = RErr e st'.
Proof. exact (fun c Hl Hnh Hdd => display_not_from_tail_initial c Hl Hnh Hdd). Qed.
Print Assumptions C05_display_not_from_tail.

(** (2) pending values -> raw occurrence, ONE theorem through [resolve_pending]/[react_core]
    ([verify_num_args], delimiter block, [mt_remove]/[start_custom_arg], [push_arg_values]): closing
    the occurrence [earlier ++ t] of an argument whose action stores given values ([stores_given]: Set / Append, or
    SetTrue / SetFalse -- which action.rs allows to take `--flag=value` / [num_args(0..=1)]) whose trailing index lies at or before
    the first value of [t] leaves an entry whose LAST value group is [earlier] (delimited as usual)
    followed by [t] in its stored form [tail_form] (= [t] itself with
    [dont_delimit_trailing_values] or without a declared delimiter). *)
Theorem C05_sink_resolve : forall c st p a earlier t k st',
  find_group c (a_id a) = None ->
  stores_given a ->
  mt_pending (mt st) = Some p -> find_arg c (p_id p) = Some a ->
  p_raw p = earlier ++ t -> t <> [] -> p_trailing_idx p = Some k -> k <= N.of_nat (length earlier) ->
  resolve_pending c st = ROk st' ->
  exists e gs early' t',
    get_entry (a_id a) st' = Some e /\ m_raw e = gs ++ [early' ++ t'] /\ m_source e = Some SCmdLine /\
    delimit c a earlier (Some k) = Some early' /\ tail_form c a t = Some t' /\
    mt_pending (mt st') = None.
Proof. exact sink_resolve. Qed.
Print Assumptions C05_sink_resolve.

Theorem C05_tail_form_verbatim : forall c a t,
  (is_set s_dont_delimit_trailing c = true \/ a_delim a = None) -> tail_form c a t = Some t.
Proof. exact (fun c a t H => match H with or_introl H1 => tail_form_ddt c a t H1 | or_intror H2 => tail_form_no_delim c a t H2 end). Qed.
Print Assumptions C05_tail_form_verbatim.

(** (3), one level ([get_matches_with] = loop + [resolve_pending] + [add_env] + [add_defaults] +
    [validate]).  A successful parse of [pre ++ -- :: t], [t] non-empty, either consumed the [--] at
    this level or [pre] itself selected a subcommand / external subcommand, which then receives
    [-- :: t] unread.  "Consumed" is spelled out for two classes of levels:
    [consumed_sink] -- class [sink_from c 1 a]: after the escape every token goes to the multi-valued,
    unterminated positional [a], for every value of the positional counter ([last] positional /
    [allow_missing_positional]) or because the counter cannot move ([sticky]): the loop ended with
    [LDone] (no token of [t] dispatched anything), the recorded subcommand is that of the initial
    state, and the final entry of [a] has [t] (stored form) as the suffix of its last value group;
    [consumed_chain] -- class [chainc c]: single-valued positionals followed by a multi-valued one, no
    terminators, no [last]/[allow_missing_positional]: same, and the tokens are distributed in order,
    one to each single-valued positional from some index [pc] on, all the rest to the multi-valued one
    ([chain_filled]; [x] is [[]], or [[--]] when [trailing_var_arg] had switched the loop to trailing
    mode before, so that the [--] itself is a value). *)
Theorem C05_level_tail_verbatim : forall c,
  lvl c -> lvl_store c -> (forall a, In a (c_args c) -> a_hyphen a = false) ->
  (forall vaf, possible_subcommand c dashdash vaf = None) ->
  forall f pre t st0 st',
  t <> [] -> mt_pending (mt st0) = None ->
  get_matches_with (S f) c (pre ++ dashdash :: t) st0 = ROk st' ->
  (consumed_sink c t st0 st' (parse_loop c (pre ++ dashdash :: t) ls0 st0) /\
   consumed_chain c t st0 st' (parse_loop c (pre ++ dashdash :: t) ls0 st0))
  \/ (exists n k v st1 r, parse_loop c (pre ++ dashdash :: t) ls0 st0 = ROk (LSub n k v st1 (r ++ dashdash :: t)))
  \/ (exists tk r st1, parse_loop c (pre ++ dashdash :: t) ls0 st0 = ROk (LExternal tk (r ++ dashdash :: t) st1)).
Proof. exact level_tail_verbatim. Qed.
Print Assumptions C05_level_tail_verbatim.

(** the two definitions, pinned by unfolding *)
Theorem C05_consumed_sink_def : forall c t st0 st' lr,
  consumed_sink c t st0 st' lr <->
  (forall a, sink_from c 1 a ->
    exists st1 e gs early' t',
      lr = ROk (LDone st1) /\ mt_sub (mt st') = mt_sub (mt st0) /\
      get_entry (a_id a) st' = Some e /\ m_raw e = gs ++ [early' ++ t'] /\ m_source e = Some SCmdLine /\
      tail_form c a t = Some t').
Proof. exact (fun c t st0 st' lr => conj (fun H => H) (fun H => H)). Qed.
Print Assumptions C05_consumed_sink_def.

Theorem C05_consumed_chain_def : forall c t st0 st' lr,
  consumed_chain c t st0 st' lr <->
  (chainc c = true ->
    exists st1 x pc,
      lr = ROk (LDone st1) /\ mt_sub (mt st') = mt_sub (mt st0) /\
      chain_filled c (fun y => get_entry y st') pc (x ++ t)).
Proof. exact (fun c t st0 st' lr => conj (fun H => H) (fun H => H)). Qed.
Print Assumptions C05_consumed_chain_def.

(** the loop-level core of the chain class: in trailing mode, after the loop and [resolve_pending] *)
Theorem C05_chain_run : forall c, lvl c -> lvl_store c -> chainc c = true ->
  forall t ls st s1 s2, t <> [] -> l_trailing ls = true -> TV c st ->
  parse_loop c t ls st = ROk (LDone s1) -> resolve_pending c s1 = ROk s2 ->
  chain_filled c (fun y => get_entry y s2) (l_pos ls) t.
Proof. exact chain_run. Qed.
Print Assumptions C05_chain_run.

(** (4), one level: two successful parses of the same prefix with tails [t1], [t2] (either may be
    empty: "without the tail") agree on every command-line entry outside [touched c a] (sink class) /
    outside [touched] of every positional (chain class). *)
Theorem C05_level_prefix_entries : forall c,
  lvl c -> lvl_store c -> (forall a, In a (c_args c) -> a_hyphen a = false) ->
  (forall vaf, possible_subcommand c dashdash vaf = None) ->
  forall f pre t1 t2 st0 s1 s2,
  mt_pending (mt st0) = None ->
  get_matches_with (S f) c (pre ++ dashdash :: t1) st0 = ROk s1 ->
  get_matches_with (S f) c (pre ++ dashdash :: t2) st0 = ROk s2 ->
  (same_sink c st0 s1 s2 (parse_loop c (pre ++ dashdash :: t1) ls0 st0) (parse_loop c (pre ++ dashdash :: t2) ls0 st0) /\
   same_chain c st0 s1 s2 (parse_loop c (pre ++ dashdash :: t1) ls0 st0) (parse_loop c (pre ++ dashdash :: t2) ls0 st0))
  \/ (exists n k v st1 r,
        parse_loop c (pre ++ dashdash :: t1) ls0 st0 = ROk (LSub n k v st1 (r ++ dashdash :: t1)) /\
        parse_loop c (pre ++ dashdash :: t2) ls0 st0 = ROk (LSub n k v st1 (r ++ dashdash :: t2)))
  \/ (exists tk r st1,
        parse_loop c (pre ++ dashdash :: t1) ls0 st0 = ROk (LExternal tk (r ++ dashdash :: t1) st1) /\
        parse_loop c (pre ++ dashdash :: t2) ls0 st0 = ROk (LExternal tk (r ++ dashdash :: t2) st1)).
Proof. exact level_prefix_entries. Qed.
Print Assumptions C05_level_prefix_entries.

Theorem C05_same_sink_def : forall c st0 s1 s2 lr1 lr2,
  same_sink c st0 s1 s2 lr1 lr2 <->
  (forall a, sink_from c 1 a ->
    exists l1 l2,
      lr1 = ROk (LDone l1) /\ lr2 = ROk (LDone l2) /\
      mt_sub (mt s1) = mt_sub (mt st0) /\ mt_sub (mt s2) = mt_sub (mt st0) /\
      forall y e, touched c a y = false -> find_group c y = None ->
                  get_entry y s1 = Some e -> m_source e = Some SCmdLine -> get_entry y s2 = Some e).
Proof. exact (fun c st0 s1 s2 lr1 lr2 => conj (fun H => H) (fun H => H)). Qed.
Print Assumptions C05_same_sink_def.

Theorem C05_same_chain_def : forall c st0 s1 s2 lr1 lr2,
  same_chain c st0 s1 s2 lr1 lr2 <->
  (chainc c = true ->
    exists l1 l2,
      lr1 = ROk (LDone l1) /\ lr2 = ROk (LDone l2) /\
      mt_sub (mt s1) = mt_sub (mt st0) /\ mt_sub (mt s2) = mt_sub (mt st0) /\
      forall y e, (forall j a', get_pos c j = Some a' -> touched c a' y = false) -> find_group c y = None ->
                  get_entry y s1 = Some e -> m_source e = Some SCmdLine -> get_entry y s2 = Some e).
Proof. exact (fun c st0 s1 s2 lr1 lr2 => conj (fun H => H) (fun H => H)). Qed.
Print Assumptions C05_same_chain_def.

(** (3)/(4) over the recursion into subcommands, for trees all of whose levels are built, pass the
    validity gate, have no [ignore_errors], no hyphen-accepting argument and no subcommand named
    [--] ([esc_ok]); [delivered] / [prefix_same] say at which level the [--] was consumed. *)
Theorem C05_gmw_delivered : forall fuel c pre t st0 st',
  esc_ok fuel c -> t <> [] -> mt_pending (mt st0) = None -> mt_sub (mt st0) = None ->
  get_matches_with fuel c (pre ++ dashdash :: t) st0 = ROk st' ->
  delivered fuel c t (into_inner (mt st')).
Proof. exact gmw_delivered. Qed.
Print Assumptions C05_gmw_delivered.

Theorem C05_gmw_prefix_same : forall fuel c pre t1 t2 st0 s1 s2,
  esc_ok fuel c -> mt_pending (mt st0) = None -> mt_sub (mt st0) = None ->
  get_matches_with fuel c (pre ++ dashdash :: t1) st0 = ROk s1 ->
  get_matches_with fuel c (pre ++ dashdash :: t2) st0 = ROk s2 ->
  prefix_same fuel c (into_inner (mt s1)) (into_inner (mt s2)).
Proof. exact gmw_prefix_same. Qed.
Print Assumptions C05_gmw_prefix_same.

(** The boolean class implies [esc_ok] of the built root (with [valid], absence of [ignore_errors]
    at the root, and absence of global arguments). *)
Theorem C05_class_ok : forall c0, esc_class c0 = true ->
  valid c0 = true /\ esc_ok (top_fuel c0) (build_self c0) /\ is_set s_ignore_errors (build_self c0) = false
  /\ globals_free (build_recursive (top_fuel c0) c0) = true.
Proof. exact esc_class_ok. Qed.
Print Assumptions C05_class_ok.

(** (3) for [parse_top]: for every definition of the boolean class [esc_class], every binary name,
    prefix and non-empty tail: if the parse succeeds, the tail has been [delivered]. *)
Theorem C05_parse_top_delivered : forall c0 bin pre t m,
  esc_class c0 = true -> is_set s_no_binary_name c0 = false -> c_bin_name c0 <> None -> t <> [] ->
  parse_top c0 (bin :: pre ++ dashdash :: t) = OOk m ->
  delivered (top_fuel c0) (build_self c0) t m.
Proof. exact parse_top_delivered. Qed.
Print Assumptions C05_parse_top_delivered.

Theorem C05_do_parse_delivered : forall c0 pre t m,
  esc_class c0 = true -> t <> [] ->
  do_parse c0 (pre ++ dashdash :: t) = OOk m ->
  delivered (top_fuel c0) (build_self c0) t m.
Proof. exact do_parse_delivered. Qed.
Print Assumptions C05_do_parse_delivered.

(** (4) for [parse_top]: the same prefix parsed with two tails (one may be empty). *)
Theorem C05_parse_top_prefix_same : forall c0 bin pre t1 t2 m1 m2,
  esc_class c0 = true -> is_set s_no_binary_name c0 = false -> c_bin_name c0 <> None ->
  parse_top c0 (bin :: pre ++ dashdash :: t1) = OOk m1 -> parse_top c0 (bin :: pre ++ dashdash :: t2) = OOk m2 ->
  prefix_same (top_fuel c0) (build_self c0) m1 m2.
Proof. exact parse_top_prefix_same. Qed.
Print Assumptions C05_parse_top_prefix_same.

Theorem C05_do_parse_prefix_same : forall c0 pre t1 t2 m1 m2,
  esc_class c0 = true ->
  do_parse c0 (pre ++ dashdash :: t1) = OOk m1 -> do_parse c0 (pre ++ dashdash :: t2) = OOk m2 ->
  prefix_same (top_fuel c0) (build_self c0) m1 m2.
Proof. exact do_parse_prefix_same. Qed.
Print Assumptions C05_do_parse_prefix_same.

(** The full-strength reading of the last sentence ("ALL entries given before the [--] are those of
    the parse without the tail") is false of the model and of clap: an option in an overrides
    relation with the positional loses its entry -- the exception [touched] characterises. *)
Theorem C05_prefix_unrestricted_refuted : exists c0 pre t m1 m2 y,
  esc_class c0 = true /\ do_parse c0 (pre ++ dashdash :: t) = OOk m1 /\ do_parse c0 (pre ++ dashdash :: []) = OOk m2 /\
  fm_get y (ms_args m2) <> None /\ fm_get y (ms_args m1) = None.
Proof. exact prefix_unrestricted_refuted. Qed.
Print Assumptions C05_prefix_unrestricted_refuted.

(** * The predicates used above, pinned by their unfolding (so that a change of a definition in a
    proof file shows up as a changed statement) *)
Theorem C05_sink_from_def : forall c pc0 a,
  sink_from c pc0 a <-> ((forall pc, sink_arg c pc = Some a) \/ (sticky c = true /\ sink_arg c pc0 = Some a)).
Proof. exact (fun c pc0 a => conj (fun H => H) (fun H => H)). Qed.
Print Assumptions C05_sink_from_def.

Theorem C05_tail_form_def : forall c a t,
  tail_form c a t = if is_set s_dont_delimit_trailing c then Some t else delimit c a t None.
Proof. exact (fun c a t => eq_refl). Qed.
Print Assumptions C05_tail_form_def.

Theorem C05_chain_filled_def : forall c get pc t,
  chain_filled c get pc t <->
  ((exists a e gs early t', get_pos c pc = Some a /\ a_multiple_values a = true /\ t <> [] /\
      get (a_id a) = Some e /\ m_raw e = gs ++ [early ++ t'] /\ tail_form c a t = Some t')
   \/ (exists a tok e gs t', t = [tok] /\ get_pos c pc = Some a /\ a_is_multiple a = false /\
         get (a_id a) = Some e /\ m_raw e = gs ++ [t'] /\ tail_form c a [tok] = Some t')
   \/ (exists a tok rest e gs t', t = tok :: rest /\ rest <> [] /\ get_pos c pc = Some a /\ a_is_multiple a = false /\
         get (a_id a) = Some e /\ m_raw e = gs ++ [t'] /\ tail_form c a [tok] = Some t' /\
         chain_filled c get (pc + 1) rest)).
Proof. exact chain_filled_def. Qed.
Print Assumptions C05_chain_filled_def.

Theorem C05_delivered_def : forall f c t m,
  delivered (S f) c t m <->
  (((forall a, sink_from c 1 a ->
       ms_sub m = None /\
       exists e gs early' t', fm_get (a_id a) (ms_args m) = Some e /\ m_raw e = gs ++ [early' ++ t']
                              /\ m_source e = Some SCmdLine /\ tail_form c a t = Some t')
    /\ (chainc c = true ->
        ms_sub m = None /\ exists x pc, chain_filled c (fun y => fm_get y (ms_args m)) pc (x ++ t)))
   \/ (exists name sc sm, build_subcommand c name = Some sc /\ ms_sub m = Some (c_name sc, sm) /\ delivered f sc t sm)
   \/ (exists name vals sm, ms_sub m = Some (name, sm) /\ ms_sub sm = None /\
                            fm_get ext_id (ms_args sm) = Some (ext_marg (vals ++ dashdash :: t)))).
Proof. exact (fun f c t m => conj (fun H => H) (fun H => H)). Qed.
Print Assumptions C05_delivered_def.

Theorem C05_prefix_same_def : forall f c m1 m2,
  prefix_same (S f) c m1 m2 <->
  (((forall a, sink_from c 1 a ->
       ms_sub m1 = None /\ ms_sub m2 = None /\
       forall y e, touched c a y = false -> find_group c y = None ->
                   fm_get y (ms_args m1) = Some e -> m_source e = Some SCmdLine -> fm_get y (ms_args m2) = Some e)
    /\ (chainc c = true ->
        ms_sub m1 = None /\ ms_sub m2 = None /\
        forall y e, (forall j a', get_pos c j = Some a' -> touched c a' y = false) -> find_group c y = None ->
                    fm_get y (ms_args m1) = Some e -> m_source e = Some SCmdLine -> fm_get y (ms_args m2) = Some e))
   \/ (exists name sc sm1 sm2, build_subcommand c name = Some sc /\ ms_sub m1 = Some (c_name sc, sm1)
                               /\ ms_sub m2 = Some (c_name sc, sm2) /\ ms_args m1 = ms_args m2
                               /\ prefix_same f sc sm1 sm2)
   \/ (exists name vals t1 t2,
         ms_sub m1 = Some (name, Matches [(ext_id, ext_marg (vals ++ dashdash :: t1))] None) /\
         ms_sub m2 = Some (name, Matches [(ext_id, ext_marg (vals ++ dashdash :: t2))] None) /\
         ms_args m1 = ms_args m2)).
Proof. exact (fun f c m1 m2 => conj (fun H => H) (fun H => H)). Qed.
Print Assumptions C05_prefix_same_def.

Theorem C05_esc_class_def : forall c0,
  esc_class0 c0 = plain c0 && valid c0 && esc_okb (top_fuel c0) (build_self c0) /\
  esc_class c0 = esc_class0 c0 && globals_free (build_recursive (top_fuel c0) c0).
Proof. exact (fun c0 => conj eq_refl eq_refl). Qed.
Print Assumptions C05_esc_class_def.

Theorem C05_esc_okb_def : forall f c,
  esc_okb (S f) c =
  negb (is_set s_ignore_errors c) && forallb (fun a => negb (a_hyphen a)) (c_args c)
  && negb (is_some (possible_subcommand c dashdash false)) && negb (is_some (possible_subcommand c dashdash true))
  && forallb (fun a => negb (display_action a)
                       || (negb (is_some (a_env a)) && is_nil (a_default a) && is_nil (a_default_ifs a))) (c_args c)
  && forallb (fun s => match build_subcommand c (c_name s) with Some sc => esc_okb f sc | None => false end) (c_subs c).
Proof. exact (fun f c => eq_refl). Qed.
Print Assumptions C05_esc_okb_def.

Theorem C05_TV_def : forall c st,
  TV c st <-> (forall p, mt_pending (mt st) = Some p ->
                 (forall a, find_arg c (p_id p) = Some a -> a_takes_value a = true)
                 /\ (forall k, p_trailing_idx p = Some k -> k <= N.of_nat (length (p_raw p)))).
Proof. exact (fun c st => conj (fun H => H) (fun H => H)). Qed.
Print Assumptions C05_TV_def.

(** * Help/version outcomes of the whole parse *)

(** the phases after a successful loop ([resolve_pending], [add_env], [add_defaults], [validate]) raise no
    DisplayHelp/DisplayVersion when the loop left a [TV] state and no Help/Version argument carries an env
    variable or a default ([nodisp_src]) *)
Theorem C05_post_no_display : forall c, lvl c -> nodisp_src c ->
  forall stp e s, TV c stp -> post c (ROk stp) = RErr e s -> is_display (e_kind e) = false.
Proof. exact post_no_display. Qed.
Print Assumptions C05_post_no_display.

(** (1) over the recursion into subcommands: a DisplayHelp/DisplayVersion outcome of
    [get_matches_with] on [pre ++ -- :: t1] is the outcome (same error) on [pre ++ -- :: t2] for every [t2] *)
Theorem C05_gmw_display_not_from_tail : forall fuel c pre t1 t2 st0 e s,
  esc_ok fuel c -> mt_pending (mt st0) = None ->
  get_matches_with fuel c (pre ++ dashdash :: t1) st0 = RErr e s -> is_display (e_kind e) = true ->
  exists s', get_matches_with fuel c (pre ++ dashdash :: t2) st0 = RErr e s'.
Proof. exact gmw_display_not_from_tail. Qed.
Print Assumptions C05_gmw_display_not_from_tail.

(** (1) for [parse_top]: no token after the [--] is a help or version request -- a help/version
    outcome of [bin pre.. -- t1..] is the outcome of [bin pre.. -- t2..] for every [t2], the empty one included
    (class [esc_class0]: global arguments allowed) *)
Theorem C05_parse_top_display_not_from_tail : forall c0 bin pre t1 t2 e,
  esc_class0 c0 = true -> is_set s_no_binary_name c0 = false -> c_bin_name c0 <> None ->
  parse_top c0 (bin :: pre ++ dashdash :: t1) = OErr e -> is_display (e_kind e) = true ->
  parse_top c0 (bin :: pre ++ dashdash :: t2) = OErr e.
Proof. exact parse_top_display_not_from_tail. Qed.
Print Assumptions C05_parse_top_display_not_from_tail.

Theorem C05_do_parse_display_not_from_tail : forall c0 pre t1 t2 e,
  esc_class0 c0 = true -> do_parse c0 (pre ++ dashdash :: t1) = OErr e -> is_display (e_kind e) = true ->
  do_parse c0 (pre ++ dashdash :: t2) = OErr e.
Proof. exact do_parse_display_not_from_tail. Qed.
Print Assumptions C05_do_parse_display_not_from_tail.

Theorem C05_nodisp_src_def : forall c,
  nodisp_src c <-> (forall a, In a (c_args c) -> display_action a = true ->
                      a_env a = None /\ a_default a = [] /\ a_default_ifs a = []).
Proof. exact (fun c => conj (fun H => H) (fun H => H)). Qed.
Print Assumptions C05_nodisp_src_def.

(** Outside the classes above (and outside the property's class, whose multi-valued positional is the
    TRAILING one): with the low-index-multiple rule ([prog <files>... <dest>]) the shape of a tail
    token still decides the outcome -- [prog -- v -x c] is rejected (UnknownArgument), [prog -- v b c]
    is accepted.  Model and implementation agree. *)
Theorem C05_low_index_tail_shape_refuted : exists c0 tail alt,
  plain c0 = true /\ valid c0 = true /\ length tail = length alt /\
  (exists m, do_parse c0 (dashdash :: alt) = OOk m) /\
  (exists e, do_parse c0 (dashdash :: tail) = OErr e /\ e_kind e = EUnknownArgument).
Proof. exact low_index_tail_shape_refuted. Qed.
Print Assumptions C05_low_index_tail_shape_refuted.

(** * Global arguments *)

(** [fill_in_global_values] (applied by [do_parse] to a successful result) writes only entries whose id
    is in the list it is given: the two matches trees agree, level by level, on every other entry *)
Theorem C05_fill_globals_frame : forall gl gs, (forall g, In g gs -> mem_id g gl = true) ->
  forall f m vm, keys_in gl vm ->
  keys_in gl (snd (fill_in_global_values f gs m vm)) /\ sng gl m (fst (fill_in_global_values f gs m vm)).
Proof. exact fill_spec. Qed.
Print Assumptions C05_fill_globals_frame.

(** (3) for [parse_top] with global arguments: class [esc_class_g] = [esc_class0] and no positional of
    any level (nor the external-subcommand slot) carries the id of a global argument of the tree *)
Theorem C05_parse_top_delivered_g : forall c0 bin pre t m,
  esc_class_g c0 = true -> is_set s_no_binary_name c0 = false -> c_bin_name c0 <> None -> t <> [] ->
  parse_top c0 (bin :: pre ++ dashdash :: t) = OOk m ->
  delivered (top_fuel c0) (build_self c0) t m.
Proof. exact parse_top_delivered_g. Qed.
Print Assumptions C05_parse_top_delivered_g.

Theorem C05_do_parse_delivered_g : forall c0 pre t m,
  esc_class_g c0 = true -> t <> [] ->
  do_parse c0 (pre ++ dashdash :: t) = OOk m ->
  delivered (top_fuel c0) (build_self c0) t m.
Proof. exact do_parse_delivered_g. Qed.
Print Assumptions C05_do_parse_delivered_g.

Theorem C05_esc_class_g_def : forall c0 gl f c,
  esc_class_g c0 = esc_class0 c0 && pos_freeb (all_globals (build_recursive (top_fuel c0) c0)) (top_fuel c0) (build_self c0) /\
  pos_freeb gl (S f) c =
    forallb (fun a => if is_some (a_index a) then negb (mem_id (a_id a) gl) else true) (c_args c)
    && negb (mem_id ext_id gl)
    && forallb (fun s => match build_subcommand c (c_name s) with Some sc => pos_freeb gl f sc | None => true end) (c_subs c).
Proof. exact (fun c0 gl f c => conj eq_refl eq_refl). Qed.
Print Assumptions C05_esc_class_g_def.

(** [parse_top] with a program name to fill in: the [do_parse] theorems above apply to [top_cmd c0 bin]
    (the definition with [argv[0]] stored as its bin name when none was set) *)
Theorem C05_parse_top_is_do_parse : forall c0 bin rest,
  is_set s_no_binary_name c0 = false ->
  parse_top c0 (bin :: rest) =
  do_parse (match c_bin_name c0 with
            | Some _ => c0
            | None => if utf8_valid bin && negb (is_nil bin) then c0 <| c_bin_name := Some bin |> else c0
            end) rest.
Proof. exact parse_top_is_do_parse. Qed.
Print Assumptions C05_parse_top_is_do_parse.

(** * Round 3 *)

(** ** (1) levels WITH hyphen-accepting arguments

    The loop before the escape without the hypothesis "no argument of the level accepts hyphen values": the
    line [pre ++ -- :: t] behaves as in [C05_escape_line_sim] ([esim]), or -- the documented exception -- it
    reaches the [--], in ONE state that does not depend on the tail, while an argument that accepts hyphen
    values is still being collected; the [--] is then a value of that argument
    ([C05_hyphen_opt_takes_dashdash]).  Hyphen-accepting arguments that are NOT being collected at the [--]
    change nothing. *)
Theorem C05_escape_line_sim_h : forall c,
  (forall a, In a (c_args c) -> find_arg c (a_id a) = Some a) ->
  (forall a, In a (c_args c) -> a_index a <> None -> a_takes_value a = true) ->
  (forall vaf, possible_subcommand c dashdash vaf = None) ->
  forall pre t1 t2 ls st, TV c st -> LTV c ls ->
  esim c t1 t2 ls st (parse_loop c (pre ++ dashdash :: t1) ls st) (parse_loop c (pre ++ dashdash :: t2) ls st)
  \/ hyphen_exception c t1 t2 ls st (parse_loop c (pre ++ dashdash :: t1) ls st) (parse_loop c (pre ++ dashdash :: t2) ls st).
Proof. exact escape_line_sim_h. Qed.
Print Assumptions C05_escape_line_sim_h.

Theorem C05_hyphen_exception_def : forall c t1 t2 ls st R1 R2,
  hyphen_exception c t1 t2 ls st R1 R2 <->
  exists ls' st' a, TV c st' /\ LTV c ls' /\ mt_sub (mt st') = mt_sub (mt st) /\ l_trailing ls' = false /\
    state_arg c (l_pst ls') = ROk (Some a) /\ a_hyphen a = true /\
    R1 = parse_loop c (dashdash :: t1) ls' st' /\ R2 = parse_loop c (dashdash :: t2) ls' st'.
Proof. exact (fun c t1 t2 ls st R1 R2 => conj (fun H => H) (fun H => H)). Qed.
Print Assumptions C05_hyphen_exception_def.

(** ** (1)/(2)/(4) no token of the tail reaches an argument that is not a positional -- for EVERY shape of
    positionals ([Append] with [num_args(1)], terminators, low-index multiples, overflow into an external
    subcommand).  The trailing-mode loop followed by [resolve_pending]: every entry that no positional can
    touch ([pos_untouched]) is the entry of [tail_base st] -- the state the tail started from, with an open
    occurrence of a NON-positional argument (an option still collecting values when the [--] arrived) closed
    there, independently of the tail. *)
Theorem C05_trailing_any_base : forall c, lvl c ->
  forall l ls st lr r,
  l_trailing ls = true -> parse_loop c l ls st = ROk lr -> resolve_pending c (lr_state lr) = ROk r ->
  exists b, tail_base c st = ROk b /\ forall y, pos_untouched c y -> get_entry y r = get_entry y b.
Proof. exact trailing_any_base. Qed.
Print Assumptions C05_trailing_any_base.

Theorem C05_tail_base_def : forall c st y,
  tail_base c st = match mt_pending (mt st) with
                   | Some p => if (match find_arg c (p_id p) with Some a => is_some (a_index a) | None => false end)
                               then ROk st else resolve_pending c st
                   | None => ROk st
                   end
  /\ (pos_untouched c y <-> forall a, In a (c_args c) -> a_index a <> None -> touched c a y = false).
Proof. exact (fun c st y => conj eq_refl (conj (fun H => H) (fun H => H))). Qed.
Print Assumptions C05_tail_base_def.

(** ... and the trailing-mode loop never writes the recorded subcommand *)
Theorem C05_trailing_any_sub : forall c l ls st lr,
  l_trailing ls = true -> parse_loop c l ls st = ROk lr -> mt_sub (mt (lr_state lr)) = mt_sub (mt st).
Proof. exact trailing_any_sub. Qed.
Print Assumptions C05_trailing_any_sub.

(** one level of [get_matches_with], every shape of positionals, hyphen-accepting arguments allowed: two
    successful parses of the same prefix with tails [t1], [t2] (either may be empty) agree on every
    command-line entry no positional can touch and (external subcommands off) recorded no subcommand
    ([same_any]); or [pre] dispatched; or the exception of (1). *)
Theorem C05_level_prefix_any : forall c, lvl c ->
  (forall vaf, possible_subcommand c dashdash vaf = None) ->
  forall f pre t1 t2 st0 s1 s2,
  mt_pending (mt st0) = None ->
  get_matches_with (S f) c (pre ++ dashdash :: t1) st0 = ROk s1 ->
  get_matches_with (S f) c (pre ++ dashdash :: t2) st0 = ROk s2 ->
  same_any c st0 s1 s2
  \/ (exists n k v st1 r,
        parse_loop c (pre ++ dashdash :: t1) ls0 st0 = ROk (LSub n k v st1 (r ++ dashdash :: t1)) /\
        parse_loop c (pre ++ dashdash :: t2) ls0 st0 = ROk (LSub n k v st1 (r ++ dashdash :: t2)))
  \/ (exists tk r st1,
        parse_loop c (pre ++ dashdash :: t1) ls0 st0 = ROk (LExternal tk (r ++ dashdash :: t1) st1) /\
        parse_loop c (pre ++ dashdash :: t2) ls0 st0 = ROk (LExternal tk (r ++ dashdash :: t2) st1))
  \/ hyphen_exception c t1 t2 ls0 st0
       (parse_loop c (pre ++ dashdash :: t1) ls0 st0) (parse_loop c (pre ++ dashdash :: t2) ls0 st0).
Proof. exact level_prefix_any. Qed.
Print Assumptions C05_level_prefix_any.

Theorem C05_same_any_def : forall c st0 s1 s2,
  same_any c st0 s1 s2 <->
  ((forall y e, pos_untouched c y -> find_group c y = None ->
                get_entry y s1 = Some e -> m_source e = Some SCmdLine -> get_entry y s2 = Some e)
   /\ (is_set s_allow_external c = false -> mt_sub (mt s1) = mt_sub (mt st0) /\ mt_sub (mt s2) = mt_sub (mt st0))).
Proof. exact (fun c st0 s1 s2 => conj (fun H => H) (fun H => H)). Qed.
Print Assumptions C05_same_any_def.

(** over the recursion into subcommands ([esc_okh]: as [esc_ok], but hyphen-accepting arguments and
    Help/Version arguments with env/defaults are allowed) *)
Theorem C05_gmw_prefix_any : forall fuel c pre t1 t2 st0 s1 s2,
  esc_okh fuel c -> mt_pending (mt st0) = None -> mt_sub (mt st0) = None ->
  get_matches_with fuel c (pre ++ dashdash :: t1) st0 = ROk s1 ->
  get_matches_with fuel c (pre ++ dashdash :: t2) st0 = ROk s2 ->
  prefix_any [] fuel c (into_inner (mt s1)) (into_inner (mt s2)).
Proof. exact gmw_prefix_any. Qed.
Print Assumptions C05_gmw_prefix_any.

(** ** (5) ... and for the entry points, GLOBAL ARGUMENTS PRESENT: class [esc_class_h] = [plain], [valid], no
    [ignore_errors], no subcommand named [--]; every shape of positionals, hyphen-accepting arguments and
    global arguments allowed.  [fill_in_global_values] rewrites the entries of global arguments at every level
    after the parse; every other entry is compared ([prefix_any] with [gl] = the global ids of the tree). *)
Theorem C05_parse_top_prefix_any : forall c0 bin pre t1 t2 m1 m2,
  esc_class_h c0 = true -> is_set s_no_binary_name c0 = false -> c_bin_name c0 <> None ->
  parse_top c0 (bin :: pre ++ dashdash :: t1) = OOk m1 -> parse_top c0 (bin :: pre ++ dashdash :: t2) = OOk m2 ->
  prefix_any (all_globals (build_recursive (top_fuel c0) c0)) (top_fuel c0) (build_self c0) m1 m2.
Proof. exact parse_top_prefix_any. Qed.
Print Assumptions C05_parse_top_prefix_any.

Theorem C05_do_parse_prefix_any : forall c0 pre t1 t2 m1 m2,
  esc_class_h c0 = true ->
  do_parse c0 (pre ++ dashdash :: t1) = OOk m1 -> do_parse c0 (pre ++ dashdash :: t2) = OOk m2 ->
  prefix_any (all_globals (build_recursive (top_fuel c0) c0)) (top_fuel c0) (build_self c0) m1 m2.
Proof. exact do_parse_prefix_any. Qed.
Print Assumptions C05_do_parse_prefix_any.

Theorem C05_prefix_any_def : forall gl f c m1 m2,
  prefix_any gl (S f) c m1 m2 <->
  (((forall y e, mem_id y gl = false -> pos_untouched c y -> find_group c y = None ->
                 fm_get y (ms_args m1) = Some e -> m_source e = Some SCmdLine -> fm_get y (ms_args m2) = Some e)
    /\ (is_set s_allow_external c = false -> ms_sub m1 = None /\ ms_sub m2 = None))
   \/ (exists name sc sm1 sm2, build_subcommand c name = Some sc /\ ms_sub m1 = Some (c_name sc, sm1)
                               /\ ms_sub m2 = Some (c_name sc, sm2)
                               /\ (forall y, mem_id y gl = false -> fm_get y (ms_args m1) = fm_get y (ms_args m2))
                               /\ prefix_any gl f sc sm1 sm2)
   \/ (exists name sm1 sm2,
         ms_sub m1 = Some (name, sm1) /\ ms_sub m2 = Some (name, sm2) /\
         (forall y, mem_id y gl = false -> fm_get y (ms_args m1) = fm_get y (ms_args m2)))
   \/ (exists a, In a (c_args c) /\ a_hyphen a = true)).
Proof. exact (fun gl f c m1 m2 => conj (fun H => H) (fun H => H)). Qed.
Print Assumptions C05_prefix_any_def.

Theorem C05_esc_class_h_def : forall c0 f c,
  esc_class_h c0 = plain c0 && valid c0 && esc_okhb (top_fuel c0) (build_self c0) /\
  esc_okhb (S f) c =
    negb (is_set s_ignore_errors c)
    && negb (is_some (possible_subcommand c dashdash false)) && negb (is_some (possible_subcommand c dashdash true))
    && forallb (fun s => match build_subcommand c (c_name s) with Some sc => esc_okhb f sc | None => false end) (c_subs c).
Proof. exact (fun c0 f c => conj eq_refl eq_refl). Qed.
Print Assumptions C05_esc_class_h_def.

(** the new class contains the class of the round-2 theorems; on a level without hyphen-accepting arguments
    the fourth case of [prefix_any] / [C05_level_prefix_any] cannot occur *)
Theorem C05_esc_class0_h : forall c0, esc_class0 c0 = true -> esc_class_h c0 = true.
Proof. exact esc_class0_h. Qed.
Print Assumptions C05_esc_class0_h.

Theorem C05_no_hyphen_exception : forall c t1 t2 ls st R1 R2,
  (forall a, In a (c_args c) -> a_hyphen a = false) -> hyphen_exception c t1 t2 ls st R1 R2 -> False.
Proof. exact no_hyphen_exception. Qed.
Print Assumptions C05_no_hyphen_exception.

(** ** (3) [dont_delimit_trailing_values] as a GLOBAL setting holds at every depth

    [_propagate_subcommand] (Build.v [propagate_subcommand], run by [_build_self] on every child) ors the
    parent's [g_settings] into the child's: for every [plain] definition with the flag in its [g_settings]
    (where [Command::dont_delimit_trailing_values] puts it), every level of every chain of built
    subcommands has the setting. *)
Theorem C05_global_ddt_every_level : forall f x,
  plain x = true -> s_dont_delimit_trailing (c_gset x) = true -> ddt_all f (build_self x).
Proof. exact ddt_all_of_global. Qed.
Print Assumptions C05_global_ddt_every_level.

Theorem C05_ddt_all_def : forall f c,
  ddt_all (S f) c <-> (is_set s_dont_delimit_trailing c = true
                       /\ forall name sc, build_subcommand c name = Some sc -> ddt_all f sc).
Proof. exact (fun f c => conj (fun H => H) (fun H => H)). Qed.
Print Assumptions C05_ddt_all_def.

(** ... so [delivered] holds with the stored form of the tail equal to the tail ([delivered_v]): at whatever
    depth the [--] was consumed, the last value group of the absorbing positional ends with the tail itself --
    its first token included, whatever the positional had collected before the [--] *)
Theorem C05_delivered_ddt : forall f c t m, ddt_all f c -> delivered f c t m -> delivered_v f c t m.
Proof. exact delivered_ddt. Qed.
Print Assumptions C05_delivered_ddt.

Theorem C05_delivered_v_def : forall f c t m,
  delivered_v (S f) c t m <->
  (((forall a, sink_from c 1 a ->
       ms_sub m = None /\
       exists e gs early', fm_get (a_id a) (ms_args m) = Some e /\ m_raw e = gs ++ [early' ++ t]
                           /\ m_source e = Some SCmdLine)
    /\ (chainc c = true ->
        ms_sub m = None /\ (forall a t0, tail_form c a t0 = Some t0)
        /\ exists x pc, chain_filled c (fun y => fm_get y (ms_args m)) pc (x ++ t)))
   \/ (exists name sc sm, build_subcommand c name = Some sc /\ ms_sub m = Some (c_name sc, sm) /\ delivered_v f sc t sm)
   \/ (exists name vals sm, ms_sub m = Some (name, sm) /\ ms_sub sm = None /\
                            fm_get ext_id (ms_args sm) = Some (ext_marg (vals ++ dashdash :: t)))).
Proof. exact (fun f c t m => conj (fun H => H) (fun H => H)). Qed.
Print Assumptions C05_delivered_v_def.

Theorem C05_parse_top_delivered_ddt : forall c0 bin pre t m,
  esc_class_g c0 = true -> s_dont_delimit_trailing (c_gset c0) = true ->
  is_set s_no_binary_name c0 = false -> c_bin_name c0 <> None -> t <> [] ->
  parse_top c0 (bin :: pre ++ dashdash :: t) = OOk m ->
  delivered_v (top_fuel c0) (build_self c0) t m.
Proof. exact parse_top_delivered_ddt. Qed.
Print Assumptions C05_parse_top_delivered_ddt.

Theorem C05_do_parse_delivered_ddt : forall c0 pre t m,
  esc_class_g c0 = true -> s_dont_delimit_trailing (c_gset c0) = true -> t <> [] ->
  do_parse c0 (pre ++ dashdash :: t) = OOk m ->
  delivered_v (top_fuel c0) (build_self c0) t m.
Proof. exact do_parse_delivered_ddt. Qed.
Print Assumptions C05_do_parse_delivered_ddt.

(** ** (1) verbatim delivery for levels and trees WITH hyphen-accepting arguments: the conclusions of
    [C05_level_tail_verbatim] / [C05_gmw_delivered] / [C05_parse_top_delivered_g] with one more case, the
    documented exception (an argument accepting hyphen values was still being collected at the [--]) *)
Theorem C05_level_tail_verbatim_h : forall c,
  lvl c -> lvl_store c -> (forall vaf, possible_subcommand c dashdash vaf = None) ->
  forall f pre t st0 st',
  t <> [] -> mt_pending (mt st0) = None ->
  get_matches_with (S f) c (pre ++ dashdash :: t) st0 = ROk st' ->
  (consumed_sink c t st0 st' (parse_loop c (pre ++ dashdash :: t) ls0 st0) /\
   consumed_chain c t st0 st' (parse_loop c (pre ++ dashdash :: t) ls0 st0))
  \/ (exists n k v st1 r, parse_loop c (pre ++ dashdash :: t) ls0 st0 = ROk (LSub n k v st1 (r ++ dashdash :: t)))
  \/ (exists tk r st1, parse_loop c (pre ++ dashdash :: t) ls0 st0 = ROk (LExternal tk (r ++ dashdash :: t) st1))
  \/ hyphen_exception c t t ls0 st0
       (parse_loop c (pre ++ dashdash :: t) ls0 st0) (parse_loop c (pre ++ dashdash :: t) ls0 st0).
Proof. exact level_tail_verbatim_h. Qed.
Print Assumptions C05_level_tail_verbatim_h.

Theorem C05_gmw_delivered_h : forall fuel c pre t st0 st',
  esc_okh fuel c -> t <> [] -> mt_pending (mt st0) = None -> mt_sub (mt st0) = None ->
  get_matches_with fuel c (pre ++ dashdash :: t) st0 = ROk st' ->
  delivered_h fuel c t (into_inner (mt st')).
Proof. exact gmw_delivered_h. Qed.
Print Assumptions C05_gmw_delivered_h.

Theorem C05_delivered_h_def : forall f c t m,
  delivered_h (S f) c t m <->
  (((forall a, sink_from c 1 a ->
       ms_sub m = None /\
       exists e gs early' t', fm_get (a_id a) (ms_args m) = Some e /\ m_raw e = gs ++ [early' ++ t']
                              /\ m_source e = Some SCmdLine /\ tail_form c a t = Some t')
    /\ (chainc c = true ->
        ms_sub m = None /\ exists x pc, chain_filled c (fun y => fm_get y (ms_args m)) pc (x ++ t)))
   \/ (exists name sc sm, build_subcommand c name = Some sc /\ ms_sub m = Some (c_name sc, sm) /\ delivered_h f sc t sm)
   \/ (exists name vals sm, ms_sub m = Some (name, sm) /\ ms_sub sm = None /\
                            fm_get ext_id (ms_args sm) = Some (ext_marg (vals ++ dashdash :: t)))
   \/ (exists a, In a (c_args c) /\ a_hyphen a = true)).
Proof. exact (fun f c t m => conj (fun H => H) (fun H => H)). Qed.
Print Assumptions C05_delivered_h_def.

(** on a tree without hyphen-accepting arguments the fourth case does not occur *)
Theorem C05_delivered_h_plain : forall f c t m, esc_ok f c -> delivered_h f c t m -> delivered f c t m.
Proof. exact delivered_h_plain. Qed.
Print Assumptions C05_delivered_h_plain.

Theorem C05_parse_top_delivered_h : forall c0 bin pre t m,
  esc_class_hg c0 = true -> is_set s_no_binary_name c0 = false -> c_bin_name c0 <> None -> t <> [] ->
  parse_top c0 (bin :: pre ++ dashdash :: t) = OOk m ->
  delivered_h (top_fuel c0) (build_self c0) t m.
Proof. exact parse_top_delivered_h. Qed.
Print Assumptions C05_parse_top_delivered_h.

Theorem C05_do_parse_delivered_h : forall c0 pre t m,
  esc_class_hg c0 = true -> t <> [] ->
  do_parse c0 (pre ++ dashdash :: t) = OOk m ->
  delivered_h (top_fuel c0) (build_self c0) t m.
Proof. exact do_parse_delivered_h. Qed.
Print Assumptions C05_do_parse_delivered_h.

Theorem C05_esc_class_hg_def : forall c0,
  esc_class_hg c0 = esc_class_h c0 && pos_freeb (all_globals (build_recursive (top_fuel c0) c0)) (top_fuel c0) (build_self c0).
Proof. exact (fun c0 => eq_refl). Qed.
Print Assumptions C05_esc_class_hg_def.

(** ** (2) value terminators: outside every delivery class, and for a reason -- the terminator is compared after
    the escape too ([Escape.tstep], [TS_term]).  [prog -- a ;] with [p (num_args 1.., value_terminator ";")] is
    accepted with [p = [a]]: the token [;] of the tail reaches no argument.  Model and implementation agree
    (corpus/C05/escape-main.r3.cases). *)
Theorem C05_terminator_tail_dropped_refuted : exists c0 tail tok m,
  esc_class_h c0 = true /\ In tok tail /\ do_parse c0 (dashdash :: tail) = OOk m /\ ms_sub m = None /\
  forall y e, fm_get y (ms_args m) = Some e -> ~ In tok (concat (m_raw e)).
Proof. exact terminator_tail_dropped_refuted. Qed.
Print Assumptions C05_terminator_tail_dropped_refuted.

(** ** (2) [Append] positionals with [num_args(1)]: one OCCURRENCE per token of the tail

    Class [sink1 c a]: the positional counter cannot move ([sticky]), [a] is the positional at index 1, takes one
    value per occurrence, has action [Append] and is in no overrides relation with itself.  The trailing-mode
    loop followed by [resolve_pending]: the value groups of the entry of [a] are those of the state in which the
    occurrence open at the start was closed, followed by ONE group per token, in order -- the stored form of
    that token alone ([stored1]: the token itself with [dont_delimit_trailing_values] or without a delimiter). *)
Theorem C05_append1_run : forall c, lvl c -> lvl_store c -> forall a, sink1 c a ->
  forall t ls st s1 s2,
  l_trailing ls = true -> l_pos ls = 1 ->
  parse_loop c t ls st = ROk (LDone s1) -> resolve_pending c s1 = ROk s2 ->
  exists b groups, resolve_pending c st = ROk b /\ stored1 c a t groups /\
    raw_of (a_id a) s2 = raw_of (a_id a) b ++ groups.
Proof. exact append1_run. Qed.
Print Assumptions C05_append1_run.

Theorem C05_sink1_def : forall c a t groups y st,
  (sink1 c a <-> (sticky c = true /\ get_pos c 1 = Some a /\ a_multiple_values a = false /\ a_get_action a = AAppend
                  /\ negb (existsb (fun o => beq o (a_id a)) (a_overrides a)) && negb (mem_id (a_id a) (a_overrides a)) = true))
  /\ (stored1 c a t groups <-> Forall2 (fun tok g => tail_form c a [tok] = Some g) t groups)
  /\ raw_of y st = match get_entry y st with Some e => m_raw e | None => [] end.
Proof. exact (fun c a t groups y st => conj (conj (fun H => H) (fun H => H)) (conj (conj (fun H => H) (fun H => H)) eq_refl)). Qed.
Print Assumptions C05_sink1_def.

(** one level of [get_matches_with] (hyphen-accepting arguments allowed: fourth case) *)
Theorem C05_level_append1 : forall c,
  lvl c -> lvl_store c -> (forall vaf, possible_subcommand c dashdash vaf = None) ->
  forall f pre t st0 st',
  t <> [] -> mt_pending (mt st0) = None ->
  get_matches_with (S f) c (pre ++ dashdash :: t) st0 = ROk st' ->
  consumed_append1 c t st0 st' (parse_loop c (pre ++ dashdash :: t) ls0 st0)
  \/ (exists n k v st1 r, parse_loop c (pre ++ dashdash :: t) ls0 st0 = ROk (LSub n k v st1 (r ++ dashdash :: t)))
  \/ (exists tk r st1, parse_loop c (pre ++ dashdash :: t) ls0 st0 = ROk (LExternal tk (r ++ dashdash :: t) st1))
  \/ hyphen_exception c t t ls0 st0
       (parse_loop c (pre ++ dashdash :: t) ls0 st0) (parse_loop c (pre ++ dashdash :: t) ls0 st0).
Proof. exact level_append1. Qed.
Print Assumptions C05_level_append1.

Theorem C05_consumed_append1_def : forall c t st0 st' lr,
  consumed_append1 c t st0 st' lr <->
  (forall a, sink1 c a ->
    exists st1 x e before groups,
      lr = ROk (LDone st1) /\ mt_sub (mt st') = mt_sub (mt st0) /\
      get_entry (a_id a) st' = Some e /\ m_raw e = before ++ groups /\ stored1 c a (x ++ t) groups).
Proof. exact (fun c t st0 st' lr => conj (fun H => H) (fun H => H)). Qed.
Print Assumptions C05_consumed_append1_def.

Theorem C05_gmw_delivered_a : forall fuel c pre t st0 st',
  esc_okh fuel c -> t <> [] -> mt_pending (mt st0) = None -> mt_sub (mt st0) = None ->
  get_matches_with fuel c (pre ++ dashdash :: t) st0 = ROk st' ->
  delivered_a fuel c t (into_inner (mt st')).
Proof. exact gmw_delivered_a. Qed.
Print Assumptions C05_gmw_delivered_a.

Theorem C05_delivered_a_def : forall f c t m,
  delivered_a (S f) c t m <->
  ((forall a, sink1 c a ->
      ms_sub m = None /\
      exists x e before groups, fm_get (a_id a) (ms_args m) = Some e /\ m_raw e = before ++ groups
                                /\ stored1 c a (x ++ t) groups)
   \/ (exists name sc sm, build_subcommand c name = Some sc /\ ms_sub m = Some (c_name sc, sm) /\ delivered_a f sc t sm)
   \/ (exists name vals sm, ms_sub m = Some (name, sm) /\ ms_sub sm = None /\
                            fm_get ext_id (ms_args sm) = Some (ext_marg (vals ++ dashdash :: t)))
   \/ (exists a, In a (c_args c) /\ a_hyphen a = true)).
Proof. exact (fun f c t m => conj (fun H => H) (fun H => H)). Qed.
Print Assumptions C05_delivered_a_def.

(** the entry points: class [esc_class_hg] (global arguments and hyphen-accepting arguments allowed) *)
Theorem C05_parse_top_delivered_a : forall c0 bin pre t m,
  esc_class_hg c0 = true -> is_set s_no_binary_name c0 = false -> c_bin_name c0 <> None -> t <> [] ->
  parse_top c0 (bin :: pre ++ dashdash :: t) = OOk m ->
  delivered_a (top_fuel c0) (build_self c0) t m.
Proof. exact parse_top_delivered_a. Qed.
Print Assumptions C05_parse_top_delivered_a.

Theorem C05_do_parse_delivered_a : forall c0 pre t m,
  esc_class_hg c0 = true -> t <> [] ->
  do_parse c0 (pre ++ dashdash :: t) = OOk m ->
  delivered_a (top_fuel c0) (build_self c0) t m.
Proof. exact do_parse_delivered_a. Qed.
Print Assumptions C05_do_parse_delivered_a.
