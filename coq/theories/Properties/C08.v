(** Property C08: equivalent spellings of the same invocation parse to identical matches.
    This file contains only the pinned statements; proofs live in ParseProofs/Spelling.v. *)
From ClapModel Require Import Base.Bytes Base.Machine Base.Utf8.
From ClapModel Require Import Parse.Cmd Parse.Build Parse.Valid Parse.Matcher Parse.Errors Parse.Validator Parse.Parser.
From ClapModel Require Import ParseProofs.Spelling.
From Coq Require Import ZArith List.
Import ListNotations.
Open Scope N_scope.

(** aliases are keys *)
Theorem C08_alias_is_key : forall c a l0 l vis,
  long_unique c -> In a (c_args c) -> a_index a = None ->
  a_long a = Some l0 -> In (l, vis) (a_aliases a) ->
  get_long c l = Some a /\ get_long c l = get_long c l0.
Proof. exact alias_is_key. Qed.
Print Assumptions C08_alias_is_key.

Theorem C08_short_alias_is_key : forall c a s0 s vis,
  short_unique c -> In a (c_args c) -> a_index a = None ->
  a_short a = Some s0 -> In (s, vis) (a_short_aliases a) ->
  get_short c s = Some a /\ get_short c s = get_short c s0.
Proof. exact short_alias_is_key. Qed.
Print Assumptions C08_short_alias_is_key.

Theorem C08_gate_gives_unique_keys : forall c, assert_app c = true -> long_unique c /\ short_unique c.
Proof. exact (fun c V => conj (assert_app_long_unique c V) (assert_app_short_unique c V)). Qed.
Print Assumptions C08_gate_gives_unique_keys.

(** long-flag inference *)
Theorem C08_parse_long_arg_uses_lookup : forall c flag flag_utf8 value pst pos vaf st,
  parse_long_arg c flag flag_utf8 value pst pos vaf st =
  (do sa <- state_arg c pst;
   if match sa with Some a => a_hyphen a | None => false end then ROk (st, PRMaybeHyphen, vaf) else
   if negb flag_utf8 then ROk (st, PRNoMatchingArg flag, vaf) else
   if is_nil flag && negb (is_some value) then RPanic 785 else
   parse_long_found c flag value pos vaf st (lookup_long c flag)).
Proof. exact parse_long_arg_unfold. Qed.
Print Assumptions C08_parse_long_arg_uses_lookup.

Theorem C08_long_exact_wins : forall c p a, get_long c p = Some a -> lookup_long c p = Some a.
Proof. exact long_exact_wins. Qed.
Print Assumptions C08_long_exact_wins.

Theorem C08_infer_unique : forall c p a, lookup_long c p = Some a ->
  get_long c p = Some a \/
  (get_long c p = None /\ is_set s_infer_long c = true /\ In a (c_args c) /\ candidate p a = true /\
   forall b, In b (c_args c) -> candidate p b = true -> b = a).
Proof. exact infer_unique. Qed.
Print Assumptions C08_infer_unique.

Theorem C08_infer_ambiguous_rejected : forall c p a b,
  get_long c p = None -> In a (c_args c) -> In b (c_args c) -> a <> b ->
  candidate p a = true -> candidate p b = true -> lookup_long c p = None.
Proof. exact infer_ambiguous_rejected. Qed.
Print Assumptions C08_infer_ambiguous_rejected.

Theorem C08_no_inference_exact_only : forall c p, is_set s_infer_long c = false -> lookup_long c p = get_long c p.
Proof. exact no_inference_exact_only. Qed.
Print Assumptions C08_no_inference_exact_only.

Theorem C08_long_unresolved_untouched : forall c p value pst pos vaf st,
  lookup_long c p = None ->
  match parse_long_arg c p true value pst pos vaf st with
  | ROk (st', pr, vaf') =>
      st' = st /\ vaf' = vaf /\
      (pr = PRMaybeHyphen \/ pr = PRNoMatchingArg p \/ exists n, pr = PRFlagSub n)
  | RErr _ _ => False
  | RPanic _ => True
  end.
Proof. exact long_unresolved_untouched. Qed.
Print Assumptions C08_long_unresolved_untouched.

(** subcommand inference *)
Theorem C08_sub_infer_unique : forall c tok vaf n, possible_subcommand c tok vaf = Some n ->
  (exists s, find_subcommand c tok = Some s /\ n = c_name s) \/
  (is_set s_infer_sub c = true /\
   exists s, In s (c_subs c) /\ aliases_to s n = true /\ is_prefix tok n = true /\
             forall s', In s' (c_subs c) -> sub_extends tok s' = true -> s' = s).
Proof. exact sub_infer_unique. Qed.
Print Assumptions C08_sub_infer_unique.

Theorem C08_sub_ambiguous_rejected : forall c tok vaf s1 s2,
  find_subcommand c tok = None -> In s1 (c_subs c) -> In s2 (c_subs c) -> s1 <> s2 ->
  sub_extends tok s1 = true -> sub_extends tok s2 = true -> possible_subcommand c tok vaf = None.
Proof. exact sub_ambiguous_rejected. Qed.
Print Assumptions C08_sub_ambiguous_rejected.

Theorem C08_sub_exact_wins : forall c tok vaf s,
  find_subcommand c tok = Some s -> utf8_valid tok = true -> is_set s_args_negate_subs c && vaf = false ->
  exists n, possible_subcommand c tok vaf = Some n /\ aliases_to s n = true.
Proof. exact sub_exact_wins. Qed.
Print Assumptions C08_sub_exact_wins.

(** long flag-subcommand inference *)
Theorem C08_lf_infer_unique : forall c l n, possible_long_flag_subcommand c l = Some n ->
  find_long_subcmd c l = Some n \/
  (is_set s_infer_sub c = true /\
   exists s, In s (c_subs c) /\ n = c_name s /\ lf_pick l s = Some n /\
             forall s', In s' (c_subs c) -> lf_pick l s' <> None -> s' = s).
Proof. exact lf_infer_unique. Qed.
Print Assumptions C08_lf_infer_unique.

Theorem C08_lf_ambiguous_rejected : forall c l s1 s2,
  find_long_subcmd c l = None -> In s1 (c_subs c) -> In s2 (c_subs c) -> s1 <> s2 ->
  lf_pick l s1 <> None -> lf_pick l s2 <> None -> possible_long_flag_subcommand c l = None.
Proof. exact lf_ambiguous_rejected. Qed.
Print Assumptions C08_lf_ambiguous_rejected.

Theorem C08_lf_exact_wins : forall c l s,
  List.find (fun s => long_flag_aliases_to s l) (c_subs c) = Some s -> c_long_flag s <> None ->
  possible_long_flag_subcommand c l = Some (c_name s).
Proof. exact lf_exact_wins. Qed.
Print Assumptions C08_lf_exact_wins.
