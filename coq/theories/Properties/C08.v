(** Property C08: equivalent spellings of the same invocation parse to identical matches.
    This file contains only the pinned statements; proofs live in ParseProofs/Spelling.v. *)
From ClapModel Require Import Base.Bytes Base.Machine Base.Utf8.
From ClapModel Require Import Parse.Cmd Parse.Build Parse.Valid Parse.Matcher Parse.Errors Parse.Validator Parse.Parser.
From ClapModel Require Import ParseProofs.Spelling ParseProofs.Dispatch ParseProofs.SpellingLine.
From ClapModel Require Lex.LexProofs.
From ClapModel Require Import ParseProofs.SpellingStep ParseProofs.SpellingDash ParseProofs.SpellingTree ParseProofs.SpellingNeg.
From Coq Require Import ZArith List.
From RecordUpdate Require Import RecordSet.
Import RecordSetNotations.
Import ListNotations.
Open Scope N_scope.

(** aliases are keys *)
Theorem C08_alias_is_key : forall c a l0 l vis,
  long_unique c -> In a (c_args c) -> a_index a = None ->
  a_long a = Some l0 -> In (l, vis) (a_aliases a) ->
  get_long c l = Some a /\ get_long c l = get_long c l0.
Proof. exact alias_is_key. Qed.
Print Assumptions C08_alias_is_key.

Theorem C08_short_alias_is_key : forall c a s0 s vis,
  short_unique c -> In a (c_args c) -> a_index a = None ->
  a_short a = Some s0 -> In (s, vis) (a_short_aliases a) ->
  get_short c s = Some a /\ get_short c s = get_short c s0.
Proof. exact short_alias_is_key. Qed.
Print Assumptions C08_short_alias_is_key.

Theorem C08_gate_gives_unique_keys : forall c, assert_app c = true -> long_unique c /\ short_unique c.
Proof. exact (fun c V => conj (assert_app_long_unique c V) (assert_app_short_unique c V)). Qed.
Print Assumptions C08_gate_gives_unique_keys.

(** long-flag inference *)
Theorem C08_parse_long_arg_uses_lookup : forall c flag flag_utf8 value pst pos vaf st,
  parse_long_arg c flag flag_utf8 value pst pos vaf st =
  (do sa <- state_arg c pst;
   if match sa with Some a => a_hyphen a | None => false end then ROk (st, PRMaybeHyphen, vaf) else
   if negb flag_utf8 then ROk (st, PRNoMatchingArg flag, vaf) else
   if is_nil flag && negb (is_some value) then RPanic 785 else
   parse_long_found c flag value pos vaf st (lookup_long c flag)).
Proof. exact parse_long_arg_unfold. Qed.
Print Assumptions C08_parse_long_arg_uses_lookup.

Theorem C08_long_exact_wins : forall c p a, get_long c p = Some a -> lookup_long c p = Some a.
Proof. exact long_exact_wins. Qed.
Print Assumptions C08_long_exact_wins.

Theorem C08_infer_unique : forall c p a, lookup_long c p = Some a ->
  get_long c p = Some a \/
  (get_long c p = None /\ is_set s_infer_long c = true /\ In a (c_args c) /\ candidate p a = true /\
   forall b, In b (c_args c) -> candidate p b = true -> b = a).
Proof. exact infer_unique. Qed.
Print Assumptions C08_infer_unique.

Theorem C08_infer_ambiguous_rejected : forall c p a b,
  get_long c p = None -> In a (c_args c) -> In b (c_args c) -> a <> b ->
  candidate p a = true -> candidate p b = true -> lookup_long c p = None.
Proof. exact infer_ambiguous_rejected. Qed.
Print Assumptions C08_infer_ambiguous_rejected.

Theorem C08_no_inference_exact_only : forall c p, is_set s_infer_long c = false -> lookup_long c p = get_long c p.
Proof. exact no_inference_exact_only. Qed.
Print Assumptions C08_no_inference_exact_only.

Theorem C08_long_unresolved_untouched : forall c p value pst pos vaf st,
  lookup_long c p = None ->
  match parse_long_arg c p true value pst pos vaf st with
  | ROk (st', pr, vaf') =>
      st' = st /\ vaf' = vaf /\
      (pr = PRMaybeHyphen \/ pr = PRNoMatchingArg p \/ exists n, pr = PRFlagSub n)
  | RErr _ _ => False
  | RPanic _ => True
  end.
Proof. exact long_unresolved_untouched. Qed.
Print Assumptions C08_long_unresolved_untouched.

(** subcommand inference *)
Theorem C08_sub_infer_unique : forall c tok vaf n, possible_subcommand c tok vaf = Some n ->
  (exists s, find_subcommand c tok = Some s /\ n = c_name s) \/
  (is_set s_infer_sub c = true /\
   exists s, In s (c_subs c) /\ aliases_to s n = true /\ is_prefix tok n = true /\
             forall s', In s' (c_subs c) -> sub_extends tok s' = true -> s' = s).
Proof. exact sub_infer_unique. Qed.
Print Assumptions C08_sub_infer_unique.

Theorem C08_sub_ambiguous_rejected : forall c tok vaf s1 s2,
  find_subcommand c tok = None -> In s1 (c_subs c) -> In s2 (c_subs c) -> s1 <> s2 ->
  sub_extends tok s1 = true -> sub_extends tok s2 = true -> possible_subcommand c tok vaf = None.
Proof. exact sub_ambiguous_rejected. Qed.
Print Assumptions C08_sub_ambiguous_rejected.

Theorem C08_sub_exact_wins : forall c tok vaf s,
  find_subcommand c tok = Some s -> utf8_valid tok = true -> is_set s_args_negate_subs c && vaf = false ->
  exists n, possible_subcommand c tok vaf = Some n /\ aliases_to s n = true.
Proof. exact sub_exact_wins. Qed.
Print Assumptions C08_sub_exact_wins.

(** long flag-subcommand inference *)
Theorem C08_lf_infer_unique : forall c l n, possible_long_flag_subcommand c l = Some n ->
  find_long_subcmd c l = Some n \/
  (is_set s_infer_sub c = true /\
   exists s, In s (c_subs c) /\ n = c_name s /\ lf_pick l s = Some n /\
             forall s', In s' (c_subs c) -> lf_pick l s' <> None -> s' = s).
Proof. exact lf_infer_unique. Qed.
Print Assumptions C08_lf_infer_unique.

Theorem C08_lf_ambiguous_rejected : forall c l s1 s2,
  find_long_subcmd c l = None -> In s1 (c_subs c) -> In s2 (c_subs c) -> s1 <> s2 ->
  lf_pick l s1 <> None -> lf_pick l s2 <> None -> possible_long_flag_subcommand c l = None.
Proof. exact lf_ambiguous_rejected. Qed.
Print Assumptions C08_lf_ambiguous_rejected.

Theorem C08_lf_exact_wins : forall c l s,
  List.find (fun s => long_flag_aliases_to s l) (c_subs c) = Some s -> c_long_flag s <> None ->
  possible_long_flag_subcommand c l = Some (c_name s).
Proof. exact lf_exact_wins. Qed.
Print Assumptions C08_lf_exact_wins.

(** step-level spelling equalities, for every parser state *)
Theorem C08_resolve_pending_clears : forall c st st1, resolve_pending c st = ROk st1 -> mt_pending (mt st1) = None.
Proof. exact resolve_pending_clears. Qed.
Print Assumptions C08_resolve_pending_clears.

Theorem C08_parse_loop_value_step : forall c tok rest pos vaf st i,
  is_set s_sub_precedence c = false ->
  is_escape tok = false -> to_long tok = None -> to_short tok = None ->
  parse_loop c (tok :: rest) (mkL (PSOpt i) pos vaf false) st =
  (do a <- expect 290 (find_arg c i);
   if check_terminator a tok then parse_loop c rest (mkL PSValuesDone pos vaf false) st
   else do y <- take_value c i tok st;
        parse_loop c rest (mkL (if snd y then PSOpt i else PSValuesDone) pos vaf false) (fst y)).
Proof. exact parse_loop_value_step. Qed.
Print Assumptions C08_parse_loop_value_step.

Theorem C08_attached_vs_separate : forall c idn a r v has_eq st,
  find_arg c (a_id a) = Some a -> a_req_eq a = false -> a_num a = Some r ->
  (do x <- parse_opt_value c idn (Some v) a has_eq st; ROk (fst x)) =
  (do x <- parse_opt_value c idn None a false st;
   do y <- take_value c (a_id a) v (fst x);
   resolve_pending c (fst y))
  /\ (forall x y, parse_opt_value c idn None a false st = ROk x -> take_value c (a_id a) v (fst x) = ROk y ->
      snd x = PROpt (a_id a) /\ snd y = r_accepts_more r 1).
Proof. exact attached_vs_separate. Qed.
Print Assumptions C08_attached_vs_separate.

Theorem C08_short_eq_strip : forall c f1 f2 r1 r2 ch a v ret vaf st,
  sf_next r1 = Some (inl ch, 61 :: v) -> sf_next r2 = Some (inl ch, v) ->
  v <> [] -> hd 0 v <> 61 ->
  get_short c ch = Some a -> a_takes_value a = true -> a_req_eq a = false ->
  short_loop c (S f1) r1 ret vaf st = short_loop c (S f2) r2 ret vaf st.
Proof. exact short_eq_strip. Qed.
Print Assumptions C08_short_eq_strip.

Theorem C08_short_attached_vs_separate : forall c f f' ratt rsep ch a r b t ret vaf st,
  sf_next ratt = Some (inl ch, b :: t) -> b <> 61 -> sf_next rsep = Some (inl ch, []) ->
  get_short c ch = Some a -> a_takes_value a = true -> a_req_eq a = false ->
  find_arg c (a_id a) = Some a -> a_num a = Some r ->
  (do x <- short_loop c (S f) ratt ret vaf st; ROk (fst (fst x))) =
  (do x <- short_loop c (S f') rsep ret vaf st;
   do y <- take_value c (a_id a) (b :: t) (fst (fst x));
   resolve_pending c (fst y)).
Proof. exact short_attached_vs_separate. Qed.
Print Assumptions C08_short_attached_vs_separate.

Theorem C08_cluster_split : forall c r r1 r2 ch a ret vaf st,
  sf_next r = Some (inl ch, r2) -> sf_next r1 = Some (inl ch, []) -> r2 <> [] ->
  get_short c ch = Some a -> a_takes_value a = false ->
  short_loop c (S (length r)) r ret vaf st =
  (do x <- short_loop c (S (length r1)) r1 ret vaf st;
   short_loop c (S (length r2)) r2 PRNoArg (snd x) (fst (fst x))).
Proof. exact cluster_split. Qed.
Print Assumptions C08_cluster_split.

(** refutations on the faithful model (replayed on the implementation: a known finding and an observation) *)
Theorem C08_flag_sub_exact_shadowed_refuted : exists c p n a,
  assert_app c = true /\ find_long_subcmd c p = Some n /\ get_long c p = None /\ lookup_long c p = Some a.
Proof. exact flag_sub_exact_shadowed_refuted. Qed.
Print Assumptions C08_flag_sub_exact_shadowed_refuted.

Theorem C08_lf_exact_needs_long_flag_refuted : exists c l s,
  List.find (fun s => long_flag_aliases_to s l) (c_subs c) = Some s /\
  possible_long_flag_subcommand c l <> Some (c_name s).
Proof. exact lf_exact_needs_long_flag_refuted. Qed.
Print Assumptions C08_lf_exact_needs_long_flag_refuted.

(** whole-line level (ParseProofs/SpellingLine.v): one occurrence rewritten, ARBITRARY rest of the line *)

(** what the relations / classes used below say, spelled out *)
Theorem C08_res_rel_meaning : forall c r2 r', res_rel c r2 r' ->
  r2 = r' \/
  exists s2 s',
    resolve_pending c s2 = ROk s' /\ fs_skip s2 = 0 /\
    (forall p, mt_pending (mt s2) = Some p -> forall k b, get_pos c k = Some b -> beq (p_id p) (a_id b) = false) /\
    ((r2 = ROk (LDone s2) /\ r' = ROk (LDone s')) \/
     (exists n v rest, r2 = ROk (LSub n false v s2 rest) /\ r' = ROk (LSub n false v s' rest)) \/
     (exists n vals, r2 = ROk (LExternal n vals s2) /\ r' = ROk (LExternal n vals s')) \/
     (exists names, r2 = ROk (LHelpSub names s2) /\ r' = ROk (LHelpSub names s'))).
Proof. exact res_rel_meaning. Qed.
Print Assumptions C08_res_rel_meaning.

Theorem C08_gmw_rel_meaning : forall r2 r', gmw_rel r2 r' -> r2 = r' \/ exists e t2 t', r2 = RErr e t2 /\ r' = RErr e t'.
Proof. exact gmw_rel_meaning. Qed.
Print Assumptions C08_gmw_rel_meaning.

Theorem C08_classes_meaning : forall c,
  (forall ls tok, flag_site c ls tok <->
     l_trailing ls = false /\
     match state_arg c (l_pst ls) with ROk (Some b) => a_hyphen b = false | ROk None => True | _ => False end /\
     possible_subcommand c tok (l_vaf ls) = None /\ is_escape tok = false) /\
  (forall a r, single_opt c a r <->
     a_takes_value a = true /\ a_req_eq a = false /\ find_arg c (a_id a) = Some a /\ a_num a = Some r /\
     r_accepts_more r 1 = false /\ forall k b, get_pos c k = Some b -> beq (a_id a) (a_id b) = false) /\
  (forall a v, plain_value a v <->
     is_escape v = false /\ to_long v = None /\ to_short v = None /\ check_terminator a v = false) /\
  (forall c0 bin toks, is_set s_no_binary_name c0 = false -> parse_top c0 (bin :: toks) = do_parse (top_cmd c0 bin) toks).
Proof. exact classes_meaning. Qed.
Print Assumptions C08_classes_meaning.

(** the bisimulation: a state with one occurrence still pending vs the state in which it has been reacted *)
Theorem C08_flush_bisim : forall c toks ls s2 s',
  resolve_pending c s2 = ROk s' ->
  (forall p, mt_pending (mt s2) = Some p -> forall k b, get_pos c k = Some b -> beq (p_id p) (a_id b) = false) ->
  fs_skip s2 = 0 ->
  (forall i, (if l_trailing ls then PSValuesDone else l_pst ls) <> PSOpt i) ->
  res_rel c (parse_loop c toks ls s2) (parse_loop c toks ls s').
Proof. exact (fun c toks ls s2 s' R P F L => flush_bisim c toks ls s2 s' (conj R (conj P F)) L). Qed.
Print Assumptions C08_flush_bisim.

(** one level of [get_matches_with] (hence [do_parse]) cannot tell related loop results apart *)
Theorem C08_gmw_lift : forall c f X Y st0, is_set s_ignore_errors c = false ->
  res_rel c (parse_loop c X ls_top st0) (parse_loop c Y ls_top st0) ->
  gmw_rel (get_matches_with (S f) c X st0) (get_matches_with (S f) c Y st0).
Proof. exact gmw_lift. Qed.
Print Assumptions C08_gmw_lift.

Theorem C08_do_parse_lift : forall c0 X Y, is_set s_ignore_errors (build_self c0) = false ->
  res_rel (build_self c0) (parse_loop (build_self c0) X ls_top ps_new) (parse_loop (build_self c0) Y ls_top ps_new) ->
  do_parse c0 X = do_parse c0 Y.
Proof. exact do_parse_lift. Qed.
Print Assumptions C08_do_parse_lift.

(** [--opt v] = [--opt=v] *)
Theorem C08_long_space_vs_eq : forall c l v a r tokA tokB rest ls st x0,
  is_set s_sub_precedence c = false ->
  flag_site c ls tokA -> flag_site c ls tokB ->
  to_long tokA = Some (l, true, Some v) -> to_long tokB = Some (l, true, None) ->
  lookup_long c l = Some a -> single_opt c a r -> plain_value a v -> fs_skip st = 0 ->
  react c (Some ILong) SCmdLine a [v] None st = ROk x0 ->
  res_rel c (parse_loop c (tokB :: v :: rest) ls st) (parse_loop c (tokA :: rest) ls st).
Proof. exact long_space_vs_eq. Qed.
Print Assumptions C08_long_space_vs_eq.

Theorem C08_long_space_vs_eq_line : forall c0 bin l v a r tokA tokB rest x0,
  is_set s_no_binary_name c0 = false ->
  let c := build_self (top_cmd c0 bin) in
  is_set s_ignore_errors c = false -> is_set s_sub_precedence c = false ->
  flag_site c ls_top tokA -> flag_site c ls_top tokB ->
  to_long tokA = Some (l, true, Some v) -> to_long tokB = Some (l, true, None) ->
  lookup_long c l = Some a -> single_opt c a r -> plain_value a v ->
  react c (Some ILong) SCmdLine a [v] None ps_new = ROk x0 ->
  parse_top c0 (bin :: tokB :: v :: rest) = parse_top c0 (bin :: tokA :: rest).
Proof. exact long_space_vs_eq_top. Qed.
Print Assumptions C08_long_space_vs_eq_line.

(** [-o v] = [-ov] = [-o=v] *)
Theorem C08_short_site_meaning : forall c ls tok, short_site c ls tok <->
  l_trailing ls = false /\ l_pst ls = PSValuesDone /\
  match get_pos c (l_pos ls) with
  | Some a => a_negnum a = false /\ (a_hyphen a && negb (a_last a)) = false
  | None => True
  end /\ possible_subcommand c tok (l_vaf ls) = None.
Proof. exact (fun c ls tok => iff_refl _). Qed.
Print Assumptions C08_short_site_meaning.

Theorem C08_short_space_vs_att : forall c ch a r b t rA rB tokA tokB rest ls st x0,
  is_set s_sub_precedence c = false ->
  short_site c ls tokA -> short_site c ls tokB ->
  to_short tokA = Some rA -> sf_next rA = Some (inl ch, b :: t) -> b <> 61 ->
  to_short tokB = Some rB -> sf_next rB = Some (inl ch, []) ->
  get_short c ch = Some a -> single_opt c a r -> plain_value a (b :: t) -> fs_skip st = 0 ->
  react c (Some IShort) SCmdLine a [b :: t] None st = ROk x0 ->
  res_rel c (parse_loop c (tokB :: (b :: t) :: rest) ls st) (parse_loop c (tokA :: rest) ls st).
Proof. exact short_space_vs_att. Qed.
Print Assumptions C08_short_space_vs_att.

Theorem C08_short_eq_vs_att : forall c ch a b t rA rC tokA tokC rest ls st,
  short_site c ls tokA -> short_site c ls tokC ->
  to_short tokA = Some rA -> sf_next rA = Some (inl ch, b :: t) -> b <> 61 ->
  to_short tokC = Some rC -> sf_next rC = Some (inl ch, 61 :: b :: t) ->
  get_short c ch = Some a -> a_takes_value a = true -> a_req_eq a = false -> fs_skip st = 0 ->
  parse_loop c (tokC :: rest) ls st = parse_loop c (tokA :: rest) ls st.
Proof. exact short_eq_vs_att. Qed.
Print Assumptions C08_short_eq_vs_att.

Theorem C08_short_space_vs_att_line : forall c0 bin,
  is_set s_no_binary_name c0 = false -> is_set s_ignore_errors (build_self (top_cmd c0 bin)) = false ->
  forall ch a r b t rA rB tokA tokB rest x0,
  let c := build_self (top_cmd c0 bin) in
  is_set s_sub_precedence c = false ->
  short_site c ls_top tokA -> short_site c ls_top tokB ->
  to_short tokA = Some rA -> sf_next rA = Some (inl ch, b :: t) -> b <> 61 ->
  to_short tokB = Some rB -> sf_next rB = Some (inl ch, []) ->
  get_short c ch = Some a -> single_opt c a r -> plain_value a (b :: t) ->
  react c (Some IShort) SCmdLine a [b :: t] None ps_new = ROk x0 ->
  parse_top c0 (bin :: tokB :: (b :: t) :: rest) = parse_top c0 (bin :: tokA :: rest).
Proof. exact short_space_vs_att_top. Qed.
Print Assumptions C08_short_space_vs_att_line.

Theorem C08_short_eq_vs_att_line : forall c0 bin,
  is_set s_no_binary_name c0 = false -> is_set s_ignore_errors (build_self (top_cmd c0 bin)) = false ->
  forall ch a b t rA rC tokA tokC rest,
  let c := build_self (top_cmd c0 bin) in
  short_site c ls_top tokA -> short_site c ls_top tokC ->
  to_short tokA = Some rA -> sf_next rA = Some (inl ch, b :: t) -> b <> 61 ->
  to_short tokC = Some rC -> sf_next rC = Some (inl ch, 61 :: b :: t) ->
  get_short c ch = Some a -> a_takes_value a = true -> a_req_eq a = false ->
  parse_top c0 (bin :: tokC :: rest) = parse_top c0 (bin :: tokA :: rest).
Proof. exact short_eq_vs_att_top. Qed.
Print Assumptions C08_short_eq_vs_att_line.

(** clusters: [-a<rest>] = [-a] [-<rest>]; [-abc] = [-a] [-b] [-c]
    (class: no short flag-subcommands, as in C01's totality theorem) *)
Theorem C08_cluster_vs_split : forall c ch a r r1 r2 tok tok1 tok2 rest ls st,
  (forall x, find_short_subcmd c x = None) ->
  short_site c ls tok -> short_site c ls tok1 -> possible_subcommand c tok2 true = None ->
  to_short tok = Some r -> sf_next r = Some (inl ch, r2) -> r2 <> [] ->
  to_short tok1 = Some r1 -> sf_next r1 = Some (inl ch, []) -> to_short tok2 = Some r2 ->
  get_short c ch = Some a -> a_takes_value a = false -> fs_skip st = 0 ->
  parse_loop c (tok :: rest) ls st = parse_loop c (tok1 :: tok2 :: rest) ls st.
Proof. exact cluster_vs_split. Qed.
Print Assumptions C08_cluster_vs_split.

Theorem C08_cluster_vs_singles : forall c,
  (forall x, find_short_subcmd c x = None) -> (forall t vaf, possible_subcommand c (45 :: t) vaf = None) ->
  forall chs ch0 rest ls st,
  Forall (fun ch => ch < 128 /\ ch <> 45 /\ exists a, get_short c ch = Some a /\ a_takes_value a = false) (ch0 :: chs) ->
  l_trailing ls = false -> l_pst ls = PSValuesDone -> no_hyphen_pos c (l_pos ls) -> fs_skip st = 0 ->
  parse_loop c ((45 :: ch0 :: chs) :: rest) ls st =
  parse_loop c (map (fun ch => [45; ch]) (ch0 :: chs) ++ rest) ls st.
Proof. exact cluster_vs_singles. Qed.
Print Assumptions C08_cluster_vs_singles.

Theorem C08_cluster_vs_singles_line : forall c0 bin,
  is_set s_no_binary_name c0 = false -> is_set s_ignore_errors (build_self (top_cmd c0 bin)) = false ->
  forall chs ch0 rest,
  let c := build_self (top_cmd c0 bin) in
  (forall x, find_short_subcmd c x = None) -> (forall t vaf, possible_subcommand c (45 :: t) vaf = None) ->
  Forall (fun ch => ch < 128 /\ ch <> 45 /\ exists a, get_short c ch = Some a /\ a_takes_value a = false) (ch0 :: chs) ->
  no_hyphen_pos c 1 ->
  parse_top c0 (bin :: (45 :: ch0 :: chs) :: rest) = parse_top c0 (bin :: map (fun ch => [45; ch]) (ch0 :: chs) ++ rest).
Proof. exact cluster_vs_singles_top. Qed.
Print Assumptions C08_cluster_vs_singles_line.

(** the decidable sufficient conditions used in the examples are sound *)
Theorem C08_class_criteria : forall c,
  (forall i, opt_id_b c i = true -> forall k b, get_pos c k = Some b -> beq i (a_id b) = false) /\
  (no_dash_names c = true -> forall t vaf, possible_subcommand c (45 :: t) vaf = None) /\
  (no_short_subs_b c = true -> forall x, find_short_subcmd c x = None).
Proof. exact (fun c => conj (opt_id_of_b c) (conj (dash_not_sub_of_b c) (no_short_subs_of_b c))). Qed.
Print Assumptions C08_class_criteria.

(** alias = canonical name, unique prefix = full name (any two spellings the lookup resolves alike) *)
Theorem C08_long_respell : forall c l1 l2 v a tokA tokB rest ls st,
  flag_site c ls tokA -> flag_site c ls tokB ->
  to_long tokA = Some (l1, true, v) -> to_long tokB = Some (l2, true, v) ->
  (is_nil l1 && negb (is_some v)) = false -> (is_nil l2 && negb (is_some v)) = false ->
  lookup_long c l1 = Some a -> lookup_long c l2 = Some a ->
  parse_loop c (tokA :: rest) ls st = parse_loop c (tokB :: rest) ls st.
Proof. exact long_respell. Qed.
Print Assumptions C08_long_respell.

Theorem C08_long_alias_vs_name : forall c a l0 l vis v tokA tokB rest ls st,
  long_unique c -> In a (c_args c) -> a_index a = None ->
  a_long a = Some l0 -> In (l, vis) (a_aliases a) ->
  flag_site c ls tokA -> flag_site c ls tokB ->
  to_long tokA = Some (l, true, v) -> to_long tokB = Some (l0, true, v) ->
  (is_nil l && negb (is_some v)) = false -> (is_nil l0 && negb (is_some v)) = false ->
  parse_loop c (tokA :: rest) ls st = parse_loop c (tokB :: rest) ls st.
Proof. exact long_alias_vs_name. Qed.
Print Assumptions C08_long_alias_vs_name.

Theorem C08_long_prefix_vs_name : forall c a p l0 v tokA tokB rest ls st,
  lookup_long c p = Some a -> get_long c l0 = Some a ->
  flag_site c ls tokA -> flag_site c ls tokB ->
  to_long tokA = Some (p, true, v) -> to_long tokB = Some (l0, true, v) ->
  (is_nil p && negb (is_some v)) = false -> (is_nil l0 && negb (is_some v)) = false ->
  parse_loop c (tokA :: rest) ls st = parse_loop c (tokB :: rest) ls st.
Proof. exact long_prefix_vs_name. Qed.
Print Assumptions C08_long_prefix_vs_name.

Theorem C08_short_respell : forall c ch1 ch2 a r1 r2 r' tokA tokB rest ls st,
  (forall x, find_short_subcmd c x = None) ->
  short_site c ls tokA -> short_site c ls tokB ->
  to_short tokA = Some r1 -> sf_next r1 = Some (inl ch1, r') ->
  to_short tokB = Some r2 -> sf_next r2 = Some (inl ch2, r') ->
  get_short c ch1 = Some a -> get_short c ch2 = Some a -> fs_skip st = 0 ->
  parse_loop c (tokA :: rest) ls st = parse_loop c (tokB :: rest) ls st.
Proof. exact short_respell. Qed.
Print Assumptions C08_short_respell.

Theorem C08_long_respell_line : forall c0 bin,
  is_set s_no_binary_name c0 = false -> is_set s_ignore_errors (build_self (top_cmd c0 bin)) = false ->
  forall l1 l2 v a tokA tokB rest,
  let c := build_self (top_cmd c0 bin) in
  flag_site c ls_top tokA -> flag_site c ls_top tokB ->
  to_long tokA = Some (l1, true, v) -> to_long tokB = Some (l2, true, v) ->
  (is_nil l1 && negb (is_some v)) = false -> (is_nil l2 && negb (is_some v)) = false ->
  lookup_long c l1 = Some a -> lookup_long c l2 = Some a ->
  parse_top c0 (bin :: tokA :: rest) = parse_top c0 (bin :: tokB :: rest).
Proof. exact long_respell_top. Qed.
Print Assumptions C08_long_respell_line.

Theorem C08_short_respell_line : forall c0 bin,
  is_set s_no_binary_name c0 = false -> is_set s_ignore_errors (build_self (top_cmd c0 bin)) = false ->
  forall ch1 ch2 a r1 r2 r' tokA tokB rest,
  let c := build_self (top_cmd c0 bin) in
  (forall x, find_short_subcmd c x = None) -> short_site c ls_top tokA -> short_site c ls_top tokB ->
  to_short tokA = Some r1 -> sf_next r1 = Some (inl ch1, r') ->
  to_short tokB = Some r2 -> sf_next r2 = Some (inl ch2, r') ->
  get_short c ch1 = Some a -> get_short c ch2 = Some a ->
  parse_top c0 (bin :: tokA :: rest) = parse_top c0 (bin :: tokB :: rest).
Proof. exact short_respell_top. Qed.
Print Assumptions C08_short_respell_line.

(** the occurrence behind a prefix of separate flag tokens (successful lines) *)
Theorem C08_flags_prefix_congr : forall c X Y,
  (forall t vaf, possible_subcommand c (45 :: t) vaf = None) ->
  forall chs ls st,
  Forall (fun ch => ch < 128 /\ ch <> 45 /\ exists a, get_short c ch = Some a /\ a_takes_value a = false) chs ->
  l_trailing ls = false -> l_pst ls = PSValuesDone -> no_hyphen_pos c (l_pos ls) -> fs_skip st = 0 ->
  (forall ls' st' lr, l_trailing ls' = false -> l_pst ls' = PSValuesDone -> l_pos ls' = l_pos ls -> fs_skip st' = 0 ->
     parse_loop c X ls' st' = ROk lr -> res_rel c (parse_loop c Y ls' st') (ROk lr)) ->
  forall lr, parse_loop c (map (fun ch => [45; ch]) chs ++ X) ls st = ROk lr ->
  res_rel c (parse_loop c (map (fun ch => [45; ch]) chs ++ Y) ls st) (ROk lr).
Proof. exact flags_prefix_congr. Qed.
Print Assumptions C08_flags_prefix_congr.

Theorem C08_after_flags_long_space_vs_eq_line : forall c0 bin chs l v a r tokA tokB rest m,
  is_set s_no_binary_name c0 = false ->
  let c := build_self (top_cmd c0 bin) in
  is_set s_ignore_errors c = false -> is_set s_sub_precedence c = false ->
  (forall t vaf, possible_subcommand c (45 :: t) vaf = None) ->
  Forall (fun ch => ch < 128 /\ ch <> 45 /\ exists a, get_short c ch = Some a /\ a_takes_value a = false) chs ->
  no_hyphen_pos c 1 ->
  is_escape tokA = false -> is_escape tokB = false ->
  possible_subcommand c tokA false = None -> possible_subcommand c tokB false = None ->
  to_long tokA = Some (l, true, Some v) -> to_long tokB = Some (l, true, None) ->
  lookup_long c l = Some a -> single_opt c a r -> plain_value a v ->
  parse_top c0 (bin :: map (fun ch => [45; ch]) chs ++ tokA :: rest) = OOk m ->
  parse_top c0 (bin :: map (fun ch => [45; ch]) chs ++ tokB :: v :: rest) = OOk m.
Proof. exact after_flags_long_space_vs_eq_top. Qed.
Print Assumptions C08_after_flags_long_space_vs_eq_line.

Theorem C08_flags_prefix_congr_eq : forall c X Y,
  (forall t vaf, possible_subcommand c (45 :: t) vaf = None) ->
  forall chs ls st,
  Forall (fun ch => ch < 128 /\ ch <> 45 /\ exists a, get_short c ch = Some a /\ a_takes_value a = false) chs ->
  l_trailing ls = false -> l_pst ls = PSValuesDone -> no_hyphen_pos c (l_pos ls) -> fs_skip st = 0 ->
  (forall ls' st', l_trailing ls' = false -> l_pst ls' = PSValuesDone -> l_pos ls' = l_pos ls -> fs_skip st' = 0 ->
     parse_loop c X ls' st' = parse_loop c Y ls' st') ->
  parse_loop c (map (fun ch => [45; ch]) chs ++ X) ls st = parse_loop c (map (fun ch => [45; ch]) chs ++ Y) ls st.
Proof. exact flags_prefix_congr_eq. Qed.
Print Assumptions C08_flags_prefix_congr_eq.

Theorem C08_after_flags_long_respell : forall c chs l1 l2 v a tokA tokB rest ls st,
  (forall t vaf, possible_subcommand c (45 :: t) vaf = None) ->
  Forall (fun ch => ch < 128 /\ ch <> 45 /\ exists a, get_short c ch = Some a /\ a_takes_value a = false) chs ->
  l_trailing ls = false -> l_pst ls = PSValuesDone -> no_hyphen_pos c (l_pos ls) -> fs_skip st = 0 ->
  is_escape tokA = false -> is_escape tokB = false ->
  possible_subcommand c tokA false = None -> possible_subcommand c tokB false = None ->
  to_long tokA = Some (l1, true, v) -> to_long tokB = Some (l2, true, v) ->
  (is_nil l1 && negb (is_some v)) = false -> (is_nil l2 && negb (is_some v)) = false ->
  lookup_long c l1 = Some a -> lookup_long c l2 = Some a ->
  parse_loop c (map (fun ch => [45; ch]) chs ++ tokA :: rest) ls st =
  parse_loop c (map (fun ch => [45; ch]) chs ++ tokB :: rest) ls st.
Proof. exact after_flags_long_respell. Qed.
Print Assumptions C08_after_flags_long_respell.

(** observation: the success hypothesis is needed (different error kinds for a rejected value) *)
Theorem C08_spelling_needs_success_witness : exists c0 tokA tokB v rest,
  out_kind (parse_top c0 ([112] :: tokA :: rest)) = Some EInvalidUtf8 /\
  out_kind (parse_top c0 ([112] :: tokB :: v :: rest)) = Some EUnknownArgument.
Proof. exact spelling_needs_success_witness. Qed.
Print Assumptions C08_spelling_needs_success_witness.

(** * Round 3 *)

(** ** the generic decomposition of the token loop (ParseProofs/SpellingStep.v)
    [step c rest tok ls st]: one iteration as a function -- "go on from (ls', st')" or the way the loop is left;
    [run c pre tail ls st]: [step] iterated over a prefix.  The model's loop body IS [step] followed by the loop on
    the rest (every recursive call is a tail call), for every command, token and state: *)
Theorem C08_loop_is_step : forall c tok rest ls st,
  parse_loop c (tok :: rest) ls st =
  match step c rest tok ls st with
  | SGo ls1 st1 => parse_loop c rest ls1 st1
  | SExit x => exit_res tok rest x
  end.
Proof. exact (fun c tok rest ls st => eq_trans (parse_loop_cons c tok rest ls st) (iteration_step c (parse_loop c rest) rest tok ls st)). Qed.
Print Assumptions C08_loop_is_step.

(** ANY prefix, ANY tail: [parse_loop (pre ++ tail)] = run [pre], then [parse_loop tail] from the state reached
    (or the exit taken inside [pre], the unread tokens being its payload) *)
Theorem C08_run_split : forall c pre tail ls st,
  parse_loop c (pre ++ tail) ls st =
  match run c pre tail ls st with
  | inl (ls', st') => parse_loop c tail ls' st'
  | inr (x, tok, pre') => exit_res tok (pre' ++ tail) x
  end.
Proof. exact run_split. Qed.
Print Assumptions C08_run_split.

(** the run over a prefix reads the tail only through the look-ahead of the positional counter correction *)
Theorem C08_run_lookahead_only : forall c pre t1 t2 ls st,
  (forall ls', pos_counter c t1 ls' = pos_counter c t2 ls') -> run c pre t1 ls st = run c pre t2 ls st.
Proof. exact run_la. Qed.
Print Assumptions C08_run_lookahead_only.

Theorem C08_lookahead_first_token : forall c n r1 r2 ls, pos_counter c (n :: r1) ls = pos_counter c (n :: r2) ls.
Proof. exact (fun c n r1 r2 => la_eq_head c n r1 r2). Qed.
Print Assumptions C08_lookahead_first_token.

(** a line that ends at this level has run through every prefix of itself: the hypothesis [run .. = inl ..] of the
    theorems below holds for every successful line whose last level is this one *)
Theorem C08_run_of_done : forall c pre tail ls st s, parse_loop c (pre ++ tail) ls st = ROk (LDone s) ->
  exists ls' st', run c pre tail ls st = inl (ls', st') /\ parse_loop c tail ls' st' = ROk (LDone s).
Proof. exact run_of_done. Qed.
Print Assumptions C08_run_of_done.

(** the loop only hands over states with [flag_subcmd_skip = 0]: the hypothesis [fs_skip st = 0] of the spelling
    theorems holds at every state a prefix leads to (the line starts from [ps_new]) *)
Theorem C08_step_keeps_skip0 : forall c rest tok ls st ls1 st1,
  fs_skip st = 0 -> step c rest tok ls st = SGo ls1 st1 -> fs_skip st1 = 0.
Proof. exact step_fs. Qed.
Print Assumptions C08_step_keeps_skip0.

Theorem C08_run_keeps_skip0 : forall c pre tail ls st ls' st',
  fs_skip st = 0 -> run c pre tail ls st = inl (ls', st') -> fs_skip st' = 0.
Proof. exact run_fs. Qed.
Print Assumptions C08_run_keeps_skip0.

Theorem C08_run_app : forall c p q tail ls st,
  run c (p ++ q) tail ls st =
  match run c p (q ++ tail) ls st with
  | inl (ls', st') => run c q tail ls' st'
  | inr (x, tok, p') => inr (x, tok, p' ++ q)
  end.
Proof. exact run_app. Qed.
Print Assumptions C08_run_app.

(** ** an explicit [--] before positionals that do not look like flags (ParseProofs/SpellingDash.v) *)
Theorem C08_dash_classes_meaning : forall c,
  (forall s, er s = s <| mt := (mt s) <| mt_pending :=
                 opt_map (fun p => p <| p_trailing_idx := None |>) (mt_pending (mt s)) |> |>) /\
  (dd_class c <-> is_set s_allow_missing_pos c = false /\ is_set s_dont_delimit_trailing c = false /\
                  forall a, In a (c_args c) -> a_last a = false) /\
  (forall t, pos_tok c t <->
     is_escape t = false /\ to_long t = None /\ to_short t = None /\ possible_subcommand c t false = None) /\
  (forall ls, dd_site c ls <->
     l_trailing ls = false /\ (forall i, l_pst ls <> PSOpt i) /\
     match state_arg c (l_pst ls) with ROk (Some b) => a_hyphen b = false | ROk None => True | _ => False end /\
     possible_subcommand c dd false = None).
Proof. exact dash_classes_meaning. Qed.
Print Assumptions C08_dash_classes_meaning.

Theorem C08_dd_rel_meaning : forall r2 r', dd_rel r2 r' ->
  r2 = r' \/
  (exists s2 s', r2 = ROk (LDone s2) /\ r' = ROk (LDone s') /\ er s2 = er s') \/
  (exists n vals s2 s', r2 = ROk (LExternal n vals s2) /\ r' = ROk (LExternal n vals s') /\ er s2 = er s').
Proof. exact dd_rel_meaning. Qed.
Print Assumptions C08_dd_rel_meaning.

(** without [dont_delimit_trailing_values] flushing does not read the trailing index *)
Theorem C08_flush_ignores_trailing_index : forall c s2 s', is_set s_dont_delimit_trailing c = false ->
  er s2 = er s' -> resolve_pending c s2 = resolve_pending c s'.
Proof. exact (fun c s2 s' D => resolve_teq c D s2 s'). Qed.
Print Assumptions C08_flush_ignores_trailing_index.

(** the second bisimulation: loop states equal up to [l_trailing], parser states equal up to [p_trailing_idx];
    ALL lines of positional-looking tokens *)
Theorem C08_dashdash_bisim : forall c, dd_class c -> forall tail lB lA sB sA,
  Forall (pos_tok c) tail ->
  l_pst lB = l_pst lA -> l_pos lB = l_pos lA -> l_vaf lB = l_vaf lA -> l_trailing lB = true ->
  (l_trailing lA = true \/ forall i, l_pst lA <> PSOpt i) ->
  er sB = er sA ->
  dd_rel (parse_loop c tail lB sB) (parse_loop c tail lA sA).
Proof.
  exact (fun c K tail lB lA sB sA F a b c0 d e H =>
           dash_bisim c (proj1 (proj2 K)) (proj1 K) (proj2 (proj2 K)) tail lB lA sB sA F
                      (conj a (conj b (conj c0 (conj d e)))) H).
Qed.
Print Assumptions C08_dashdash_bisim.

(** the look-ahead of low-index multiples cannot tell the bare [--] from a positional value *)
Theorem C08_dashdash_lookahead : forall c v t t' ls, pos_tok c v -> possible_subcommand c dd false = None ->
  pos_counter c (dd :: t') ls = pos_counter c (v :: t) ls.
Proof. exact (fun c v t t' ls P Q => la_dd c v t t' P Q ls). Qed.
Print Assumptions C08_dashdash_lookahead.

(** [pre -- tail] vs [pre tail], any prefix, at the loop level *)
Theorem C08_explicit_dashdash_loop : forall c pre tail ls st ls' st',
  dd_class c -> Forall (pos_tok c) tail -> tail <> [] ->
  run c pre tail ls st = inl (ls', st') -> dd_site c ls' ->
  dd_rel (parse_loop c (pre ++ dd :: tail) ls st) (parse_loop c (pre ++ tail) ls st).
Proof.
  exact (fun c pre tail ls st ls' st' K => dash_anywhere c (proj1 (proj2 K)) (proj1 K) (proj2 (proj2 K)) pre tail ls st ls' st').
Qed.
Print Assumptions C08_explicit_dashdash_loop.

(** whole line: [p pre -- tail] = [p pre tail] *)
Theorem C08_explicit_dashdash : forall c0 bin pre tail ls' st',
  is_set s_no_binary_name c0 = false ->
  let c := build_self (top_cmd c0 bin) in
  is_set s_ignore_errors c = false -> dd_class c ->
  Forall (pos_tok c) tail -> tail <> [] ->
  run c pre tail ls_top ps_new = inl (ls', st') -> dd_site c ls' ->
  parse_top c0 (bin :: pre ++ dd :: tail) = parse_top c0 (bin :: pre ++ tail).
Proof. exact dash_top. Qed.
Print Assumptions C08_explicit_dashdash.

(** the same at any level of the tree (the level a subcommand name selected starts in [ls_top] from [ps_new]) *)
Theorem C08_explicit_dashdash_level : forall c f pre tail ls' st',
  is_set s_ignore_errors c = false -> dd_class c ->
  Forall (pos_tok c) tail -> tail <> [] ->
  run c pre tail ls_top ps_new = inl (ls', st') -> dd_site c ls' ->
  gmw_rel (get_matches_with (S f) c (pre ++ dd :: tail) ps_new) (get_matches_with (S f) c (pre ++ tail) ps_new).
Proof. exact dash_level. Qed.
Print Assumptions C08_explicit_dashdash_level.

(** the documented exceptions and the empty-tail observation (replayed on the implementation) *)
Theorem C08_dashdash_exceptions :
  valid w_last = true /\ differ (parse_top w_last [w_P; t_a]) (parse_top w_last [w_P; dd; t_a]) /\
  valid w_miss = true /\ differ (parse_top w_miss [w_P; t_a; t_b]) (parse_top w_miss [w_P; dd; t_a; t_b]) /\
  valid w_ddt = true /\ differ (parse_top w_ddt [w_P; [97; 44; 98]]) (parse_top w_ddt [w_P; dd; [97; 44; 98]]) /\
  valid w_opt = true /\ differ (parse_top w_opt [w_P; [45; 45; 111; 112; 116]; t_a]) (parse_top w_opt [w_P; [45; 45; 111; 112; 116]; dd; t_a]) /\
  valid w_sub = true /\ differ (parse_top w_sub [w_P; [114; 117; 110]]) (parse_top w_sub [w_P; dd; [114; 117; 110]]).
Proof. exact dashdash_exceptions. Qed.
Print Assumptions C08_dashdash_exceptions.

Theorem C08_dashdash_empty_tail_witness :
  out_ok (parse_top exd_cmd [[112]; t_a; t_b; t_c]) = true /\
  out_kind (parse_top exd_cmd [[112]; t_a; t_b; t_c; dd]) = Some EMissingRequiredArgument.
Proof. exact dashdash_empty_tail_witness. Qed.
Print Assumptions C08_dashdash_empty_tail_witness.

(** ** a rewritten occurrence ANYWHERE: arbitrary prefix, any level of the tree, compositions (ParseProofs/SpellingTree.v) *)

(** [lvl_equiv]: one level of [get_matches_with] cannot tell two loop results apart; both bisimulation relations imply it *)
Theorem C08_lvl_equiv_meaning : forall c r1 r2, lvl_equiv c r1 r2 <->
  forall f, gmw_rel (post c (do lr <- r1; dispatch_lr c f lr)) (post c (do lr <- r2; dispatch_lr c f lr)).
Proof. exact (fun c r1 r2 => iff_refl _). Qed.
Print Assumptions C08_lvl_equiv_meaning.

Theorem C08_lvl_equiv_sources : forall c r1 r2, is_set s_ignore_errors c = false ->
  (r1 = r2 -> lvl_equiv c r1 r2) /\
  (res_rel c r1 r2 -> lvl_equiv c r1 r2) /\
  (is_set s_dont_delimit_trailing c = false -> dd_rel r1 r2 -> lvl_equiv c r1 r2) /\
  (lvl_equiv c r1 r2 -> lvl_equiv c r2 r1) /\
  (forall r3, lvl_equiv c r1 r2 -> lvl_equiv c r2 r3 -> lvl_equiv c r1 r3).
Proof.
  exact (fun c r1 r2 IE => conj (lvl_of_eq c r1 r2) (conj (lvl_of_res_rel c r1 r2 IE)
          (conj (fun D => lvl_of_dd_rel c r1 r2 IE D) (conj (lvl_sym c r1 r2) (fun r3 => lvl_trans c r1 r2 r3))))).
Qed.
Print Assumptions C08_lvl_equiv_sources.

(** what [occ_at] says (inversion principle, so that the definition cannot drift) *)
Theorem C08_occ_at_meaning : forall TX TY c pre st0, occ_at TX TY c pre st0 ->
  (forall ls, pos_counter c TX ls = pos_counter c TY ls) /\
  ((exists ls' st', run c pre TX ls_top st0 = inl (ls', st') /\
                    lvl_equiv c (parse_loop c TX ls' st') (parse_loop c TY ls' st')) \/
   (exists n vaf st tok pre' sc0 sc,
      is_set s_ignore_errors c = false /\
      run c pre TX ls_top st0 = inr (XSub n false vaf st, tok, pre') /\
      find_subcommand c n = Some sc0 /\ build_subcommand c (c_name sc0) = Some sc /\
      occ_at TX TY sc pre' ps_new)).
Proof. exact occ_at_meaning. Qed.
Print Assumptions C08_occ_at_meaning.

(** the occurrence anywhere in the tree: [get_matches_with] agrees at every fuel *)
Theorem C08_respell_tree : forall TX TY c pre st0, occ_at TX TY c pre st0 ->
  forall f, gmw_rel (get_matches_with f c (pre ++ TX) st0) (get_matches_with f c (pre ++ TY) st0).
Proof. exact respell_tree. Qed.
Print Assumptions C08_respell_tree.

Theorem C08_respell_top : forall TX TY c0 bin pre,
  is_set s_no_binary_name c0 = false ->
  let c := build_self (top_cmd c0 bin) in
  is_set s_ignore_errors c = false -> occ_at TX TY c pre ps_new ->
  parse_top c0 (bin :: pre ++ TX) = parse_top c0 (bin :: pre ++ TY).
Proof. exact respell_top. Qed.
Print Assumptions C08_respell_top.

(** behind an arbitrary prefix of its own level *)
Theorem C08_respell_anywhere : forall c0 bin pre TX TY ls' st',
  is_set s_no_binary_name c0 = false ->
  let c := build_self (top_cmd c0 bin) in
  is_set s_ignore_errors c = false -> (forall ls, pos_counter c TX ls = pos_counter c TY ls) ->
  run c pre TX ls_top ps_new = inl (ls', st') ->
  lvl_equiv c (parse_loop c TX ls' st') (parse_loop c TY ls' st') ->
  parse_top c0 (bin :: pre ++ TX) = parse_top c0 (bin :: pre ++ TY).
Proof. exact respell_anywhere. Qed.
Print Assumptions C08_respell_anywhere.

(** COMPOSITION: any chain of rewrites, each applicable to the line the previous ones produced *)
Theorem C08_respell_chain_meaning : forall c L L', respell_chain c L L' ->
  L = L' \/ exists pre TX TY, L = pre ++ TX /\ occ_at TX TY c pre ps_new /\ respell_chain c (pre ++ TY) L'.
Proof. exact respell_chain_meaning. Qed.
Print Assumptions C08_respell_chain_meaning.

Theorem C08_spelling_compose : forall c0 bin L L',
  is_set s_no_binary_name c0 = false ->
  let c := build_self (top_cmd c0 bin) in
  is_set s_ignore_errors c = false -> respell_chain c L L' ->
  parse_top c0 (bin :: L) = parse_top c0 (bin :: L').
Proof. exact respell_chain_top. Qed.
Print Assumptions C08_spelling_compose.

(** sufficient conditions for the look-ahead hypothesis *)
Theorem C08_lookahead_criteria : forall c,
  (no_lookahead c -> forall r1 r2 ls, pos_counter c r1 ls = pos_counter c r2 ls) /\
  (forall t1 t2 r1 r2 ls, flag_tok t1 -> flag_tok t2 -> pa_is_negative_number t1 = pa_is_negative_number t2 ->
     possible_subcommand c t1 false = None -> possible_subcommand c t2 false = None ->
     pos_counter c (t1 :: r1) ls = pos_counter c (t2 :: r2) ls) /\
  (forall t1 t2 n1 n2 r1 r2 ls,
     possible_subcommand c t1 false = Some n1 -> possible_subcommand c t2 false = Some n2 ->
     is_escape t1 = false -> to_long t1 = None -> to_short t1 = None ->
     is_escape t2 = false -> to_long t2 = None -> to_short t2 = None ->
     pos_counter c (t1 :: r1) ls = pos_counter c (t2 :: r2) ls).
Proof.
  exact (fun c => conj (fun N r1 r2 ls => la_none c r1 r2 N ls)
          (conj (fun t1 t2 r1 r2 ls F1 F2 NN P1 P2 => la_flags c t1 t2 r1 r2 F1 F2 NN P1 P2 ls)
                (fun t1 t2 n1 n2 r1 r2 ls P1 P2 E1 L1 S1 E2 L2 S2 =>
                   la_subs_some c t1 t2 n1 n2 r1 r2 P1 P2 E1 L1 S1 E2 L2 S2 ls))).
Qed.
Print Assumptions C08_lookahead_criteria.

Theorem C08_lookahead_classes_meaning : forall c,
  (no_lookahead c <->
     is_set s_allow_missing_pos c = false /\
     (existsb (fun a => a_is_multiple a && negb (positional_count c =? opt_default 0 (a_index a))) (positionals c)
      && match last (map Some (positionals c)) None with Some p => negb (a_last p) | None => false end) = false) /\
  (forall t, flag_tok t <-> is_escape t = false /\ (to_long t <> None \/ to_short t <> None)).
Proof. exact (fun c => conj (iff_refl _) (fun t => iff_refl _)). Qed.
Print Assumptions C08_lookahead_classes_meaning.

(** instances: [--opt=v] vs [--opt v], and a cluster vs its flags, behind ANY prefix the loop runs through *)
Theorem C08_long_space_vs_eq_anywhere : forall c0 bin pre l v a r tokA tokB rest ls' st' x0,
  is_set s_no_binary_name c0 = false ->
  let c := build_self (top_cmd c0 bin) in
  is_set s_ignore_errors c = false -> is_set s_sub_precedence c = false ->
  (forall ls, pos_counter c (tokA :: rest) ls = pos_counter c (tokB :: v :: rest) ls) ->
  run c pre (tokA :: rest) ls_top ps_new = inl (ls', st') ->
  flag_site c ls' tokA -> flag_site c ls' tokB ->
  to_long tokA = Some (l, true, Some v) -> to_long tokB = Some (l, true, None) ->
  lookup_long c l = Some a -> single_opt c a r -> plain_value a v ->
  react c (Some ILong) SCmdLine a [v] None st' = ROk x0 ->
  parse_top c0 (bin :: pre ++ tokA :: rest) = parse_top c0 (bin :: pre ++ tokB :: v :: rest).
Proof. exact long_space_vs_eq_anywhere. Qed.
Print Assumptions C08_long_space_vs_eq_anywhere.

Theorem C08_cluster_vs_singles_anywhere : forall c0 bin pre chs ch0 rest ls' st',
  is_set s_no_binary_name c0 = false ->
  let c := build_self (top_cmd c0 bin) in
  is_set s_ignore_errors c = false ->
  (forall x, find_short_subcmd c x = None) -> (forall t vaf, possible_subcommand c (45 :: t) vaf = None) ->
  (forall ls, pos_counter c ((45 :: ch0 :: chs) :: rest) ls = pos_counter c (map (fun ch => [45; ch]) (ch0 :: chs) ++ rest) ls) ->
  run c pre ((45 :: ch0 :: chs) :: rest) ls_top ps_new = inl (ls', st') ->
  Forall (fun ch => ch < 128 /\ ch <> 45 /\ exists a, get_short c ch = Some a /\ a_takes_value a = false) (ch0 :: chs) ->
  l_trailing ls' = false -> l_pst ls' = PSValuesDone -> no_hyphen_pos c (l_pos ls') ->
  parse_top c0 (bin :: pre ++ (45 :: ch0 :: chs) :: rest) =
  parse_top c0 (bin :: pre ++ map (fun ch => [45; ch]) (ch0 :: chs) ++ rest).
Proof. exact cluster_vs_singles_anywhere. Qed.
Print Assumptions C08_cluster_vs_singles_anywhere.

(** ** subcommand alias / inferred prefix vs canonical name: two tokens the lookup answers with names that
    [find_subcommand] resolves to the same child are level-equivalent (with [C08_respell_anywhere]: whole lines) *)
Theorem C08_sub_name_respell : forall c t1 t2 n1 n2 rest ls st,
  l_trailing ls = false ->
  (is_set s_sub_precedence c || match l_pst ls with PSValuesDone => true | _ => false end) = true ->
  possible_subcommand c t1 (l_vaf ls) = Some n1 -> possible_subcommand c t2 (l_vaf ls) = Some n2 ->
  (beq n1 s_help && negb (is_set s_disable_help_sub c)) = false ->
  (beq n2 s_help && negb (is_set s_disable_help_sub c)) = false ->
  find_subcommand c n1 = find_subcommand c n2 ->
  lvl_equiv c (parse_loop c (t1 :: rest) ls st) (parse_loop c (t2 :: rest) ls st).
Proof. exact sub_name_respell. Qed.
Print Assumptions C08_sub_name_respell.

(** ** detached vs attached values that look like negative numbers (ParseProofs/SpellingNeg.v) *)

(** the parser model's [is_number] accepts exactly the number language of the lexer (C13: [number_lang]) *)
Theorem C08_is_number_lang : forall s, is_number s = true <-> LexProofs.number_lang s.
Proof. exact is_number_lang. Qed.
Print Assumptions C08_is_number_lang.

Theorem C08_negnum_classes_meaning : forall c,
  (forall a v, negnum_value a v <->
     a_negnum a = true /\ (exists r, to_short v = Some r /\ sf_is_negative_number r = true) /\
     check_terminator a v = false) /\
  (forall a v, takes_as_value c a v <->
     forall rest pos vaf st,
     parse_loop c (v :: rest) (mkL (PSOpt (a_id a)) pos vaf false) st =
     (do a0 <- expect 290 (find_arg c (a_id a));
      if check_terminator a0 v then parse_loop c rest (mkL PSValuesDone pos vaf false) st
      else do y <- take_value c (a_id a) v st;
           parse_loop c rest (mkL (if snd y then PSOpt (a_id a) else PSValuesDone) pos vaf false) (fst y))).
Proof. exact (fun c => conj (fun a v => iff_refl _) (fun a v => iff_refl _)). Qed.
Print Assumptions C08_negnum_classes_meaning.

(** EVERY [-m] with [m] in the number language is a negative-number value of an option that allows them *)
Theorem C08_number_is_negnum_value : forall a m,
  a_negnum a = true -> utf8_valid m = true -> m <> [] -> hd 0 m <> 45 ->
  LexProofs.number_lang m -> check_terminator a (45 :: m) = false -> negnum_value a (45 :: m).
Proof. exact number_is_negnum_value. Qed.
Print Assumptions C08_number_is_negnum_value.

(** with the option waiting, the loop hands such a token to it (MaybeHyphenValue route), as it does a plain token *)
Theorem C08_negnum_token_is_value : forall c a v,
  is_set s_sub_precedence c = false -> find_arg c (a_id a) = Some a ->
  (negnum_value a v \/ plain_value a v) -> takes_as_value c a v.
Proof.
  exact (fun c a v SP FA H => match H with
                              | or_introl N => negnum_takes c a v SP FA N
                              | or_intror P => plain_takes c a v SP P
                              end).
Qed.
Print Assumptions C08_negnum_token_is_value.

(** [--opt v] = [--opt=v] and [-o v] = [-ov] for ANY token the loop hands to the option *)
Theorem C08_long_space_vs_eq_any_value : forall c l v a r tokA tokB rest ls st x0,
  flag_site c ls tokA -> flag_site c ls tokB ->
  to_long tokA = Some (l, true, Some v) -> to_long tokB = Some (l, true, None) ->
  lookup_long c l = Some a -> single_opt c a r -> takes_as_value c a v -> check_terminator a v = false ->
  fs_skip st = 0 ->
  react c (Some ILong) SCmdLine a [v] None st = ROk x0 ->
  res_rel c (parse_loop c (tokB :: v :: rest) ls st) (parse_loop c (tokA :: rest) ls st).
Proof. exact long_space_vs_eq_vs. Qed.
Print Assumptions C08_long_space_vs_eq_any_value.

Theorem C08_short_space_vs_att_any_value : forall c ch a r b t rA rB tokA tokB rest ls st x0,
  short_site c ls tokA -> short_site c ls tokB ->
  to_short tokA = Some rA -> sf_next rA = Some (inl ch, b :: t) -> b <> 61 ->
  to_short tokB = Some rB -> sf_next rB = Some (inl ch, []) ->
  get_short c ch = Some a -> single_opt c a r -> takes_as_value c a (b :: t) -> check_terminator a (b :: t) = false ->
  fs_skip st = 0 ->
  react c (Some IShort) SCmdLine a [b :: t] None st = ROk x0 ->
  res_rel c (parse_loop c (tokB :: (b :: t) :: rest) ls st) (parse_loop c (tokA :: rest) ls st).
Proof. exact short_space_vs_att_vs. Qed.
Print Assumptions C08_short_space_vs_att_any_value.

(** whole lines: [p --opt -1. rest] = [p --opt=-1. rest], [p -o -1. rest] = [p -o-1. rest] *)
Theorem C08_negnum_long_space_vs_eq_line : forall c0 bin l v a r tokA tokB rest x0,
  is_set s_no_binary_name c0 = false ->
  let c := build_self (top_cmd c0 bin) in
  is_set s_ignore_errors c = false -> is_set s_sub_precedence c = false ->
  flag_site c ls_top tokA -> flag_site c ls_top tokB ->
  to_long tokA = Some (l, true, Some v) -> to_long tokB = Some (l, true, None) ->
  lookup_long c l = Some a -> single_opt c a r -> negnum_value a v ->
  react c (Some ILong) SCmdLine a [v] None ps_new = ROk x0 ->
  parse_top c0 (bin :: tokB :: v :: rest) = parse_top c0 (bin :: tokA :: rest).
Proof. exact long_space_vs_eq_negnum_top. Qed.
Print Assumptions C08_negnum_long_space_vs_eq_line.

Theorem C08_negnum_short_space_vs_att_line : forall c0 bin ch a r b t rA rB tokA tokB rest x0,
  is_set s_no_binary_name c0 = false ->
  let c := build_self (top_cmd c0 bin) in
  is_set s_ignore_errors c = false -> is_set s_sub_precedence c = false ->
  short_site c ls_top tokA -> short_site c ls_top tokB ->
  to_short tokA = Some rA -> sf_next rA = Some (inl ch, b :: t) -> b <> 61 ->
  to_short tokB = Some rB -> sf_next rB = Some (inl ch, []) ->
  get_short c ch = Some a -> single_opt c a r -> negnum_value a (b :: t) ->
  react c (Some IShort) SCmdLine a [b :: t] None ps_new = ROk x0 ->
  parse_top c0 (bin :: tokB :: (b :: t) :: rest) = parse_top c0 (bin :: tokA :: rest).
Proof. exact short_space_vs_att_negnum_top. Qed.
Print Assumptions C08_negnum_short_space_vs_att_line.

(** the four documented shapes [-1], [-1.], [-2.5], [-1e3] are such values (pins the model's lexer test) *)
Theorem C08_negnum_documented_shapes :
  Forall (fun v => negnum_value exn_scale v) [n_1; n_1dot; n_2_5; n_1e3] /\
  Forall (fun m => LexProofs.number_lang m) [[49]; [49; 46]; [50; 46; 53]; [49; 101; 51]].
Proof. exact exn_numbers. Qed.
Print Assumptions C08_negnum_documented_shapes.
