(** Property C15: derived parsers are exactly their command plus field extraction, and round-trip.
    This file contains only the pinned statements; the model is Derive/DeriveModel.v, the proofs and
    the specification vocabulary ([shape_spec], [guar_nodes], [wf_nodes], [frame_nodes], [field_at],
    [names_disjoint]) are in Derive/DeriveProofs.v. *)
From ClapModel Require Import Base.Bytes Base.Utf8 Base.Machine.
From ClapModel Require Import Parse.Cmd Parse.Build Parse.Valid Parse.Matcher Parse.Errors Parse.Parser.
From ClapModel Require Import Value.PossibleValues.
From ClapModel Require Import Value.PossibleValuesProofs Value.ValueParsers ParseProofs.TypedInv ParseProofs.TypedView.
From ClapModel Require Import Derive.DeriveModel Derive.DeriveProofs.
From ClapModel Require Import ParseProofs.Actions ParseProofs.ActionsLoop ParseProofs.Unparse ParseProofs.UnparseTop ParseProofs.UnparseTrail ParseProofs.UnparseTree.
From ClapModel Require Import Derive.DeriveCmd Derive.DeriveArgs Derive.DeriveParse Derive.DeriveUpdate Derive.DeriveAccept Derive.DeriveParseEx.
From ClapModel Require Import Parse.Validator ParseProofs.Relations ParseProofs.ValidateTotal Derive.DerivePost Derive.DerivePostEx.
From ClapModel Require Import ParseProofs.Dispatch Derive.LoopInv Derive.DeriveFlat Derive.DeriveTotal Derive.DeriveTotalEx.
From ClapModel Require Import ParseProofs.KindSound Derive.DeriveUpdateLine Derive.DeriveUpdateLineEx Derive.DeriveDec Derive.DeriveKeys Derive.DerivePos.
From ClapModel Require Import Derive.DeriveEnum Derive.DeriveEnumField Derive.DeriveEnumEx Derive.DeriveAbsent Derive.DeriveOptBool Derive.DeriveOptFlatten Derive.DeriveEnumPos Derive.DeriveRound5More Derive.DeriveOptFlattenNone.
From Coq Require Import ZArith List.
Import ListNotations.
Open Scope N_scope.

(** Derived parsing succeeds exactly when the command's parse does: on every matches that meets the
    generated command's own guarantees, field extraction (from_arg_matches) succeeds.  For all derive
    inputs (field lists, flatten nesting, subcommand enums). *)
Theorem C15_extract_total : forall d m,
  wf_nodes (d_nodes d) -> guar_nodes (d_nodes d) m -> exists vs, extract d m = XOk vs.
Proof. exact extract_total. Qed.
Print Assumptions C15_extract_total.

(** Each field equals what the matches hold for it according to its type shape. *)
Theorem C15_shapes : forall f m v m',
  field_value f m = XOk (v, m') ->
  shape_spec f m v /\ (m' = m \/ m' = m_remove (f_id f) m).
Proof. exact field_value_shapes. Qed.
Print Assumptions C15_shapes.

(** Update changes only what the matches name (one call). *)
Theorem C15_update_frame : forall d vs m vs',
  update d vs m = XOk vs' -> frame_nodes (d_nodes d) m vs vs'.
Proof. exact update_frame. Qed.
Print Assumptions C15_update_frame.

(** ... and for every sequence of update calls. *)
Theorem C15_update_seq_frame : forall d ms vs vs' i,
  update_seq d vs ms = XOk vs' ->
  Forall (fun m => m_contains i m = false) ms ->
  field_at (d_nodes d) vs' i = field_at (d_nodes d) vs i.
Proof. exact update_seq_frame. Qed.
Print Assumptions C15_update_seq_frame.

(** "fields not named on the command line" (argv level) is refuted by the faithful model: the
    implied default of a flag is in the matches of every parse. *)
Theorem C15_update_frame_argv_refuted :
  exists d vs vs', derived_update d vs [b_prog] = PValue vs' /\ vs' <> vs.
Proof.
  exists ex_input, [DOne (SvBool true); DOpt None], [DOne (SvBool false); DOpt None].
  split; [exact update_argv_frame_witness | discriminate].
Qed.
Print Assumptions C15_update_frame_argv_refuted.

(** Every name and alias of a value-enum variant maps back to it, in both comparison modes. *)
Theorem C15_value_enum_names : forall e ic i v name,
  names_disjoint ic e ->
  nth_error e i = Some v -> vv_skip v = false -> In name (name_and_aliases (vv_pv v)) ->
  ve_from_str e name ic = Some i.
Proof. exact value_enum_names. Qed.
Print Assumptions C15_value_enum_names.

Theorem C15_value_enum_sound : forall e s ic i,
  ve_from_str e s ic = Some i ->
  exists v, nth_error e i = Some v /\ vv_skip v = false /\ pv_matches uni (vv_pv v) s ic = true.
Proof. exact value_enum_sound. Qed.
Print Assumptions C15_value_enum_sound.

Theorem C15_value_enum_skipped : forall e i v,
  nth_error e i = Some v -> vv_skip v = true ->
  ve_to_possible_value e i = None /\ forall s ic, ve_from_str e s ic <> Some i.
Proof. exact value_enum_skipped. Qed.
Print Assumptions C15_value_enum_skipped.

(** Printing a value and extracting from the matches of the printed line returns the value
    (matches level; [ok_nodes]: per field the attribute combinations of [field_ok], scalars that print and
    parse back, an optional flatten is Some only when its group is then present). *)
Theorem C15_roundtrip : forall d vs m,
  wf_nodes (d_nodes d) -> wfv_nodes (d_nodes d) -> ~ In (d_gid d) (level_ids (d_nodes d)) ->
  ok_nodes (d_nodes d) vs ->
  matches_of_print d vs = Some m ->
  extract d m = XOk vs.
Proof. exact roundtrip. Qed.
Print Assumptions C15_roundtrip.

(** ... one field, any shape. *)
Theorem C15_roundtrip_field : forall f v g m,
  field_ok f ->
  Forall (srt (f_t f) (f_icase f)) (scalars v) ->
  field_groups f v = Some g ->
  fm_get (f_id f) (ms_args m) = fm_get (f_id f) (field_entry f g) ->
  exists m', field_value f m = XOk (v, m').
Proof. exact field_roundtrip. Qed.
Print Assumptions C15_roundtrip_field.

(** The scalar hypothesis [srt] holds for bool, String, u8 and (under distinct names) value enums.
    (i64: decimal print/parse inversion is not proved; it is checked on every dround case.) *)
Theorem C15_roundtrip_scalars_partial :
  (forall ic x, srt TBool ic x) /\ (forall ic x, srt TStr ic x) /\ (forall ic x, srt TU8 ic x)
  /\ (forall e ic x, names_disjoint ic e -> Forall (fun v => utf8_valid (pv_name (vv_pv v)) = true) e -> srt (TEnum e) ic x).
Proof. exact scalars_roundtrip. Qed.
Print Assumptions C15_roundtrip_scalars_partial.

(** * Composition with the parser model (round 2; Derive/DeriveCmd.v, DeriveArgs.v, DeriveParse.v)

    Vocabulary: [built d bin] = [_build_self] of the generated command with [argv[0]] as binary name;
    [fields_only] = a struct whose members are all argument fields; [kind_ok] = named by [--long] or [-s], the name
    typable, not the generated help flag's; [opt_struct d] = such a struct with pairwise distinct names and ids, no
    [value_delimiter], no nested-vector shape; [nodes_items] = the invocation (C02's items) the canonical printer writes;
    [nodes_occs] = its occurrences, one per printed group; [field_form] / [group_fits] ([printable]) = the printed groups
    have the form of the field's action (Set: one group; Append: at least one; SetTrue: one empty; Count: 1..255 empty)
    and fit the option syntax (no value, or one attached value of an argument that takes values). *)

(** FIRST SENTENCE OF THE PROPERTY.  The derived parser returns a value exactly when the generated command's parse
    succeeds and extraction then succeeds, and it is that value ...  (Round 5: the generated argument of a value-enum
    field carries the real [EnumValueParser] -- [vp_of] = [VPPossible ic (enum_pvs e)] --, so the separate enum value
    check of rounds 1-4 is gone from [derived_parse] and from this statement.) *)
Theorem C15_parse_is_command_then_extract : forall d argv vs,
  derived_parse d argv = PValue vs <->
  exists m, parse_top (derive_cmd d) argv = OOk m /\ extract d m = XOk vs.
Proof. exact parse_factor. Qed.
Print Assumptions C15_parse_is_command_then_extract.

(** ... and it fails with a clap error exactly when the command's parse does or extraction does
    (the second disjunct is what [C15_extract_total] excludes on the command's own guarantees). *)
Theorem C15_parse_error_is_command_or_extract : forall d argv k,
  derived_parse d argv = PError k <->
  (exists e, parse_top (derive_cmd d) argv = OErr e /\ e_kind e = k)
  \/ (exists m, parse_top (derive_cmd d) argv = OOk m /\ extract d m = XErr k).
Proof. exact parse_factor_err. Qed.
Print Assumptions C15_parse_error_is_command_or_extract.

(** [gen_augment] in closed form: the argument generated for a field, for every field. *)
Theorem C15_field_arg_closed_form : forall f, field_arg false f = field_arg_cf f.
Proof. exact field_arg_closed. Qed.
Print Assumptions C15_field_arg_closed_form.

(** THE GENERATED COMMAND LIES IN C02'S CLASS.  For every struct of option fields that passes clap's own debug
    assertions, the built command is conventional ([conv]), does not ignore errors, declares no overrides; and every
    [--long] / [-s] of a field resolves, in the built key map, to that field's argument. *)
Theorem C15_generated_command_conv : forall d bin,
  fields_only (d_nodes d) = true -> Forall (fun f => kind_ok (f_kind f) = true) (fields_of (d_nodes d)) ->
  valid (with_bin (derive_cmd d) bin) = true ->
  conv (built d bin) = true /\ is_set s_ignore_errors (built d bin) = false /\ no_overrides (built d bin) = true.
Proof.
  intros d bin H1 H2 H3. split; [exact (built_conv d bin H1 H2 H3)|].
  split; [exact (built_no_ignore_errors d bin H1)|exact (built_no_overrides d bin H1 H2)].
Qed.
Print Assumptions C15_generated_command_conv.

Theorem C15_generated_keys : forall d bin,
  fields_only (d_nodes d) = true -> Forall (fun f => kind_ok (f_kind f) = true) (fields_of (d_nodes d)) ->
  NoDup (map f_kind (fields_of (d_nodes d))) ->
  forall f, In f (fields_of (d_nodes d)) ->
    (forall l, f_kind f = KLong l -> get_long (built d bin) l = Some (bf f))
    /\ (forall c, f_kind f = KShort c -> get_short (built d bin) c = Some (bf f)).
Proof.
  intros d bin H1 H2 H3 f Hf. split; [intros l E; exact (lookup_long d bin H1 H2 H3 f l Hf E)|
                                      intros c E; exact (lookup_short d bin H1 H2 H3 f c Hf E)].
Qed.
Print Assumptions C15_generated_keys.

(** THE PRINTED LINE IS A RENDERED INVOCATION: [print d vs] is C02's [render] of [nodes_items], which is well formed
    for the built command, and its occurrences are one per printed group, carrying exactly that group's values. *)
Theorem C15_print_is_render : forall d bin vs argv,
  opt_struct d -> printable (d_nodes d) vs -> print d vs = Some argv ->
  argv = render_inv (ILeaf (nodes_items (d_nodes d) vs))
  /\ wf_items (built d bin) PSValuesDone 1 (nodes_items (d_nodes d) vs) = true
  /\ occs (built d bin) 1 (nodes_items (d_nodes d) vs) = nodes_occs (d_nodes d) vs.
Proof. exact print_is_render. Qed.
Print Assumptions C15_print_is_render.

(** WHAT THE PRINTED LINE DENOTES (C07's abstract fold over the occurrences): for a field holding [v], the groups
    the matches must report are those of the printed entry ([raw_of]: the groups themselves; ["true"] for a flag; the
    decimal count for a counter), and nothing when the field is not mentioned. *)
Theorem C15_print_denotes : forall d bin,
  fields_only (d_nodes d) = true -> Forall (fun f => kind_ok (f_kind f) = true) (fields_of (d_nodes d)) ->
  forall ns vs f v g, fields_only ns = true -> incl (fields_of ns) (fields_of (d_nodes d)) ->
  NoDup (map f_id (fields_of ns)) -> at_node ns vs f v -> field_groups f v = Some g -> f_delim f = None ->
  (forall gs, g = Some gs -> field_form f gs) ->
  fold_left (step_abs (built d bin) (f_id f)) (nodes_occs ns vs) None = opt_map (raw_of f) g.
Proof. exact denote_nodes. Qed.
Print Assumptions C15_print_denotes.

(** ROUND TRIP THROUGH THE PARSER MODEL (soundness).  For every struct of option fields and every printable value:
    whenever the generated command accepts the printed line, extraction from the matches of THE REAL PARSE
    ([parse_top], not [matches_of_print]) returns the value.  Uses C02_unparse (the parse is the fold of [react] over
    the occurrences), C02's conservation, C06's default phase and [C15_roundtrip_field]. *)
Theorem C15_roundtrip_parse_sound : forall d bin vs argv m,
  opt_struct d -> printable (d_nodes d) vs -> ok_nodes (d_nodes d) vs ->
  valid (with_bin (derive_cmd d) bin) = true ->
  print d vs = Some argv ->
  parse_top (derive_cmd d) (bin :: argv) = OOk m ->
  extract d m = XOk vs.
Proof. exact roundtrip_parse_sound. Qed.
Print Assumptions C15_roundtrip_parse_sound.

(** Non-vacuity: [{ vv: true, oo: Some(7), x: ["a","b"], c: 3 }] prints to [--vv --oo=7 -x=a -x=b -c -c -c]; every
    hypothesis above holds, the command accepts the line, and the derived parser returns the value. *)
Theorem C15_roundtrip_parse_nonvacuous :
  opt_struct ParseEx.d /\ printable (d_nodes ParseEx.d) ParseEx.v /\ ok_nodes (d_nodes ParseEx.d) ParseEx.v
  /\ valid (with_bin (derive_cmd ParseEx.d) b_prog) = true
  /\ print ParseEx.d ParseEx.v = Some ParseEx.argv
  /\ (exists m, parse_top (derive_cmd ParseEx.d) (b_prog :: ParseEx.argv) = OOk m)
  /\ derived_parse ParseEx.d (b_prog :: ParseEx.argv) = PValue ParseEx.v.
Proof.
  split; [exact ParseEx.ex_struct|]. split; [exact ParseEx.ex_printable|]. split; [exact ParseEx.ex_ok|].
  split; [exact ParseEx.ex_valid|]. split; [exact ParseEx.ex_print|].
  split; [exact ParseEx.ex_parses|exact ParseEx.ex_roundtrip].
Qed.
Print Assumptions C15_roundtrip_parse_nonvacuous.

(** The same with the class stated on the derive input alone: [printable] follows from the attribute combinations of
    [field_ok] (part of [ok_nodes]) when an explicit [num_args] agrees with the action ([takes_ok]). *)
Theorem C15_roundtrip_parse_sound_class : forall d bin vs argv m,
  opt_struct d -> Forall takes_ok (fields_of (d_nodes d)) -> ok_nodes (d_nodes d) vs ->
  valid (with_bin (derive_cmd d) bin) = true ->
  print d vs = Some argv ->
  parse_top (derive_cmd d) (bin :: argv) = OOk m ->
  extract d m = XOk vs.
Proof. exact roundtrip_parse_sound_ok. Qed.
Print Assumptions C15_roundtrip_parse_sound_class.

(** WHEN EXTRACTION CAN FAIL AFTER A SUCCESSFUL COMMAND PARSE: exactly when the command does not declare the
    requiredness the extraction relies on.  Witness: a plain field with [required = false] -- the command accepts the
    empty line, extraction answers MissingRequiredArgument (model = implementation: corpus type BPlainNotRequired). *)
Theorem C15_extract_after_parse_needs_required_refuted :
  exists d argv m, parse_top (derive_cmd d) argv = OOk m /\ extract d m = XErr EMissingRequiredArgument
                   /\ derived_parse d argv = PError EMissingRequiredArgument.
Proof. exists NotRequiredEx.d, [b_prog]. exact NotRequiredEx.ex_extract_fails. Qed.
Print Assumptions C15_extract_after_parse_needs_required_refuted.

(** UPDATE CHANGES ONLY THE FIELDS NAMED ON THE COMMAND LINE, "named" read off the line itself: for every struct of
    argument fields (options and positionals), every well-formed invocation [its] of the update command (C02's class:
    long/short spellings, clusters, positional runs) and every field whose argument carries no default (no
    [default_value], not a flag or counter): if no occurrence of the invocation belongs to the field's argument
    ([count_occ] over C02's [occs]), a successful [try_update_from] on the rendered line leaves the field as it was.
    (For default-bearing fields the statement is false: [C15_update_frame_argv_refuted].) *)
Theorem C15_update_unnamed_untouched : forall d bin its vs vs' f,
  fields_only (d_nodes d) = true -> In f (fields_of (d_nodes d)) -> bf_default f = [] ->
  valid (with_bin (derive_cmd_for_update d) bin) = true ->
  wf_inv (builtu d bin) (ILeaf its) = true ->
  Actions.count_occ (f_id f) (occs (builtu d bin) 1 its) = 0%nat ->
  derived_update d vs (bin :: render its) = PValue vs' ->
  field_at (d_nodes d) vs' (f_id f) = field_at (d_nodes d) vs (f_id f).
Proof. exact update_unnamed_untouched. Qed.
Print Assumptions C15_update_unnamed_untouched.

(** Non-vacuity: updating [{vv: false, oo: Some(7), x: ["a"], c: 3}] from [--vv -x=z] keeps [oo = Some(7)]. *)
Theorem C15_update_unnamed_nonvacuous :
  fields_only (d_nodes ParseEx.d) = true /\ In ParseEx.fo (fields_of (d_nodes ParseEx.d)) /\ bf_default ParseEx.fo = []
  /\ valid (with_bin (derive_cmd_for_update ParseEx.d) b_prog) = true
  /\ wf_inv (builtu ParseEx.d b_prog) (ILeaf UpdateEx.its) = true
  /\ Actions.count_occ (f_id ParseEx.fo) (occs (builtu ParseEx.d b_prog) 1 UpdateEx.its) = 0%nat
  /\ render UpdateEx.its = [[45;45;118;118]; [45;120;61;122]]
  /\ derived_update ParseEx.d UpdateEx.v0 (b_prog :: render UpdateEx.its) = PValue UpdateEx.v1
  /\ field_at (d_nodes ParseEx.d) UpdateEx.v1 (f_id ParseEx.fo) = Some (DOpt (Some (SvInt 7%Z))).
Proof. exact UpdateEx.ex_update. Qed.
Print Assumptions C15_update_unnamed_nonvacuous.

(** ALL OUTCOMES ON A PRINTED LINE: the derived parser returns the printed value, or reports the generated command's own
    rejection of the line -- never another value, never an error of extraction. *)
Theorem C15_roundtrip_parse_outcomes : forall d bin vs argv,
  opt_struct d -> Forall takes_ok (fields_of (d_nodes d)) -> ok_nodes (d_nodes d) vs ->
  valid (with_bin (derive_cmd d) bin) = true -> print d vs = Some argv ->
  match derived_parse d (bin :: argv) with
  | PValue vs' => vs' = vs
  | PError k => exists e, parse_top (derive_cmd d) (bin :: argv) = OErr e /\ e_kind e = k
  | PPanic _ | PInvalid => exists o, parse_top (derive_cmd d) (bin :: argv) = o /\ forall m, o <> OOk m
  end.
Proof. exact roundtrip_parse_outcomes. Qed.
Print Assumptions C15_roundtrip_parse_outcomes.

(** ONE STORING OCCURRENCE SUCCEEDS (any command, any argument): when the value count is accepted, the values pass the
    argument's value parser and a Set-like argument is not yet present, [react] stores the occurrence. *)
Theorem C15_react_succeeds : forall c idn a raw ti st vals vp,
  wf_m (mt st) -> ~ In (a_id a) (groups_for_arg c (a_id a)) ->
  verify_num_args c a raw st = ROk tt -> occ_values c a raw ti = Some vals -> a_vp a = Some vp ->
  Forall (fun v => vp_parse vp v = None) (stored_vals a vals) ->
  match a_get_action a with
  | ASet | ASetTrue | ASetFalse => mt_contains (mt st) (a_id a) = false
  | AAppend => True
  | _ => False
  end ->
  exists st', react_core c idn SCmdLine a raw ti st = ROk (st', PRValuesDone).
Proof. exact react_core_ok. Qed.
Print Assumptions C15_react_succeeds.

(** THE COMMAND-LINE PHASE ACCEPTS THE PRINTED LINE (partial towards [parse (print v) = Ok v]): if every printed group
    passes the generated argument's own value-count check and value parser ([accepted_nodes]: the parser's own
    [verify_num_args] / [vp_parse] on the built argument), every [react] of the token loop succeeds, and the parse of the
    printed line is exactly the environment / default / validation phases applied to the state holding the printed groups.
    MISSING for the full statement: those three phases succeed (defaults pass their value parser; validator completeness for a
    command without relations) -- checked on every dround case. *)
Theorem C15_print_cmdline_accepted_partial : forall d bin vs argv fuel,
  opt_struct d -> printable (d_nodes d) vs -> accepted_nodes d bin (d_nodes d) vs ->
  valid (with_bin (derive_cmd d) bin) = true -> print d vs = Some argv ->
  exists st1, react_all (built d bin) (nodes_occs (d_nodes d) vs) ps_new = ROk st1
              /\ get_matches_with (S fuel) (built d bin) argv ps_new = post_loop (built d bin) st1.
Proof. exact print_cmdline_accepted. Qed.
Print Assumptions C15_print_cmdline_accepted_partial.

Theorem C15_print_cmdline_accepted_nonvacuous :
  opt_struct ParseEx.d /\ printable (d_nodes ParseEx.d) ParseEx.v /\ accepted_nodes ParseEx.d b_prog (d_nodes ParseEx.d) ParseEx.v
  /\ valid (with_bin (derive_cmd ParseEx.d) b_prog) = true /\ print ParseEx.d ParseEx.v = Some ParseEx.argv.
Proof.
  split; [exact ParseEx.ex_struct|]. split; [exact ParseEx.ex_printable|]. split; [exact ParseEx.ex_accepted|].
  split; [exact ParseEx.ex_valid|exact ParseEx.ex_print].
Qed.
Print Assumptions C15_print_cmdline_accepted_nonvacuous.

(** * Round 3: the phases after the token loop (Derive/DerivePost.v) -- full acceptance of the printed line *)

(** THE DEFAULTS PHASE SUCCEEDS (any command): if every argument either has an entry already or carries a storable default
    ([default_passes]: no conditional rule; no default, or an unsplit default that passes the argument's own value parser on a
    storing action), [add_defaults] answers Ok.  (Existence counterpart of C06's [C06_defaults_frame].) *)
Theorem C15_defaults_phase_succeeds : forall c st,
  (forall a, In a (c_args c) -> ~ In (a_id a) (groups_for_arg c (a_id a))) ->
  (forall a, In a (c_args c) -> mt_contains (mt st) (a_id a) = true \/ default_passes a) ->
  wf_m (mt st) -> mt_pending (mt st) = None ->
  exists st', add_defaults c st = ROk st' /\ wf_m (mt st') /\ mt_pending (mt st') = None.
Proof. exact add_defaults_ok. Qed.
Print Assumptions C15_defaults_phase_succeeds.

(** VALIDATOR COMPLETENESS FOR A COMMAND WITHOUT RELATIONS (any command of the class [norel]: no requires / conditional
    requirement / conflict / override / exclusive argument, groups only collect): every matcher with unique keys and known
    ids in which each [required] argument is explicitly present is accepted.  Through C03's completeness on [static_only]. *)
Theorem C15_validate_complete_norel : forall c mt,
  assert_app c = true -> norel c = true -> Relations.fm_wf mt -> keys_ok c (mt_args mt) ->
  (forall p, In p (positionals c) -> a_index p <> None) ->
  is_set s_arg_required_else_help c = false -> is_set s_sub_required c = false ->
  (forall a, In a (c_args c) -> a_required a = true -> present mt (a_id a)) ->
  validate c mt = VOk.
Proof. exact norel_validate. Qed.
Print Assumptions C15_validate_complete_norel.

(** THE GENERATED COMMAND ACCEPTS THE PRINTED LINE, ALL PHASES.  Beyond [C15_print_cmdline_accepted_partial]: the environment
    phase is the identity, the defaults phase stores the default of every unmentioned field ([defaults_pass]: it passes the
    built argument's value parser), the validator accepts ([required_mentioned]: a field whose generated argument is
    [required] is written by the printer; the generated command declares nothing else). *)
Theorem C15_print_accepted : forall d bin vs argv,
  opt_struct d -> printable (d_nodes d) vs -> accepted_nodes d bin (d_nodes d) vs ->
  defaults_pass (d_nodes d) vs -> required_mentioned (d_nodes d) vs ->
  valid (with_bin (derive_cmd d) bin) = true -> print d vs = Some argv ->
  exists m, parse_top (derive_cmd d) (bin :: argv) = OOk m.
Proof. exact print_accepted. Qed.
Print Assumptions C15_print_accepted.

(** ROUND TRIP AS AN EQUALITY: [parse (print v) = Ok v] through the real parser model, for every struct of option fields
    ([opt_struct], [takes_ok]) and every value of the matches-level class ([ok_nodes]) whose printed groups pass the generated
    arguments' own count / value-parser checks ([accepted_nodes]) and that mentions the required fields.  Neither the
    defaults ([defaults_pass] follows from [ok_nodes]) nor the acceptance of printed enum names is a hypothesis. *)
Theorem C15_roundtrip_parse : forall d bin vs argv,
  opt_struct d -> Forall takes_ok (fields_of (d_nodes d)) -> ok_nodes (d_nodes d) vs ->
  accepted_nodes d bin (d_nodes d) vs -> required_mentioned (d_nodes d) vs ->
  valid (with_bin (derive_cmd d) bin) = true -> print d vs = Some argv ->
  derived_parse d (bin :: argv) = PValue vs.
Proof. exact roundtrip_parse. Qed.
Print Assumptions C15_roundtrip_parse.

(** ... and with the class on the derive input alone where requiredness is concerned: no explicit [required = true]
    (the requiredness the macro infers belongs to plain fields without default, which the printer always writes). *)
Theorem C15_roundtrip_parse_inferred_required : forall d bin vs argv,
  opt_struct d -> Forall takes_ok (fields_of (d_nodes d)) -> Forall (fun f => f_required f <> Some true) (fields_of (d_nodes d)) ->
  ok_nodes (d_nodes d) vs -> accepted_nodes d bin (d_nodes d) vs ->
  valid (with_bin (derive_cmd d) bin) = true -> print d vs = Some argv ->
  derived_parse d (bin :: argv) = PValue vs.
Proof. exact roundtrip_parse_inferred. Qed.
Print Assumptions C15_roundtrip_parse_inferred_required.

(** Non-vacuity: [{ n: "a", vv: false, c: 0, oo: None, k: "z" }] ([n] required, [k] with [default_value]) prints to
    [--nn=a --kk=z]; all hypotheses hold; the defaults phase stores "false" and "0"; dropping [--nn=a] is rejected. *)
Theorem C15_roundtrip_parse_full_nonvacuous :
  opt_struct PostEx.d /\ Forall takes_ok (fields_of (d_nodes PostEx.d)) /\ ok_nodes (d_nodes PostEx.d) PostEx.v
  /\ accepted_nodes PostEx.d b_prog (d_nodes PostEx.d) PostEx.v /\ required_mentioned (d_nodes PostEx.d) PostEx.v
  /\ valid (with_bin (derive_cmd PostEx.d) b_prog) = true /\ print PostEx.d PostEx.v = Some PostEx.argv
  /\ field_required PostEx.fn = true /\ bf_default PostEx.fl = [s_false] /\ bf_default PostEx.fc = [[48]]
  /\ derived_parse PostEx.d [b_prog; [45;45;107;107;61;122]] = PError EMissingRequiredArgument.
Proof.
  split; [exact PostEx.ex_struct|]. split; [exact PostEx.ex_takes|]. split; [exact PostEx.ex_ok|].
  split; [exact PostEx.ex_accepted|]. split; [exact PostEx.ex_required_mentioned|]. split; [exact PostEx.ex_valid|].
  split; [exact PostEx.ex_print|]. destruct PostEx.ex_required as (H1 & H2 & H3).
  split; [exact H1|]. split; [exact H2|]. split; [exact H3|exact PostEx.ex_missing_required].
Qed.
Print Assumptions C15_roundtrip_parse_full_nonvacuous.

(** * Round 3: ALL argv (Derive/LoopInv.v, DeriveTotal.v) -- extraction cannot fail after a successful command parse *)

(** A WALK OF [get_matches_with] PARAMETRIC IN THE STATE PREDICATE (any command without [ignore_errors]): a predicate that
    depends on the argument entries only and is preserved by one successful [react_core] on an argument of the level
    (non-command-line sources: with at least one raw value) holds of the state of every successful level. *)
Theorem C15_level_invariant : forall c (Q : Parser.ps -> Prop),
  (forall st st', mt_args (mt st') = mt_args (mt st) -> Q st -> Q st') ->
  (forall idn s a raw ti st, In a (c_args c) -> (s <> SCmdLine -> raw <> []) -> Q st ->
     holds (fun x => Q (fst x)) Tr (react_core c idn s a raw ti st)) ->
  is_set s_ignore_errors c = false ->
  forall fuel toks st0, Q st0 -> holds Q Tr (get_matches_with fuel c toks st0).
Proof. exact gmw_Q. Qed.
Print Assumptions C15_level_invariant.

(** STORED VALUE GROUPS ARE NON-EMPTY (any command that passed [assert_app], no [ignore_errors], ANY token list): after a
    successful level the keys are unique and every argument of [full_groups] (flag / counter actions; Set / Append with a
    value range starting at 1) holds at least one group, none of them empty. *)
Theorem C15_stored_groups_nonempty : forall c, assert_app c = true -> is_set s_ignore_errors c = false ->
  forall fuel toks st, get_matches_with fuel c toks ps_new = ROk st ->
  wf_m (mt st) /\ forall a m, In a (c_args c) -> full_groups a -> fm_get (a_id a) (mt_args (mt st)) = Some m ->
    m_raw m <> [] /\ Forall (fun g : list bytes => g <> []) (m_raw m).
Proof. exact gmw_nonempty. Qed.
Print Assumptions C15_stored_groups_nonempty.

(** EXTRACTION CANNOT FAIL AFTER A SUCCESSFUL COMMAND PARSE -- for ALL argv, every struct of argument fields (options and
    positionals, any attributes) that passes clap's assertions and is [guarded]: no unit field, and every plain field [T]
    is [required] or has a default and its argument cannot be stored without a value.  ([C15_extract_after_parse_needs_
    required_refuted] is the witness outside the class.)  Uses C04 (typed invariant), C03 (soundness of the validator), C06
    (precedence: a default gives an entry), [C15_stored_groups_nonempty] and [C15_extract_total]. *)
Theorem C15_extract_total_argv : forall d argv m,
  fields_only (d_nodes d) = true -> Forall guarded (fields_of (d_nodes d)) ->
  valid (with_bin (derive_cmd d) (hd [] argv)) = true ->
  parse_top (derive_cmd d) argv = OOk m ->
  exists vs, extract d m = XOk vs.
Proof. exact extract_total_argv. Qed.
Print Assumptions C15_extract_total_argv.

(** THE FIRST SENTENCE OF THE PROPERTY AS AN EQUIVALENCE, ALL ARGV: the derived parser returns a value exactly when the
    generated command's parse (with the enum value check) succeeds. *)
Theorem C15_parse_succeeds_iff_command : forall d argv,
  fields_only (d_nodes d) = true -> Forall guarded (fields_of (d_nodes d)) ->
  valid (with_bin (derive_cmd d) (hd [] argv)) = true ->
  ((exists vs, derived_parse d argv = PValue vs) <-> (exists m, parse_top (derive_cmd d) argv = OOk m)).
Proof. exact parse_iff_command. Qed.
Print Assumptions C15_parse_succeeds_iff_command.

(** Non-vacuity: the struct of [C15_roundtrip_parse_full_nonvacuous] on [prog --kk z --nn a -cc --vv] (not a printed line)
    and a struct with positional fields on [prog 7 a b]: the class holds, the command accepts; and [required = false] on a
    plain field is outside the class. *)
Theorem C15_extract_total_argv_nonvacuous :
  Forall guarded (fields_of (d_nodes PostEx.d)) /\ valid (with_bin (derive_cmd PostEx.d) (hd [] TotalEx.argv)) = true
  /\ (exists m, parse_top (derive_cmd PostEx.d) TotalEx.argv = OOk m)
  /\ derived_parse PostEx.d TotalEx.argv =
       PValue [DOne (SvStr [97]); DOne (SvBool true); DOne (SvInt 2%Z); DOpt None; DOne (SvStr [122])]
  /\ Forall guarded (fields_of (d_nodes TotalEx.dp)) /\ valid (with_bin (derive_cmd TotalEx.dp) (hd [] TotalEx.argvp)) = true
  /\ derived_parse TotalEx.dp TotalEx.argvp = PValue [DOne (SvInt 7%Z); DVec [SvStr [97]; SvStr [98]]]
  /\ ~ Forall guarded (fields_of (d_nodes NotRequiredEx.d)).
Proof.
  split; [exact TotalEx.ex_guarded|]. split; [exact TotalEx.ex_valid|]. split; [exact TotalEx.ex_command_accepts|].
  split; [exact TotalEx.ex_value|]. split; [exact TotalEx.exp_guarded|]. split; [exact TotalEx.exp_valid|].
  split; [exact TotalEx.exp_value|exact TotalEx.not_guarded].
Qed.
Print Assumptions C15_extract_total_argv_nonvacuous.

(** * Round 3: update for ALL argv, "named" = C10's [occurs] (Derive/DeriveUpdateLine.v) *)

(** UPDATE CHANGES ONLY THE FIELDS NAMED ON THE COMMAND LINE -- any line.  For every struct of argument fields whose update
    command passes clap's assertions, every token list and every field whose argument has no default: if no token of the
    line names the field's argument (C10's [occurs]: the token's long name / inferred prefix / a character of its short
    cluster selects the argument in the key map -- lexing and lookup only; a positional counts as named by any token), a
    successful [try_update_from] leaves the field as it was.  Through C10's invariant [K] ([accepted_faithful]) and C06's
    [precedence].  (For default-bearing fields the statement is false: [C15_update_frame_argv_refuted].) *)
Theorem C15_update_unoccurring_untouched : forall d bin toks vs vs' f,
  fields_only (d_nodes d) = true -> In f (fields_of (d_nodes d)) -> bf_default f = [] ->
  valid (with_bin (derive_cmd_for_update d) bin) = true ->
  (forall a, In a (c_args (builtu d bin)) -> a_id a = f_id f -> ~ occurs (builtu d bin) toks a) ->
  derived_update d vs (bin :: toks) = PValue vs' ->
  field_at (d_nodes d) vs' (f_id f) = field_at (d_nodes d) vs (f_id f).
Proof. exact update_unoccurring_untouched. Qed.
Print Assumptions C15_update_unoccurring_untouched.

(** Non-vacuity: [{vv: false, oo: Some(7), x: ["a"], c: 3}] updated from [--vv -x z] (a separated value, not the printer's
    spelling): no token names [oo]; the update succeeds and [oo] keeps [Some(7)]. *)
Theorem C15_update_unoccurring_nonvacuous :
  (forall a, In a (c_args (builtu ParseEx.d b_prog)) -> a_id a = f_id ParseEx.fo ->
     ~ occurs (builtu ParseEx.d b_prog) UpdateLineEx.toks a)
  /\ fields_only (d_nodes ParseEx.d) = true /\ In ParseEx.fo (fields_of (d_nodes ParseEx.d)) /\ bf_default ParseEx.fo = []
  /\ valid (with_bin (derive_cmd_for_update ParseEx.d) b_prog) = true
  /\ derived_update ParseEx.d UpdateEx.v0 (b_prog :: UpdateLineEx.toks) = PValue UpdateLineEx.v1
  /\ field_at (d_nodes ParseEx.d) UpdateLineEx.v1 (f_id ParseEx.fo) = Some (DOpt (Some (SvInt 7%Z))).
Proof. split; [exact UpdateLineEx.ex_unnamed|exact UpdateLineEx.ex_update_line]. Qed.
Print Assumptions C15_update_unoccurring_nonvacuous.

(** * Round 3: the class of the round trip stated without the parser's functions *)

(** ROUND TRIP AS AN EQUALITY, class on the derive input and the value only: [ok_nodes] (attribute combinations of the
    matches-level round trip, scalars that print and parse back), [fits_all] (arithmetic: the value range of the generated
    argument admits the length of every printed group; a counter's range is empty), required fields mentioned.
    [accepted_nodes] is DERIVED: a scalar that parses back lies in the language of the field's value parser
    ([scalar_accepts]); [range_admits] is what [verify_num_args] computes. *)
Theorem C15_roundtrip_parse_class : forall d bin vs argv,
  opt_struct d -> Forall takes_ok (fields_of (d_nodes d)) -> ok_nodes (d_nodes d) vs ->
  fits_all (d_nodes d) vs -> required_mentioned (d_nodes d) vs ->
  valid (with_bin (derive_cmd d) bin) = true -> print d vs = Some argv ->
  derived_parse d (bin :: argv) = PValue vs.
Proof. exact roundtrip_parse_class. Qed.
Print Assumptions C15_roundtrip_parse_class.

(** Non-vacuity: [fits_all] holds for both example values; it is needed: [Option<Vec<String>> = Some([])] prints to a bare
    [--xx] that the command rejects (InvalidValue), and does not satisfy [fits]. *)
Theorem C15_roundtrip_parse_class_nonvacuous :
  fits_all (d_nodes PostEx.d) PostEx.v /\ fits_all (d_nodes ParseEx.d) ParseEx.v
  /\ Forall takes_ok (fields_of (d_nodes ParseEx.d)) /\ required_mentioned (d_nodes ParseEx.d) ParseEx.v
  /\ print FitsEx.dv [DOptVec (Some [])] = Some [[45;45;120;120]]
  /\ derived_parse FitsEx.dv [b_prog; [45;45;120;120]] = PError EInvalidValue
  /\ ~ fits FitsEx.fov (DOptVec (Some [])).
Proof.
  split; [exact PostEx.ex_fits|]. destruct PostEx.ex_fits2 as (H1 & H2 & H3). split; [exact H1|]. split; [exact H2|].
  split; [exact H3|exact FitsEx.ex_unfit].
Qed.
Print Assumptions C15_roundtrip_parse_class_nonvacuous.

(** * Round 3: flattened structs (Derive/DeriveFlat.v) -- the generated command in closed form, the first sentence for all argv *)

(** [gen_augment] over fields and flatten nodes (any nesting, optional or not; no subcommand field) in closed form: the
    arguments of the leaf fields in declaration order, the struct groups, nothing else. *)
Theorem C15_generated_command_flat : forall ovr d, flat_nodes (d_nodes d) = true ->
  augment ovr (d_gid d) (d_nodes d) (cmd_new (d_name d)) =
  root_cmd (d_name d) (map (field_arg ovr) (leaves (d_nodes d))) (struct_group (d_gid d) (d_nodes d) :: sgroups (d_nodes d)) None.
Proof. exact derive_cmd_flat. Qed.
Print Assumptions C15_generated_command_flat.

(** EXTRACTION CANNOT FAIL AFTER A SUCCESSFUL COMMAND PARSE, ALL ARGV, structs of fields and flattened structs (optional
    flattens included: their members are extracted only when the group is present, and are then guaranteed like any other).
    The well-formedness of the derive input ([wf_nodes]: ids of arguments and groups distinct per level) is not a hypothesis:
    it follows from clap's own assertions on the generated command ([valid_flat_wf]). *)
Theorem C15_valid_flat_wf : forall d bin,
  flat_nodes (d_nodes d) = true -> valid (with_bin (derive_cmd d) bin) = true -> wf_nodes (d_nodes d).
Proof. exact valid_flat_wf. Qed.
Print Assumptions C15_valid_flat_wf.

Theorem C15_extract_total_argv_flat : forall d argv m,
  flat_nodes (d_nodes d) = true -> Forall guarded (leaves (d_nodes d)) ->
  valid (with_bin (derive_cmd d) (hd [] argv)) = true ->
  parse_top (derive_cmd d) argv = OOk m ->
  exists vs, extract d m = XOk vs.
Proof. exact extract_total_argv_flat_valid. Qed.
Print Assumptions C15_extract_total_argv_flat.

Theorem C15_parse_succeeds_iff_command_flat : forall d argv,
  flat_nodes (d_nodes d) = true -> Forall guarded (leaves (d_nodes d)) ->
  valid (with_bin (derive_cmd d) (hd [] argv)) = true ->
  ((exists vs, derived_parse d argv = PValue vs) <-> (exists m, parse_top (derive_cmd d) argv = OOk m)).
Proof. exact parse_iff_command_flat_valid. Qed.
Print Assumptions C15_parse_succeeds_iff_command_flat.

(** Non-vacuity: [{ a: String, #[flatten] inner: { b: u8, c: bool }, #[flatten] opt: Option<{ e: Option<u8> }> }] on
    [prog --bb 3 --aa x]. *)
Theorem C15_extract_total_argv_flat_nonvacuous :
  flat_nodes (d_nodes FlatEx.d) = true /\ wf_nodes (d_nodes FlatEx.d) /\ Forall guarded (leaves (d_nodes FlatEx.d))
  /\ valid (with_bin (derive_cmd FlatEx.d) (hd [] FlatEx.argv)) = true
  /\ derived_parse FlatEx.d FlatEx.argv =
       PValue [DOne (SvStr [120]); DStruct [DOne (SvInt 3%Z); DOne (SvBool false)]; DOptStruct None].
Proof.
  split; [exact FlatEx.ex_flat|]. split; [exact FlatEx.ex_wf|]. split; [exact FlatEx.ex_guarded|].
  split; [exact FlatEx.ex_valid|exact FlatEx.ex_value].
Qed.
Print Assumptions C15_extract_total_argv_flat_nonvacuous.

(** ... and below flatten nodes: the same statement for structs with flattened structs (the update command in closed form) *)
Theorem C15_update_unoccurring_untouched_flat : forall d bin toks vs vs' f,
  flat_nodes (d_nodes d) = true -> In f (leaves (d_nodes d)) -> bf_default f = [] ->
  valid (with_bin (derive_cmd_for_update d) bin) = true ->
  (forall a, In a (c_args (builtu d bin)) -> a_id a = f_id f -> ~ occurs (builtu d bin) toks a) ->
  derived_update d vs (bin :: toks) = PValue vs' ->
  field_at (d_nodes d) vs' (f_id f) = field_at (d_nodes d) vs (f_id f).
Proof. exact update_unoccurring_untouched_flat. Qed.
Print Assumptions C15_update_unoccurring_untouched_flat.

(** Non-vacuity: [{a: "x", inner: {b: 3, c: true}, opt: None}] updated from [--aa y]: [b] (inside the flattened struct) is
    named by no token and keeps 3 (the flag [c] is reset, the optional flatten materialised: the recorded findings). *)
Theorem C15_update_unoccurring_flat_nonvacuous :
  (forall a, In a (c_args (builtu FlatEx.d b_prog)) -> a_id a = f_id FlatEx.fb -> ~ occurs (builtu FlatEx.d b_prog) UpdateFlatEx.toks a)
  /\ flat_nodes (d_nodes FlatEx.d) = true /\ In FlatEx.fb (leaves (d_nodes FlatEx.d)) /\ bf_default FlatEx.fb = []
  /\ valid (with_bin (derive_cmd_for_update FlatEx.d) b_prog) = true
  /\ derived_update FlatEx.d UpdateFlatEx.v0 (b_prog :: UpdateFlatEx.toks) = PValue UpdateFlatEx.v1
  /\ field_at (d_nodes FlatEx.d) UpdateFlatEx.v1 (f_id FlatEx.fb) = Some (DOne (SvInt 3%Z)).
Proof. split; [exact UpdateFlatEx.ex_unnamed|exact UpdateFlatEx.ex_update_flat]. Qed.
Print Assumptions C15_update_unoccurring_flat_nonvacuous.

(** * Round 3: the scalar hypothesis of the round trip, all element types (Derive/DeriveDec.v) *)

(** the decimal printer and [str::parse::<i64>] are inverse on the whole i64 range (induction on the digits; the fuel of
    [n_to_dec] suffices: 40 digits) *)
Theorem C15_decimal_roundtrip : forall z, in_i64 z = true ->
  parse_i64 (z_to_dec z) = Some z /\ utf8_valid (z_to_dec z) = true.
Proof. exact parse_i64_print. Qed.
Print Assumptions C15_decimal_roundtrip.

(** [srt] holds for every element type: bool, String, u8, i64 and (under distinct UTF-8 names) value enums -- the
    completion of [C15_roundtrip_scalars_partial]; with it [ok_nodes] is a condition on attributes and enum names only. *)
Theorem C15_roundtrip_scalars :
  (forall ic x, srt TBool ic x) /\ (forall ic x, srt TStr ic x) /\ (forall ic x, srt TU8 ic x) /\ (forall ic x, srt TI64 ic x)
  /\ (forall e ic x, names_disjoint ic e -> Forall (fun v => utf8_valid (pv_name (vv_pv v)) = true) e -> srt (TEnum e) ic x).
Proof. exact scalars_roundtrip_all. Qed.
Print Assumptions C15_roundtrip_scalars.

(** * Round 3: the generated command with positionals and flattened structs lies in C02's class (Derive/DeriveKeys.v) *)

(** THE BUILT ARGUMENTS, POSITIONALS NUMBERED IN DECLARATION ORDER: [c_args] of the built command is [Arg::_build] of the
    generated argument of every leaf field ([annot]: the k-th positional field, through the flatten nesting, gets index k),
    then the help flag. *)
Theorem C15_generated_args_all : forall d bin, flat_nodes (d_nodes d) = true ->
  c_args (built d bin) = map built_of (annot 1 (leaves (d_nodes d))) ++ [hb].
Proof. exact builtk_args. Qed.
Print Assumptions C15_generated_args_all.

(** KEY MAP: a [--long] / [-s] of an option field resolves to the field's argument, index k to the k-th positional field. *)
Theorem C15_generated_keys_all : forall d bin, flat_nodes (d_nodes d) = true ->
  Forall opt_kind_ok (leaves (d_nodes d)) ->
  NoDup (map f_kind (filter (fun f => negb (f_is_positional f)) (leaves (d_nodes d)))) ->
  (forall f l, In f (leaves (d_nodes d)) -> f_kind f = KLong l -> get_long (built d bin) l = Some (bf f))
  /\ (forall f s, In f (leaves (d_nodes d)) -> f_kind f = KShort s -> get_short (built d bin) s = Some (bf f))
  /\ (forall k f, In (Some k, f) (annot 1 (leaves (d_nodes d))) -> get_pos (built d bin) k = Some (built_of (Some k, f))).
Proof.
  intros d bin H1 H2 H3. split; [intros f l; exact (lookup_long_all d bin H1 H2 H3 f l)|].
  split; [intros f s0; exact (lookup_short_all d bin H1 H2 H3 f s0)|intros k f; exact (lookup_pos_all d bin H1 k f)].
Qed.
Print Assumptions C15_generated_keys_all.

(** THE GENERATED COMMAND LIES IN C02'S CLASS, positionals and flattened structs included: conventional ([conv]: clap's
    assertions hold, no argument with hyphen values / terminator / last / trailing-var-arg, the only multi-valued positional
    is the last one), no overrides.  (Generalises [C15_generated_command_conv].) *)
Theorem C15_generated_command_conv_all : forall d bin, flat_nodes (d_nodes d) = true ->
  valid (with_bin (derive_cmd d) bin) = true ->
  (forall k f, In (Some k, f) (annot 1 (leaves (d_nodes d))) -> a_is_multiple (bf f) = true ->
     k = N.of_nat (length (filter f_is_positional (leaves (d_nodes d))))) ->
  conv (built d bin) = true /\ no_overrides (built d bin) = true.
Proof. intros d bin H1 H2 H3. split; [exact (built_conv_all d bin H1 H2 H3)|exact (built_no_overrides_all d bin H1)]. Qed.
Print Assumptions C15_generated_command_conv_all.

(** Non-vacuity: [{ vv: bool, p: u8 (positional), x: String (-x), #[flatten] { rest: Vec<String> (positional) } }]: the
    hypotheses hold; index 1 is [p], index 2 is [rest] inside the flattened struct. *)
Theorem C15_generated_keys_all_nonvacuous :
  flat_nodes (d_nodes KeysEx.d) = true /\ Forall opt_kind_ok (leaves (d_nodes KeysEx.d))
  /\ NoDup (map f_kind (filter (fun f => negb (f_is_positional f)) (leaves (d_nodes KeysEx.d))))
  /\ valid (with_bin (derive_cmd KeysEx.d) b_prog) = true
  /\ (forall k f, In (Some k, f) (annot 1 (leaves (d_nodes KeysEx.d))) -> a_is_multiple (bf f) = true ->
        k = N.of_nat (length (filter f_is_positional (leaves (d_nodes KeysEx.d)))))
  /\ annot 1 (leaves (d_nodes KeysEx.d)) = [(None, KeysEx.fl); (Some 1, KeysEx.fp); (None, KeysEx.fx); (Some 2, KeysEx.fr)].
Proof.
  split; [exact KeysEx.ex_flat|]. split; [exact KeysEx.ex_kinds|]. split; [exact KeysEx.ex_nodup|].
  split; [exact KeysEx.ex_valid|]. split; [exact KeysEx.ex_multi_last|exact KeysEx.ex_annot].
Qed.
Print Assumptions C15_generated_keys_all_nonvacuous.

(** * Round 3: the round trip for POSITIONAL fields (Derive/DerivePos.v) *)

(** THE VALUES AFTER [--] FIND THE POSITIONAL FIELDS IN ORDER: for a struct of positional fields ([T], [Option<T>], a last
    [Vec<T>]) and a value in which an absent positional is followed only by absent ones, the printed values form a
    well-formed trail of C02 ([wf_trail]) and its occurrences are one per mentioned field, carrying that field's values,
    attached to the field's built argument (index = declaration order). *)
Theorem C15_positional_trail : forall d bin, fields_only (d_nodes d) = true -> Forall pos_field (fields_of (d_nodes d)) ->
  (forall l1 f l2, fields_of (d_nodes d) = l1 ++ f :: l2 -> f_ty f = TyVec -> l2 = []) ->
  forall l l1 pc vs, fields_of (d_nodes d) = l1 ++ l -> pc = 1 + N.of_nat (length l1) -> pos_prefix l vs ->
  wf_trail (built d bin) pc (pos_vals l vs) = true /\ trail_occs (built d bin) pc (pos_vals l vs) = pos_occs pc l vs.
Proof. exact trail_shape. Qed.
Print Assumptions C15_positional_trail.

(** ROUND TRIP AS AN EQUALITY FOR POSITIONAL FIELDS: [derived_parse d (bin :: print d v) = PValue v] through the real parser
    model (the printer writes [-- v1 v2 ..]: C02's [ITrail]; acceptance of every occurrence, the post-loop phases, the
    entries of the final matches and extraction are all proved -- no hypothesis speaks about the parser).
    Class: every field positional without explicit action / num_args / delimiter / default / required ([pos_field]: a
    non-bool [T], [Option<T>] or [Vec<T>]), distinct ids, a [Vec<T>] only last; value: [ok_nodes], an absent positional
    followed only by absent ones ([pos_prefix]), value counts within [usize]. *)
Theorem C15_roundtrip_parse_positional : forall d bin vs argv,
  fields_only (d_nodes d) = true -> Forall pos_field (fields_of (d_nodes d)) -> NoDup (map f_id (fields_of (d_nodes d))) ->
  vec_last (fields_of (d_nodes d)) = true ->
  ok_nodes (d_nodes d) vs -> pos_prefix (fields_of (d_nodes d)) vs -> pos_fits (fields_of (d_nodes d)) vs ->
  valid (with_bin (derive_cmd d) bin) = true -> print d vs = Some argv ->
  derived_parse d (bin :: argv) = PValue vs.
Proof. exact roundtrip_parse_positional. Qed.
Print Assumptions C15_roundtrip_parse_positional.

(** Non-vacuity: [{ p: u8, q: Option<String>, rest: Vec<String> }], [{7, Some("x"), ["a","b"]}] = [-- 7 x a b]: all
    hypotheses hold.  [pos_prefix] is needed: [{7, None, ["a"]}] prints to [-- 7 a] and parses to [{7, Some("a"), []}]. *)
Theorem C15_roundtrip_parse_positional_nonvacuous :
  Forall pos_field (fields_of (d_nodes PosEx.d)) /\ NoDup (map f_id (fields_of (d_nodes PosEx.d)))
  /\ vec_last (fields_of (d_nodes PosEx.d)) = true /\ ok_nodes (d_nodes PosEx.d) PosEx.v
  /\ pos_prefix (fields_of (d_nodes PosEx.d)) PosEx.v /\ pos_fits (fields_of (d_nodes PosEx.d)) PosEx.v
  /\ valid (with_bin (derive_cmd PosEx.d) b_prog) = true /\ print PosEx.d PosEx.v = Some PosEx.argv
  /\ print PosEx.d PosEx.v2 = Some [[45;45]; [55]; [97]]
  /\ derived_parse PosEx.d [b_prog; [45;45]; [55]; [97]] = PValue [DOne (SvInt 7%Z); DOpt (Some (SvStr [97])); DVec []]
  /\ ~ pos_prefix (fields_of (d_nodes PosEx.d)) PosEx.v2.
Proof.
  split; [exact PosEx.ex_class|]. split; [exact PosEx.ex_nodup|]. split; [reflexivity|]. split; [exact PosEx.ex_ok|].
  split; [exact PosEx.ex_prefix|]. split; [exact PosEx.ex_fits|]. split; [exact PosEx.ex_valid|]. split; [exact PosEx.ex_print|].
  exact PosEx.ex_prefix_needed.
Qed.
Print Assumptions C15_roundtrip_parse_positional_nonvacuous.

(** * Round 5: the derive model's value-enum fields use the real [EnumValueParser] (Derive/DeriveEnum.v, DeriveEnumField.v,
      DeriveEnumEx.v).  [vp_of cnt ic (TEnum e)] = [Cmd.VPPossible ic (enum_pvs e)]: the parser model's possible-values
      parser over the possible values of the NON-SKIPPED variants ([enum_pvs]: hidden ones included, each with its
      [is_hide_set] flag); the stand-in [VPString] + the enum check after the parse are gone from [derived_parse]. *)

(** THE LANGUAGE OF A DERIVED ENUM FIELD'S PARSER is exactly the domain of the typed reading ([parse_scalar (TEnum e)] =
    [ValueEnum::from_str] on UTF-8 strings, with the same [ignore_case]) -- every enum, every string. *)
Theorem C15_enum_parser_language : forall cnt e ic s,
  vp_parse (vp_of cnt ic (TEnum e)) s = None <-> exists i, parse_scalar (TEnum e) ic s = Some (SvEnum i).
Proof. exact enum_accepts_iff. Qed.
Print Assumptions C15_enum_parser_language.

(** ... it is the language of [EnumValueParser::parse_ref] (C04's model [enum_parse], over the same possible values);
    the two differ only in the KIND of the rejection of a non-UTF-8 string ([invalid_value] there, [invalid_utf8] here:
    the [dparse] projection does not compare kinds of failed parses) *)
Theorem C15_enum_parse_ref_language : forall e ic s,
  ((exists k, enum_parse clap_unicode ic (map fst (enum_pvs e)) s = ValueBase.VOk k) <->
   vp_parse (Cmd.VPPossible ic (enum_pvs e)) s = None)
  /\ (forall cnt k, vp_parse (vp_of cnt ic (TEnum e)) s = Some k ->
                    k = if utf8_valid s then EInvalidValue else EInvalidUtf8).
Proof. intros e ic s. split; [exact (enum_parse_ref_language e ic s)|intros cnt k; exact (enum_reject_kind cnt e ic s k)]. Qed.
Print Assumptions C15_enum_parse_ref_language.

(** HIDDEN VARIANTS ARE VALUES.  A name or alias of a non-skipped variant carrying [#[value(hide = true)]] is among the
    parser's possible values (flagged hidden), passes the field's parser -- with or without [ignore_case] -- and is read
    as that variant when no other kept variant claims the string.  This is WHY dropping hidden variants in
    [EnumValueParser::parse_ref] (a seeded change: the [is_hide_set] filter of the error message applied to the match) is
    wrong: [C15_enum_hidden_filter_refuted]. *)
Theorem C15_enum_hidden_accepted : forall cnt e ic i v n,
  nth_error e i = Some v -> vv_skip v = false -> vv_hide v = true ->
  In n (name_and_aliases (vv_pv v)) -> utf8_valid n = true ->
  In (vv_pv v, true) (enum_pvs e)
  /\ vp_parse (vp_of cnt ic (TEnum e)) n = None
  /\ (names_disjoint ic e -> parse_scalar (TEnum e) ic n = Some (SvEnum i)).
Proof. exact enum_hidden_accepted. Qed.
Print Assumptions C15_enum_hidden_accepted.

(** non-vacuity: enum {alpha, #[value(skip)] beta, #[value(hide, alias = "d")] delta}: "d" and (under ignore_case) "DELTA"
    are accepted and "d" is read as variant 2; "DELTA" without ignore_case and the skipped "beta" are InvalidValue *)
Theorem C15_enum_hidden_accepted_nonvacuous :
  nth_error ex_henum 2 = Some (mkVv false {| pv_name := [100; 101; 108; 116; 97]; pv_aliases := [[100]] |} true)
  /\ vp_parse (vp_of false false (TEnum ex_henum)) [100] = None
  /\ vp_parse (vp_of false true (TEnum ex_henum)) [68; 69; 76; 84; 65] = None
  /\ vp_parse (vp_of false false (TEnum ex_henum)) [68; 69; 76; 84; 65] = Some EInvalidValue
  /\ parse_scalar (TEnum ex_henum) false [100] = Some (SvEnum 2)
  /\ vp_parse (vp_of false false (TEnum ex_henum)) [98; 101; 116; 97] = Some EInvalidValue.
Proof. exact hidden_accepted_example. Qed.
Print Assumptions C15_enum_hidden_accepted_nonvacuous.

(** the parser that filters hidden variants out before matching ([enum_pvs_visible]) rejects a string that
    [ValueEnum::from_str] maps to a variant: it breaks "a value-enum's names and aliases all map back to their variant" *)
Theorem C15_enum_hidden_filter_refuted :
  exists e ic s i, ve_from_str e s ic = Some i /\ vp_parse (Cmd.VPPossible ic (enum_pvs_visible e)) s <> None.
Proof. exact hidden_filter_refuted. Qed.
Print Assumptions C15_enum_hidden_filter_refuted.

(** SKIPPED VARIANTS ARE NOT IN THE LANGUAGE: whatever the parser accepts is UTF-8, claimed by a NON-SKIPPED variant and read
    as such a variant; a string no kept variant claims is rejected; no string is ever read as a skipped variant. *)
Theorem C15_enum_language_kept : forall cnt e ic s,
  vp_parse (vp_of cnt ic (TEnum e)) s = None ->
  utf8_valid s = true /\
  exists i v, nth_error e i = Some v /\ vv_skip v = false /\ pv_matches uni (vv_pv v) s ic = true
              /\ parse_scalar (TEnum e) ic s = Some (SvEnum i).
Proof. exact enum_language_kept. Qed.
Print Assumptions C15_enum_language_kept.

Theorem C15_enum_skipped_rejected : forall cnt e ic s,
  (forall i v, nth_error e i = Some v -> vv_skip v = false -> pv_matches uni (vv_pv v) s ic = false) ->
  vp_parse (vp_of cnt ic (TEnum e)) s <> None.
Proof. exact enum_skipped_rejected. Qed.
Print Assumptions C15_enum_skipped_rejected.

Theorem C15_enum_never_reads_skipped : forall e ic s i v,
  nth_error e i = Some v -> vv_skip v = true -> parse_scalar (TEnum e) ic s <> Some (SvEnum i).
Proof. exact enum_never_reads_skipped. Qed.
Print Assumptions C15_enum_never_reads_skipped.

(** NAMES <-> KEPT VARIANTS IS A BIJECTION MODULO ALIASES (under [names_disjoint ic e]: no string claimed by two kept variants
    under the comparison in use; non-vacuous: [names_disjoint_example], [ex_henum_disjoint_cs]): the canonical name of a kept
    variant is printed for it and reads back as it; an accepted string is a name or alias (under the comparison) of the
    variant it is read as and of no other kept variant, and that variant's canonical name is printed for it; two kept
    variants never print the same name. *)
Theorem C15_enum_bijection : forall e ic,
  names_disjoint ic e ->
  (forall i v, nth_error e i = Some v -> vv_skip v = false -> utf8_valid (pv_name (vv_pv v)) = true ->
     print_scalar (TEnum e) (SvEnum i) = Some (pv_name (vv_pv v))
     /\ parse_scalar (TEnum e) ic (pv_name (vv_pv v)) = Some (SvEnum i))
  /\ (forall s i, parse_scalar (TEnum e) ic s = Some (SvEnum i) ->
        exists v, nth_error e i = Some v /\ vv_skip v = false
                  /\ (exists n, In n (name_and_aliases (vv_pv v)) /\ name_eq uni ic n s)
                  /\ print_scalar (TEnum e) (SvEnum i) = Some (pv_name (vv_pv v))
                  /\ (forall j w, nth_error e j = Some w -> vv_skip w = false ->
                                  pv_matches uni (vv_pv w) s ic = true -> j = i))
  /\ (forall i j n, print_scalar (TEnum e) (SvEnum i) = Some n -> print_scalar (TEnum e) (SvEnum j) = Some n -> i = j).
Proof. exact enum_bijection. Qed.
Print Assumptions C15_enum_bijection.

(** THE GENERATED ARGUMENT of a (non-unit) field of enum type carries that parser, working with the argument's own
    [ignore_case] ([Cmd.pv_coherent]) -- every field. *)
Theorem C15_enum_field_parser : forall f e, f_t f = TEnum e -> f_ty f <> TyUnit ->
  a_vp (bf f) = Some (Cmd.VPPossible (f_icase f) (enum_pvs e))
  /\ a_ignore_case (bf f) = f_icase f
  /\ pv_coherent (bf f) = true.
Proof. exact enum_field_parser. Qed.
Print Assumptions C15_enum_field_parser.

(** C04 APPLIES TO DERIVED ENUM FIELDS ([C04_stored_possible] instantiated at the generated argument): in every matcher whose
    entries are typed for the built generated command (C04's invariant of every reachable parser state), each string stored
    for an enum field is UTF-8, is -- byte for byte, or caselessly under the field's [ignore_case] -- a name or alias of a
    NON-SKIPPED variant (hidden or not), its typed value is the string as typed, and [from_str] reads it as a variant.
    Class: structs of argument fields and flattened structs ([flat_nodes]) that pass clap's assertions. *)
Theorem C15_enum_field_stored : forall (d : dinput) (bin : bytes) l f e ma,
  flat_nodes (d_nodes d) = true -> valid (UnparseTree.with_bin (derive_cmd d) bin) = true ->
  TypedInv.typed_entries (built d bin) l ->
  In f (leaves (d_nodes d)) -> f_t f = TEnum e -> f_ty f <> TyUnit -> In (f_id f, ma) l ->
  Forall (Forall (fun s =>
     utf8_valid s = true
     /\ (exists i v n, nth_error e i = Some v /\ vv_skip v = false /\ In n (name_and_aliases (vv_pv v))
                       /\ name_eq clap_unicode (f_icase f) n s)
     /\ TypedView.typed_value (Cmd.VPPossible (f_icase f) (enum_pvs e)) s = Some (TypedView.TVal (TVStr s))
     /\ exists i, parse_scalar (TEnum e) (f_icase f) s = Some (SvEnum i))) (m_raw ma).
Proof. exact enum_field_stored. Qed.
Print Assumptions C15_enum_field_stored.

(** ... and [C04_hidden_accepted] at the generated argument: a hidden variant's name or alias passes the argument's parser
    and is stored as typed *)
Theorem C15_enum_field_hidden_accepted : forall f e i v n,
  f_t f = TEnum e -> f_ty f <> TyUnit ->
  nth_error e i = Some v -> vv_skip v = false -> vv_hide v = true ->
  In n (name_and_aliases (vv_pv v)) -> utf8_valid n = true ->
  exists vp, a_vp (bf f) = Some vp /\ TypedInv.accepts vp n /\ TypedView.typed_value vp n = Some (TypedView.TVal (TVStr n)).
Proof. exact enum_field_hidden_accepted. Qed.
Print Assumptions C15_enum_field_hidden_accepted.

(** THE ENUM CHECK OF ROUNDS 1-4 IS NOW A THEOREM: the matches of ANY successful parse of the generated command hold only
    strings [from_str] reads for every enum-typed field ([enum_ok_nodes]) -- all argv; class: [flat_nodes], no unit field. *)
Theorem C15_parse_enum_ok : forall d argv m,
  flat_nodes (d_nodes d) = true -> Forall (fun f => f_ty f <> TyUnit) (leaves (d_nodes d)) ->
  valid (UnparseTree.with_bin (derive_cmd d) (hd [] argv)) = true ->
  parse_top (derive_cmd d) argv = OOk m -> enum_ok_nodes (d_nodes d) m = true.
Proof. exact parse_enum_ok. Qed.
Print Assumptions C15_parse_enum_ok.

(** ROUND TRIP FOR ENUM-TYPED FIELDS OF EVERY OPTION SHAPE ([E], [Option<E>], [Option<Option<E>>], [Vec<E>], [Option<Vec<E>>]),
    as an equality through the real parser: every printed variant name -- of a hidden variant too -- passes the generated
    argument's [EnumValueParser] and is read as the variant it was printed for.  [enum_field] = [field_ok] + an enum with
    UTF-8 names no two kept variants share; instance of [C15_roundtrip_parse_class] ([ok_nodes] is derived). *)
Theorem C15_roundtrip_parse_enum : forall d bin vs argv,
  opt_struct d -> Forall takes_ok (fields_of (d_nodes d)) -> Forall enum_field (fields_of (d_nodes d)) ->
  fits_all (d_nodes d) vs -> required_mentioned (d_nodes d) vs ->
  valid (UnparseTree.with_bin (derive_cmd d) bin) = true -> print d vs = Some argv ->
  derived_parse d (bin :: argv) = PValue vs.
Proof. exact roundtrip_parse_enum. Qed.
Print Assumptions C15_roundtrip_parse_enum.

(** Non-vacuity: [{ e: Delta, oe: Some(Alpha), v: [Delta, Alpha], ov: Some([Delta]), oo: Some(None) }] with Delta the HIDDEN
    variant prints to [--ee=delta --oe=alpha -v=delta -v=alpha --ov=delta --oo]; all hypotheses hold; the alias "d" of the
    hidden variant is read as it, the skipped variant's name is rejected by the command. *)
Theorem C15_roundtrip_parse_enum_nonvacuous :
  opt_struct EnumEx.d /\ Forall takes_ok (fields_of (d_nodes EnumEx.d)) /\ Forall enum_field (fields_of (d_nodes EnumEx.d))
  /\ fits_all (d_nodes EnumEx.d) EnumEx.v /\ required_mentioned (d_nodes EnumEx.d) EnumEx.v
  /\ valid (UnparseTree.with_bin (derive_cmd EnumEx.d) b_prog) = true /\ print EnumEx.d EnumEx.v = Some EnumEx.argv
  /\ derived_parse EnumEx.d (b_prog :: EnumEx.argv) = PValue EnumEx.v
  /\ derived_parse EnumEx.d [b_prog; [45;45;101;101;61;100]]
       = PValue [DOne (SvEnum 2); DOpt None; DVec []; DOptVec None; DOptOpt None]
  /\ derived_parse EnumEx.d [b_prog; [45;45;101;101;61;98;101;116;97]] = PError EInvalidValue.
Proof.
  split; [exact EnumEx.ex_struct|]. split; [exact EnumEx.ex_takes|]. split; [exact EnumEx.ex_enum_fields|].
  split; [exact EnumEx.ex_fits|]. split; [exact EnumEx.ex_required_mentioned|]. split; [exact EnumEx.ex_valid|].
  split; [exact EnumEx.ex_print|]. split; [exact EnumEx.ex_roundtrip|exact EnumEx.ex_alias_and_skip].
Qed.
Print Assumptions C15_roundtrip_parse_enum_nonvacuous.

(** * Round 5 (2): [bool] versus [Option<bool>] / [Option<Option<bool>>] (Derive/DeriveOptBool.v, DeriveAbsent.v) *)

(** [item.rs default_action] decides on the FIELD type: [ArgAction::SetTrue] exactly for a field declared with the simple path
    [bool] -- never for [Option<bool>], [Option<Option<bool>>], [Vec<bool>] (a seeded change looked at the inner type). *)
Theorem C15_default_action_settrue_iff : forall t elem,
  default_action t elem = ASetTrue <-> t = SynPath /\ elem = TBool.
Proof. exact default_action_settrue_iff. Qed.
Print Assumptions C15_default_action_settrue_iff.

Theorem C15_default_action_option_bool :
  default_action SynPath TBool = ASetTrue
  /\ default_action (SynOption SynPath) TBool = ASet
  /\ default_action (SynOption (SynOption SynPath)) TBool = ASet
  /\ default_action (SynVec SynPath) TBool = AAppend
  /\ default_action (SynOption (SynVec SynPath)) TBool = AAppend.
Proof. exact default_action_option_bool. Qed.
Print Assumptions C15_default_action_option_bool.

(** THE GENERATED ARGUMENT of [x: Option<bool>] / [x: Option<Option<bool>>] (no attribute but the name: [optbool_field]):
    action Set, the bool value parser, one value (resp. 0..=1), not required and NO default -- whereas [x: bool]
    ([bool_field]) is a SetTrue flag without value whose implied default "false" is stored by every parse. *)
Theorem C15_optbool_argument : forall f, optbool_field f ->
  a_get_action (bf f) = ASet
  /\ a_vp (bf f) = Some Cmd.VPBool
  /\ a_num (bf f) = Some (match f_ty f with TyOptionOption => r_opt | _ => r_single end)
  /\ a_required (bf f) = false
  /\ a_default (bf f) = [].
Proof. exact optbool_argument. Qed.
Print Assumptions C15_optbool_argument.

Theorem C15_bool_argument : forall f, bool_field f ->
  a_get_action (bf f) = ASetTrue
  /\ a_vp (bf f) = Some Cmd.VPBool
  /\ a_num (bf f) = Some r_empty
  /\ a_default (bf f) = [s_false].
Proof. exact bool_argument. Qed.
Print Assumptions C15_bool_argument.

(** what the canonical printer writes for such a field: nothing for [None], [--x=true|false] for [Some(b)] (a bare [--x] for
    [Some(None)] of an [Option<Option<bool>>]) *)
Theorem C15_optbool_print : forall f, optbool_field f ->
  (f_ty f = TyOption ->
     field_groups f (DOpt None) = Some None
     /\ (forall b, field_groups f (DOpt (Some (SvBool b))) = Some (Some [[if b then s_true else s_false]])))
  /\ (f_ty f = TyOptionOption ->
     field_groups f (DOptOpt None) = Some None
     /\ field_groups f (DOptOpt (Some None)) = Some (Some [[]])
     /\ (forall b, field_groups f (DOptOpt (Some (Some (SvBool b)))) = Some (Some [[if b then s_true else s_false]]))).
Proof. intros f H. split; [exact (optbool_print f H)|exact (optoptbool_print f H)]. Qed.
Print Assumptions C15_optbool_print.

(** ROUND TRIP [None <-> absent] for structs of such fields, as an EQUALITY through the parser model and with NO hypothesis on the
    value: every value of the type that prints ([None] -> nothing, [Some(b)] -> [--x=b]) parses back to itself; instance of
    [C15_roundtrip_parse_class] whose value-side hypotheses ([ok_nodes], [fits_all], [required_mentioned], [takes_ok]) are
    all derived from the class. *)
Theorem C15_roundtrip_parse_optbool : forall d bin vs argv,
  opt_struct d -> Forall optbool_field (fields_of (d_nodes d)) ->
  valid (UnparseTree.with_bin (derive_cmd d) bin) = true -> print d vs = Some argv ->
  derived_parse d (bin :: argv) = PValue vs.
Proof. exact roundtrip_parse_optbool. Qed.
Print Assumptions C15_roundtrip_parse_optbool.

(** ABSENT => THE ABSENT VALUE, ALL ARGV.  For every struct of argument fields and flattened structs whose command passes
    clap's assertions, every line and every field whose argument has no default (not a [bool] flag / counter /
    [default_value]): if no token of the line names the field's argument (C10's [occurs]: key-map selection), the value the
    derived parser returns holds the field's [absent_value] -- [None] for [Option<T>] / [Option<Option<T>>] / [Option<Vec<T>>],
    the empty vector for [Vec<T>]; [field_at] looks the field up through non-optional flattens.  C10 [accepted_faithful],
    C06 [precedence] + [cmdline_phase_all_cl] (no entry at the end), then [extract_absent] (mutual induction: an absent id
    stays absent while extraction consumes the matches). *)
Theorem C15_unoccurring_is_absent : forall d bin toks vs f,
  flat_nodes (d_nodes d) = true -> In f (leaves (d_nodes d)) -> bf_default f = [] ->
  valid (UnparseTree.with_bin (derive_cmd d) bin) = true ->
  (forall a, In a (c_args (built d bin)) -> a_id a = f_id f -> ~ occurs (built d bin) toks a) ->
  derived_parse d (bin :: toks) = PValue vs ->
  forall x, field_at (d_nodes d) vs (f_id f) = Some x -> absent_value f = Some x.
Proof. exact unoccurring_is_absent. Qed.
Print Assumptions C15_unoccurring_is_absent.

(** ... for [Option<T>] fields, [Option<bool>] in particular: absent is [None], never [Some(false)] *)
Theorem C15_unoccurring_option_is_none : forall d bin toks vs f,
  flat_nodes (d_nodes d) = true -> In f (leaves (d_nodes d)) -> f_ty f = TyOption -> bf_default f = [] ->
  valid (UnparseTree.with_bin (derive_cmd d) bin) = true ->
  (forall a, In a (c_args (built d bin)) -> a_id a = f_id f -> ~ occurs (built d bin) toks a) ->
  derived_parse d (bin :: toks) = PValue vs ->
  forall x, field_at (d_nodes d) vs (f_id f) = Some x -> x = DOpt None.
Proof. exact unoccurring_option_is_none. Qed.
Print Assumptions C15_unoccurring_option_is_none.

(** Non-vacuity: [{ a: Option<bool>, b: Option<bool>, c: Option<Option<bool>>, d: Option<Option<bool>> }]:
    [{None, Some(false), Some(None), Some(Some(true))}] = [--bb=false --cc -d=true] and the all-[None] value = the empty line
    round-trip (by the theorem); [--aa] alone is a missing value (not a flag), [--aa true] is [Some(true)]; on
    [prog --bb false] no token names [a], every hypothesis of [C15_unoccurring_option_is_none] holds, and [a] is [None]. *)
Theorem C15_optbool_nonvacuous :
  opt_struct OptBoolEx.d /\ Forall optbool_field (fields_of (d_nodes OptBoolEx.d))
  /\ valid (UnparseTree.with_bin (derive_cmd OptBoolEx.d) b_prog) = true
  /\ print OptBoolEx.d OptBoolEx.v = Some OptBoolEx.argv /\ print OptBoolEx.d OptBoolEx.v0 = Some []
  /\ derived_parse OptBoolEx.d (b_prog :: OptBoolEx.argv) = PValue OptBoolEx.v
  /\ derived_parse OptBoolEx.d [b_prog] = PValue OptBoolEx.v0
  /\ derived_parse OptBoolEx.d [b_prog; [45;45;97;97]] = PError EInvalidValue
  /\ derived_parse OptBoolEx.d [b_prog; [45;45;97;97]; s_true]
       = PValue [DOpt (Some (SvBool true)); DOpt None; DOptOpt None; DOptOpt None]
  /\ (forall a, In a (c_args (built OptBoolEx.d b_prog)) -> a_id a = f_id OptBoolEx.fa ->
               ~ occurs (built OptBoolEx.d b_prog) OptBoolEx.toks a)
  /\ In OptBoolEx.fa (leaves (d_nodes OptBoolEx.d)) /\ f_ty OptBoolEx.fa = TyOption /\ bf_default OptBoolEx.fa = []
  /\ derived_parse OptBoolEx.d (b_prog :: OptBoolEx.toks) = PValue OptBoolEx.v2
  /\ field_at (d_nodes OptBoolEx.d) OptBoolEx.v2 (f_id OptBoolEx.fa) = Some (DOpt None).
Proof.
  destruct OptBoolEx.ex_print as [P1 P2]. destruct OptBoolEx.ex_roundtrip as [R1 R2].
  destruct OptBoolEx.ex_computed as (_ & C2 & C3). destruct OptBoolEx.ex_line as (_ & L2 & L3 & L4 & L5 & L6).
  split; [exact OptBoolEx.ex_struct|]. split; [exact OptBoolEx.ex_fields|]. split; [exact OptBoolEx.ex_valid|].
  split; [exact P1|]. split; [exact P2|]. split; [exact R1|]. split; [exact R2|]. split; [exact C2|]. split; [exact C3|].
  split; [exact OptBoolEx.ex_unnamed|]. split; [exact L2|]. split; [exact L3|]. split; [exact L4|]. split; [exact L5|exact L6].
Qed.
Print Assumptions C15_optbool_nonvacuous.

(** * Round 5 (3): [try_update_from] on [#[command(flatten)] x: Option<Inner>] when the value is already [Some]
      (Derive/DeriveOptFlatten.v).  The two recorded findings (update-default-reset, update-optflatten-materialised: the [None]
      arm) are unchanged; this is the [Some] arm. *)

(** [gen_updater]'s [Some] arm: the inner struct is updated IN PLACE (the members' own updaters run on the current values) and
    the flatten stays [Some] -- every body, every matches. *)
Theorem C15_update_optflatten_some : forall gid body fs m v' m',
  update_node (NFlatten true gid body) (DOptStruct (Some fs)) m = XOk (v', m') ->
  exists fs', v' = DOptStruct (Some fs') /\ update_nodes body fs m = XOk (fs', m').
Proof. exact update_optflatten_some. Qed.
Print Assumptions C15_update_optflatten_some.

(** matches level, every well-formed derive input: a field reachable in the current value through required flattens and through
    optional flattens that are [Some] ([field_ato]; [field_at] of round 1 stops at optional flattens) and whose id is not in the
    matches is still reachable after [update] -- the flattens on the way are still [Some] -- with the same value. *)
Theorem C15_update_frame_optflatten : forall d vs m vs' i x,
  wf_nodes (d_nodes d) -> update d vs m = XOk vs' -> m_contains i m = false ->
  field_ato (d_nodes d) vs i = Some x -> field_ato (d_nodes d) vs' i = Some x.
Proof. exact update_frame_ato. Qed.
Print Assumptions C15_update_frame_optflatten.

(** ALL ARGV: for every struct of argument fields and (optional) flattened structs whose update command passes clap's
    assertions, every line and every leaf field whose argument has no default: if the field is reachable in the current value
    (every [Option<Inner>] on the way is [Some]) and no token names its argument (C10's [occurs]), then after a successful
    [try_update_from] it is still reachable and has the same value.  Extends [C15_update_unoccurring_untouched_flat] (whose
    lookup does not enter optional flattens) to the class of the corpus types F3 / F6. *)
Theorem C15_update_unoccurring_untouched_opt : forall d bin toks vs vs' f x,
  flat_nodes (d_nodes d) = true -> wf_nodes (d_nodes d) -> In f (leaves (d_nodes d)) -> bf_default f = [] ->
  valid (UnparseTree.with_bin (derive_cmd_for_update d) bin) = true ->
  (forall a, In a (c_args (builtu d bin)) -> a_id a = f_id f -> ~ occurs (builtu d bin) toks a) ->
  derived_update d vs (bin :: toks) = PValue vs' ->
  field_ato (d_nodes d) vs (f_id f) = Some x -> field_ato (d_nodes d) vs' (f_id f) = Some x.
Proof. exact update_unoccurring_untouched_opt. Qed.
Print Assumptions C15_update_unoccurring_untouched_opt.

(** Non-vacuity: [{ t: Option<String>, #[command(flatten)] opt: Option<Inner { e: Option<u8>, g: Option<u8> }> }], value
    [{ t: None, opt: Some { e: Some(5), g: Some(6) } }] updated from [prog --ee 9] gives [{ None, Some { Some(9), Some(6) } }]:
    all hypotheses hold for [g] (round 1's [field_at] does not see it), it keeps 6; the same struct with [opt: None] updated
    from the empty line is materialised (the recorded finding, [None] arm). *)
Theorem C15_update_optflatten_nonvacuous :
  (forall a, In a (c_args (builtu OptFlattenEx.d OptFlattenEx.b_prog)) -> a_id a = f_id OptFlattenEx.fg ->
             ~ occurs (builtu OptFlattenEx.d OptFlattenEx.b_prog) OptFlattenEx.toks a)
  /\ wf_nodes (d_nodes OptFlattenEx.d)
  /\ flat_nodes (d_nodes OptFlattenEx.d) = true /\ In OptFlattenEx.fg (leaves (d_nodes OptFlattenEx.d))
  /\ bf_default OptFlattenEx.fg = []
  /\ valid (UnparseTree.with_bin (derive_cmd_for_update OptFlattenEx.d) OptFlattenEx.b_prog) = true
  /\ derived_update OptFlattenEx.d OptFlattenEx.v0 (OptFlattenEx.b_prog :: OptFlattenEx.toks) = PValue OptFlattenEx.v1
  /\ field_ato (d_nodes OptFlattenEx.d) OptFlattenEx.v0 (f_id OptFlattenEx.fg) = Some (DOpt (Some (SvInt 6%Z)))
  /\ field_at (d_nodes OptFlattenEx.d) OptFlattenEx.v0 (f_id OptFlattenEx.fg) = None
  /\ field_ato (d_nodes OptFlattenEx.d) OptFlattenEx.v1 (f_id OptFlattenEx.fg) = Some (DOpt (Some (SvInt 6%Z)))
  /\ derived_update OptFlattenEx.d [DOpt None; DOptStruct None] [OptFlattenEx.b_prog]
       = PValue [DOpt None; DOptStruct (Some [DOpt None; DOpt None])].
Proof.
  split; [exact OptFlattenEx.ex_unnamed|]. split; [exact OptFlattenEx.ex_wf|].
  destruct OptFlattenEx.ex_facts as (H1 & H2 & H3 & H4 & H5 & H6 & H7).
  split; [exact H1|]. split; [exact H2|]. split; [exact H3|]. split; [exact H4|]. split; [exact H5|]. split; [exact H6|].
  split; [exact H7|]. split; [exact OptFlattenEx.ex_in_place|exact OptFlattenEx.ex_none_arm].
Qed.
Print Assumptions C15_update_optflatten_nonvacuous.

(** * Round 5 (1, continued): the round trip for POSITIONAL enum-typed fields (Derive/DeriveEnumPos.v) *)

(** [E], [Option<E>] and a last [Vec<E>] as positionals: [derived_parse d (bin :: print d v) = PValue v] through the real
    [EnumValueParser]; instance of [C15_roundtrip_parse_positional] with [ok_nodes] derived from [enum_field]. *)
Theorem C15_roundtrip_parse_enum_positional : forall d bin vs argv,
  fields_only (d_nodes d) = true -> Forall pos_field (fields_of (d_nodes d)) -> NoDup (map f_id (fields_of (d_nodes d))) ->
  vec_last (fields_of (d_nodes d)) = true -> Forall enum_field (fields_of (d_nodes d)) ->
  pos_prefix (fields_of (d_nodes d)) vs -> pos_fits (fields_of (d_nodes d)) vs ->
  valid (UnparseTree.with_bin (derive_cmd d) bin) = true -> print d vs = Some argv ->
  derived_parse d (bin :: argv) = PValue vs.
Proof. exact roundtrip_parse_enum_positional. Qed.
Print Assumptions C15_roundtrip_parse_enum_positional.

(** Non-vacuity: [{ p: Delta (the hidden variant), q: Some(Alpha), r: [Delta, Delta] }] = [-- delta alpha delta delta]. *)
Theorem C15_roundtrip_parse_enum_positional_nonvacuous :
  Forall pos_field (fields_of (d_nodes EnumPosEx.d)) /\ NoDup (map f_id (fields_of (d_nodes EnumPosEx.d)))
  /\ vec_last (fields_of (d_nodes EnumPosEx.d)) = true /\ Forall enum_field (fields_of (d_nodes EnumPosEx.d))
  /\ pos_prefix (fields_of (d_nodes EnumPosEx.d)) EnumPosEx.v /\ pos_fits (fields_of (d_nodes EnumPosEx.d)) EnumPosEx.v
  /\ valid (UnparseTree.with_bin (derive_cmd EnumPosEx.d) b_prog) = true
  /\ print EnumPosEx.d EnumPosEx.v = Some EnumPosEx.argv
  /\ derived_parse EnumPosEx.d (b_prog :: EnumPosEx.argv) = PValue EnumPosEx.v.
Proof.
  split; [exact EnumPosEx.ex_class|]. split; [exact EnumPosEx.ex_nodup|]. split; [reflexivity|].
  split; [exact EnumPosEx.ex_enum_fields|]. split; [exact EnumPosEx.ex_prefix|]. split; [exact EnumPosEx.ex_fits|].
  split; [exact EnumPosEx.ex_valid|]. split; [exact EnumPosEx.ex_print|exact EnumPosEx.ex_roundtrip].
Qed.
Print Assumptions C15_roundtrip_parse_enum_positional_nonvacuous.

(** * Round 5, additions (Derive/DeriveRound5More.v) *)

(** under [ignore_case], an ASCII string equal up to ASCII case to an ASCII name or alias of a kept variant -- hidden or not --
    passes the enum field's parser ([C04_possible_caseless] at [enum_pvs]; the harness builds clap with the cargo feature
    `unicode`, under which non-ASCII strings are compared by full case folding: [C04_stored_possible]'s [name_eq]) *)
Theorem C15_enum_ascii_caseless : forall cnt e i v n s,
  nth_error e i = Some v -> vv_skip v = false -> In n (name_and_aliases (vv_pv v)) ->
  is_ascii n = true -> is_ascii s = true -> BoolParseProofs.ascii_ci_eq n s ->
  vp_parse (vp_of cnt true (TEnum e)) s = None.
Proof. exact enum_ascii_caseless. Qed.
Print Assumptions C15_enum_ascii_caseless.

Theorem C15_enum_ascii_caseless_nonvacuous :
  nth_error ex_henum 2 = Some (mkVv false {| pv_name := [100; 101; 108; 116; 97]; pv_aliases := [[100]] |} true)
  /\ is_ascii [100; 101; 108; 116; 97] = true /\ is_ascii [68; 101; 76; 116; 65] = true
  /\ BoolParseProofs.ascii_ci_eq [100; 101; 108; 116; 97] [68; 101; 76; 116; 65]
  /\ vp_parse (vp_of false true (TEnum ex_henum)) [68; 101; 76; 116; 65] = None.
Proof. exact enum_ascii_caseless_example. Qed.
Print Assumptions C15_enum_ascii_caseless_nonvacuous.

(** the UPDATE flavour of the generated argument ([command_for_update]) carries the same enum parser, coherently *)
Theorem C15_enum_field_parser_update : forall f e, f_t f = TEnum e -> f_ty f <> TyUnit ->
  a_vp (arg_build (field_arg true f)) = Some (Cmd.VPPossible (f_icase f) (enum_pvs e))
  /\ a_ignore_case (arg_build (field_arg true f)) = f_icase f
  /\ pv_coherent (arg_build (field_arg true f)) = true.
Proof. exact enum_field_parser_update. Qed.
Print Assumptions C15_enum_field_parser_update.

(** every SEQUENCE of updates: a field reachable through required flattens and [Some] optional flattens that none of the matches
    names stays reachable with the same value (induction on the list of matches) *)
Theorem C15_update_seq_frame_optflatten : forall d ms vs vs' i x,
  wf_nodes (d_nodes d) -> update_seq d vs ms = XOk vs' ->
  Forall (fun m => m_contains i m = false) ms ->
  field_ato (d_nodes d) vs i = Some x -> field_ato (d_nodes d) vs' i = Some x.
Proof. exact update_seq_frame_ato. Qed.
Print Assumptions C15_update_seq_frame_optflatten.

(** WHY [Option<bool>] must not be a flag: with the action the seeded change gave it ([SetTrue], expressible in the model as an
    explicit attribute) the round trip is broken -- [None] prints to the empty line, which parses to [Some(false)] *)
Theorem C15_optbool_as_flag_refuted :
  exists d v argv v', print d v = Some argv /\ derived_parse d ([112; 114; 111; 103] :: argv) = PValue v' /\ v' <> v.
Proof. exact optbool_as_flag_refuted. Qed.
Print Assumptions C15_optbool_as_flag_refuted.

(** Non-vacuity of the hypothesis [names_disjoint] of [C15_enum_bijection] / [C15_enum_hidden_accepted] / [C15_roundtrip_parse_enum]
    for an enum with two kept variants, one of them hidden with an alias ([ex_henum]), under both comparisons. *)
Theorem C15_enum_names_disjoint_nonvacuous : names_disjoint false ex_henum /\ names_disjoint true ex_henum.
Proof. split; [exact ex_henum_disjoint_cs|exact ex_henum_disjoint_ci]. Qed.
Print Assumptions C15_enum_names_disjoint_nonvacuous.

(** * Round 5: an optional flatten is [None] when the line names none of its members, ALL argv (Derive/DeriveOptFlattenNone.v) *)

(** [gen_constructor] builds [Option<Inner>] as [Some] iff [contains_id(Inner's group)]; the group gets an entry only from an
    EXPLICIT occurrence of one of its members (groups are started for explicit sources only; the defaults phase appends entries
    of arguments only).  For every struct of argument fields and flattened structs whose command passes clap's assertions and
    every line: if no token names an argument that belongs to the group [gid] (C10's [occurs]), the value the derived parser
    returns holds [None] for the optional flatten with that group id ([flatten_at]: lookup through required flattens).
    C10 [accepted_faithful], C06 [phase_order] / [cmdline_phase_all_cl] / [add_defaults_frame], then [extract_absent_group]. *)
Theorem C15_unoccurring_optflatten_is_none : forall d bin toks vs gid,
  flat_nodes (d_nodes d) = true -> valid (UnparseTree.with_bin (derive_cmd d) bin) = true ->
  find_group (built d bin) gid <> None ->
  (forall a, In a (c_args (built d bin)) -> In gid (groups_for_arg (built d bin) (a_id a)) -> ~ occurs (built d bin) toks a) ->
  derived_parse d (bin :: toks) = PValue vs ->
  forall x, flatten_at (d_nodes d) vs gid = Some x -> x = DOptStruct None.
Proof. exact unoccurring_optflatten_is_none. Qed.
Print Assumptions C15_unoccurring_optflatten_is_none.

(** Non-vacuity: [{ t: Option<String>, #[command(flatten)] opt: Option<Inner { e: Option<u8>, g: Option<u8> }> }] on [prog --tt x]:
    the group "I" exists, none of its arguments is named, [opt] is [None]; naming [e] ([prog --ee 9]) makes it [Some]. *)
Theorem C15_unoccurring_optflatten_nonvacuous :
  flat_nodes (d_nodes OptFlattenEx.d) = true
  /\ valid (UnparseTree.with_bin (derive_cmd OptFlattenEx.d) OptFlattenEx.b_prog) = true
  /\ find_group (built OptFlattenEx.d OptFlattenEx.b_prog) OptFlattenNoneEx.gidI <> None
  /\ (forall a, In a (c_args (built OptFlattenEx.d OptFlattenEx.b_prog)) ->
                In OptFlattenNoneEx.gidI (groups_for_arg (built OptFlattenEx.d OptFlattenEx.b_prog) (a_id a)) ->
                ~ occurs (built OptFlattenEx.d OptFlattenEx.b_prog) OptFlattenNoneEx.toks2 a)
  /\ derived_parse OptFlattenEx.d (OptFlattenEx.b_prog :: OptFlattenNoneEx.toks2) = PValue OptFlattenNoneEx.v2
  /\ flatten_at (d_nodes OptFlattenEx.d) OptFlattenNoneEx.v2 OptFlattenNoneEx.gidI = Some (DOptStruct None)
  /\ derived_parse OptFlattenEx.d [OptFlattenEx.b_prog; [45;45;101;101]; [57]]
       = PValue [DOpt None; DOptStruct (Some [DOpt (Some (SvInt 9%Z)); DOpt None])].
Proof.
  destruct OptFlattenNoneEx.ex_facts2 as (H1 & H2 & H3 & H4).
  split; [exact H1|]. split; [exact H2|]. split; [exact OptFlattenNoneEx.g_group|].
  split; [exact OptFlattenNoneEx.ex_members_unnamed|]. split; [exact H3|]. split; [exact H4|exact OptFlattenNoneEx.ex_named].
Qed.
Print Assumptions C15_unoccurring_optflatten_nonvacuous.

(** THE TYPED VALUE AGREES TOO.  [EnumValueParser::parse_ref] stores the first matching element of [value_variants()] (C04's
    [enum_parse]: its index [k] among the kept variants); the derive model's extraction reads the stored string again with
    [from_str] ([parse_scalar]).  The [k]-th kept variant is the declared variant the typed reading answers -- so re-reading
    the raw value loses nothing. *)
Theorem C15_enum_parse_ref_variant : forall e ic s k,
  enum_parse clap_unicode ic (map fst (enum_pvs e)) s = ValueBase.VOk k ->
  exists i pv, nth_error (lits e) k = Some (i, pv) /\ parse_scalar (TEnum e) ic s = Some (SvEnum i).
Proof. exact enum_parse_ref_variant. Qed.
Print Assumptions C15_enum_parse_ref_variant.
