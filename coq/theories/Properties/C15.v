(** Property C15: derived parsers are exactly their command plus field extraction, and round-trip.
    This file contains only the pinned statements; the model is Derive/DeriveModel.v, the proofs and
    the specification vocabulary ([shape_spec], [guar_nodes], [wf_nodes], [frame_nodes], [field_at],
    [names_disjoint]) are in Derive/DeriveProofs.v. *)
From ClapModel Require Import Base.Bytes Base.Utf8.
From ClapModel Require Import Parse.Cmd Parse.Matcher Parse.Errors Parse.Parser.
From ClapModel Require Import Value.PossibleValues.
From ClapModel Require Import Derive.DeriveModel Derive.DeriveProofs.
Open Scope N_scope.

(** Derived parsing succeeds exactly when the command's parse does: on every matches that meets the
    generated command's own guarantees, field extraction (from_arg_matches) succeeds.  For all derive
    inputs (field lists, flatten nesting, subcommand enums). *)
Theorem C15_extract_total : forall d m,
  wf_nodes (d_nodes d) -> guar_nodes (d_nodes d) m -> exists vs, extract d m = XOk vs.
Proof. exact extract_total. Qed.
Print Assumptions C15_extract_total.

(** Each field equals what the matches hold for it according to its type shape. *)
Theorem C15_shapes : forall f m v m',
  field_value f m = XOk (v, m') ->
  shape_spec f m v /\ (m' = m \/ m' = m_remove (f_id f) m).
Proof. exact field_value_shapes. Qed.
Print Assumptions C15_shapes.

(** Update changes only what the matches name (one call). *)
Theorem C15_update_frame : forall d vs m vs',
  update d vs m = XOk vs' -> frame_nodes (d_nodes d) m vs vs'.
Proof. exact update_frame. Qed.
Print Assumptions C15_update_frame.

(** ... and for every sequence of update calls. *)
Theorem C15_update_seq_frame : forall d ms vs vs' i,
  update_seq d vs ms = XOk vs' ->
  Forall (fun m => m_contains i m = false) ms ->
  field_at (d_nodes d) vs' i = field_at (d_nodes d) vs i.
Proof. exact update_seq_frame. Qed.
Print Assumptions C15_update_seq_frame.

(** "fields not named on the command line" (argv level) is refuted by the faithful model: the
    implied default of a flag is in the matches of every parse. *)
Theorem C15_update_frame_argv_refuted :
  exists d vs vs', derived_update d vs [b_prog] = PValue vs' /\ vs' <> vs.
Proof.
  exists ex_input, [DOne (SvBool true); DOpt None], [DOne (SvBool false); DOpt None].
  split; [exact update_argv_frame_witness | discriminate].
Qed.
Print Assumptions C15_update_frame_argv_refuted.

(** Every name and alias of a value-enum variant maps back to it, in both comparison modes. *)
Theorem C15_value_enum_names : forall e ic i v name,
  names_disjoint ic e ->
  nth_error e i = Some v -> vv_skip v = false -> In name (name_and_aliases (vv_pv v)) ->
  ve_from_str e name ic = Some i.
Proof. exact value_enum_names. Qed.
Print Assumptions C15_value_enum_names.

Theorem C15_value_enum_sound : forall e s ic i,
  ve_from_str e s ic = Some i ->
  exists v, nth_error e i = Some v /\ vv_skip v = false /\ pv_matches uni (vv_pv v) s ic = true.
Proof. exact value_enum_sound. Qed.
Print Assumptions C15_value_enum_sound.

Theorem C15_value_enum_skipped : forall e i v,
  nth_error e i = Some v -> vv_skip v = true ->
  ve_to_possible_value e i = None /\ forall s ic, ve_from_str e s ic <> Some i.
Proof. exact value_enum_skipped. Qed.
Print Assumptions C15_value_enum_skipped.

(** Printing a value and extracting from the matches of the printed line returns the value
    (matches level; [ok_nodes]: per field the attribute combinations of [field_ok], scalars that print and
    parse back, an optional flatten is Some only when its group is then present). *)
Theorem C15_roundtrip : forall d vs m,
  wf_nodes (d_nodes d) -> wfv_nodes (d_nodes d) -> ~ In (d_gid d) (level_ids (d_nodes d)) ->
  ok_nodes (d_nodes d) vs ->
  matches_of_print d vs = Some m ->
  extract d m = XOk vs.
Proof. exact roundtrip. Qed.
Print Assumptions C15_roundtrip.

(** ... one field, any shape. *)
Theorem C15_roundtrip_field : forall f v g m,
  field_ok f ->
  Forall (srt (f_t f) (f_icase f)) (scalars v) ->
  field_groups f v = Some g ->
  fm_get (f_id f) (ms_args m) = fm_get (f_id f) (field_entry f g) ->
  exists m', field_value f m = XOk (v, m').
Proof. exact field_roundtrip. Qed.
Print Assumptions C15_roundtrip_field.

(** The scalar hypothesis [srt] holds for bool, String, u8 and (under distinct names) value enums.
    (i64: decimal print/parse inversion is not proved; it is checked on every dround case.) *)
Theorem C15_roundtrip_scalars_partial :
  (forall ic x, srt TBool ic x) /\ (forall ic x, srt TStr ic x) /\ (forall ic x, srt TU8 ic x)
  /\ (forall e ic x, names_disjoint ic e -> Forall (fun v => utf8_valid (pv_name (vv_pv v)) = true) e -> srt (TEnum e) ic x).
Proof. exact scalars_roundtrip. Qed.
Print Assumptions C15_roundtrip_scalars_partial.
