(** Property C17: descriptive text can never change the structure of a generated script.
    This file contains only the pinned statements; the models are Escape/EscapeModel.v
    (escape functions = compositions of the [.replace] chains regenerated from the Rust source,
    Gen/EscapeTables.v) and Escape/ShellLex.v (lexer machines); proofs are in Escape/EscapeProofs.v.

    [final step st l] / [events step st l]: state reached and events produced when the lexer
    machine reads [l] from state [st].  [Lit c]: c became payload of a literal or comment. *)
From ClapModel Require Import Base.Bytes Gen.EscapeTables Escape.EscapeModel Escape.ShellLex Escape.EscapeProofs.
Open Scope N_scope.

(** [replace] is str::replace: left-to-right, non-overlapping. *)
Theorem C17_replace_match : forall pat rep s, pat <> [] -> starts_with s pat = true ->
  replace pat rep s = rep ++ replace pat rep (skipn (length pat) s).
Proof. exact replace_match. Qed.
Print Assumptions C17_replace_match.

Theorem C17_replace_nomatch : forall pat rep c s, pat <> [] -> starts_with (c :: s) pat = false ->
  replace pat rep (c :: s) = c :: replace pat rep s.
Proof. exact replace_nomatch. Qed.
Print Assumptions C17_replace_nomatch.

Theorem C17_replace_absent : forall pat rep, pat <> [] -> forall s,
  (forall i, starts_with (skipn i s) pat = false) -> replace pat rep s = s.
Proof. exact replace_absent. Qed.
Print Assumptions C17_replace_absent.

(** fish, -d '...' (option/flag help, subcommand about): for every text and continuation the
    escaped text is read as literal payload only -- the flattened text -- and the lexer is where
    it would be without it. *)
Theorem C17_fish_single_quoted : forall s rest,
  final fish_step FSQ (fish_escape_help s ++ rest) = final fish_step FSQ rest /\
  events fish_step FSQ (fish_escape_help s ++ rest) = map Lit (flatten s) ++ events fish_step FSQ rest.
Proof. exact fish_sq_context. Qed.
Print Assumptions C17_fish_single_quoted.

Theorem C17_fish_single_quoted_closes : forall s rest,
  events fish_step FB (39 :: fish_escape_help s ++ 39 :: rest) =
  Str 39 :: map Lit (flatten s) ++ Str 39 :: events fish_step FW rest.
Proof. exact fish_sq_closes. Qed.
Print Assumptions C17_fish_single_quoted_closes.

(** elvish, '...' *)
Theorem C17_elvish_single_quoted : forall s rest,
  final el_step ESQ (elvish_escape_help s ++ rest) = final el_step ESQ rest /\
  events el_step ESQ (elvish_escape_help s ++ rest) = map Lit (flatten s) ++ events el_step ESQ rest.
Proof. exact elvish_sq_context. Qed.
Print Assumptions C17_elvish_single_quoted.

(** nushell, # comment *)
Theorem C17_nushell_comment : forall s rest,
  final nu_step NC (nushell_single_line s ++ rest) = final nu_step NC rest /\
  events nu_step NC (nushell_single_line s ++ rest) = map Lit (flatten s) ++ events nu_step NC rest.
Proof. exact nushell_comment_context. Qed.
Print Assumptions C17_nushell_comment.

Theorem C17_nushell_comment_closes : forall s rest,
  events nu_step NB (35 :: nushell_single_line s ++ 10 :: rest) =
  Str 35 :: map Lit (flatten s) ++ Str 10 :: events nu_step NB rest.
Proof. exact nushell_comment_closes. Qed.
Print Assumptions C17_nushell_comment_closes.

(** zsh level 1 ('...' pieces of a word; a quote becomes '\''), level 2 ([description] and
    ':'-separated fields of an _arguments spec / _describe item). *)
Theorem C17_zsh_single_quoted_word : forall s rest,
  final sh_step ZSQ (zsh_escape_help s ++ rest) = final sh_step ZSQ rest /\
  skeleton (events sh_step ZSQ (zsh_escape_help s ++ rest)) = skeleton (events sh_step ZSQ rest) /\
  lits (events sh_step ZSQ (zsh_escape_help s ++ rest)) = zsh_l1 s ++ lits (events sh_step ZSQ rest).
Proof. exact zsh_sq_context. Qed.
Print Assumptions C17_zsh_single_quoted_word.

Theorem C17_zsh_spec_description : forall s rest,
  final zspec_step ZsDescr (zsh_l1 s ++ rest) = final zspec_step ZsDescr rest /\
  events zspec_step ZsDescr (zsh_l1 s ++ rest) = map Lit (flatten s) ++ events zspec_step ZsDescr rest.
Proof. exact zsh_descr_context. Qed.
Print Assumptions C17_zsh_spec_description.

Theorem C17_zsh_spec_field : forall s rest,
  final zspec_step ZsField (zsh_l1 s ++ rest) = final zspec_step ZsField rest /\
  events zspec_step ZsField (zsh_l1 s ++ rest) = map Lit (flatten s) ++ events zspec_step ZsField rest.
Proof. exact zsh_field_context. Qed.
Print Assumptions C17_zsh_spec_field.

(** zsh, help of a positional argument (escaped in line; newlines are kept): both levels. *)
Theorem C17_zsh_positional_word : forall s rest,
  final sh_step ZSQ (zsh_positional_help s ++ rest) = final sh_step ZSQ rest /\
  skeleton (events sh_step ZSQ (zsh_positional_help s ++ rest)) = skeleton (events sh_step ZSQ rest) /\
  lits (events sh_step ZSQ (zsh_positional_help s ++ rest)) = zsh_pos_l1 s ++ lits (events sh_step ZSQ rest).
Proof. exact zsh_pos_sq_context. Qed.
Print Assumptions C17_zsh_positional_word.

Theorem C17_zsh_positional_field : forall s rest,
  final zspec_step ZsField (zsh_pos_l1 s ++ rest) = final zspec_step ZsField rest /\
  events zspec_step ZsField (zsh_pos_l1 s ++ rest) = map Lit s ++ events zspec_step ZsField rest.
Proof. exact zsh_pos_field_context. Qed.
Print Assumptions C17_zsh_positional_field.

(** PowerShell, '...': all five single-quote characters of the tokenizer. *)
Theorem C17_powershell_single_quoted : forall s rest,
  final ps_step PSQ (powershell_escape_help s ++ rest) = final ps_step PSQ rest /\
  events ps_step PSQ (powershell_escape_help s ++ rest) = map Lit (flatten s) ++ events ps_step PSQ rest.
Proof. exact powershell_sq_context. Qed.
Print Assumptions C17_powershell_single_quoted.

Theorem C17_powershell_single_quoted_closes : forall s c rest, ps_is_sq c = false ->
  events ps_step PB (39 :: powershell_escape_help s ++ 39 :: c :: rest) =
  Str 39 :: map Lit (flatten s) ++ Str 39 :: events ps_step PW (c :: rest).
Proof. exact powershell_sq_closes. Qed.
Print Assumptions C17_powershell_single_quoted_closes.

(** fish, possible-value help inside the double-quoted -a list: level 1 (double quotes; the
    dollar sign would be an [Act] event) and both levels together. *)
Theorem C17_fish_double_quoted_list : forall s rest,
  final fish_step FDQ (fish_possible_value_help s ++ rest) = final fish_step FDQ rest /\
  events fish_step FDQ (fish_possible_value_help s ++ rest) =
    map Lit (fish_escape_help s) ++ events fish_step FDQ rest.
Proof. exact fish_dq_context. Qed.
Print Assumptions C17_fish_double_quoted_list.

Theorem C17_fish_possible_value_two_levels : forall s rest2,
  lits (events fish_step FDQ (fish_possible_value_help s)) = fish_escape_help s /\
  events fish_step FSQ (lits (events fish_step FDQ (fish_possible_value_help s)) ++ rest2) =
    map Lit (flatten s) ++ events fish_step FSQ rest2.
Proof. exact fish_possible_value_two_levels. Qed.
Print Assumptions C17_fish_possible_value_two_levels.

(** one-line slots: the payload contains no newline (it is [flatten s]). *)
Theorem C17_flatten : forall s, ~ In 10 (flatten s) /\ length (flatten s) = length s /\
  (forall i, nth i (flatten s) 0 = if nth i s 0 =? 10 then 32 else nth i s 0).
Proof. exact flatten_spec. Qed.
Print Assumptions C17_flatten.

(** The property's own wording, in the model: for any script prefix that leaves the lexer inside
    the literal and any suffix, the token skeleton and final state do not depend on the text. *)
Theorem C17_same_skeleton_fish : forall s1 s2 pre post, final fish_step FB pre = FSQ ->
  skeleton (events fish_step FB (pre ++ fish_escape_help s1 ++ post)) =
  skeleton (events fish_step FB (pre ++ fish_escape_help s2 ++ post)) /\
  final fish_step FB (pre ++ fish_escape_help s1 ++ post) = final fish_step FB (pre ++ fish_escape_help s2 ++ post).
Proof. exact same_skeleton_fish. Qed.
Print Assumptions C17_same_skeleton_fish.

Theorem C17_same_skeleton_fish_list : forall s1 s2 pre post, final fish_step FB pre = FDQ ->
  skeleton (events fish_step FB (pre ++ fish_possible_value_help s1 ++ post)) =
  skeleton (events fish_step FB (pre ++ fish_possible_value_help s2 ++ post)) /\
  final fish_step FB (pre ++ fish_possible_value_help s1 ++ post) =
  final fish_step FB (pre ++ fish_possible_value_help s2 ++ post).
Proof. exact same_skeleton_fish_list. Qed.
Print Assumptions C17_same_skeleton_fish_list.

Theorem C17_same_skeleton_zsh : forall s1 s2 pre post, final sh_step ZB pre = ZSQ ->
  skeleton (events sh_step ZB (pre ++ zsh_escape_help s1 ++ post)) =
  skeleton (events sh_step ZB (pre ++ zsh_escape_help s2 ++ post)) /\
  final sh_step ZB (pre ++ zsh_escape_help s1 ++ post) = final sh_step ZB (pre ++ zsh_escape_help s2 ++ post).
Proof. exact same_skeleton_zsh. Qed.
Print Assumptions C17_same_skeleton_zsh.

Theorem C17_same_skeleton_powershell : forall s1 s2 pre post, final ps_step PB pre = PSQ ->
  skeleton (events ps_step PB (pre ++ powershell_escape_help s1 ++ post)) =
  skeleton (events ps_step PB (pre ++ powershell_escape_help s2 ++ post)) /\
  final ps_step PB (pre ++ powershell_escape_help s1 ++ post) =
  final ps_step PB (pre ++ powershell_escape_help s2 ++ post).
Proof. exact same_skeleton_powershell. Qed.
Print Assumptions C17_same_skeleton_powershell.

Theorem C17_same_skeleton_elvish : forall s1 s2 pre post, final el_step EB pre = ESQ ->
  skeleton (events el_step EB (pre ++ elvish_escape_help s1 ++ post)) =
  skeleton (events el_step EB (pre ++ elvish_escape_help s2 ++ post)) /\
  final el_step EB (pre ++ elvish_escape_help s1 ++ post) = final el_step EB (pre ++ elvish_escape_help s2 ++ post).
Proof. exact same_skeleton_elvish. Qed.
Print Assumptions C17_same_skeleton_elvish.

Theorem C17_same_skeleton_nushell : forall s1 s2 pre post, final nu_step NB pre = NC ->
  skeleton (events nu_step NB (pre ++ nushell_single_line s1 ++ post)) =
  skeleton (events nu_step NB (pre ++ nushell_single_line s2 ++ post)) /\
  final nu_step NB (pre ++ nushell_single_line s1 ++ post) = final nu_step NB (pre ++ nushell_single_line s2 ++ post).
Proof. exact same_skeleton_nushell. Qed.
Print Assumptions C17_same_skeleton_nushell.

(** bash: none of the accessors bash.rs (or generator/utils.rs) calls returns descriptive text. *)
Theorem C17_bash_no_text : bash_uses_text = false.
Proof. exact bash_no_text. Qed.
Print Assumptions C17_bash_no_text.

(* ---- powershell / elvish generator models ---- *)
(** Whole-script structure invariance, composed through the byte-exact generator models
    (Complete/ElvishModel.v, Complete/PowershellModel.v; texts of the tree in a [TextTree.ttree]):
    which slot is written through which escape function is no longer an oracle-only fact for these
    two shells.  Class: [cmd_plain plain c] -- every name the generator writes (bin name, names,
    aliases, shorts, longs and their aliases of every node) consists of [plain] characters.
    Names are qualified: the two model files reuse the Rust names. *)
From ClapModel Require Complete.AotTree Complete.AotProofs Complete.TextTree Complete.PathTable Complete.PathTableLex
  Complete.BuildTexts Complete.ElvishModel Complete.ElvishProofs Complete.PowershellModel Complete.PowershellProofs.

(** elvish: [el_plain c] = c is neither quote character (39, 34) nor the comment sign (35).  For ANY two assignments of description texts to the
    same built tree (help / about present or absent, empty or not, any characters) the ENTIRE scripts
    have the same token skeleton and leave the lexer in the same state *)
Theorem C17_elvish_script_structure : forall c t1 t2 s1 s2,
  AotProofs.bins_built c -> PathTableLex.cmd_plain ElvishProofs.el_plain c = true ->
  ElvishModel.generate c t1 = Some s1 -> ElvishModel.generate c t2 = Some s2 ->
  skeleton (events el_step EB s1) = skeleton (events el_step EB s2) /\
  final el_step EB s1 = final el_step EB s2.
Proof. exact ElvishProofs.elvish_script_structure. Qed.
Print Assumptions C17_elvish_script_structure.

(** each text occurs only inside a string literal: the skeleton is the skeleton of the script generated
    with no description text at all, and every literal is closed when the script ends *)
Theorem C17_elvish_text_is_payload : forall c t s s0,
  AotProofs.bins_built c -> PathTableLex.cmd_plain ElvishProofs.el_plain c = true ->
  ElvishModel.generate c t = Some s -> ElvishModel.generate c TextTree.tt_none = Some s0 ->
  skeleton (events el_step EB s) = skeleton (events el_step EB s0) /\ final el_step EB s = EB.
Proof. exact ElvishProofs.elvish_text_is_payload. Qed.
Print Assumptions C17_elvish_text_is_payload.

(** the same for [clap_complete::aot::generate] as a whole ([set_bin_name], [Command::build] incl. the
    generated help/version texts and the copied about texts of the help subtree, then the generator) *)
Theorem C17_elvish_generate_structure : forall c bin t1 t2 b s1 s2,
  AotTree.build (AotTree.set_bin_name c bin) = Some b -> PathTableLex.cmd_plain ElvishProofs.el_plain b = true ->
  ElvishModel.generate_elvish c t1 bin = Some s1 -> ElvishModel.generate_elvish c t2 bin = Some s2 ->
  skeleton (events el_step EB s1) = skeleton (events el_step EB s2) /\
  final el_step EB s1 = final el_step EB s2.
Proof. exact ElvishProofs.elvish_generate_structure. Qed.
Print Assumptions C17_elvish_generate_structure.

(** the hypotheses are satisfiable (a built two-level tree; texts with quotes, newline, dollar-paren, empty / absent) *)
Theorem C17_elvish_structure_nonvacuous :
  exists s1 s2,
    AotTree.build (AotTree.set_bin_name PathTable.ex_tree [112]) = Some PathTable.ex_built /\
    PathTableLex.cmd_plain ElvishProofs.el_plain PathTable.ex_built = true /\
    ElvishModel.generate_elvish PathTable.ex_tree PathTable.ex_texts [112] = Some s1 /\
    ElvishModel.generate_elvish PathTable.ex_tree ElvishProofs.ex_texts2 [112] = Some s2 /\ s1 <> s2.
Proof. exact ElvishProofs.elvish_structure_nonvacuous. Qed.
Print Assumptions C17_elvish_structure_nonvacuous.

(** the class is sharp: names are not escaped, and with a quote in a subcommand name the about text of
    that subcommand changes the skeleton (replayed on the real generator) *)
Theorem C17_elvish_quote_in_name_refuted :
  exists c bin t1 t2 s1 s2,
    ElvishModel.generate_elvish c t1 bin = Some s1 /\ ElvishModel.generate_elvish c t2 bin = Some s2 /\
    skeleton (events el_step EB s1) <> skeleton (events el_step EB s2).
Proof. exact ElvishProofs.elvish_quote_in_name_refuted. Qed.
Print Assumptions C17_elvish_quote_in_name_refuted.

(** PowerShell: [ps_plain c] = c is none of the five single-quote characters, the four double-quote
    characters of the tokenizer, and the comment sign; for every [is_uppercase] *)
Theorem C17_powershell_script_structure : forall up c t1 t2 s1 s2,
  AotProofs.bins_built c -> PathTableLex.cmd_plain PowershellProofs.ps_plain c = true ->
  PowershellModel.generate up c t1 = Some s1 -> PowershellModel.generate up c t2 = Some s2 ->
  skeleton (events ps_step PB s1) = skeleton (events ps_step PB s2) /\
  final ps_step PB s1 = final ps_step PB s2.
Proof. exact PowershellProofs.powershell_script_structure. Qed.
Print Assumptions C17_powershell_script_structure.

Theorem C17_powershell_text_is_payload : forall up c t s s0,
  AotProofs.bins_built c -> PathTableLex.cmd_plain PowershellProofs.ps_plain c = true ->
  PowershellModel.generate up c t = Some s -> PowershellModel.generate up c TextTree.tt_none = Some s0 ->
  skeleton (events ps_step PB s) = skeleton (events ps_step PB s0) /\ final ps_step PB s = PB.
Proof. exact PowershellProofs.powershell_text_is_payload. Qed.
Print Assumptions C17_powershell_text_is_payload.

Theorem C17_powershell_generate_structure : forall up c bin t1 t2 b s1 s2,
  AotTree.build (AotTree.set_bin_name c bin) = Some b -> PathTableLex.cmd_plain PowershellProofs.ps_plain b = true ->
  PowershellModel.generate_powershell up c t1 bin = Some s1 ->
  PowershellModel.generate_powershell up c t2 bin = Some s2 ->
  skeleton (events ps_step PB s1) = skeleton (events ps_step PB s2) /\
  final ps_step PB s1 = final ps_step PB s2.
Proof. exact PowershellProofs.powershell_generate_structure. Qed.
Print Assumptions C17_powershell_generate_structure.

Theorem C17_powershell_structure_nonvacuous :
  exists s1 s2,
    AotTree.build (AotTree.set_bin_name PathTable.ex_tree [112]) = Some PathTable.ex_built /\
    PathTableLex.cmd_plain PowershellProofs.ps_plain PathTable.ex_built = true /\
    PowershellModel.generate_powershell PowershellProofs.ascii_upper PathTable.ex_tree PathTable.ex_texts [112] = Some s1 /\
    PowershellModel.generate_powershell PowershellProofs.ascii_upper PathTable.ex_tree PowershellProofs.ex_texts2 [112] = Some s2 /\
    s1 <> s2.
Proof. exact PowershellProofs.powershell_structure_nonvacuous. Qed.
Print Assumptions C17_powershell_structure_nonvacuous.

Theorem C17_powershell_quote_in_name_refuted :
  exists c bin t1 t2 s1 s2,
    PowershellModel.generate_powershell PowershellProofs.ascii_upper c t1 bin = Some s1 /\
    PowershellModel.generate_powershell PowershellProofs.ascii_upper c t2 bin = Some s2 /\
    skeleton (events ps_step PB s1) <> skeleton (events ps_step PB s2).
Proof. exact PowershellProofs.powershell_quote_in_name_refuted. Qed.
Print Assumptions C17_powershell_quote_in_name_refuted.
(** the class stated on the SOURCE tree (what the user wrote) and the bin name: [Command::build] keeps a
    tree in the class (the names it generates -- help, version, h, V -- and the space in bin names are plain) *)
Theorem C17_elvish_generate_structure_src : forall c bin t1 t2 s1 s2,
  PathTableLex.cmd_plain ElvishProofs.el_plain c = true -> PathTableLex.plainl ElvishProofs.el_plain bin = true ->
  ElvishModel.generate_elvish c t1 bin = Some s1 -> ElvishModel.generate_elvish c t2 bin = Some s2 ->
  skeleton (events el_step EB s1) = skeleton (events el_step EB s2) /\
  final el_step EB s1 = final el_step EB s2.
Proof. exact ElvishProofs.elvish_generate_structure_src. Qed.
Print Assumptions C17_elvish_generate_structure_src.

Theorem C17_powershell_generate_structure_src : forall up c bin t1 t2 s1 s2,
  PathTableLex.cmd_plain PowershellProofs.ps_plain c = true -> PathTableLex.plainl PowershellProofs.ps_plain bin = true ->
  PowershellModel.generate_powershell up c t1 bin = Some s1 ->
  PowershellModel.generate_powershell up c t2 bin = Some s2 ->
  skeleton (events ps_step PB s1) = skeleton (events ps_step PB s2) /\
  final ps_step PB s1 = final ps_step PB s2.
Proof. exact PowershellProofs.powershell_generate_structure_src. Qed.
Print Assumptions C17_powershell_generate_structure_src.
(* ---- end of the powershell / elvish block ---- *)
(* ---- fish generator model ---- *)
(** Whole-script structure invariance for fish.  [Complete/FishModel.v] is a byte-exact model of
    clap_complete/src/aot/shells/fish.rs (compared with the real generator's file on every run, streams
    [fish-model] of C16 and C17).  The file is a list of pieces: [Fx b] text the generator writes itself,
    [Dsq t] a description written through escape_help between single quotes, [Ddq t] a possible-value help written
    through escape_double_quoted(escape_help(..)) inside the double-quoted list -- so WHICH slot goes through WHICH
    escape in WHICH quoting context is part of the model.  [cdesc] carries the texts (about, help,
    possible-value help), [erase_desc] keeps only which of them are present.  [tame]: none of the bytes 34 (double quote), 39 (single quote), 92 (backslash), 35 (hash). *)
From ClapModel Require Import Complete.AotTree Complete.FishModel Complete.FishLexProofs.

(** the fixed text of the file does not depend on the description texts *)
Theorem C17_fish_script_fixed_text : forall c d,
  fish_pieces c (erase_desc d) = match fish_pieces c d with Some ps => Some (map perase ps) | None => None end.
Proof. exact fish_pieces_erase. Qed.
Print Assumptions C17_fish_script_fixed_text.

(** every description text of the whole file is read by the fish lexer as literal payload only: the
    events of the file are those of the fixed text plus, per slot, [Lit] events carrying the flattened
    text ([pevents]); the file ends between words *)
Theorem C17_fish_script_texts_literal : forall c d bin,
  c_bin c = Some bin -> tame bin = true -> tame_cmd c = true ->
  exists ps s, fish_pieces c d = Some ps /\ fish_script c d = Some s /\
    events fish_step FB s = pevents FB ps /\ skeleton (events fish_step FB s) = pskel FB ps /\
    is_bare (final fish_step FB s) = true.
Proof. exact fish_texts_literal. Qed.
Print Assumptions C17_fish_script_texts_literal.

(** the token skeleton (and the final lexer state) of the ENTIRE generated file is the same for any two
    assignments of description texts with the same presence shape (emptiness does not even matter) *)
Theorem C17_fish_script_same_skeleton : forall c d1 d2 bin,
  c_bin c = Some bin -> tame bin = true -> tame_cmd c = true -> erase_desc d1 = erase_desc d2 ->
  exists s1 s2, fish_script c d1 = Some s1 /\ fish_script c d2 = Some s2 /\
    skeleton (events fish_step FB s1) = skeleton (events fish_step FB s2) /\
    final fish_step FB s1 = final fish_step FB s2.
Proof. exact fish_text_invariance. Qed.
Print Assumptions C17_fish_script_same_skeleton.

(** the pair of files the harness generates for the oracle (the texts as given / innocuous text of the
    same emptiness) is an instance *)
Theorem C17_fish_script_adversarial_innocuous : forall c d bin,
  c_bin c = Some bin -> tame bin = true -> tame_cmd c = true ->
  exists s1 s2, fish_script c d = Some s1 /\ fish_script c (innocuous_desc d) = Some s2 /\
    skeleton (events fish_step FB s1) = skeleton (events fish_step FB s2) /\
    final fish_step FB s1 = final fish_step FB s2.
Proof. exact fish_adversarial_innocuous. Qed.
Print Assumptions C17_fish_script_adversarial_innocuous.

(** the hypotheses are satisfiable: a two-level tame tree, texts with quotes, backslashes, dollar signs,
    command substitutions and newlines in every slot against innocuous ones; the two files differ *)
Theorem C17_fish_script_nonvacuous :
  c_bin lx_root = Some [109; 121; 45; 97; 112; 112] /\ tame [109; 121; 45; 97; 112; 112] = true /\
  tame_cmd lx_root = true /\ erase_desc lx_adv = erase_desc lx_inn /\ lx_adv <> lx_inn /\
  fish_script lx_root lx_adv <> fish_script lx_root lx_inn.
Proof. exact fish_text_invariance_hyps. Qed.
Print Assumptions C17_fish_script_nonvacuous.

(** class boundary: an option NAME containing a double quote is written unescaped; the description after it
    is then read inside a double-quoted string and its dollar sign is live (replayed on the real generator: same file) *)
Theorem C17_fish_script_untamed_name_refuted :
  exists c d1 d2 bin s1 s2,
    c_bin c = Some bin /\ tame bin = true /\ tame_cmd c = false /\ erase_desc d1 = erase_desc d2 /\
    fish_script c d1 = Some s1 /\ fish_script c d2 = Some s2 /\
    skeleton (events fish_step FB s1) <> skeleton (events fish_step FB s2).
Proof. exact fish_untamed_name_refuted. Qed.
Print Assumptions C17_fish_script_untamed_name_refuted.

(** the same at the level of the command tree the user wrote: [generate_fish c d bin] is [set_bin_name] +
    [Command::build] (the tree by [AotTree.build], the texts by [dbuild]) + the generator.  [build] keeps names
    tame and treats the texts uniformly, so for two trees that differ only in their description texts
    [generate] succeeds on both or on neither and the two files have the same token skeleton *)
From ClapModel Require Import Complete.FishBuildProofs.
Theorem C17_fish_generate_same_skeleton : forall c d1 d2 bin s1,
  tame bin = true -> tame_cmd c = true -> erase_desc d1 = erase_desc d2 ->
  generate_fish c d1 bin = Some s1 ->
  exists s2, generate_fish c d2 bin = Some s2 /\
    skeleton (events fish_step FB s1) = skeleton (events fish_step FB s2) /\
    final fish_step FB s1 = final fish_step FB s2.
Proof. exact generate_fish_text_invariance. Qed.
Print Assumptions C17_fish_generate_same_skeleton.

Theorem C17_fish_build_uniform_in_texts : forall c d1 d2,
  erase_desc d1 = erase_desc d2 -> erase_desc (dbuild c d1) = erase_desc (dbuild c d2).
Proof. exact dbuild_erase_congr. Qed.
Print Assumptions C17_fish_build_uniform_in_texts.

Theorem C17_fish_build_keeps_names_tame : forall c bin b,
  build (set_bin_name c bin) = Some b -> tame_cmd c = true -> tame_cmd b = true.
Proof. exact build_tame. Qed.
Print Assumptions C17_fish_build_keeps_names_tame.

(** satisfiable: the example tree as a user tree (no bin name; build adds the help flags and the expanded
    help subcommand tree), adversarial against innocuous texts; both files exist and differ *)
Theorem C17_fish_generate_nonvacuous :
  tame [109; 121; 45; 97; 112; 112] = true /\ tame_cmd lx_user = true /\ erase_desc lx_adv = erase_desc lx_inn /\
  exists s1 s2, generate_fish lx_user lx_adv [109; 121; 45; 97; 112; 112] = Some s1 /\
                generate_fish lx_user lx_inn [109; 121; 45; 97; 112; 112] = Some s2 /\ s1 <> s2.
Proof. exact generate_fish_text_invariance_hyps. Qed.
Print Assumptions C17_fish_generate_nonvacuous.
(* ---- end fish generator model ---- *)
(* ---- nushell generator model ---- *)
(** Whole-module structure invariance for nushell.  [Complete/NushellModel.v] is a byte-exact transcription of
    clap_complete_nushell/src/lib.rs (compared with the real generator's module on every run, streams [nushell-model]
    of C16 and C17); [Complete/NushellProofs.v] proves it equal to a specification in pieces ([C16_nushell_model_is_pieces]):
    [NFx b] text the generator writes itself -- names, fixed syntax and the PADDING before a help comment, which
    append_value_completion_and_help computes from the line written so far -- and [NCm t] a description text written
    through single_line_styled_str after "# " (the about above an export extern; the help at the end of an argument's
    line, for options AND positionals: both call paths go through the same function of the model).  [nu_plain c]: c is none
    of the bytes 34 (double quote), 39 (single quote), 96 (backtick), 92 (backslash), 35 (hash); [nu_class c]: every bin
    name, command name and alias, short, long, alias, argument id and possible value of the tree consists of such bytes. *)
From ClapModel Require Complete.NushellModel Complete.NushellProofs Complete.NushellLexProofs.

(** the fixed text of the module -- the padding included -- does not depend on the description texts *)
Theorem C17_nushell_script_fixed_text : forall c d,
  NushellProofs.nu_pieces c (erase_desc d) = map NushellLexProofs.nperase (NushellProofs.nu_pieces c d).
Proof. exact NushellLexProofs.nu_pieces_erase. Qed.
Print Assumptions C17_nushell_script_fixed_text.

(** every description text of the whole module is read by the nushell lexer as literal payload only: the events of
    the module are those of the fixed text plus, per slot, [Lit] events carrying the flattened text ([npevents]);
    the module ends between words (every string and comment is closed) *)
Theorem C17_nushell_script_texts_literal : forall c d,
  c_bin c <> None -> AotProofs.bins_built c -> NushellLexProofs.nu_class c = true ->
  exists s, NushellModel.nushell_script c d = Some s /\
    events nu_step NB s = NushellLexProofs.npevents NB (NushellProofs.nu_pieces c d) /\
    skeleton (events nu_step NB s) = NushellLexProofs.npskel NB (NushellProofs.nu_pieces c d) /\
    final nu_step NB s = NB.
Proof. exact NushellLexProofs.nu_texts_literal. Qed.
Print Assumptions C17_nushell_script_texts_literal.

(** the token skeleton (and the final lexer state) of the ENTIRE generated module is the same for any two
    assignments of description texts with the same presence shape (emptiness does not matter) *)
Theorem C17_nushell_script_same_skeleton : forall c d1 d2,
  c_bin c <> None -> AotProofs.bins_built c -> NushellLexProofs.nu_class c = true -> erase_desc d1 = erase_desc d2 ->
  exists s1 s2, NushellModel.nushell_script c d1 = Some s1 /\ NushellModel.nushell_script c d2 = Some s2 /\
    skeleton (events nu_step NB s1) = skeleton (events nu_step NB s2) /\
    final nu_step NB s1 = final nu_step NB s2.
Proof. exact NushellLexProofs.nu_text_invariance. Qed.
Print Assumptions C17_nushell_script_same_skeleton.

(** the pair of modules the harness generates for the oracle (texts as given / innocuous text of the same
    emptiness) is an instance *)
Theorem C17_nushell_script_adversarial_innocuous : forall c d,
  c_bin c <> None -> AotProofs.bins_built c -> NushellLexProofs.nu_class c = true ->
  exists s1 s2, NushellModel.nushell_script c d = Some s1 /\ NushellModel.nushell_script c (innocuous_desc d) = Some s2 /\
    skeleton (events nu_step NB s1) = skeleton (events nu_step NB s2) /\
    final nu_step NB s1 = final nu_step NB s2.
Proof. exact NushellLexProofs.nu_adversarial_innocuous. Qed.
Print Assumptions C17_nushell_script_adversarial_innocuous.

(** [Command::build] keeps a tree in the class *)
Theorem C17_nushell_build_keeps_class : forall c bin b,
  build (set_bin_name c bin) = Some b -> NushellLexProofs.nu_class c = true ->
  PathTableLex.plainl NushellLexProofs.nu_plain bin = true -> NushellLexProofs.nu_class b = true.
Proof. exact NushellLexProofs.build_nu_class. Qed.
Print Assumptions C17_nushell_build_keeps_class.

(** the same at the level of the command tree the user wrote: [generate_nushell c d bin] = [set_bin_name] +
    [Command::build] (tree by [AotTree.build], texts by [dbuild]) + the generator; class on the SOURCE tree and
    the bin name; [generate] succeeds on both decorations and the two modules have the same token skeleton *)
Theorem C17_nushell_generate_same_skeleton : forall c d1 d2 bin,
  NushellLexProofs.nu_class c = true -> PathTableLex.plainl NushellLexProofs.nu_plain bin = true ->
  erase_desc d1 = erase_desc d2 ->
  exists s1 s2, NushellModel.generate_nushell c d1 bin = Some s1 /\ NushellModel.generate_nushell c d2 bin = Some s2 /\
    skeleton (events nu_step NB s1) = skeleton (events nu_step NB s2) /\
    final nu_step NB s1 = final nu_step NB s2.
Proof. exact NushellLexProofs.generate_nushell_text_invariance_src. Qed.
Print Assumptions C17_nushell_generate_same_skeleton.

(** satisfiable: a user tree with an option (short, long, visible alias, possible values), a positional and a
    subcommand; quotes of all kinds, backticks, hashes, backslashes, command substitutions, CR and LF in every slot
    against innocuous text; both modules exist and differ *)
Theorem C17_nushell_generate_nonvacuous :
  NushellLexProofs.nu_class NushellLexProofs.nx_user = true /\
  PathTableLex.plainl NushellLexProofs.nu_plain [109; 121; 45; 97; 112; 112] = true /\
  erase_desc NushellLexProofs.nx_adv = erase_desc NushellLexProofs.nx_inn /\
  NushellLexProofs.nx_adv <> NushellLexProofs.nx_inn /\
  exists s1 s2,
    NushellModel.generate_nushell NushellLexProofs.nx_user NushellLexProofs.nx_adv [109; 121; 45; 97; 112; 112] = Some s1 /\
    NushellModel.generate_nushell NushellLexProofs.nx_user NushellLexProofs.nx_inn [109; 121; 45; 97; 112; 112] = Some s2 /\
    s1 <> s2.
Proof. exact NushellLexProofs.generate_nushell_text_invariance_hyps. Qed.
Print Assumptions C17_nushell_generate_nonvacuous.

(** the hypotheses of the theorems about a built tree are satisfiable (the built example tree and its built texts) *)
Theorem C17_nushell_script_nonvacuous :
  exists b, build (set_bin_name NushellLexProofs.nx_user [109; 121; 45; 97; 112; 112]) = Some b /\
    c_bin b <> None /\ AotProofs.bins_built b /\ NushellLexProofs.nu_class b = true /\
    erase_desc (dbuild (set_bin_name NushellLexProofs.nx_user [109; 121; 45; 97; 112; 112]) NushellLexProofs.nx_adv) =
    erase_desc (dbuild (set_bin_name NushellLexProofs.nx_user [109; 121; 45; 97; 112; 112]) NushellLexProofs.nx_inn) /\
    NushellModel.nushell_script b (dbuild (set_bin_name NushellLexProofs.nx_user [109; 121; 45; 97; 112; 112]) NushellLexProofs.nx_adv) <>
    NushellModel.nushell_script b (dbuild (set_bin_name NushellLexProofs.nx_user [109; 121; 45; 97; 112; 112]) NushellLexProofs.nx_inn).
Proof. exact NushellLexProofs.nu_text_invariance_hyps. Qed.
Print Assumptions C17_nushell_script_nonvacuous.

(** class boundary: an argument id containing a double quote is written unescaped; the help comment after it is then
    read inside a string literal and a double quote in the TEXT closes it (replayed on the real generator: same module) *)
Theorem C17_nushell_script_quote_in_name_refuted :
  exists c d1 d2 bin s1 s2,
    NushellLexProofs.nu_class c = false /\ erase_desc d1 = erase_desc d2 /\
    NushellModel.generate_nushell c d1 bin = Some s1 /\ NushellModel.generate_nushell c d2 bin = Some s2 /\
    skeleton (events nu_step NB s1) <> skeleton (events nu_step NB s2).
Proof. exact NushellLexProofs.nushell_quote_in_name_refuted. Qed.
Print Assumptions C17_nushell_script_quote_in_name_refuted.
(* ---- end nushell generator model ---- *)

(* ---- zsh generator model ---- *)
(** Whole-script structure invariance for zsh, level 1 (shell words).  [Complete/ZshModel.v] is a byte-exact model of
    clap_complete/src/aot/shells/zsh.rs (compared with the real generator's file on every run, streams [zsh-model] of
    C16 and C17).  The file is a list of pieces: [Zx b] text the generator writes itself, [Zh t] a text written through
    escape_help (help of an option or flag inside [...], about of a subcommand in a [_describe] item, tooltip of a possible
    value inside "..."), [Zp t] the help of a positional written through the in-line replace chain after " -- " -- so
    WHICH slot goes through WHICH escape is part of the model.  [ztame_cmd]: none of the bytes 34, 39, 92, 35 in any
    command name, alias, option spelling, possible value, argument id or bin name.  [erase_desc] keeps only which texts are present. *)
From ClapModel Require Import Complete.AotTree Complete.FishModel Complete.FishLexProofs Complete.ZshModel Complete.ZshProofs Complete.ZshLexProofs.

(** the fixed text of the file does not depend on the description texts (every tree) *)
Theorem C17_zsh_script_fixed_text : forall c d,
  zsh_pieces c (erase_desc d) = option_map' (map zperase) (zsh_pieces c d).
Proof. exact zsh_pieces_erase. Qed.
Print Assumptions C17_zsh_script_fixed_text.

(** every slot of the file of a tame tree is met by zsh's word lexer inside a single-quoted word, whatever the texts;
    the file ends between words *)
Theorem C17_zsh_script_slots_quoted : forall c d ps,
  ztame_cmd c = true -> zsh_pieces c d = Some ps -> exists st, zrun ZB ps = Some st /\ zbare st = true.
Proof. exact zsh_file_runs. Qed.
Print Assumptions C17_zsh_script_slots_quoted.

(** so every description text is word-internal data: the token skeleton of the file is that of the fixed text alone
    ([zpskel]), and the level-1 payload -- what zsh hands to [_arguments] and [_describe] after quote removal -- is the
    fixed payload plus, per slot, the level-1 image of the text ([zplits]: [zsh_l1] / [zsh_pos_l1], to which the level-2
    theorems [C17_zsh_spec_description], [C17_zsh_spec_field], [C17_zsh_positional_field] apply) *)
Theorem C17_zsh_script_texts_literal : forall c d,
  ztame_cmd c = true -> forall ps, zsh_pieces c d = Some ps ->
  exists s, zsh_script c d = Some s /\
    skeleton (events sh_step ZB s) = zpskel ZB ps /\ lits (events sh_step ZB s) = zplits ZB ps /\
    zbare (final sh_step ZB s) = true.
Proof. exact zsh_texts_literal. Qed.
Print Assumptions C17_zsh_script_texts_literal.

(** the token skeleton and the final lexer state of the ENTIRE file are the same for any two assignments of description
    texts with the same presence shape *)
Theorem C17_zsh_script_same_skeleton : forall c d1 d2 s1,
  ztame_cmd c = true -> erase_desc d1 = erase_desc d2 -> zsh_script c d1 = Some s1 ->
  exists s2, zsh_script c d2 = Some s2 /\
    skeleton (events sh_step ZB s1) = skeleton (events sh_step ZB s2) /\
    final sh_step ZB s1 = final sh_step ZB s2.
Proof. exact zsh_text_invariance. Qed.
Print Assumptions C17_zsh_script_same_skeleton.

(** the pair of files the harness generates for the oracle (texts as given / innocuous text of the same emptiness) *)
Theorem C17_zsh_script_adversarial_innocuous : forall c d s1,
  ztame_cmd c = true -> zsh_script c d = Some s1 ->
  exists s2, zsh_script c (innocuous_desc d) = Some s2 /\
    skeleton (events sh_step ZB s1) = skeleton (events sh_step ZB s2) /\
    final sh_step ZB s1 = final sh_step ZB s2.
Proof. exact zsh_adversarial_innocuous. Qed.
Print Assumptions C17_zsh_script_adversarial_innocuous.

(** satisfiable: the two-level tree of [C16_zsh_ok_nonvacuous] with quotes, [$(..)], backticks, brackets, colons and a
    backslash in every slot against innocuous texts; both files exist and differ *)
Theorem C17_zsh_script_nonvacuous :
  ztame_cmd zx_root = true /\ erase_desc zl_adv = erase_desc zl_inn /\ zl_adv <> zl_inn /\
  exists s1 s2, zsh_script zx_root zl_adv = Some s1 /\ zsh_script zx_root zl_inn = Some s2 /\ s1 <> s2.
Proof. exact zsh_text_invariance_hyps. Qed.
Print Assumptions C17_zsh_script_nonvacuous.

(** class boundary: an option NAME with a single quote is written unescaped; it ends the quoted spec early and the help
    behind it is read outside the quotes (recorded family [C17-names-unescaped]) *)
Theorem C17_zsh_script_untamed_name_refuted :
  exists c d1 d2 s1 s2,
    ztame_cmd c = false /\ erase_desc d1 = erase_desc d2 /\
    zsh_script c d1 = Some s1 /\ zsh_script c d2 = Some s2 /\
    skeleton (events sh_step ZB s1) <> skeleton (events sh_step ZB s2).
Proof. exact zsh_untamed_name_refuted. Qed.
Print Assumptions C17_zsh_script_untamed_name_refuted.
(** round 4: [ztame_cmd] also asks the VALUE NAMES (written as they are between the colons of an option spec) and the value
    terminators (written through [escape_value]) to be free of quotes, backslashes and hashes.  Satisfiable with both, and
    sharp for value names: a quote in a value name ends the quoted spec early and the help of the NEXT option is read
    outside the quotes (family of the recorded finding C17-names-unescaped) *)
Theorem C17_zsh_script_value_name_terminator_nonvacuous :
  ztame_cmd zl_ext_cmd = true /\
  exists s, zsh_script zl_ext_cmd cd0 = Some s /\
    binfix [39; 45; 45; 111; 117; 116; 61; 91; 93; 58; 70; 73; 76; 69; 58; 95; 100; 101; 102; 97; 117; 108; 116; 39; 32; 92] s = true /\
    binfix [39; 42; 97; 92; 32; 98; 59; 58; 58; 115; 114; 99; 58; 95; 100; 101; 102; 97; 117; 108; 116; 39; 32; 92] s = true /\
    binfix [39; 58; 58; 114; 101; 115; 116; 58; 95; 100; 101; 102; 97; 117; 108; 116; 39; 32; 92] s = true.
Proof. exact zsh_tame_value_name_terminator. Qed.
Print Assumptions C17_zsh_script_value_name_terminator_nonvacuous.

Theorem C17_zsh_script_untamed_value_name_refuted :
  exists c d1 d2 s1 s2,
    ztame_cmd c = false /\ erase_desc d1 = erase_desc d2 /\
    zsh_script c d1 = Some s1 /\ zsh_script c d2 = Some s2 /\
    skeleton (events sh_step ZB s1) <> skeleton (events sh_step ZB s2).
Proof. exact zsh_untamed_value_name_refuted. Qed.
Print Assumptions C17_zsh_script_untamed_value_name_refuted.
(** Level 2: the [_arguments] specs and [_describe] items.  [spec_line c d g line]: [line] is one of the quoted spec
    lines the model writes for the command [c] (an option spec per spelling, a flag spec per spelling, a positional
    spec, a ['name:about'] item per subcommand name or visible alias); the C16 theorems [C16_zsh_block_options],
    [C16_zsh_block_flags], [C16_zsh_block_positionals], [C16_zsh_describe_entries], [C16_zsh_path_block] place these lines
    in the file.  [payload line st]: what zsh's word lexer hands on after quote removal.  [zrun2] threads the word
    lexer AND the spec lexer of [ShellLex.v] through the pieces. *)

(** generic: when both lexers run through a word list (every escape_help slot inside quotes and in the description or
    a field of the spec, every positional help inside quotes in a field), the level-2 events of its payload are those
    of the fixed text plus, per slot, the text itself as literal payload (newlines flattened by escape_help) *)
Theorem C17_zsh_level2_events : forall l s1 s2 st, zrun2 s1 s2 l = Some st ->
  events zspec_step s2 (payload l s1) = zpev2 s1 s2 l /\ final zspec_step s2 (payload l s1) = snd st.
Proof. exact zrun2_events. Qed.
Print Assumptions C17_zsh_level2_events.

(** every spec line of a tame command runs at both levels and ends on the continuation backslash ([gtame g]: the parent
    command handed to [arg_conflicts] for global arguments is tame too -- the exclusion list [(-x --exclude)] is fixed text
    made of option spellings) *)
Theorem C17_zsh_spec_lines_run : forall c d g line st,
  ztame_cmd c = true -> gtame g -> spec_line c d g line -> zbare st = true ->
  exists s2, zrun2 st ZsPre line = Some (ZBS, s2).
Proof. exact zsh_spec_lines_run2. Qed.
Print Assumptions C17_zsh_spec_lines_run.

(** level-2 structure invariance per spec line: any line with the same fixed text has the same [_arguments]-level token
    skeleton and final state -- brackets and colons in a help, about or tooltip text never become structure *)
Theorem C17_zsh_spec_line_level2 : forall c d g line line' st,
  ztame_cmd c = true -> gtame g -> spec_line c d g line -> zbare st = true -> map zperase line = map zperase line' ->
  skeleton (events zspec_step ZsPre (payload line st)) = skeleton (events zspec_step ZsPre (payload line' st)) /\
  final zspec_step ZsPre (payload line st) = final zspec_step ZsPre (payload line' st).
Proof. exact zsh_spec_line_level2. Qed.
Print Assumptions C17_zsh_spec_line_level2.

(** the lines written for other texts of the same presence shape are such lines *)
Theorem C17_zsh_spec_lines_fixed_text : forall c g a ad card about w,
  opt_lines c g (a, erase_adesc ad) = map (map zperase) (opt_lines c g (a, ad)) /\
  flag_lines c g (a, erase_adesc ad) = map (map zperase) (flag_lines c g (a, ad)) /\
  positional_line card (a, erase_adesc ad) = map zperase (positional_line card (a, ad)) /\
  describe_entry (erase_opt about) w = map zperase (describe_entry about w).
Proof. exact spec_lines_fixed_text. Qed.
Print Assumptions C17_zsh_spec_lines_fixed_text.

(** level 3 stays a class boundary (recorded finding [C17-zsh-tooltip-dquote]): escape_help leaves a double quote as it
    is, at both levels it is payload, and inside the eval'd double-quoted string it ends the string *)
Theorem C17_zsh_tooltip_dquote_boundary :
  zsh_escape_help [34%N] = [34%N] /\ zsh_l1 [34%N] = [34%N] /\ final sh_step ZDQ [34%N] = ZW.
Proof. exact zsh_tooltip_dquote_boundary. Qed.
Print Assumptions C17_zsh_tooltip_dquote_boundary.
(* ---- end zsh generator model ---- *)
