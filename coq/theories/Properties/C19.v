(** Property C19: man pages always render, cover every visible item, and keep user text as text.
    This file contains only the pinned statements; proofs live in Man/RoffProofs.v, Man/ManProofs.v.

    Vocabulary: [mcmd]/[marg]/[msub] = the command as clap_mangen reads it through clap's getters;
    [mbuild] = the part of Command::build it depends on; [man_doc m] = the roff document Man::render
    builds ([Ok d]) or the expect/unwrap site it would panic at; [to_writer] = the roff crate's
    rendering; [control_lines out] = the physical lines of [out] that start with '.' or an apostrophe;
    [own_controls l] = what the generator itself emits as control lines for a document line (the
    line of a [Control] element, one [.br] per [LineBreak]).  All strings are arbitrary byte lists. *)
From ClapModel Require Import Base.Bytes Gen.RoffTables Gen.ManTables.
From ClapModel Require Import Man.RoffModel Man.RoffProofs Man.ManModel Man.ManProofs Man.ManInvariance.
Open Scope N_scope.

(* The roff crate: after escape_leading_cc nothing that follows a newline starts with a control
   character -- for every string. *)
Theorem C19_escape_leading_cc : forall s a b,
  escape_leading_cc s = a ++ 10 :: b -> starts_with_cc b = false.
Proof. exact escape_leading_cc_after_newline. Qed.
Print Assumptions C19_escape_leading_cc.

(* The roff crate: a document whose control elements have single-line names/arguments and whose text
   lines satisfy the boolean criterion [line_ok] has exactly the preamble's and the generator's own
   control lines. *)
Theorem C19_roff_control_lines : forall d : roff,
  doc_good d = true ->
  control_lines (to_writer d) = preamble_controls ++ flat_map own_controls d.
Proof. exact doc_control_lines. Qed.
Print Assumptions C19_roff_control_lines.

(* User text never becomes a request: for EVERY command record and EVERY string in every slot
   (names, about, help, after-help, author, version, headings, value names, defaults, env, possible
   values, Man title/section/date/source/manual), the control lines of the rendered page are exactly
   the generator's own. *)
Theorem C19_text_never_control : forall (m : mman) (d : roff),
  man_doc m = Ok d ->
  control_lines (to_writer d) = preamble_controls ++ flat_map own_controls d.
Proof. exact page_control_lines. Qed.
Print Assumptions C19_text_never_control.

(* The control lines are fixed by the generator, part 1: every control element of a generated
   document is .TH/.SH -- author text in the arguments, confined to that one line -- or one of
   PP, TP, RS, RS 14, RE, IP \(bu 2 verbatim. *)
Theorem C19_requests_fixed : forall (m : mman) (d : roff) name args,
  man_doc m = Ok d -> In (Control name args) d ->
  ctl_fixed name args = true /\ ctl_clean name args = true.
Proof. exact man_doc_requests. Qed.
Print Assumptions C19_requests_fixed.

(* The control lines are fixed by the generator, part 2: they are a function of the command's
   structure.  [map_man sigma] rewrites EVERY text-only slot (bin name, long version, author, about,
   long about, after-help, option ids / shorts / longs / value names / help / long help / defaults /
   env / possible values and their help, subcommand names and abouts, subcommand value name) with an
   arbitrary function sigma; the slots that reach .TH/.SH arguments (name, display name, version,
   help headings, subcommand heading, Man overrides) are kept.  If sigma keeps the blank-line pattern
   (which lines of a text are blank: the description emits .PP for those), the control lines of the
   page are unchanged.  [evil_blank]: prefixing every non-blank one-line text with ".so " is such a
   sigma. *)
Theorem C19_controls_fixed : forall sigma : bytes -> bytes,
  (forall s, map is_blank (lines (sigma s)) = map is_blank (lines s)) ->
  forall (m : mman) (d d' : roff),
  man_doc m = Ok d -> man_doc (map_man sigma m) = Ok d' ->
  control_lines (to_writer d') = control_lines (to_writer d).
Proof. exact page_controls_invariant. Qed.
Print Assumptions C19_controls_fixed.

(* User text stays text: reading the crate's escapes back (backslash-backslash, backslash-dash, the
   apostrophe string) returns the author's string -- no backslash of the author starts an escape. *)
Theorem C19_escape_read_back : forall s, read_text (escape_apostrophes (escape_inline s)) = s.
Proof. exact escape_read_back. Qed.
Print Assumptions C19_escape_read_back.

(* Totality, and the page of Man::new(cmd) with any builder overrides: no expect/unwrap is reached
   and the control lines are the generator's own. *)
Theorem C19_total : forall (c : mcmd) (o : moverrides),
  exists d, man_doc (apply_overrides o (man_new (mbuild c))) = Ok d
            /\ man_page c o = Ok (to_writer d)
            /\ control_lines (to_writer d) = preamble_controls ++ flat_map own_controls d.
Proof. exact man_page_controls. Qed.
Print Assumptions C19_total.

(* Every visible option / positional is named on the page: its long (else short) in bold, resp. its
   value names (else id) in italics, escaped. *)
Theorem C19_lists_visible_args : forall (m : mman) (d : roff) (a : marg),
  man_doc m = Ok d -> In a (c_args (m_cmd m)) -> a_hide a = false ->
  occurs (shown (arg_name_inline a)) (to_writer d).
Proof. exact visible_arg_named. Qed.
Print Assumptions C19_lists_visible_args.

(* Every visible option / positional has its entry in the OPTIONS part (under .SH OPTIONS or under
   its help heading) with its name in the entry's header line, and that part is on the page. *)
Theorem C19_lists_visible_options : forall (m : mman) (d : roff) (a : marg),
  man_doc m = Ok d -> In a (c_args (m_cmd m)) -> a_hide a = false ->
  exists os inl, render_options_section m = Ok os /\ (forall l, In l os -> In l d)
                 /\ In (Text inl) os /\ In (header_name a) inl.
Proof. exact visible_arg_entry. Qed.
Print Assumptions C19_lists_visible_options.

(* Every visible subcommand is named on the page as name-sub(section). *)
Theorem C19_lists_visible_subs : forall (m : mman) (d : roff) (s : msub),
  man_doc m = Ok d -> In s (c_subs (m_cmd m)) -> s_hide s = false ->
  occurs (escape_text true (sub_title m s)) (to_writer d).
Proof. exact visible_sub_named. Qed.
Print Assumptions C19_lists_visible_subs.

(* Hidden arguments and subcommands contribute nothing: commands that differ only in hidden items
   (and agree on whether there is any subcommand) have the same document. *)
Theorem C19_hides_hidden : forall (m : mman) (args' : list marg) (subs' : list msub),
  filter visible args' = filter visible (c_args (m_cmd m)) ->
  filter sub_visible subs' = filter sub_visible (c_subs (m_cmd m)) ->
  (subs' = [] <-> c_subs (m_cmd m) = []) ->
  man_doc (with_cmd m (with_lists (m_cmd m) args' subs')) = man_doc m.
Proof. exact hidden_items_contribute_nothing. Qed.
Print Assumptions C19_hides_hidden.
