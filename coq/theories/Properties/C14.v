(** Property C14: OS-string helpers and the argument cursor behave like their simple models.
    This file contains only the pinned statements; proofs live in Lex/*Proofs.v. *)
From ClapModel Require Import Base.Bytes Base.Machine.
From ClapModel Require Import Lex.OsStrExtModel Lex.OsStrExtProofs Lex.CursorModel Lex.CursorProofs.
From Coq Require Import ZArith.
Open Scope nat_scope.

Theorem C14_find_least : forall h n i,
  find h n = Some i <-> (occurs_at h n i /\ forall j, j < i -> ~ occurs_at h n j).
Proof. exact find_some. Qed.
Print Assumptions C14_find_least.

Theorem C14_find_none : forall h n, find h n = None <-> forall i, ~ occurs_at h n i.
Proof. exact find_none. Qed.
Print Assumptions C14_find_none.

Theorem C14_contains : forall h n, contains h n = true <-> exists i, occurs_at h n i.
Proof. exact contains_spec. Qed.
Print Assumptions C14_contains.

Theorem C14_starts_with : forall h n, starts_with h n = true <-> exists t, h = n ++ t.
Proof. exact starts_with_spec. Qed.
Print Assumptions C14_starts_with.

Theorem C14_strip_prefix : forall h p t, strip_prefix h p = Some t <-> h = p ++ t.
Proof. exact strip_prefix_spec. Qed.
Print Assumptions C14_strip_prefix.

Theorem C14_split_once : forall h n a b,
  split_once h n = Some (a, b) <->
  (h = a ++ n ++ b /\ forall j, j < length a -> ~ occurs_at h n j).
Proof. exact split_once_some. Qed.
Print Assumptions C14_split_once.

Theorem C14_split_once_none : forall h n,
  split_once h n = None <-> forall i, ~ occurs_at h n i.
Proof. exact split_once_none. Qed.
Print Assumptions C14_split_once_none.

Theorem C14_split : forall h n, n <> [] ->
  exists l, split h n = SplitOk l /\ SplitSpec n h l /\ intercalate n l = h.
Proof. exact split_total. Qed.
Print Assumptions C14_split.

Theorem C14_split_unique : forall n h l1, SplitSpec n h l1 -> forall l2, SplitSpec n h l2 -> l1 = l2.
Proof. exact SplitSpec_functional. Qed.
Print Assumptions C14_split_unique.

Theorem C14_cursor_refines : forall l ops,
  (Z.of_nat (length l) + Z.of_nat (ops_size ops) < 4611686018427387904)%Z ->
  Forall op_ok ops ->
  crun (cinit l) ops = irun {| iitems := l; idx := 0 |} ops /\
  ~ In OPanic (crun (cinit l) ops).
Proof. exact cursor_refines. Qed.
Print Assumptions C14_cursor_refines.
