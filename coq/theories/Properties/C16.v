(** Property C16: generated completion scripts cover the whole command tree (and the bash script
    works).  This file contains only the pinned statements; proofs live in Complete/AotProofs.v
    and Complete/BashProofs.v. *)
From ClapModel Require Import Base.Bytes Complete.AotTree Complete.BashModel Complete.AotProofs.
Open Scope list_scope.

(** utils::all_subcommands lists exactly the (name | visible alias, bin name) pairs of every
    non-root node, for trees of any depth *)
Theorem C16_tree_walk : forall c,
  bins_built c ->
  exists l, all_subcommands c = Some l /\
    forall w b, In (w, b) l <->
      exists n, desc c n /\ c_bin n = Some b /\ In w (get_name_and_visible_aliases n).
Proof. exact all_subcommands_spec. Qed.
Print Assumptions C16_tree_walk.

(** Command::build (what _generate runs first) establishes the hypothesis *)
Theorem C16_build_assigns_bins : forall c b, build c = Some b -> bins_built b.
Proof. exact build_bins_built. Qed.
Print Assumptions C16_build_assigns_bins.

Theorem C16_subcommands : forall p,
  (forall sc, In sc (c_subs p) -> c_bin sc <> None) ->
  exists l, subcommands p = Some l /\
    forall w b, In (w, b) l <->
      exists sc, In sc (c_subs p) /\ c_bin sc = Some b /\ In w (get_name_and_visible_aliases sc).
Proof. exact subcommands_spec. Qed.
Print Assumptions C16_subcommands.

(** shorts / longs: exactly the primary spelling and the visible aliases of the options that have
    a primary spelling; hidden aliases never appear *)
Theorem C16_shorts : forall p s,
  In s (shorts_and_visible_aliases p) <->
  exists a, In a (c_args p) /\ a_is_positional a = false /\
            exists sh, a_short a = Some sh /\ (s = sh \/ In (s, true) (a_short_aliases a)).
Proof. exact shorts_spec. Qed.
Print Assumptions C16_shorts.

Theorem C16_longs : forall p s,
  In s (longs_and_visible_aliases p) <->
  exists a, In a (c_args p) /\ a_is_positional a = false /\
            exists lg, a_long a = Some lg /\ (s = lg \/ In (s, true) (a_aliases a)).
Proof. exact longs_spec. Qed.
Print Assumptions C16_longs.

(** every short / long / visible alias of every option is returned, in the class where an alias
    comes with its primary spelling ... *)
Theorem C16_shorts_complete : forall p,
  aliases_have_primary p ->
  forall a s, In a (c_args p) -> a_is_positional a = false ->
    (a_short a = Some s \/ In (s, true) (a_short_aliases a)) -> In s (shorts_and_visible_aliases p).
Proof. exact shorts_complete. Qed.
Print Assumptions C16_shorts_complete.

Theorem C16_longs_complete : forall p,
  aliases_have_primary p ->
  forall a s, In a (c_args p) -> a_is_positional a = false ->
    (a_long a = Some s \/ In (s, true) (a_aliases a)) -> In s (longs_and_visible_aliases p).
Proof. exact longs_complete. Qed.
Print Assumptions C16_longs_complete.

(** ... and outside it the statement is false of the code (finding alias-without-primary) *)
Theorem C16_shorts_alias_without_primary_refuted :
  exists p a s, In a (c_args p) /\ a_is_positional a = false /\ In (s, true) (a_short_aliases a) /\
                ~ In s (shorts_and_visible_aliases p).
Proof. exact shorts_alias_without_primary_refuted. Qed.
Print Assumptions C16_shorts_alias_without_primary_refuted.

Theorem C16_flags : forall p a,
  In a (flags p) <-> In a (c_args p) /\ a_takes_values a = false /\ a_is_positional a = false.
Proof. exact flags_spec. Qed.
Print Assumptions C16_flags.

Theorem C16_opts_flags_partition : forall p a,
  In a (c_args p) -> a_is_positional a = false ->
  (In a (get_opts p) /\ ~ In a (flags p)) \/ (In a (flags p) /\ ~ In a (get_opts p)).
Proof. exact opts_flags_partition. Qed.
Print Assumptions C16_opts_flags_partition.

Theorem C16_possible_values : forall a,
  possible_values a = (if a_takes_values a then a_pvs a else None).
Proof. exact possible_values_spec. Qed.
Print Assumptions C16_possible_values.

(** compgen -W opts -- cur = the words of opts that start with cur *)
Theorem C16_bash_offers : forall words cur w,
  In w (compgen_W words cur) <-> In w words /\ exists t, w = cur ++ t.
Proof. exact compgen_W_spec. Qed.
Print Assumptions C16_bash_offers.
