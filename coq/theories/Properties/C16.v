(** Property C16: generated completion scripts cover the whole command tree (and the bash script
    works).  This file contains only the pinned statements; proofs live in Complete/AotProofs.v
    and Complete/BashProofs.v. *)
From ClapModel Require Import Base.Bytes Complete.AotTree Complete.BashModel Complete.AotProofs.
Open Scope list_scope.

(** utils::all_subcommands lists exactly the (name | visible alias, bin name) pairs of every
    non-root node, for trees of any depth *)
Theorem C16_tree_walk : forall c,
  bins_built c ->
  exists l, all_subcommands c = Some l /\
    forall w b, In (w, b) l <->
      exists n, desc c n /\ c_bin n = Some b /\ In w (get_name_and_visible_aliases n).
Proof. exact all_subcommands_spec. Qed.
Print Assumptions C16_tree_walk.

(** Command::build (what _generate runs first) establishes the hypothesis *)
Theorem C16_build_assigns_bins : forall c b, build c = Some b -> bins_built b.
Proof. exact build_bins_built. Qed.
Print Assumptions C16_build_assigns_bins.

Theorem C16_subcommands : forall p,
  (forall sc, In sc (c_subs p) -> c_bin sc <> None) ->
  exists l, subcommands p = Some l /\
    forall w b, In (w, b) l <->
      exists sc, In sc (c_subs p) /\ c_bin sc = Some b /\ In w (get_name_and_visible_aliases sc).
Proof. exact subcommands_spec. Qed.
Print Assumptions C16_subcommands.

(** shorts / longs: exactly the primary spelling and the visible aliases of the options that have
    a primary spelling; hidden aliases never appear *)
Theorem C16_shorts : forall p s,
  In s (shorts_and_visible_aliases p) <->
  exists a, In a (c_args p) /\ a_is_positional a = false /\
            exists sh, a_short a = Some sh /\ (s = sh \/ In (s, true) (a_short_aliases a)).
Proof. exact shorts_spec. Qed.
Print Assumptions C16_shorts.

Theorem C16_longs : forall p s,
  In s (longs_and_visible_aliases p) <->
  exists a, In a (c_args p) /\ a_is_positional a = false /\
            exists lg, a_long a = Some lg /\ (s = lg \/ In (s, true) (a_aliases a)).
Proof. exact longs_spec. Qed.
Print Assumptions C16_longs.

(** every short / long / visible alias of every option is returned, in the class where an alias
    comes with its primary spelling ... *)
Theorem C16_shorts_complete : forall p,
  aliases_have_primary p ->
  forall a s, In a (c_args p) -> a_is_positional a = false ->
    (a_short a = Some s \/ In (s, true) (a_short_aliases a)) -> In s (shorts_and_visible_aliases p).
Proof. exact shorts_complete. Qed.
Print Assumptions C16_shorts_complete.

Theorem C16_longs_complete : forall p,
  aliases_have_primary p ->
  forall a s, In a (c_args p) -> a_is_positional a = false ->
    (a_long a = Some s \/ In (s, true) (a_aliases a)) -> In s (longs_and_visible_aliases p).
Proof. exact longs_complete. Qed.
Print Assumptions C16_longs_complete.

(** ... and outside it the statement is false of the code (finding alias-without-primary) *)
Theorem C16_shorts_alias_without_primary_refuted :
  exists p a s, In a (c_args p) /\ a_is_positional a = false /\ In (s, true) (a_short_aliases a) /\
                ~ In s (shorts_and_visible_aliases p).
Proof. exact shorts_alias_without_primary_refuted. Qed.
Print Assumptions C16_shorts_alias_without_primary_refuted.

Theorem C16_flags : forall p a,
  In a (flags p) <-> In a (c_args p) /\ a_takes_values a = false /\ a_is_positional a = false.
Proof. exact flags_spec. Qed.
Print Assumptions C16_flags.

Theorem C16_opts_flags_partition : forall p a,
  In a (c_args p) -> a_is_positional a = false ->
  (In a (get_opts p) /\ ~ In a (flags p)) \/ (In a (flags p) /\ ~ In a (get_opts p)).
Proof. exact opts_flags_partition. Qed.
Print Assumptions C16_opts_flags_partition.

Theorem C16_possible_values : forall a,
  possible_values a = (if a_takes_values a then a_pvs a else None).
Proof. exact possible_values_spec. Qed.
Print Assumptions C16_possible_values.

(** compgen -W opts -- cur = the words of opts that start with cur *)
Theorem C16_bash_offers : forall words cur w,
  In w (compgen_W words cur) <-> In w words /\ exists t, w = cur ++ t.
Proof. exact compgen_W_spec. Qed.
Print Assumptions C16_bash_offers.

(** ---- the bash generator's tables (class mangle_safe) ---- *)
From ClapModel Require Import Complete.BashProofs.

(** joining a path with "__" and [split("__")] are inverse exactly when no component contains "__",
    ends in '_' or contains a space *)
Theorem C16_split_join : forall ns b,
  dd_safe b = true -> Forall (fun x => dd_safe x = true) ns ->
  split_dd (b ++ join_with dd ns) = b :: ns.
Proof. exact split_dd_path. Qed.
Print Assumptions C16_split_join.

(** the [cmd,word)] table contains exactly one entry per node, child and name-or-visible-alias of the child *)
Theorem C16_bash_transitions : forall c r e,
  In e (flat_map (add_command r) (c_subs c)) <->
  exists pf p child, node_at r c pf p /\ In child (c_subs p) /\ In (snd (fst e)) (sc_words child) /\
                     fst (fst e) = pf /\ snd e = pf ++ dd ++ mangle (c_name child).
Proof. exact transitions_entries. Qed.
Print Assumptions C16_bash_transitions.

(** for every path of names or visible aliases to a node: the generator does not panic, the loop over
    the words ends in the node's function name, and the arm of that name holds the node's words, its
    option arms and its level *)
Theorem C16_bash_table : forall c root_bin,
  c_bin c = Some root_bin -> linked c -> mangle_safe c root_bin ->
  exists t, bash_table c = Some t /\
    forall w0 ws ns n, reach c ws ns n ->
      fold_left (step (k_label (t_root t)) w0 (t_trans t)) (w0 :: ws) [] = fn_of (mangle root_bin) ns /\
      exists k, lookup_case t (fn_of (mangle root_bin) ns) = Some k /\
                opts_tokens n = Some (k_opts k) /\ k_details k = option_details n /\
                k_level k = N.of_nat (S (List.length ws)).
Proof. exact bash_table_spec. Qed.
Print Assumptions C16_bash_table.

(** the words of an arm's [opts]: exactly the node's shorts, longs (with visible aliases, see C16_shorts /
    C16_longs), positional words and the names and visible aliases of its subcommands *)
Theorem C16_bash_opts : forall n l,
  opts_tokens n = Some l ->
  forall w, In w l <->
    (exists s, In s (shorts_and_visible_aliases n) /\ w = [45] ++ s) \/
    (exists s, In s (longs_and_visible_aliases n) /\ w = [45; 45] ++ s) \/
    (exists pos, In pos (get_positionals n) /\ In w (pos_tokens pos)) \/
    (exists sc, In sc (c_subs n) /\ In w (sc_words sc)).
Proof. exact opts_tokens_spec. Qed.
Print Assumptions C16_bash_opts.

(** the hypotheses are satisfiable by a tree with a hyphenated name, aliases and two levels ... *)
Theorem C16_bash_table_nonvacuous :
  c_bin ex_root = Some [112] /\ linked ex_root /\ mangle_safe ex_root [112]
  /\ reach ex_root [[120]; [99]] [[97; 45; 98]; [99]] ex_leaf.
Proof. exact mangle_safe_example. Qed.
Print Assumptions C16_bash_table_nonvacuous.

(** ... and outside the class the generator panics (finding bash-dunder-lookup) *)
Theorem C16_bash_dunder_refuted :
  exists c root_bin, c_bin c = Some root_bin /\ linked c /\ bash_table c = None.
Proof. exact bash_dunder_refuted. Qed.
Print Assumptions C16_bash_dunder_refuted.

Theorem C16_deterministic : forall c1 c2 b1 b2,
  c1 = c2 -> b1 = b2 -> generate_bash c1 b1 = generate_bash c2 b2.
Proof. exact generate_bash_deterministic. Qed.
Print Assumptions C16_deterministic.

(** the whole completion function (model of what bash does with the script): after the words of a
    subcommand path, a partial word that is not itself a word of a child of the addressed command is
    answered with exactly the words of the addressed level that start with it ... *)
Theorem C16_bash_complete : forall c root_bin t w0 ws ns n cur,
  c_bin c = Some root_bin -> linked c -> mangle_safe c root_bin -> bash_table c = Some t ->
  reach c ws ns n -> w0 <> [] -> Forall (fun w => w <> []) ws ->
  (forall sc, In sc (c_subs n) -> ~ In cur (sc_words sc)) ->
  exists l, opts_tokens n = Some l /\ bash_complete t (w0 :: ws ++ [cur]) = Some (compgen_W l cur).
Proof. exact bash_complete_spec. Qed.
Print Assumptions C16_bash_complete.

(** ... and a partial word that IS a child's word is not (finding bash-cur-is-subcommand) *)
Theorem C16_bash_cur_is_subcommand_refuted :
  exists t l, bash_table cur_tree = Some t /\ opts_tokens cur_tree = Some l /\
              compgen_W l [115] = [[115]; [115; 120]] /\ bash_complete t [[112]; [115]] = Some [].
Proof. exact bash_cur_is_subcommand_refuted. Qed.
Print Assumptions C16_bash_cur_is_subcommand_refuted.

(* ---- powershell / elvish generator models ---- *)
(** Byte-exact models of clap_complete/src/aot/shells/{elvish,powershell}.rs (Complete/ElvishModel.v,
    Complete/PowershellModel.v; the texts of the tree are kept in a [TextTree.ttree]; the common table
    specification is [PathTable.gi]).  Names are qualified: the two model files reuse the Rust names. *)
From ClapModel Require Complete.TextTree Complete.PathTable Complete.PathTableLex Complete.PathTableBlocks Complete.BuildTexts
  Complete.ElvishModel Complete.ElvishProofs Complete.PowershellModel Complete.PowershellProofs.

(** the hypotheses of the coverage theorems below are satisfiable by a built two-level tree *)
Theorem C16_table_covers_nonvacuous :
  exists c bin b ws ns n a s0 s l0 sc w,
    build (set_bin_name c bin) = Some b /\ c_bin b = Some bin /\ bin <> [] /\ bins_built b /\
    reach b ws ns n /\ ws <> [] /\
    In a (c_args n) /\ a_is_positional a = false /\ a_short a = Some s0 /\ In (s, true) (a_short_aliases a) /\
    a_long a = Some l0 /\ In sc (c_subs n) /\ In w (get_name_and_visible_aliases sc).
Proof. exact PathTable.covers_hyps_example. Qed.
Print Assumptions C16_table_covers_nonvacuous.

(** elvish: on a tree whose nodes all have bin names (what [Command::build] establishes) the
    transcription of elvish.rs reaches no panic site and its output is the fixed text around the
    table specification *)
Theorem C16_elvish_model_is_table : forall c t bin,
  c_bin c = Some bin -> bins_built c ->
  ElvishModel.generate c t = Some (ElvishModel.render bin (PathTable.gi ElvishProofs.el_fmt c t [])).
Proof. exact ElvishProofs.generate_spec. Qed.
Print Assumptions C16_elvish_model_is_table.

Theorem C16_elvish_total : forall c b t,
  build c = Some b -> c_bin b <> None -> exists s, ElvishModel.generate b t = Some s.
Proof. exact ElvishProofs.generate_total. Qed.
Print Assumptions C16_elvish_total.

Theorem C16_elvish_deterministic : forall c1 c2 t1 t2 b1 b2,
  c1 = c2 -> t1 = t2 -> b1 = b2 ->
  ElvishModel.generate_elvish c1 t1 b1 = ElvishModel.generate_elvish c2 t2 b2.
Proof. exact ElvishProofs.generate_elvish_deterministic. Qed.
Print Assumptions C16_elvish_deterministic.

(** elvish, EVERY depth: for every path [ws] of names or visible aliases from the root to a node [n]
    the script contains the block keyed [bin;w1;...;wk]; that block has an entry [cand -s '...'] for
    the short and every visible short alias of every option or flag of [n] that has a short, an entry
    [cand --l '...'] for the long and every visible alias of every one that has a long, and an entry
    [cand w '...'] for every name and visible alias of every subcommand of [n] (hidden ones included).
    Class boundaries: aliases of an argument without the primary spelling (finding
    alias-without-primary), possible values (finding values-not-in-powershell-elvish), an empty bin
    name -- each with a refutation witness below. *)
Theorem C16_elvish_covers : forall c t bin ws ns n,
  c_bin c = Some bin -> bin <> [] -> bins_built c -> reach c ws ns n ->
  exists script tn,
    ElvishModel.generate c t = Some script /\
    PathTable.infix (ElvishModel.case_block (PathTable.path_key bin ws) (PathTable.entries ElvishProofs.el_fmt n tn)) script /\
    (forall a s0 s, In a (c_args n) -> a_is_positional a = false -> a_short a = Some s0 ->
       (s = s0 \/ In (s, true) (a_short_aliases a)) ->
       exists tip, PathTable.infix (ElvishProofs.el_short s tip) (PathTable.entries ElvishProofs.el_fmt n tn)) /\
    (forall a l0 l, In a (c_args n) -> a_is_positional a = false -> a_long a = Some l0 ->
       (l = l0 \/ In (l, true) (a_aliases a)) ->
       exists tip, PathTable.infix (ElvishProofs.el_long l tip) (PathTable.entries ElvishProofs.el_fmt n tn)) /\
    (forall sc w, In sc (c_subs n) -> In w (get_name_and_visible_aliases sc) ->
       exists tip, PathTable.infix (ElvishProofs.el_sub w tip) (PathTable.entries ElvishProofs.el_fmt n tn)).
Proof. exact ElvishProofs.elvish_covers. Qed.
Print Assumptions C16_elvish_covers.

Theorem C16_elvish_alias_without_primary_refuted :
  exists c t bin a s script, In a (c_args c) /\ a_is_positional a = false /\ In (s, true) (a_short_aliases a) /\
    ElvishModel.generate_elvish c t bin = Some script /\
    forall tip, ~ PathTable.infix (ElvishProofs.el_short s tip) script.
Proof. exact ElvishProofs.elvish_alias_without_primary_refuted. Qed.
Print Assumptions C16_elvish_alias_without_primary_refuted.

Theorem C16_elvish_values_refuted :
  exists c t bin a v script, In a (c_args c) /\ possible_values a = Some [mkPv v false] /\
    ElvishModel.generate_elvish c t bin = Some script /\ ~ PathTable.infix v script.
Proof. exact ElvishProofs.elvish_values_refuted. Qed.
Print Assumptions C16_elvish_values_refuted.

Theorem C16_elvish_empty_bin_refuted :
  exists c t sc script, ElvishModel.generate_elvish c t [] = Some script /\ In sc (c_subs c) /\
    forall es, ~ PathTable.infix (ElvishModel.case_block (PathTable.path_key [] [c_name sc]) es) script.
Proof. exact ElvishProofs.elvish_empty_bin_refuted. Qed.
Print Assumptions C16_elvish_empty_bin_refuted.

(** PowerShell: the same four statements, for every [is_uppercase : N -> bool] (Rust's
    [char::is_uppercase], a parameter of the model) *)
Theorem C16_powershell_model_is_table : forall up c t bin,
  c_bin c = Some bin -> bins_built c ->
  PowershellModel.generate up c t =
  Some (PowershellModel.render bin (PathTable.gi (PowershellProofs.ps_fmt up) c t [])).
Proof. exact PowershellProofs.generate_spec. Qed.
Print Assumptions C16_powershell_model_is_table.

Theorem C16_powershell_total : forall up c b t,
  build c = Some b -> c_bin b <> None -> exists s, PowershellModel.generate up b t = Some s.
Proof. exact PowershellProofs.generate_total. Qed.
Print Assumptions C16_powershell_total.

Theorem C16_powershell_deterministic : forall up c1 c2 t1 t2 b1 b2,
  c1 = c2 -> t1 = t2 -> b1 = b2 ->
  PowershellModel.generate_powershell up c1 t1 b1 = PowershellModel.generate_powershell up c2 t2 b2.
Proof. exact PowershellProofs.generate_powershell_deterministic. Qed.
Print Assumptions C16_powershell_deterministic.

Theorem C16_powershell_covers : forall up c t bin ws ns n,
  c_bin c = Some bin -> bin <> [] -> bins_built c -> reach c ws ns n ->
  exists script tn,
    PowershellModel.generate up c t = Some script /\
    PathTable.infix (PowershellModel.case_block (PathTable.path_key bin ws)
                       (PathTable.entries (PowershellProofs.ps_fmt up) n tn)) script /\
    (forall a s0 s, In a (c_args n) -> a_is_positional a = false -> a_short a = Some s0 ->
       (s = s0 \/ In (s, true) (a_short_aliases a)) ->
       exists tip, PathTable.infix (PowershellProofs.ps_short up s tip)
                     (PathTable.entries (PowershellProofs.ps_fmt up) n tn)) /\
    (forall a l0 l, In a (c_args n) -> a_is_positional a = false -> a_long a = Some l0 ->
       (l = l0 \/ In (l, true) (a_aliases a)) ->
       exists tip, PathTable.infix (PowershellProofs.ps_long l tip)
                     (PathTable.entries (PowershellProofs.ps_fmt up) n tn)) /\
    (forall sc w, In sc (c_subs n) -> In w (get_name_and_visible_aliases sc) ->
       exists tip, PathTable.infix (PowershellProofs.ps_sub w tip)
                     (PathTable.entries (PowershellProofs.ps_fmt up) n tn)).
Proof. exact PowershellProofs.powershell_covers. Qed.
Print Assumptions C16_powershell_covers.

Theorem C16_powershell_alias_without_primary_refuted :
  exists c t bin a s script, In a (c_args c) /\ a_is_positional a = false /\ In (s, true) (a_short_aliases a) /\
    PowershellModel.generate_powershell PowershellProofs.ascii_upper c t bin = Some script /\
    forall tip, ~ PathTable.infix (PowershellProofs.ps_short PowershellProofs.ascii_upper s tip) script.
Proof. exact PowershellProofs.powershell_alias_without_primary_refuted. Qed.
Print Assumptions C16_powershell_alias_without_primary_refuted.

Theorem C16_powershell_values_refuted :
  exists c t bin a v script, In a (c_args c) /\ possible_values a = Some [mkPv v false] /\
    PowershellModel.generate_powershell PowershellProofs.ascii_upper c t bin = Some script /\
    ~ PathTable.infix v script.
Proof. exact PowershellProofs.powershell_values_refuted. Qed.
Print Assumptions C16_powershell_values_refuted.

Theorem C16_powershell_empty_bin_refuted :
  exists c t sc script,
    PowershellModel.generate_powershell PowershellProofs.ascii_upper c t [] = Some script /\ In sc (c_subs c) /\
    forall es, ~ PathTable.infix (PowershellModel.case_block (PathTable.path_key [] [c_name sc]) es) script.
Proof. exact PowershellProofs.powershell_empty_bin_refuted. Qed.
Print Assumptions C16_powershell_empty_bin_refuted.
(** [Command::build] never runs out of fuel: [None] (the model's out-of-fuel result) is unreachable *)
Theorem C16_build_total : forall c, build c <> None.
Proof. exact BuildTexts.build_total. Qed.
Print Assumptions C16_build_total.

(** [clap_complete::aot::generate] as a whole ([set_bin_name], [Command::build] on the command and on its
    texts, the generator) terminates with a script for EVERY command tree, texts and bin name: no panic
    site of the generator is reachable after [build] *)
Theorem C16_elvish_generate_total : forall c bin t, exists s, ElvishModel.generate_elvish c t bin = Some s.
Proof. exact ElvishProofs.elvish_generate_total. Qed.
Print Assumptions C16_elvish_generate_total.

Theorem C16_powershell_generate_total : forall up c bin t,
  exists s, PowershellModel.generate_powershell up c t bin = Some s.
Proof. exact PowershellProofs.powershell_generate_total. Qed.
Print Assumptions C16_powershell_generate_total.

(** coverage stated for [clap_complete::aot::generate] as a whole: for every command tree, texts and non-empty
    bin name there is ONE script, and for EVERY path of names or visible aliases of the built tree, at every depth,
    it contains the block of that path with the entries listed in C16_<shell>_covers *)
Theorem C16_elvish_generate_covers : forall c t bin, bin <> [] ->
  exists b script,
    build (set_bin_name c bin) = Some b /\ ElvishModel.generate_elvish c t bin = Some script /\
    forall ws ns n, reach b ws ns n ->
      exists tn,
        PathTable.infix (ElvishModel.case_block (PathTable.path_key bin ws) (PathTable.entries ElvishProofs.el_fmt n tn)) script /\
        (forall a s0 s, In a (c_args n) -> a_is_positional a = false -> a_short a = Some s0 ->
           (s = s0 \/ In (s, true) (a_short_aliases a)) ->
           exists tip, PathTable.infix (ElvishProofs.el_short s tip) (PathTable.entries ElvishProofs.el_fmt n tn)) /\
        (forall a l0 l, In a (c_args n) -> a_is_positional a = false -> a_long a = Some l0 ->
           (l = l0 \/ In (l, true) (a_aliases a)) ->
           exists tip, PathTable.infix (ElvishProofs.el_long l tip) (PathTable.entries ElvishProofs.el_fmt n tn)) /\
        (forall sc w, In sc (c_subs n) -> In w (get_name_and_visible_aliases sc) ->
           exists tip, PathTable.infix (ElvishProofs.el_sub w tip) (PathTable.entries ElvishProofs.el_fmt n tn)).
Proof. exact ElvishProofs.elvish_generate_covers. Qed.
Print Assumptions C16_elvish_generate_covers.

Theorem C16_powershell_generate_covers : forall up c t bin, bin <> [] ->
  exists b script,
    build (set_bin_name c bin) = Some b /\ PowershellModel.generate_powershell up c t bin = Some script /\
    forall ws ns n, reach b ws ns n ->
      exists tn,
        PathTable.infix (PowershellModel.case_block (PathTable.path_key bin ws)
                           (PathTable.entries (PowershellProofs.ps_fmt up) n tn)) script /\
        (forall a s0 s, In a (c_args n) -> a_is_positional a = false -> a_short a = Some s0 ->
           (s = s0 \/ In (s, true) (a_short_aliases a)) ->
           exists tip, PathTable.infix (PowershellProofs.ps_short up s tip)
                         (PathTable.entries (PowershellProofs.ps_fmt up) n tn)) /\
        (forall a l0 l, In a (c_args n) -> a_is_positional a = false -> a_long a = Some l0 ->
           (l = l0 \/ In (l, true) (a_aliases a)) ->
           exists tip, PathTable.infix (PowershellProofs.ps_long l tip)
                         (PathTable.entries (PowershellProofs.ps_fmt up) n tn)) /\
        (forall sc w, In sc (c_subs n) -> In w (get_name_and_visible_aliases sc) ->
           exists tip, PathTable.infix (PowershellProofs.ps_sub w tip)
                         (PathTable.entries (PowershellProofs.ps_fmt up) n tn)).
Proof. exact PowershellProofs.powershell_generate_covers. Qed.
Print Assumptions C16_powershell_generate_covers.

(** the block of a path IS what the shell finds under the key it computes from the command line: the
    script is the list [blocks] rendered block by block in order; when sibling names and aliases are
    distinct (clap's own check) and no name contains the separator [;] ([no_semi]), the block keyed by the
    [;]-joined path to a node [n] is in the list, every block with that key has [n]'s entries (whose
    contents the theorems C16_<shell>_covers describe), and a first-match lookup returns it *)
Theorem C16_elvish_lookup : forall c t bin ws ns n,
  c_bin c = Some bin -> bin <> [] -> bins_built c -> siblings_ok c ->
  PathTableLex.cmd_plain PathTableBlocks.no_semi c = true -> reach c ws ns n ->
  exists tn,
    ElvishModel.generate c t =
      Some (ElvishModel.render bin
              (List.concat (map (PathTableBlocks.render_block ElvishProofs.el_fmt)
                                (PathTableBlocks.blocks ElvishProofs.el_fmt c t [])))) /\
    In (PathTable.path_key bin ws, PathTable.entries ElvishProofs.el_fmt n tn)
       (PathTableBlocks.blocks ElvishProofs.el_fmt c t []) /\
    (forall e, In (PathTable.path_key bin ws, e) (PathTableBlocks.blocks ElvishProofs.el_fmt c t []) ->
               e = PathTable.entries ElvishProofs.el_fmt n tn) /\
    PathTableBlocks.lookup_block (PathTableBlocks.blocks ElvishProofs.el_fmt c t []) (PathTable.path_key bin ws) =
      Some (PathTable.path_key bin ws, PathTable.entries ElvishProofs.el_fmt n tn).
Proof. exact ElvishProofs.elvish_lookup. Qed.
Print Assumptions C16_elvish_lookup.

Theorem C16_powershell_lookup : forall up c t bin ws ns n,
  c_bin c = Some bin -> bin <> [] -> bins_built c -> siblings_ok c ->
  PathTableLex.cmd_plain PathTableBlocks.no_semi c = true -> reach c ws ns n ->
  exists tn,
    PowershellModel.generate up c t =
      Some (PowershellModel.render bin
              (List.concat (map (PathTableBlocks.render_block (PowershellProofs.ps_fmt up))
                                (PathTableBlocks.blocks (PowershellProofs.ps_fmt up) c t [])))) /\
    In (PathTable.path_key bin ws, PathTable.entries (PowershellProofs.ps_fmt up) n tn)
       (PathTableBlocks.blocks (PowershellProofs.ps_fmt up) c t []) /\
    (forall e, In (PathTable.path_key bin ws, e) (PathTableBlocks.blocks (PowershellProofs.ps_fmt up) c t []) ->
               e = PathTable.entries (PowershellProofs.ps_fmt up) n tn) /\
    PathTableBlocks.lookup_block (PathTableBlocks.blocks (PowershellProofs.ps_fmt up) c t [])
                                 (PathTable.path_key bin ws) =
      Some (PathTable.path_key bin ws, PathTable.entries (PowershellProofs.ps_fmt up) n tn).
Proof. exact PowershellProofs.powershell_lookup. Qed.
Print Assumptions C16_powershell_lookup.

(** the hypotheses of the two lookup theorems are satisfiable (three-level tree with a hyphenated name,
    a visible and a hidden alias; path through the visible alias) *)
Theorem C16_table_lookup_nonvacuous :
  c_bin ex_root = Some [112%N] /\ [112%N] <> @nil N /\ bins_built ex_root /\ siblings_ok ex_root /\
  PathTableLex.cmd_plain PathTableBlocks.no_semi ex_root = true /\
  reach ex_root [[120%N]; [99%N]] [[97%N; 45%N; 98%N]; [99%N]] ex_leaf.
Proof. exact PathTableBlocks.lookup_hyps_example. Qed.
Print Assumptions C16_table_lookup_nonvacuous.
(* ---- end of the powershell / elvish block ---- *)
(* ---- fish generator model ---- *)
(** [Complete/FishModel.v] is a byte-exact model of clap_complete/src/aot/shells/fish.rs (compared with
    the real generator's file on every run, stream [fish-model]); the file is a list of lines, a line a
    list of pieces: [short_word s] = [ -s s], [long_word l] = [ -l escape_string(l)],
    [value_word v] = [escape_string(v, comma)\t'] inside the [-a "..."] list, [sub_word w] = [ -a "w"].
    [cdesc] carries the description texts; they play no role in what is mentioned. *)
From ClapModel Require Import Complete.FishModel Complete.FishProofs.

(** generation is total: the only failure of the generator proper is the missing bin name
    ([expect]), and [generate] = [set_bin_name] + [build] + generator fails only if [build] does *)
Theorem C16_fish_total : forall c d, fish_script c d = None <-> c_bin c = None.
Proof. exact fish_script_total. Qed.
Print Assumptions C16_fish_total.

Theorem C16_fish_generate_total : forall c d bin,
  generate_fish c d bin = None <-> build (set_bin_name c bin) = None.
Proof. exact generate_fish_total. Qed.
Print Assumptions C16_fish_generate_total.

Theorem C16_fish_deterministic : forall c1 c2 d1 d2 b1 b2,
  c1 = c2 -> d1 = d2 -> b1 = b2 -> generate_fish c1 d1 b1 = generate_fish c2 d2 b2.
Proof. exact generate_fish_deterministic. Qed.
Print Assumptions C16_fish_deterministic.

(** for every tree with a bin name (every [linked] built tree has one), for the root ([ws = []]) and every
    node reached by one or two words, each a name or a visible alias: the template of that path exists;
    every named argument of the node has a line that starts with it and carries every spelling
    [Arg::get_short_and_visible_aliases] / [get_long_and_visible_aliases] return and every non-hidden
    possible value; every name and visible alias of every subcommand of the node has a line [-a "word"] *)
Theorem C16_fish_mentions : forall c d bin ws ns n,
  c_bin c = Some bin -> reach c ws ns n -> (List.length ws <= 2)%nat ->
  exists lines basic,
    fish_lines c d = Some lines /\
    basic_template bin (fish_needs bin c) (fish_using bin c) ws n = Some basic /\
    (forall o, In o (c_args n) -> a_is_positional o = false ->
       exists line, In line lines /\ hd_error line = Some (Fx basic) /\
         (forall l s, get_short_and_visible_aliases o = Some l -> In s l -> In (short_word s) line) /\
         (forall l s, get_long_and_visible_aliases o = Some l -> In s l -> In (long_word s) line) /\
         (forall vs v, possible_values o = Some vs -> In v vs -> pv_hide v = false ->
                       In (value_word (pv_name v)) line)) /\
    (forall sc w, In sc (c_subs n) -> In w (get_name_and_visible_aliases sc) ->
       exists line, In line lines /\ hd_error line = Some (Fx (sub_template basic n)) /\ In (sub_word w) line).
Proof. exact fish_mentions. Qed.
Print Assumptions C16_fish_mentions.

(** the property's wording, in the class [aliases_have_primary]: every short, long and visible alias *)
Theorem C16_fish_mentions_all_spellings : forall c d bin ws ns n,
  c_bin c = Some bin -> reach c ws ns n -> (List.length ws <= 2)%nat -> aliases_have_primary n ->
  exists lines, fish_lines c d = Some lines /\
    forall o, In o (c_args n) -> a_is_positional o = false ->
      exists line, In line lines /\
        (forall s, a_short o = Some s \/ In (s, true) (a_short_aliases o) -> In (short_word s) line) /\
        (forall s, a_long o = Some s \/ In (s, true) (a_aliases o) -> In (long_word s) line).
Proof. exact fish_mentions_all_spellings. Qed.
Print Assumptions C16_fish_mentions_all_spellings.

(** a piece of a line is a contiguous part of the bytes of the file *)
Theorem C16_fish_mention_in_text : forall c d lines line p,
  fish_lines c d = Some lines -> In line lines -> In p line ->
  exists s pre post, fish_script c d = Some s /\ s = pre ++ render1 p ++ post.
Proof. exact fish_mention_in_text. Qed.
Print Assumptions C16_fish_mention_in_text.

(** the hypotheses are satisfiable: two levels, hyphenated name, visible and hidden aliases, an option
    with short, long, visible aliases and possible values, reached through a visible alias *)
Theorem C16_fish_mentions_nonvacuous :
  c_bin ex_fish_root = Some [112] /\ reach ex_fish_root [[120]; [99]] [[97; 45; 98]; [99]] ex_fish_leaf /\
  (List.length [[120]; [99]] <= 2)%nat /\ aliases_have_primary ex_fish_leaf /\
  In ex_opt (c_args ex_fish_leaf) /\ a_is_positional ex_opt = false /\
  get_short_and_visible_aliases ex_opt = Some [[111]; [120]] /\
  get_long_and_visible_aliases ex_opt = Some [[111; 112; 116]; [97; 108]] /\
  possible_values ex_opt = Some [mkPv [118; 49] false; mkPv [118; 50] true].
Proof. exact fish_mentions_hyps. Qed.
Print Assumptions C16_fish_mentions_nonvacuous.

(** what the code does below the second level of subcommands: nothing is written, for the command
    three words down and for everything below it ... *)
Theorem C16_fish_deeper_levels_silent : forall root nds usg parents c d,
  (3 <= List.length parents)%nat -> gen_fish_inner root nds usg parents c d = [].
Proof. exact gen_fish_inner_deep. Qed.
Print Assumptions C16_fish_deeper_levels_silent.

(** ... so a flag of a third-level command is mentioned nowhere (its name is: a line of its parent) *)
Theorem C16_fish_third_level_refuted :
  exists c d bin lines ws ns n o s,
    c_bin c = Some bin /\ fish_lines c d = Some lines /\ reach c ws ns n /\ List.length ws = 3%nat /\
    In o (c_args n) /\ a_short o = Some s /\ ~ mentions lines (short_word s) /\
    mentions lines (sub_word (c_name n)).
Proof. exact fish_third_level_not_written. Qed.
Print Assumptions C16_fish_third_level_refuted.

(** class boundary [alias-without-primary]: outside [aliases_have_primary] a visible short alias is
    written nowhere in the fish file *)
Theorem C16_fish_alias_without_primary_refuted :
  exists c d bin lines o s,
    c_bin c = Some bin /\ fish_lines c d = Some lines /\ In o (c_args c) /\ a_is_positional o = false /\
    In (s, true) (a_short_aliases o) /\ ~ mentions lines (short_word s).
Proof. exact fish_alias_without_primary_refuted. Qed.
Print Assumptions C16_fish_alias_without_primary_refuted.

(** [generate] = [set_bin_name] + [build] + generator: the file it writes is the file of the built tree, which
    has the bin name -- so [C16_fish_mentions] speaks about what [generate_fish] writes *)
From ClapModel Require Import Complete.FishBuildProofs.
Theorem C16_fish_generate_is_built : forall c d bin b,
  build (set_bin_name c bin) = Some b ->
  c_bin b = Some bin /\ generate_fish c d bin = fish_script b (dbuild (set_bin_name c bin) d).
Proof. exact generate_fish_is_built. Qed.
Print Assumptions C16_fish_generate_is_built.
(* ---- end fish generator model ---- *)
(* ---- nushell generator model ---- *)
(** [Complete/NushellModel.v] is a byte-exact TRANSCRIPTION of clap_complete_nushell/src/lib.rs (all of it; the
    string written so far is threaded through every function because [append_value_completion_and_help] reads it:
    [s.lines().last()] decides the padding of the help comment), compared with the real generator's module byte for
    byte on every run (streams [nushell-model], [nushell-model-names]).  [Complete/NushellProofs.v] proves that it
    computes a SPECIFICATION in pieces: [NFx b] = text the generator writes itself, [NCm t] = a description text
    written through single_line_styled_str after "# ".  [node_pieces name n dn sub] is the block of one command:
    the [nu-complete] definitions, the about comment, [export extern name \[], one line per spelling, "\]". *)
From ClapModel Require Complete.NushellModel Complete.NushellProofs.

(** [str::lines().last()] of a string that ends in a newline followed by a non-empty [cur] is that of [cur]:
    the padding of a help comment depends on the line being written only (names, never texts) *)
Theorem C16_nushell_lines_last : forall s cur,
  (s = [] \/ exists s', s = s' ++ [10%N]) -> cur <> [] ->
  NushellModel.lines_last (s ++ cur) = NushellModel.lines_last cur.
Proof. exact NushellProofs.lines_last_app. Qed.
Print Assumptions C16_nushell_lines_last.

(** the transcription reaches no panic site (the three [expect]s, the [unreachable!]) and computes the
    specification, whenever every node has a bin name (what [build] establishes: [C16_build_assigns_bins]) *)
Theorem C16_nushell_model_is_pieces : forall c d,
  c_bin c <> None -> bins_built c ->
  NushellModel.nushell_script c d = Some (NushellProofs.nrender (NushellProofs.nu_pieces c d)).
Proof. exact NushellProofs.nushell_script_spec. Qed.
Print Assumptions C16_nushell_model_is_pieces.

Theorem C16_nushell_total : forall c d,
  c_bin c <> None -> bins_built c -> exists s, NushellModel.nushell_script c d = Some s.
Proof. exact NushellProofs.nushell_total. Qed.
Print Assumptions C16_nushell_total.

Theorem C16_nushell_fails_only_without_bin : forall c d,
  NushellModel.nushell_script c d = None -> c_bin c = None \/ ~ bins_built c.
Proof. exact NushellProofs.nushell_none_no_bin. Qed.
Print Assumptions C16_nushell_fails_only_without_bin.

Theorem C16_nushell_deterministic : forall c d s1 s2,
  NushellModel.nushell_script c d = Some s1 -> NushellModel.nushell_script c d = Some s2 -> s1 = s2.
Proof. exact NushellProofs.nushell_deterministic. Qed.
Print Assumptions C16_nushell_deterministic.

(** [generate(Nushell, cmd, bin, buf)] = [set_bin_name] + [Command::build] (tree and texts) + the generator writes
    a module for EVERY command tree, texts and bin name -- unconditional ([C16_build_total]) *)
Theorem C16_nushell_generate_total : forall c d bin, exists b,
  build (set_bin_name c bin) = Some b /\ c_bin b = Some bin /\ bins_built b /\
  NushellModel.generate_nushell c d bin =
    Some (NushellProofs.nrender (NushellProofs.nu_pieces b (dbuild (set_bin_name c bin) d))).
Proof. exact NushellProofs.generate_nushell_total. Qed.
Print Assumptions C16_nushell_generate_total.

(** ONE [export extern] block per subcommand path: for EVERY path of names or visible aliases, at EVERY depth,
    the block of the addressed command is a contiguous part of the module; it is declared under the command's
    own bin name, bare for the root and quoted for a subcommand *)
Theorem C16_nushell_one_block_per_path : forall c d ws ns n,
  reach c ws ns n ->
  exists dn pre post,
    NushellProofs.nu_pieces c d =
    pre ++ NushellProofs.node_pieces (NushellProofs.bin_of n) n dn (negb (is_nil ns)) ++ post.
Proof. exact NushellProofs.nu_pieces_covers. Qed.
Print Assumptions C16_nushell_one_block_per_path.

(** what a block mentions (all commands [n], names, texts): the [export extern] line; for every named argument
    (hidden or not) a line starting with every short and every long spelling the accessors return -- [    -s],
    [    --l] or the first line [    --l0(-s0)] -- followed by the type suffix; a line for every positional; and
    for every possible value (hidden or not) the [nu-complete] definition named by the [@"nu-complete name id"]
    reference of the argument's lines, containing the value *)
Theorem C16_nushell_block_mentions : forall name n dn sub,
  let blk := NushellProofs.node_pieces name n dn sub in
  In (NushellProofs.NFx (NushellProofs.extern_line sub name)) blk /\
  (forall a, In a (c_args n) -> a_is_positional a = false ->
     (forall shorts s, get_short_and_visible_aliases a = Some shorts -> In s shorts ->
        exists st, (st = NushellProofs.short_start s \/ exists l, st = NushellProofs.both_start l s) /\
                   In (NushellProofs.NFx (st ++ NushellProofs.type_suffix a name)) blk) /\
     (forall longs l, get_long_and_visible_aliases a = Some longs -> In l longs ->
        exists st, (st = NushellProofs.long_start l \/ exists s, st = NushellProofs.both_start l s) /\
                   In (NushellProofs.NFx (st ++ NushellProofs.type_suffix a name)) blk)) /\
  (forall a, In a (c_args n) -> a_is_positional a = true ->
     In (NushellProofs.NFx (NushellProofs.pos_start a ++ NushellProofs.type_suffix a name)) blk) /\
  (forall a v, In a (c_args n) -> In v (NushellModel.get_possible_values a) ->
     NushellProofs.type_suffix a name =
       [58%N; 32%N] ++ NushellModel.nu_type (a_get_hint a) ++ NushellProofs.complete_ref a name /\
     exists x y x' y' rest,
       blk = NushellProofs.NFx (x ++ NushellProofs.defs_bytes a name ++ y) :: rest /\
       NushellProofs.defs_bytes a name = NushellProofs.def_header a name ++ x' ++ NushellModel.value_word v ++ y').
Proof. exact NushellProofs.node_pieces_mentions. Qed.
Print Assumptions C16_nushell_block_mentions.

(** [Arg::get_possible_values] (what nushell reads) is the list of [utils::possible_values] (what the other
    generators read): every non-hidden possible value of the property is in it *)
Theorem C16_nushell_possible_values : forall a,
  NushellModel.get_possible_values a = match possible_values a with Some l => l | None => [] end.
Proof. exact NushellProofs.get_possible_values_utils. Qed.
Print Assumptions C16_nushell_possible_values.

(** C16 for nushell: class = every node has a bin name; any depth *)
Theorem C16_nushell_covers : forall c d ws ns n,
  c_bin c <> None -> bins_built c -> reach c ws ns n ->
  exists blk pre post,
    NushellModel.nushell_script c d = Some (NushellProofs.nrender (pre ++ blk ++ post)) /\
    NushellProofs.node_mentions (NushellProofs.bin_of n) n (negb (is_nil ns)) blk.
Proof. exact NushellProofs.nushell_covers. Qed.
Print Assumptions C16_nushell_covers.

(** class [linked] (bin names as [_build_bin_names_internal] makes them): the block is declared under
    "bin n1 .. nk", the NAMES of the commands on the path -- also when the path was spelled with aliases *)
Theorem C16_nushell_covers_linked : forall c d bin ws ns n,
  c_bin c = Some bin -> linked c -> reach c ws ns n ->
  exists blk pre post,
    NushellModel.nushell_script c d = Some (NushellProofs.nrender (pre ++ blk ++ post)) /\
    NushellProofs.node_mentions (bin ++ join_with [32%N] ns) n (negb (is_nil ns)) blk.
Proof. exact NushellProofs.nushell_covers_linked. Qed.
Print Assumptions C16_nushell_covers_linked.

(** the same for the module [generate] writes for ANY user tree: one module, and in it the block of every path
    of the built tree *)
Theorem C16_nushell_generate_covers : forall c d bin, exists b s,
  build (set_bin_name c bin) = Some b /\ NushellModel.generate_nushell c d bin = Some s /\
  forall ws ns n, reach b ws ns n ->
    exists blk pre post, s = NushellProofs.nrender (pre ++ blk ++ post) /\
                         NushellProofs.node_mentions (NushellProofs.bin_of n) n (negb (is_nil ns)) blk.
Proof. exact NushellProofs.generate_nushell_covers. Qed.
Print Assumptions C16_nushell_generate_covers.

(** the property's wording in the class [aliases_have_primary]: every short, every long and every visible alias
    of every named argument starts a line of the block *)
Theorem C16_nushell_mentions_all_spellings : forall name n sub blk,
  NushellProofs.node_mentions name n sub blk -> aliases_have_primary n ->
  forall a, In a (c_args n) -> a_is_positional a = false ->
    (forall s, a_short a = Some s \/ In (s, true) (a_short_aliases a) ->
       exists st, NushellProofs.mentions_short s st /\
                  In (NushellProofs.NFx (st ++ NushellProofs.type_suffix a name)) blk) /\
    (forall l, a_long a = Some l \/ In (l, true) (a_aliases a) ->
       exists st, NushellProofs.mentions_long l st /\
                  In (NushellProofs.NFx (st ++ NushellProofs.type_suffix a name)) blk).
Proof. exact NushellProofs.node_mentions_all_spellings. Qed.
Print Assumptions C16_nushell_mentions_all_spellings.

(** a piece of a block is a contiguous part of the bytes of the module *)
Theorem C16_nushell_mention_in_text : forall pre blk post p,
  In p blk ->
  exists x y, NushellProofs.nrender (pre ++ blk ++ post) = x ++ NushellProofs.nrender1 p ++ y.
Proof. exact NushellProofs.mention_in_text. Qed.
Print Assumptions C16_nushell_mention_in_text.

(** the hypotheses of [C16_nushell_covers_linked] hold for a linked three-level tree (hyphenated name, path through
    a visible alias) *)
Theorem C16_nushell_covers_nonvacuous :
  c_bin ex_root = Some [112%N] /\ linked ex_root /\
  reach ex_root [[120%N]; [99%N]] [[97%N; 45%N; 98%N]; [99%N]] ex_leaf.
Proof. exact NushellProofs.nushell_covers_linked_hyps. Qed.
Print Assumptions C16_nushell_covers_nonvacuous.

(** [generate] on a user tree, evaluated: root [p], subcommand [a-b] (visible alias [x], hidden alias [y]) with the
    subcommand [c] carrying the option -o/--opt with the visible short alias x, the visible alias --al, the hidden
    alias --hi and the values v1, v2 (hidden).  The node is reached through the alias; the module declares it by
    NAMES, has the three lines and the definition with both values, nothing for the hidden alias.
    The [ex_*] byte strings (the bin path, the export extern line, the three option lines, the def line, the value
    list, the hidden spelling) are written out as string literals beside the example in NushellProofs.v *)
Theorem C16_nushell_generate_example :
  exists b n s,
    build (set_bin_name ex_fish_root [112%N]) = Some b /\
    reach b [[120%N]; [99%N]] [[97%N; 45%N; 98%N]; [99%N]] n /\ In ex_opt (c_args n) /\ aliases_have_primary n /\
    NushellProofs.bin_of n = NushellProofs.ex_bin /\
    NushellModel.generate_nushell ex_fish_root cd0 [112%N] = Some s /\
    NushellModel.has_infix s NushellProofs.ex_extern = true /\
    NushellModel.has_infix s NushellProofs.ex_line_both = true /\
    NushellModel.has_infix s NushellProofs.ex_line_alias = true /\
    NushellModel.has_infix s NushellProofs.ex_line_short_alias = true /\
    NushellModel.has_infix s NushellProofs.ex_def = true /\
    NushellModel.has_infix s NushellProofs.ex_values = true /\
    NushellModel.has_infix s NushellProofs.ex_hidden_alias = false.
Proof. exact NushellProofs.generate_nushell_example. Qed.
Print Assumptions C16_nushell_generate_example.

(** class boundary = finding [alias-without-primary]: a visible short alias of an option without a short starts
    no line; the spelling occurs nowhere in the module *)
Theorem C16_nushell_alias_without_primary_refuted :
  exists c d bin s o x,
    NushellModel.generate_nushell c d bin = Some s /\ In o (c_args c) /\ a_is_positional o = false /\
    In (x, true) (a_short_aliases o) /\ NushellModel.has_infix s ([45%N] ++ x) = false.
Proof. exact NushellProofs.nushell_alias_without_primary_refuted. Qed.
Print Assumptions C16_nushell_alias_without_primary_refuted.

(** class boundary = finding [nushell-subcommand-aliases]: the block of a subcommand is declared under its NAME
    path only; a visible alias of the subcommand occurs nowhere in the module *)
Theorem C16_nushell_subcommand_alias_refuted :
  exists c d bin s sc w,
    NushellModel.generate_nushell c d bin = Some s /\ In sc (c_subs c) /\ In (w, true) (c_aliases sc) /\
    NushellModel.has_infix s NushellProofs.ex_extern_sub = true /\ NushellModel.has_infix s w = false.
Proof. exact NushellProofs.nushell_subcommand_alias_refuted. Qed.
Print Assumptions C16_nushell_subcommand_alias_refuted.
(** EXACTLY one block per command: the module is the header, the root's block (bare name), then one block
    ([block_of q] = the block of the command [fst q], quoted name) for every proper descendant of the root -- the list
    [subs_blocks c d] enumerates the descendants in pre-order, each tree position once -- then the trailer.  Every tree. *)
Theorem C16_nushell_exactly_one_block_per_command : forall c d,
  NushellProofs.nu_pieces c d =
    NushellProofs.NFx NushellProofs.module_open :: NushellProofs.node_pieces (NushellProofs.bin_of c) c d false
    ++ flat_map NushellProofs.block_of (NushellProofs.subs_blocks c d) ++ [NushellProofs.NFx NushellProofs.module_close] /\
  map fst (NushellProofs.subs_blocks c d) = flat_map NushellProofs.nodes (c_subs c) /\
  (forall n, In n (flat_map NushellProofs.nodes (c_subs c)) <-> desc c n).
Proof. exact NushellProofs.nu_pieces_blocks. Qed.
Print Assumptions C16_nushell_exactly_one_block_per_command.
(** [Command::build] makes the bin names [linked] (every subcommand's bin name = its parent's, a blank, its own name)
    whenever no subcommand of the user's tree carries a bin name of its own ([BuildLinked.nb]: a Command has none before
    it is built) and the bin name given to [generate] is not empty.  Closes the round-1 remark "build => linked: not
    proved": [linked] is the hypothesis of [C16_bash_table], [C16_bash_complete], [C16_nushell_covers_linked] *)
From ClapModel Require Complete.BuildLinked.
Theorem C16_build_linked : forall c bin b,
  BuildLinked.nb c = true -> bin <> [] -> build (set_bin_name c bin) = Some b -> c_bin b = Some bin /\ linked b.
Proof. exact BuildLinked.build_linked. Qed.
Print Assumptions C16_build_linked.

Theorem C16_build_linked_nonvacuous :
  BuildLinked.nb example_tree = true /\
  exists b, build (set_bin_name example_tree [112%N]) = Some b /\ linked b /\ c_subs b <> [].
Proof. exact BuildLinked.build_linked_nonvacuous. Qed.
Print Assumptions C16_build_linked_nonvacuous.

(** so, for such a user tree, the module [generate] writes declares every path of the built tree under
    "bin n1 .. nk" -- the NAMES on the path, whichever aliases spelled it *)
Theorem C16_nushell_generate_covers_named : forall c d bin,
  BuildLinked.nb c = true -> bin <> [] -> exists b s,
  build (set_bin_name c bin) = Some b /\ NushellModel.generate_nushell c d bin = Some s /\
  forall ws ns n, reach b ws ns n ->
    exists blk pre post, s = NushellProofs.nrender (pre ++ blk ++ post) /\
                         NushellProofs.node_mentions (bin ++ join_with [32%N] ns) n (negb (is_nil ns)) blk.
Proof. exact NushellProofs.generate_nushell_covers_named. Qed.
Print Assumptions C16_nushell_generate_covers_named.
(* ---- end nushell generator model ---- *)

(* ---- zsh generator model ---- *)
(** [Complete/ZshModel.v] is a byte-exact model of clap_complete/src/aot/shells/zsh.rs (compared with the real
    generator's file on every run: streams [zsh-model], [zsh-model-names] of C16 and [zsh-model] of C17).  The file is a
    list of pieces ([Zx] fixed text, [Zh] a text written through escape_help, [Zp] a positional's help); [sublist a l]:
    [a] is a contiguous part of [l].  Class [zsh_ok c b]: the root has the bin name [b], the tree is [linked] (bin names
    as [_build_bin_names_internal] makes them), no command name below the root contains a space, sibling names are
    distinct. *)
From ClapModel Require Import Complete.BashProofs Complete.FishModel Complete.ZshModel Complete.ZshProofs Escape.EscapeModel.

(** the lookup by bin name: what it returns is a node of the tree with the bin name looked for ... *)
Theorem C16_zsh_lookup_sound : forall c b m,
  parser_of c b = Some m -> (m = c \/ desc c m) /\ bin_or_default m = b.
Proof. exact parser_of_sound. Qed.
Print Assumptions C16_zsh_lookup_sound.

(** ... it finds one whenever a node has that bin name (so the [expect]s on [parser_of] are dead: every bin name looked
    up is the bin name of a node) ... *)
Theorem C16_zsh_lookup_complete : forall c n, (n = c \/ desc c n) -> parser_of c (bin_or_default n) <> None.
Proof. exact parser_of_complete. Qed.
Print Assumptions C16_zsh_lookup_complete.

(** ... and in the class it returns THE node whose bin name was looked up (siblings [add] / [add-all] included) *)
Theorem C16_zsh_lookup_exact : forall c b n,
  c_bin c = Some b -> linked c -> nospace c -> sibling_names c -> (n = c \/ desc c n) ->
  parser_of c (bin_or_default n) = Some n.
Proof. exact parser_of_exact. Qed.
Print Assumptions C16_zsh_lookup_exact.

(** total: for every [linked] tree with a bin name whose conflicts resolve where the generator asks (round 4: the
    [panic!] / [expect] of [Command::get_arg_conflicts_with] is a visible [None] of the model; [cres_below]: for the command
    the lookup returns for each subcommand, with its parent) no [expect] fires and the recursion through [parser_of] ends *)
Theorem C16_zsh_total : forall c d b,
  c_bin c = Some b -> linked c -> conflicts_resolve c None = true -> cres_below c -> exists s, zsh_script c d = Some s.
Proof. exact zsh_total. Qed.
Print Assumptions C16_zsh_total.

Theorem C16_zsh_deterministic : forall c d s1 s2, zsh_script c d = Some s1 -> zsh_script c d = Some s2 -> s1 = s2.
Proof. exact zsh_deterministic. Qed.
Print Assumptions C16_zsh_deterministic.

(** in the class the recursion through the lookup computes a function that is structural in the tree ... *)
Theorem C16_zsh_sections_structural : forall f p d pb,
  c_bin p = Some pb -> linked p -> nospace p -> sibling_names p -> cres_below p -> (depth p <= f)%nat ->
  get_subcommands_of f p d = Some (zspec_subs p d).
Proof. exact get_subcommands_of_spec. Qed.
Print Assumptions C16_zsh_sections_structural.

(** ... namely: one [case] block per command that has subcommands, with one arm per name and visible alias of every
    subcommand; the arm = its label, the [_arguments] block of THAT subcommand, the section of that subcommand *)
Theorem C16_zsh_section_shape : forall p d,
  zspec_subs p d =
  if is_nil (c_subs p) then [] else
  zcase_block (c_name p) (space_to_hyphen (bin_or_default p)) (dec (N.of_nat (List.length (get_positionals p)) + 1))
    (zjoin znl (flat_map (fun q : cmd * cdesc =>
                   map (arm (args_block (fst q) (snd q) (Some p)) (zspec_subs (fst q) (snd q)))
                       (get_name_and_visible_aliases (fst q)))
                (zipd cd0 (c_subs p) (cd_subs d)))).
Proof. exact zspec_subs_unfold. Qed.
Print Assumptions C16_zsh_section_shape.

(** the whole file in the class *)
Theorem C16_zsh_script_shape : forall c d b,
  zsh_ok c b ->
  exists details, zsubcommand_details c d = Some details /\
    zsh_pieces c d = Some ([Zx (script_head b)] ++ args_block c d None ++ zspec_subs c d
                           ++ [Zx (lf ++ [125] ++ lf ++ lf)] ++ details ++ [Zx (script_tail b)]).
Proof. exact zsh_pieces_shape. Qed.
Print Assumptions C16_zsh_script_shape.

(** dispatch, every depth: for EVERY path of names or visible aliases the file contains the arm label of the last word
    followed by the [_arguments] block of the node the path leads to (it sits in the arm of the word before, and so on:
    [C16_zsh_section_shape]); every [reach] path is such a path *)
Theorem C16_zsh_path_block : forall c d b ws n nd par,
  zsh_ok c b -> dreach c d ws n nd par ->
  exists s, zsh_script c d = Some s /\
    sublist (zrender ([Zx ([40] ++ last ws [] ++ [41])] ++ znl ++ args_block n nd (Some par))) s.
Proof. exact zsh_script_path. Qed.
Print Assumptions C16_zsh_path_block.

Theorem C16_zsh_root_block : forall c d b,
  zsh_ok c b -> exists s, zsh_script c d = Some s /\ sublist (zrender (args_block c d None)) s.
Proof. exact zsh_script_root. Qed.
Print Assumptions C16_zsh_root_block.

Theorem C16_zsh_reach_is_path : forall c ws ns n,
  reach c ws ns n -> ws <> [] -> forall d, exists nd par, dreach c d ws n nd par.
Proof. exact reach_dreach. Qed.
Print Assumptions C16_zsh_reach_is_path.

(** one level: the block of a command has a spec line for every spelling [get_short_and_visible_aliases] /
    [get_long_and_visible_aliases] return for an option (hidden ones included) ... *)
Theorem C16_zsh_block_options : forall c d g a ad,
  c_bin c <> None -> In (a, ad) (zipd ad0 (c_args c) (cd_args d)) -> is_opt (a, ad) = true ->
  (forall shorts s, get_short_and_visible_aliases a = Some shorts -> In s shorts ->
     sublist (opt_short_line c g (a, ad) s) (args_block c d g)) /\
  (forall longs l, get_long_and_visible_aliases a = Some longs -> In l longs ->
     sublist (opt_long_line c g (a, ad) l) (args_block c d g)).
Proof. exact block_options. Qed.
Print Assumptions C16_zsh_block_options.

(** ... which are the primary spelling and EVERY visible alias when the option has the primary (the class
    [aliases_have_primary]; outside it: [C16_zsh_alias_without_primary_refuted]) ... *)
Theorem C16_zsh_option_spellings : forall a,
  (forall s, a_short a = Some s -> exists l, get_short_and_visible_aliases a = Some l /\ In s l /\
                                             forall x, In (x, true) (a_short_aliases a) -> In x l) /\
  (forall s, a_long a = Some s -> exists l, get_long_and_visible_aliases a = Some l /\ In s l /\
                                            forall x, In (x, true) (a_aliases a) -> In x l).
Proof. exact option_spellings_complete. Qed.
Print Assumptions C16_zsh_option_spellings.

(** ... a line for the short, every visible short alias, the long and every visible alias of a flag ... *)
Theorem C16_zsh_block_flags : forall c d g a ad dashes name,
  c_bin c <> None -> In (a, ad) (zipd ad0 (c_args c) (cd_args d)) -> is_flag (a, ad) = true ->
  In (dashes, name) (flag_spellings a) -> sublist (zflag_line c g (a, ad) dashes name) (args_block c d g).
Proof. exact block_flag_lines. Qed.
Print Assumptions C16_zsh_block_flags.

Theorem C16_zsh_flag_spellings : forall a,
  (forall s, a_short a = Some s -> In ([45], s) (flag_spellings a) /\
                                   forall x, In (x, true) (a_short_aliases a) -> In ([45], x) (flag_spellings a)) /\
  (forall l, a_long a = Some l -> In ([45; 45], l) (flag_spellings a) /\
                                  forall x, In (x, true) (a_aliases a) -> In ([45; 45], x) (flag_spellings a)).
Proof. exact flag_spellings_complete. Qed.
Print Assumptions C16_zsh_flag_spellings.

(** ... a line for every positional that takes at most one value and is not [last] (round 4; the exact rule:
    [C16_zsh_positionals_exact] / [_kept] / [_last]) ... *)
Theorem C16_zsh_block_positionals : forall c d g a ad,
  c_bin c <> None -> In (a, ad) (zipd ad0 (c_args c) (cd_args d)) -> a_is_positional a = true ->
  (1 <? a_max_values a)%N = false -> a_last a = false ->
  exists card, sublist (positional_line card (a, ad)) (args_block c d g).
Proof. exact block_positional_line. Qed.
Print Assumptions C16_zsh_block_positionals.

(** ... every non-hidden possible value on every line of an option that REQUIRES a value ([min_values() <> 0]; the
    recorded finding [zsh-optional-value] is the boundary) and on the line of a positional: raw in the [(v1 v2)] form,
    through escape_value in the [((v\:"help" ...))] form ... *)
Theorem C16_zsh_option_values : forall c g a ad vs pv line,
  a_min_values a <> 0%N -> possible_values a = Some vs -> In pv vs -> pv_hide pv = false ->
  In line (opt_lines c g (a, ad)) ->
  exists x, In (Zx x) line /\ (sublist (pv_name pv) x \/ sublist (zsh_escape_value (pv_name pv)) x).
Proof. exact opt_line_values. Qed.
Print Assumptions C16_zsh_option_values.

Theorem C16_zsh_positional_values : forall card a ad vs pv,
  possible_values a = Some vs -> In pv vs -> pv_hide pv = false ->
  exists x, In (Zx x) (positional_line card (a, ad)) /\
            (sublist (pv_name pv) x \/ sublist (zsh_escape_value (pv_name pv)) x).
Proof. exact positional_line_values. Qed.
Print Assumptions C16_zsh_positional_values.

(** ... and, when the command has subcommands, the two lines that lead to them: the [_..._commands] function and the
    state that selects the [case] block *)
Theorem C16_zsh_block_subcommands : forall c d g,
  c_bin c <> None -> has_subcommands c = true ->
  sublist [Zx ([34; 58; 58; 32; 58; 95] ++ space_to_dd (bin_or_default c) ++ [95; 99; 111; 109; 109; 97; 110; 100; 115; 34; 32; 92])]
          (args_block c d g) /\
  sublist [Zx ([34; 42; 58; 58; 58; 32; 58; 45; 62] ++ c_name c ++ [34; 32; 92])] (args_block c d g).
Proof. exact block_subcommand_lines. Qed.
Print Assumptions C16_zsh_block_subcommands.

(** the arm of every name and visible alias of every subcommand is in the section of its parent *)
Theorem C16_zsh_arms : forall p d sc sd w,
  In (sc, sd) (zipd cd0 (c_subs p) (cd_subs d)) -> In w (sc_words sc) ->
  sublist (arm (args_block sc sd (Some p)) (zspec_subs sc sd) w) (zspec_subs p d).
Proof. exact arm_in_section. Qed.
Print Assumptions C16_zsh_arms.

(** the [_..._commands] functions: for EVERY node of the tree the file has the function named after its bin name, and
    its list has an entry ['name:about'] for every name and visible alias of every subcommand of that node *)
Theorem C16_zsh_commands_functions : forall c d b n,
  zsh_ok c b -> (n = c \/ desc c n) ->
  exists s nd, zsh_script c d = Some s /\
    sublist (zrender (commands_function (bin_or_default n) (subcommands_of n nd))) s.
Proof. exact zsh_script_commands. Qed.
Print Assumptions C16_zsh_commands_functions.

Theorem C16_zsh_describe_entries : forall p d sc sd w,
  In (sc, sd) (zipd cd0 (c_subs p) (cd_subs d)) -> In w (sc_words sc) ->
  sublist (describe_entry (cd_about sd) w) (subcommands_of p d).
Proof. exact subcommands_of_entry. Qed.
Print Assumptions C16_zsh_describe_entries.

(** a part of the pieces is a part of the bytes of the file *)
Theorem C16_zsh_pieces_in_text : forall a l, sublist a l -> sublist (zrender a) (zrender l).
Proof. exact sublist_render. Qed.
Print Assumptions C16_zsh_pieces_in_text.

(** the class is inhabited: siblings [add] / [add-all], a visible and a hidden alias, two levels, an option with visible
    and hidden aliases and possible values, a counting flag, a required positional ... *)
Theorem C16_zsh_ok_nonvacuous : zsh_ok zx_root [112].
Proof. exact zsh_ok_example. Qed.
Print Assumptions C16_zsh_ok_nonvacuous.

(** ... and there the arm [(add-all)] carries the block of [add-all], the arm [(x)] reached through the alias [a] of
    [add] the block of [x] *)
Theorem C16_zsh_paths_nonvacuous :
  exists s, zsh_script zx_root cd0 = Some s /\
    sublist (zrender ([Zx [40; 97; 100; 100; 45; 97; 108; 108; 41]] ++ znl ++ args_block zx_add_all cd0 (Some zx_root))) s /\
    sublist (zrender ([Zx [40; 120; 41]] ++ znl ++ args_block (zx_leaf [120] [112; 32; 97; 100; 100; 32; 120]) cd0 (Some zx_add))) s.
Proof. exact zsh_example_paths. Qed.
Print Assumptions C16_zsh_paths_nonvacuous.

(** class boundaries.  [zsh-optional-value]: an option with [num_args(0..=1)] and the possible value [zz]: no [zz] in the file *)
Theorem C16_zsh_optional_value_refuted :
  exists c d b s a vs pv, zsh_ok c b /\ zsh_script c d = Some s /\ In a (c_args c) /\ a_is_positional a = false /\
    possible_values a = Some vs /\ In pv vs /\ pv_hide pv = false /\ a_min_values a = 0%N /\
    ~ sublist (pv_name pv) s.
Proof. exact zsh_optional_value_refuted. Qed.
Print Assumptions C16_zsh_optional_value_refuted.

(** [alias-without-primary]: a visible short alias [x] of an option without a short: no [-x] in the file *)
Theorem C16_zsh_alias_without_primary_refuted :
  exists c d b s a, zsh_ok c b /\ zsh_script c d = Some s /\ In a (c_args c) /\ In ([120], true) (a_short_aliases a) /\
    ~ sublist [45; 120] s.
Proof. exact zsh_alias_without_primary_refuted. Qed.
Print Assumptions C16_zsh_alias_without_primary_refuted.

(** a subcommand NAME with a space ([a b] next to [a] -> [b], same bin name [p a b]): the lookup returns the first in
    pre-order, the arm [(a b)] carries the block of [b], the flag [-x] of [a b] is nowhere in the file *)
Theorem C16_zsh_space_in_name_refuted :
  linked zs_root /\ sibling_names zs_root /\ ~ nospace zs_root /\ desc zs_root zs_ab /\
  parser_of zs_root (bin_or_default zs_ab) = Some zs_b /\
  exists s, zsh_script zs_root cd0 = Some s /\ ~ sublist [45; 120; 91] s.
Proof. exact zsh_space_in_name_refuted. Qed.
Print Assumptions C16_zsh_space_in_name_refuted.
(** the same for the command tree AS THE USER WROTE IT ([Complete/ZshBuildProofs.v]): [BuildLinked.nb c] = no subcommand carries
    an explicit bin name (no spec format sets one).  [Command::build] then yields a [linked] tree with the bin name
    ([C16_build_linked]; the second proof of that statement, [C16_zsh_build_linked], is gone), so [generate]
    (= [set_bin_name] + [build] + generator) writes a script for EVERY such tree, every assignment of texts and every
    non-empty bin name: [build] does not run out of fuel, no [expect] fires, the recursion ends *)
From ClapModel Require Import Complete.ZshBuildProofs.
Theorem C16_zsh_generate_total : forall c d bin,
  BuildLinked.nb c = true -> bin <> [] -> NushellLexProofs.args_all no_bl c = true -> exists s, generate_zsh c d bin = Some s.
Proof. exact generate_zsh_total. Qed.
Print Assumptions C16_zsh_generate_total.

(** round 4: with [conflicts_with] declarations the hypothesis is on the BUILT tree: its conflicts resolve ([cres]; the
    local boolean class [conflicts_local] at every node gives it: [C16_zsh_total_local]) *)
Theorem C16_zsh_generate_total_resolved : forall c d bin,
  BuildLinked.nb c = true -> bin <> [] ->
  (forall b, build (set_bin_name c bin) = Some b -> conflicts_resolve b None = true /\ cres_below b) ->
  exists s, generate_zsh c d bin = Some s.
Proof. exact generate_zsh_total_resolved. Qed.
Print Assumptions C16_zsh_generate_total_resolved.

Theorem C16_zsh_generate_is_built : forall c d bin b,
  build (set_bin_name c bin) = Some b -> generate_zsh c d bin = zsh_script b (dbuild (set_bin_name c bin) d).
Proof. exact generate_zsh_is_built. Qed.
Print Assumptions C16_zsh_generate_is_built.
(** round 4: the exclusion list [(-x --exclude ...)] at the head of an option / flag spec.  [Arg::blacklist] is a field of
    the argument now ([a_blacklist]); an entry names an argument or a GROUP of the command.  For a non-global argument whose
    entries all resolve ([conflict_targets]): the spellings -- short, then long -- of what the entries resolve to, IN THE
    ORDER OF THE BLACKLIST, whatever the parent *)
Theorem C16_zsh_conflicts_list : forall c a g ls,
  a_global a = false -> map_opt (conflict_targets c) (a_blacklist a) = Some ls ->
  arg_conflicts_opt c a g = Some (conflicts_text (List.concat ls)) /\
  arg_conflicts c a g = conflicts_text (List.concat ls).
Proof. exact conflicts_list. Qed.
Print Assumptions C16_zsh_conflicts_list.

(** ... an entry that names an argument resolves to it; an entry that names a GROUP (and no argument) resolves to the
    MEMBERS of the group in argument order (class: the argument ids of the command are pairwise distinct -- clap's
    configuration check); an entry fails to resolve exactly when it names neither (the [panic!]): the nested-group
    branch of [unroll_args_in_group] and the [expect] on its members are dead *)
Theorem C16_zsh_conflicts_groups :
  (forall c id y, find_arg c id = Some y -> conflict_targets c id = Some [y]) /\
  (forall x id, NoDup (map a_id (c_args x)) -> find_arg x id = None -> find_group x id = true ->
     conflict_targets x id = Some (filter (in_group id) (c_args x))) /\
  (forall x id, conflict_targets x id <> None <-> (is_some (find_arg x id) || find_group x id)%bool = true) /\
  (forall x g, exists ids, unroll_args_in_group x g = Some ids /\ exists l, map_opt (find_arg x) ids = Some l).
Proof. exact (conj conflict_targets_arg (conj conflict_targets_group (conj conflict_targets_resolves unroll_total))). Qed.
Print Assumptions C16_zsh_conflicts_groups.

(** round 4, value names: every line of an option that REQUIRES a value carries [:vn:] (followed by the value completion),
    [vn] = the first value name of the argument, a blank when it has none *)
Theorem C16_zsh_option_value_name : forall c g a ad line,
  a_min_values a <> 0%N -> In line (opt_lines c g (a, ad)) ->
  exists val, zvalue_completion (a, ad) = Some val /\
    In (Zx ([58] ++ value_name a ++ [58])) line /\
    value_name a = match a_value_names a with [] => [32] | v :: _ => v end.
Proof. exact opt_line_value_name. Qed.
Print Assumptions C16_zsh_option_value_name.

(** the panic sites of [arg_conflicts] are hoisted into [get_args_of]: it fails exactly through the bin name of a command
    with subcommands or through an unresolvable conflict of one of the command's options / flags *)
Theorem C16_zsh_args_fail_only_on_conflicts : forall c d g,
  (conflicts_resolve c g = true -> get_args_of c d g = args_body c d g) /\
  (conflicts_resolve c g = false -> get_args_of c d g = None) /\
  (c_bin c <> None -> args_body c d g <> None).
Proof. intros c d g. exact (conj (get_args_of_guard c d g) (conj (get_args_of_unresolved c d g) (args_body_total c d g))). Qed.
Print Assumptions C16_zsh_args_fail_only_on_conflicts.

(** the LOCAL boolean class in which nothing panics: every blacklist entry of an option / flag names an argument or a group
    of its command (round 4 had to ask the entries of a GLOBAL option / flag to name arguments: finding
    zsh-global-conflicts-group, repaired since).  Resolution for a command written below its parent (or the root) ... *)
Theorem C16_zsh_conflicts_local : forall m g,
  conflicts_local m = true -> (forall p, g = Some p -> In m (c_subs p)) -> conflicts_resolve m g = true.
Proof. exact conflicts_local_resolve. Qed.
Print Assumptions C16_zsh_conflicts_local.

(** ... the local class spelled out IS clap's configuration check ([id_exists]: argument or group, for every entry of an
    option / flag) -- the generator is total for every tree that check accepts (with exact lookup: next theorem) ... *)
Theorem C16_zsh_conflicts_local_meaning : forall m,
  conflicts_local m = true <->
  forall a, In a (c_args m) -> a_is_positional a = false -> forall id, In id (a_blacklist a) ->
    (is_some (find_arg m id) || find_group m id)%bool = true.
Proof. exact conflicts_local_meaning. Qed.
Print Assumptions C16_zsh_conflicts_local_meaning.

(** ... so a tree in the exact-lookup class with the local class at every node is in [zsh_ok] and the generator writes a
    script: TOTAL for that class ... *)
Theorem C16_zsh_total_local : forall c d b,
  c_bin c = Some b -> linked c -> nospace c -> sibling_names c ->
  (forall n, (n = c \/ desc c n) -> conflicts_local n = true) ->
  zsh_ok c b /\ exists s, zsh_script c d = Some s.
Proof. intros c d b H1 H2 H3 H4 H5. exact (conj (zsh_ok_local c b H1 H2 H3 H4 H5) (zsh_total_local c d b H1 H2 H3 H4 H5)). Qed.
Print Assumptions C16_zsh_total_local.

(** ... non-vacuous, with a group: [--c] conflicts with the group [g1] = {a, b} and with [a]; the exclusion list is the
    members in argument order, then [a]; the line is in the file *)
Theorem C16_zsh_conflicts_group_example :
  zsh_ok zc_root [112] /\ NoDup (map a_id (c_args zc_root)) /\
  conflict_targets zc_root [103; 49] = Some [zc_a; zc_b] /\
  arg_conflicts zc_root zc_c None = [40; 45; 45; 97; 32; 45; 45; 98; 98; 32; 45; 45; 97; 41] /\
  exists s, zsh_script zc_root cd0 = Some s /\
    sublist [39; 40; 45; 45; 97; 32; 45; 45; 98; 98; 32; 45; 45; 97; 41; 45; 45; 99; 91; 93; 39; 32; 92] s.
Proof. exact zsh_conflicts_group_example. Qed.
Print Assumptions C16_zsh_conflicts_group_example.

(** ... the former boundary = finding [zsh-global-conflicts-group], REPAIRED (the model follows the repaired
    [get_global_arg_conflicts_with]: arguments of the command and of the subcommands containing the argument first, then the
    GROUP of that id in the first of these commands that has one, else the panic).  One entry of a global argument resolves
    iff it names an argument of that pool or a group of one of these commands ... *)
Theorem C16_zsh_global_conflict_entry : forall x a id,
  global_conflict_targets x a id <> None <->
  (is_some (find (fun y => beq (a_id y) id) (global_pool x a))
   || existsb (fun c => find_group c id) (x :: subcommands_containing x (a_id a)))%bool = true.
Proof. exact global_conflict_targets_resolves. Qed.
Print Assumptions C16_zsh_global_conflict_entry.

(** ... the PARENT-AWARE class, wider than the local one ([x] = the command the lookup of a global argument runs on: the
    parent, or the command itself at the root): an entry of a global option / flag of [m] may name an argument or a group of
    [m] OR of [x] -- a global argument copied into [m] may keep naming things of the command it came from; the local class
    is inside it; at the root clap's check is all it takes; at every node of an exact-lookup tree: [zsh_ok], total ... *)
Theorem C16_zsh_conflicts_parent_class :
  (forall x m a id, entry_ok_at x m a id =
     if a_global a then (is_some (find_arg m id) || find_group m id || is_some (find_arg x id) || find_group x id)%bool
     else (is_some (find_arg m id) || find_group m id)%bool) /\
  (forall m g, conflicts_ok_at (lookup_cmd g m) m = true -> (forall p, g = Some p -> In m (c_subs p)) ->
     conflicts_resolve m g = true) /\
  (forall x m, conflicts_local m = true -> conflicts_ok_at x m = true) /\
  (forall c d b, c_bin c = Some b -> linked c -> nospace c -> sibling_names c -> conflicts_ok_at c c = true ->
     (forall p sc, (p = c \/ desc c p) -> In sc (c_subs p) -> conflicts_ok_at p sc = true) ->
     zsh_ok c b /\ exists s, zsh_script c d = Some s).
Proof.
  split; [reflexivity|]. split; [exact conflicts_ok_at_resolve|]. split; [exact conflicts_local_ok_at|].
  intros c d b H1 H2 H3 H4 H5 H6. exact (conj (zsh_ok_at c b H1 H2 H3 H4 H5 H6) (zsh_total_at c d b H1 H2 H3 H4 H5 H6)).
Qed.
Print Assumptions C16_zsh_conflicts_parent_class.

(** ... and the witness trees of the finding now get their scripts: [--g] global, conflicting with the group [grp] = {a}.  The
    one-node tree is in the local class and in [zsh_ok], the conflict resolves to [a], a script is written for EVERY assignment
    of texts and has the line ['(--a)--g[]' \]; so has the arm [(s)] of a subcommand that received both global arguments
    (the group of the parent and of [s]) and of a subcommand that declares the global argument and the group ITSELF (the
    group of a subcommand containing the argument: not reached by a fallback to the parent's groups alone).  Same files
    from the repaired generator (corpus/C16/zsh-model.round4.cases) *)
Theorem C16_zsh_global_conflicts_group_fixed :
  conflicts_local zg_root = true /\ conflicts_ok_at zg_root zg_root = true /\ zsh_ok zg_root [112] /\
  get_arg_conflicts_with zg_root zg_g = Some [zg_a] /\
  (forall d, exists s, zsh_script zg_root d = Some s) /\
  (exists s, zsh_script zg_root cd0 = Some s /\ sublist [39; 40; 45; 45; 97; 41; 45; 45; 103; 91; 93; 39; 32; 92] s) /\
  (exists s, generate_zsh zg_user cd0 [112] = Some s /\
     sublist ([40; 115; 41; 10] ++ zrender args_header ++ [10; 39; 40; 45; 45; 97; 41; 45; 45; 103; 91; 93; 39; 32; 92]) s) /\
  (exists s, generate_zsh zg_sub_user cd0 [112] = Some s /\
     sublist ([40; 115; 41; 10] ++ zrender args_header ++ [10; 39; 40; 45; 45; 97; 41; 45; 45; 103; 91; 93; 39; 32; 92]) s).
Proof. exact zsh_global_conflicts_group_fixed. Qed.
Print Assumptions C16_zsh_global_conflicts_group_fixed.
(* ---- end zsh generator model ---- *)

(* ---- Command::build and the tree the user wrote (round 3) ---- *)
(** [Complete/BuildSkeleton.v].  [erase] keeps names, aliases (with visibility) and shape of a tree.  The names of the BUILT tree
    are a structural function [bskel] of the tree the user wrote -- the fuelled recursion of [_build_recursive] disappears:
    the same names and aliases, plus, below every command that has subcommands and for which DisableHelpSubcommand is not in
    force (on the command, globally on it, or globally on an ancestor: the flag [g]), the generated [help] subcommand whose
    subtree repeats the NAMES of the siblings ([hcopy]: no aliases) followed by [help] *)
From ClapModel Require Complete.BuildSkeleton.
Theorem C16_build_skeleton : forall c bin b,
  build (set_bin_name c bin) = Some b -> BuildSkeleton.erase b = BuildSkeleton.bskel false c.
Proof. exact BuildSkeleton.generate_skeleton. Qed.
Print Assumptions C16_build_skeleton.

Theorem C16_build_skeleton_shape : forall g c,
  BuildSkeleton.bskel g c =
  mkCmd (c_name c) (c_aliases c) []
    (map (BuildSkeleton.bskel (g || s_dhs (c_gset c))) (c_subs c)
     ++ (if g || s_dhs (c_set c) || s_dhs (c_gset c) || is_nil (c_subs c) then []
         else [mkCmd BuildSkeleton.help_name [] []
                 (map BuildSkeleton.hcopy (c_subs c) ++ [mkCmd BuildSkeleton.help_name [] [] [] None false false sets0 sets0])
                 None false false sets0 sets0]))
    None false false sets0 sets0.
Proof. exact BuildSkeleton.bskel_unfold. Qed.
Print Assumptions C16_build_skeleton_shape.

(** so [build] keeps sibling names and aliases pairwise distinct (clap's own configuration check on the user's tree) when no
    subcommand is named or aliased [help] where clap generates one ([help_free]: a boolean, structural in the user's tree) ... *)
Theorem C16_build_siblings_ok : forall c bin b,
  build (set_bin_name c bin) = Some b -> siblings_ok c -> BuildSkeleton.help_free false c = true -> siblings_ok b.
Proof. exact BuildSkeleton.build_siblings_ok. Qed.
Print Assumptions C16_build_siblings_ok.

(** ... and every class of subcommand names that contains [help] ([dd_safe] of the bash theorems, "no blank" of zsh) *)
Theorem C16_build_names : forall Q c bin b,
  Q BuildSkeleton.help_name = true -> build (set_bin_name c bin) = Some b ->
  (forall n, desc c n -> Q (c_name n) = true) -> (forall n, desc b n -> Q (c_name n) = true).
Proof. exact BuildSkeleton.build_names. Qed.
Print Assumptions C16_build_names.

(** [build] only ADDS: every command the user wrote is in the built tree under the same name and aliases, with all its
    arguments (the same records) and all its subcommands ([extends], an inductive relation) ... *)
Theorem C16_build_extends : forall c bin b, build (set_bin_name c bin) = Some b -> BuildSkeleton.extends c b.
Proof. exact BuildSkeleton.generate_extends. Qed.
Print Assumptions C16_build_extends.

(** ... so every path of names or visible aliases of the USER's tree is a path of the built tree, to the built image of the
    same command, which has every argument and, under the same words, every subcommand of the user's command *)
Theorem C16_user_paths_are_built_paths : forall c ws ns n,
  reach c ws ns n -> forall b, BuildSkeleton.extends c b -> exists n', reach b ws ns n' /\ BuildSkeleton.extends n n'.
Proof. exact BuildSkeleton.reach_extends. Qed.
Print Assumptions C16_user_paths_are_built_paths.

Theorem C16_extends_node : forall n n', BuildSkeleton.extends n n' ->
  (forall a, In a (c_args n) -> In a (c_args n')) /\
  (forall sc w, In sc (c_subs n) -> In w (get_name_and_visible_aliases sc) ->
     exists sb, In sb (c_subs n') /\ In w (get_name_and_visible_aliases sb) /\ BuildSkeleton.extends sc sb).
Proof. exact BuildSkeleton.extends_node. Qed.
Print Assumptions C16_extends_node.

(** zsh: the class [zsh_ok] of the exact-lookup, dispatch and coverage theorems holds for the tree [generate] builds from a user
    tree with distinct sibling names and aliases, no blank in a subcommand name, no explicit bin names, no subcommand called
    [help] where clap generates one -- those theorems speak about the file [generate_zsh] writes *)
Theorem C16_zsh_build_ok : forall c bin b,
  BuildLinked.nb c = true -> bin <> [] -> nospace c -> siblings_ok c -> BuildSkeleton.help_free false c = true ->
  NushellLexProofs.args_all no_bl c = true ->
  build (set_bin_name c bin) = Some b -> zsh_ok b bin.
Proof. exact build_zsh_ok. Qed.
Print Assumptions C16_zsh_build_ok.

(** round 4: [args_all no_bl] = no argument of the user's tree declares a conflict ([build] keeps that: the generated
    arguments declare none); with conflicts the hypothesis is that they resolve on the built tree *)
Theorem C16_zsh_build_ok_resolved : forall c bin b,
  BuildLinked.nb c = true -> bin <> [] -> nospace c -> siblings_ok c -> BuildSkeleton.help_free false c = true ->
  build (set_bin_name c bin) = Some b -> conflicts_resolve b None = true -> cres_below b -> zsh_ok b bin.
Proof. exact build_zsh_ok_resolved. Qed.
Print Assumptions C16_zsh_build_ok_resolved.

(** round 4, [Complete/ZshBuildConflicts.v]: the class ON THE USER'S TREE for trees that DO declare conflicts.
    [conflicts_declared_ok l]: in the argument list [l] of a command, an argument that declares conflicts is not global and
    every entry of its blacklist names an argument or a group of [l]; [cdo_all]: at every command of the tree.  [build] keeps
    it -- it only appends arguments (help, version, the parent's global arguments) and in the class all of them have an empty
    blacklist -- and it implies the local class at every node of the built tree, hence [zsh_ok]: exact lookup, dispatch,
    coverage and totality for the file [generate_zsh] writes *)
From ClapModel Require Complete.ZshBuildConflicts.
Theorem C16_zsh_build_keeps_conflicts_class : forall c b,
  build c = Some b -> ZshBuildConflicts.cdo_all c = true ->
  ZshBuildConflicts.cdo_all b = true /\ forall n, (n = b \/ desc b n) -> conflicts_local n = true.
Proof.
  intros c b Hb Hc. pose proof (ZshBuildConflicts.ca_build c b Hb Hc) as H.
  exact (conj H (fun n Hn => ZshBuildConflicts.ca_local b n H Hn)).
Qed.
Print Assumptions C16_zsh_build_keeps_conflicts_class.

Theorem C16_zsh_conflicts_class_meaning : forall c,
  (ZshBuildConflicts.cdo_all c = true <->
     ZshBuildConflicts.conflicts_declared_ok (c_args c) = true /\ forall sc, In sc (c_subs c) -> ZshBuildConflicts.cdo_all sc = true) /\
  ZshBuildConflicts.conflicts_declared_ok (c_args c) =
    forallb (fun a => (is_nil (a_blacklist a)
                       || (negb (a_global a)
                           && forallb (fun id => (is_some (find (fun y => beq (a_id y) id) (c_args c))
                                                  || existsb (in_group id) (c_args c))%bool) (a_blacklist a)))%bool)
            (c_args c) /\
  (NushellLexProofs.args_all no_bl c = true -> ZshBuildConflicts.cdo_all c = true).
Proof. intros c. exact (conj (ZshBuildConflicts.ca_iff c) (conj eq_refl (ZshBuildConflicts.ca_no_bl c))). Qed.
Print Assumptions C16_zsh_conflicts_class_meaning.

Theorem C16_zsh_build_ok_conflicts : forall c bin b,
  BuildLinked.nb c = true -> bin <> [] -> nospace c -> siblings_ok c -> BuildSkeleton.help_free false c = true ->
  ZshBuildConflicts.cdo_all c = true ->
  build (set_bin_name c bin) = Some b -> zsh_ok b bin.
Proof. exact ZshBuildConflicts.build_zsh_ok_conflicts. Qed.
Print Assumptions C16_zsh_build_ok_conflicts.

Theorem C16_zsh_generate_ok_conflicts : forall c d bin,
  BuildLinked.nb c = true -> bin <> [] -> nospace c -> siblings_ok c -> BuildSkeleton.help_free false c = true ->
  ZshBuildConflicts.cdo_all c = true ->
  exists b s, build (set_bin_name c bin) = Some b /\ zsh_ok b bin /\
              generate_zsh c d bin = Some s /\ zsh_script b (dbuild (set_bin_name c bin) d) = Some s.
Proof. exact ZshBuildConflicts.generate_zsh_ok_conflicts. Qed.
Print Assumptions C16_zsh_generate_ok_conflicts.

(** satisfiable: a global flag, a group [g1] = {a, b}, [--c] conflicting with the group and with [a], in the root and in a
    subcommand; not conflict-free; the file has the exclusion list and the propagated global flag *)
Theorem C16_zsh_generate_ok_conflicts_nonvacuous :
  BuildLinked.nb ZshBuildConflicts.zu_root = true /\ nospace ZshBuildConflicts.zu_root /\ siblings_ok ZshBuildConflicts.zu_root /\
  BuildSkeleton.help_free false ZshBuildConflicts.zu_root = true /\ ZshBuildConflicts.cdo_all ZshBuildConflicts.zu_root = true /\
  NushellLexProofs.args_all no_bl ZshBuildConflicts.zu_root = false /\
  exists s, generate_zsh ZshBuildConflicts.zu_root cd0 [112] = Some s /\
    binfix [39; 40; 45; 45; 97; 32; 45; 45; 98; 98; 32; 45; 45; 97; 41; 45; 45; 99; 91; 93; 39; 32; 92] s = true /\
    binfix [39; 45; 45; 118; 101; 114; 98; 111; 115; 101; 91; 93; 39; 32; 92] s = true.
Proof. exact ZshBuildConflicts.generate_zsh_ok_conflicts_example. Qed.
Print Assumptions C16_zsh_generate_ok_conflicts_nonvacuous.

Theorem C16_zsh_generate_ok : forall c d bin,
  BuildLinked.nb c = true -> bin <> [] -> nospace c -> siblings_ok c -> BuildSkeleton.help_free false c = true ->
  NushellLexProofs.args_all no_bl c = true ->
  exists b s, build (set_bin_name c bin) = Some b /\ zsh_ok b bin /\
              generate_zsh c d bin = Some s /\ zsh_script b (dbuild (set_bin_name c bin) d) = Some s.
Proof. exact generate_zsh_ok. Qed.
Print Assumptions C16_zsh_generate_ok.

(** satisfiable: the tree of [C16_zsh_ok_nonvacuous] as a user writes it (no bin names); the built tree has the path [a x]
    through the alias, with the user's option, and the generated [help add x] *)
Theorem C16_zsh_generate_ok_nonvacuous :
  BuildLinked.nb zx_user = true /\ nospace zx_user /\ siblings_ok zx_user /\ BuildSkeleton.help_free false zx_user = true /\
  NushellLexProofs.args_all no_bl zx_user = true /\
  exists b n m, build (set_bin_name zx_user [112]) = Some b /\
    reach b [[97]; [120]] [[97; 100; 100]; [120]] n /\ In zx_opt (c_args n) /\
    reach b [[104; 101; 108; 112]; [97; 100; 100]; [120]] [[104; 101; 108; 112]; [97; 100; 100]; [120]] m.
Proof. exact generate_zsh_ok_example. Qed.
Print Assumptions C16_zsh_generate_ok_nonvacuous.

(* ---- bash: the value branch, and the table for the tree the user wrote (round 3) ---- *)
(** [Complete/BashValues.v].  The [case "${prev}"] branch of the completion function.  [opt_keys o] = the labels of the arms
    of option [o]: [--]long and visible aliases, [-]short and visible short aliases.  After the words of a path to [n], a
    spelling [key] of an option [o] of [n] (unique among the options of [n]: clap's own check) and a partial word that does not
    start with [-], the function replies what the arm of [o] says ([vals_kind o]; [None] = the reply comes from the file system) *)
From ClapModel Require Complete.BashValues Complete.BashUser.
Theorem C16_bash_value_branch : forall c root_bin t w0 ws ns n o key cur,
  c_bin c = Some root_bin -> linked c -> mangle_safe c root_bin -> bash_table c = Some t ->
  reach c ws ns n -> w0 <> [] -> Forall (fun w => w <> []) ws ->
  In o (get_opts n) -> In key (BashValues.opt_keys o) ->
  (forall o', In o' (get_opts n) -> In key (BashValues.opt_keys o') -> o' = o) ->
  (forall sc, In sc (c_subs n) -> ~ In key (sc_words sc)) ->
  (forall sc, In sc (c_subs n) -> ~ In cur (sc_words sc)) ->
  starts_with cur [45] = false ->
  bash_complete t (w0 :: ws ++ [key; cur]) =
  match vals_kind o with
  | VWords l => Some (compgen_W l cur) | VCur => Some [cur] | VNothing => Some [] | VFiles => None
  end.
Proof. exact BashValues.bash_value_branch. Qed.
Print Assumptions C16_bash_value_branch.

(** an option with possible values: the reply is EXACTLY the non-hidden possible values that start with the partial word,
    whatever the value hint -- [Other], [DirPath], ... -- except [FilePath] (refuted below).  The statement the seeded change
    "an explicit ValueHint::Other / DirPath shadows the possible values" violates *)
Theorem C16_bash_value_offers_possible_values : forall c root_bin t w0 ws ns n o key cur vs,
  c_bin c = Some root_bin -> linked c -> mangle_safe c root_bin -> bash_table c = Some t ->
  reach c ws ns n -> w0 <> [] -> Forall (fun w => w <> []) ws ->
  In o (get_opts n) -> In key (BashValues.opt_keys o) ->
  (forall o', In o' (get_opts n) -> In key (BashValues.opt_keys o') -> o' = o) ->
  (forall sc, In sc (c_subs n) -> ~ In key (sc_words sc)) ->
  (forall sc, In sc (c_subs n) -> ~ In cur (sc_words sc)) ->
  starts_with cur [45] = false ->
  possible_values o = Some vs -> a_get_hint o <> HFilePath ->
  exists reply, bash_complete t (w0 :: ws ++ [key; cur]) = Some reply /\
    forall w, In w reply <-> (exists pv, In pv vs /\ pv_hide pv = false /\ w = pv_name pv) /\ exists tl, w = cur ++ tl.
Proof. exact BashValues.bash_value_offers_possible_values. Qed.
Print Assumptions C16_bash_value_offers_possible_values.

(** the TEXT of the arm ([vals_for]): [$(compgen -W "v1 v2 .." -- "${cur}")] over the non-hidden values, whatever the hint;
    without possible values the hint decides *)
Theorem C16_bash_value_arm_text : forall o vs,
  possible_values o = Some vs ->
  vals_for o = [36; 40; 99; 111; 109; 112; 103; 101; 110; 32; 45; 87; 32; 34]
               ++ intercalate [32] (map pv_name (filter (fun pv => negb (pv_hide pv)) vs))
               ++ [34; 32; 45; 45; 32; 34; 36; 123; 99; 117; 114; 125; 34; 41].
Proof. exact BashValues.bash_value_arm_text. Qed.
Print Assumptions C16_bash_value_arm_text.

Theorem C16_bash_value_hint : forall o,
  possible_values o = None ->
  vals_kind o = match a_get_hint o with HDirPath => VNothing | HOther => VCur | _ => VFiles end.
Proof. exact BashValues.bash_value_hint. Qed.
Print Assumptions C16_bash_value_hint.

(** satisfiable: [--color] / [-c] / visible alias [--colour], values always, never, secret (hidden), explicit [ValueHint::Other]:
    every hypothesis holds; [p --colour a] is answered with [always], [p -c ""] with [always never] *)
Theorem C16_bash_value_nonvacuous :
  exists t, c_bin (BashValues.bv_root HOther) = Some [112] /\ linked (BashValues.bv_root HOther) /\
    mangle_safe (BashValues.bv_root HOther) [112] /\
    bash_table (BashValues.bv_root HOther) = Some t /\ reach (BashValues.bv_root HOther) [] [] (BashValues.bv_root HOther) /\
    In (BashValues.bv_opt HOther) (get_opts (BashValues.bv_root HOther)) /\
    In [45; 45; 99; 111; 108; 111; 117; 114] (BashValues.opt_keys (BashValues.bv_opt HOther)) /\
    (forall o', In o' (get_opts (BashValues.bv_root HOther)) ->
                In [45; 45; 99; 111; 108; 111; 117; 114] (BashValues.opt_keys o') -> o' = BashValues.bv_opt HOther) /\
    possible_values (BashValues.bv_opt HOther) =
      Some [mkPv [97; 108; 119; 97; 121; 115] false; mkPv [110; 101; 118; 101; 114] false; mkPv [115; 101; 99; 114; 101; 116] true] /\
    a_get_hint (BashValues.bv_opt HOther) = HOther /\
    bash_complete t [[112]; [45; 45; 99; 111; 108; 111; 117; 114]; [97]] = Some [[97; 108; 119; 97; 121; 115]] /\
    bash_complete t [[112]; [45; 99]; []] = Some [[97; 108; 119; 97; 121; 115]; [110; 101; 118; 101; 114]].
Proof. exact BashValues.bash_value_hyps. Qed.
Print Assumptions C16_bash_value_nonvacuous.

(** class boundary (observation O1 of the notes, corpus [bash.regressions]; validated under the installed bash): with
    [ValueHint::FilePath] the arm runs under [IFS=$'\n'] and [compgen -W "always never"] yields ONE word, not a possible value *)
Theorem C16_bash_value_filepath_refuted :
  exists t vs, bash_table (BashValues.bv_root HFilePath) = Some t /\ possible_values (BashValues.bv_opt HFilePath) = Some vs /\
    bash_complete t [[112]; [45; 45; 99; 111; 108; 111; 114]; []] =
      Some [[97; 108; 119; 97; 121; 115; 32; 110; 101; 118; 101; 114]] /\
    ~ In [97; 108; 119; 97; 121; 115; 32; 110; 101; 118; 101; 114] (map pv_name vs).
Proof. exact BashValues.bash_value_filepath_refuted. Qed.
Print Assumptions C16_bash_value_filepath_refuted.

(** [Complete/BashUser.v].  [C16_bash_table] for [generate] on a user tree: [linked] is no hypothesis any more ([build]
    establishes it for a tree without explicit bin names: [C16_build_linked]), and the script [generate_bash] writes is the
    rendering of the table *)
Theorem C16_bash_generate_table : forall c bin b,
  BuildLinked.nb c = true -> build (set_bin_name c bin) = Some b -> mangle_safe b bin ->
  exists t, bash_table b = Some t /\ generate_bash c bin = Some (render t) /\
    forall w0 ws ns n, reach b ws ns n ->
      fold_left (step (k_label (t_root t)) w0 (t_trans t)) (w0 :: ws) [] = fn_of (mangle bin) ns /\
      exists k, lookup_case t (fn_of (mangle bin) ns) = Some k /\
                opts_tokens n = Some (k_opts k) /\ k_details k = option_details n /\
                k_level k = N.of_nat (S (List.length ws)).
Proof. exact BashUser.bash_generate_table. Qed.
Print Assumptions C16_bash_generate_table.

(** [mangle_safe] of the built tree from the user's tree: names and sibling distinctness are carried over; what remains is the
    injectivity of the mangled function names ... *)
Theorem C16_build_mangle_safe : forall c bin b,
  build (set_bin_name c bin) = Some b -> dd_safe bin = true -> bin <> [] ->
  siblings_ok c -> BuildSkeleton.help_free false c = true -> (forall n, desc c n -> dd_safe (c_name n) = true) ->
  (forall f n1 n2, node_at (mangle bin) b f n1 -> node_at (mangle bin) b f n2 -> n1 = n2) ->
  mangle_safe b bin.
Proof. exact BashUser.build_mangle_safe. Qed.
Print Assumptions C16_build_mangle_safe.

(** ... which holds when no subcommand name contains a hyphen ([bash_name] = [dd_safe] and no [-]: [mangle] is then the identity
    on the names and the [__]-joined path splits back) ... *)
Theorem C16_bash_names_determine_node : forall c r,
  siblings_ok c -> (forall n, desc c n -> BashUser.bash_name (c_name n) = true) ->
  forall f n1 n2, node_at r c f n1 -> node_at r c f n2 -> n1 = n2.
Proof. exact BashUser.ms_inj_plain. Qed.
Print Assumptions C16_bash_names_determine_node.

(** ... so for such trees every hypothesis is on the tree the user wrote *)
Theorem C16_bash_generate_table_plain : forall c bin,
  BuildLinked.nb c = true -> dd_safe bin = true -> bin <> [] -> siblings_ok c -> BuildSkeleton.help_free false c = true ->
  (forall n, desc c n -> BashUser.bash_name (c_name n) = true) ->
  exists b t, build (set_bin_name c bin) = Some b /\ bash_table b = Some t /\ generate_bash c bin = Some (render t) /\
    forall w0 ws ns n, reach b ws ns n ->
      fold_left (step (k_label (t_root t)) w0 (t_trans t)) (w0 :: ws) [] = fn_of (mangle bin) ns /\
      exists k, lookup_case t (fn_of (mangle bin) ns) = Some k /\
                opts_tokens n = Some (k_opts k) /\ k_details k = option_details n /\
                k_level k = N.of_nat (S (List.length ws)).
Proof. exact BashUser.bash_generate_table_plain. Qed.
Print Assumptions C16_bash_generate_table_plain.

Theorem C16_bash_generate_table_plain_nonvacuous :
  BuildLinked.nb BashUser.bu_root = true /\ dd_safe [109; 121; 45; 112; 114; 111; 103] = true /\
  [109; 121; 45; 112; 114; 111; 103] <> @nil N /\ siblings_ok BashUser.bu_root /\
  BuildSkeleton.help_free false BashUser.bu_root = true /\
  (forall n, desc BashUser.bu_root n -> BashUser.bash_name (c_name n) = true) /\
  exists b n, build (set_bin_name BashUser.bu_root [109; 121; 45; 112; 114; 111; 103]) = Some b /\
    reach b [[104; 101; 108; 112]; [97; 100; 100]; [120]] [[104; 101; 108; 112]; [97; 100; 100]; [120]] n.
Proof. exact BashUser.bash_generate_table_plain_hyps. Qed.
Print Assumptions C16_bash_generate_table_plain_nonvacuous.

(* ---- elvish / PowerShell / zsh: the remaining classes from the tree the user wrote (round 3) ---- *)
(** [Complete/TableUser.v].  elvish and PowerShell: the lookup statement ([C16_<sh>_lookup]: the block keyed by a path is in the
    script, every block with that key carries the node's entries, a first-match lookup returns it) for [generate_<sh>] on a user
    tree with distinct sibling names and aliases, no [;] in a name or in the bin name, no subcommand called [help] where clap
    generates one: [build] keeps the class ([C16_build_siblings_ok]; [cmd_plain no_semi] by [BuildTexts.cp_build]) *)
From ClapModel Require Complete.TableUser.
Theorem C16_elvish_generate_lookup : forall c t bin,
  bin <> [] -> siblings_ok c -> BuildSkeleton.help_free false c = true ->
  PathTableLex.cmd_plain PathTableBlocks.no_semi c = true -> PathTableLex.plainl PathTableBlocks.no_semi bin = true ->
  exists b tb,
    build (set_bin_name c bin) = Some b /\ TextTree.tbuild (set_bin_name c bin) t = Some tb /\
    ElvishModel.generate_elvish c t bin =
      Some (ElvishModel.render bin
              (List.concat (map (PathTableBlocks.render_block ElvishProofs.el_fmt) (PathTableBlocks.blocks ElvishProofs.el_fmt b tb [])))) /\
    forall ws ns n, reach b ws ns n ->
      exists tn,
        In (PathTable.path_key bin ws, PathTable.entries ElvishProofs.el_fmt n tn) (PathTableBlocks.blocks ElvishProofs.el_fmt b tb []) /\
        (forall e, In (PathTable.path_key bin ws, e) (PathTableBlocks.blocks ElvishProofs.el_fmt b tb []) ->
                   e = PathTable.entries ElvishProofs.el_fmt n tn) /\
        PathTableBlocks.lookup_block (PathTableBlocks.blocks ElvishProofs.el_fmt b tb []) (PathTable.path_key bin ws) =
          Some (PathTable.path_key bin ws, PathTable.entries ElvishProofs.el_fmt n tn).
Proof. exact TableUser.elvish_generate_lookup. Qed.
Print Assumptions C16_elvish_generate_lookup.

Theorem C16_powershell_generate_lookup : forall up c t bin,
  bin <> [] -> siblings_ok c -> BuildSkeleton.help_free false c = true ->
  PathTableLex.cmd_plain PathTableBlocks.no_semi c = true -> PathTableLex.plainl PathTableBlocks.no_semi bin = true ->
  exists b tb,
    build (set_bin_name c bin) = Some b /\ TextTree.tbuild (set_bin_name c bin) t = Some tb /\
    PowershellModel.generate_powershell up c t bin =
      Some (PowershellModel.render bin
              (List.concat (map (PathTableBlocks.render_block (PowershellProofs.ps_fmt up))
                                (PathTableBlocks.blocks (PowershellProofs.ps_fmt up) b tb [])))) /\
    forall ws ns n, reach b ws ns n ->
      exists tn,
        In (PathTable.path_key bin ws, PathTable.entries (PowershellProofs.ps_fmt up) n tn)
           (PathTableBlocks.blocks (PowershellProofs.ps_fmt up) b tb []) /\
        (forall e, In (PathTable.path_key bin ws, e) (PathTableBlocks.blocks (PowershellProofs.ps_fmt up) b tb []) ->
                   e = PathTable.entries (PowershellProofs.ps_fmt up) n tn) /\
        PathTableBlocks.lookup_block (PathTableBlocks.blocks (PowershellProofs.ps_fmt up) b tb []) (PathTable.path_key bin ws) =
          Some (PathTable.path_key bin ws, PathTable.entries (PowershellProofs.ps_fmt up) n tn).
Proof. exact TableUser.powershell_generate_lookup. Qed.
Print Assumptions C16_powershell_generate_lookup.

Theorem C16_table_generate_lookup_nonvacuous :
  [112%N] <> @nil N /\ siblings_ok TableUser.tu_root /\ BuildSkeleton.help_free false TableUser.tu_root = true /\
  PathTableLex.cmd_plain PathTableBlocks.no_semi TableUser.tu_root = true /\
  PathTableLex.plainl PathTableBlocks.no_semi [112%N] = true /\ c_subs TableUser.tu_root <> [].
Proof. exact TableUser.table_user_hyps. Qed.
Print Assumptions C16_table_generate_lookup_nonvacuous.

(** [Complete/ZshBuildTame.v].  zsh: [build] keeps a tree in the class [ztame_cmd] of the whole-script structure theorems
    ([C17_zsh_script_*]), so the C17 statement holds for the file [generate_zsh] writes for the user's tree: any two
    assignments of description texts with the same presence shape give files with the same token skeleton and final state *)
From ClapModel Require Complete.ZshLexProofs Complete.ZshBuildTame Complete.FishLexProofs Escape.ShellLex.
Theorem C16_zsh_build_keeps_tame : forall c bin b,
  build (set_bin_name c bin) = Some b -> ZshLexProofs.ztame_cmd c = true -> FishLexProofs.tame bin = true ->
  ZshLexProofs.ztame_cmd b = true.
Proof. exact ZshBuildTame.build_ztame. Qed.
Print Assumptions C16_zsh_build_keeps_tame.

Theorem C16_zsh_generate_same_skeleton : forall c d1 d2 bin s1,
  ZshLexProofs.ztame_cmd c = true -> FishLexProofs.tame bin = true ->
  FishLexProofs.erase_desc d1 = FishLexProofs.erase_desc d2 -> generate_zsh c d1 bin = Some s1 ->
  exists s2, generate_zsh c d2 bin = Some s2 /\
    ShellLex.skeleton (ShellLex.events ShellLex.sh_step ShellLex.ZB s1) =
    ShellLex.skeleton (ShellLex.events ShellLex.sh_step ShellLex.ZB s2) /\
    ShellLex.final ShellLex.sh_step ShellLex.ZB s1 = ShellLex.final ShellLex.sh_step ShellLex.ZB s2.
Proof. exact ZshBuildTame.generate_zsh_text_invariance. Qed.
Print Assumptions C16_zsh_generate_same_skeleton.

Theorem C16_zsh_generate_same_skeleton_nonvacuous :
  ZshLexProofs.ztame_cmd zx_user = true /\ FishLexProofs.tame [112%N] = true.
Proof. exact ZshBuildTame.generate_zsh_tame_example. Qed.
Print Assumptions C16_zsh_generate_same_skeleton_nonvacuous.

(* ---- all six generators, one statement, on the tree the user wrote (round 3) ---- *)
(** [Complete/CrossShell.v].  A user tree [c] without explicit bin names on subcommands, [generate] called with [bin], the built
    tree in the class of the bash theorems ([mangle_safe], which contains what the zsh lookup needs).  For EVERY path [ws] of names
    or visible aliases of the USER's tree to a command [n], every option or flag [a] the user gave [n], and EVERY spelling of [a]
    ([spelled_short]: its short or a visible short alias; [spelled_long]: its long or a visible alias) in the class
    [arg_has_primary a] (an alias comes with its primary spelling; outside it: finding alias-without-primary): each of the six
    scripts exists and mentions THAT spelling where its shell looks it up for THAT path -- the same set in all six:
    bash: the [case] arm the word loop ends in has [-s] / [--l] in its [opts];  zsh: the [_arguments] block after the arm label of
    the last word (root: the first block) has the spec line (option form if the argument takes a value, flag form otherwise);
    fish (paths of at most two words): a [complete] line starting with the path's condition has [ -s s] / [ -l l];
    PowerShell / elvish: the block keyed [bin;w1;..;wk] has the entry;  nushell: the block declared
    [export extern "bin n1 .. nk"] has a line of the argument starting with the spelling.
    Corollary of the six coverage theorems, [C16_user_paths_are_built_paths] and [C16_build_linked]. *)
From ClapModel Require Complete.CrossShell.
(** round 4: [cres b] = no [arg_conflicts] call of the zsh generator panics on the built tree ([conflicts_resolve b None]
    and [cres_below b]); trees without [conflicts_with] ([args_all no_bl], on the user's tree: the [_plain] form) and trees
    with the local class at every built node ([C16_zsh_total_local]) have it *)
Theorem C16_six_generators_mention_the_same_spellings : forall up c t d bin b ws ns n a,
  BuildLinked.nb c = true -> build (set_bin_name c bin) = Some b -> mangle_safe b bin -> cres b ->
  reach c ws ns n -> In a (c_args n) -> a_is_positional a = false -> CrossShell.arg_has_primary a ->
  (forall s, CrossShell.spelled_short a s ->
     CrossShell.bash_mentions c bin ns ([45] ++ s) /\
     CrossShell.zsh_mentions c d bin ws a (CrossShell.zsh_short_line a s) /\
     ((List.length ws <= 2)%nat -> CrossShell.fish_mentions_word c d bin ws (short_word s)) /\
     CrossShell.powershell_mentions up c t bin ws (PowershellProofs.ps_short up s) /\
     CrossShell.elvish_mentions c t bin ws (ElvishProofs.el_short s) /\
     CrossShell.nushell_mentions c d bin ns a (NushellProofs.mentions_short s)) /\
  (forall l, CrossShell.spelled_long a l ->
     CrossShell.bash_mentions c bin ns ([45; 45] ++ l) /\
     CrossShell.zsh_mentions c d bin ws a (CrossShell.zsh_long_line a l) /\
     ((List.length ws <= 2)%nat -> CrossShell.fish_mentions_word c d bin ws (long_word l)) /\
     CrossShell.powershell_mentions up c t bin ws (PowershellProofs.ps_long l) /\
     CrossShell.elvish_mentions c t bin ws (ElvishProofs.el_long l) /\
     CrossShell.nushell_mentions c d bin ns a (NushellProofs.mentions_long l)).
Proof. exact CrossShell.six_generators_mention_spellings_conj. Qed.
Print Assumptions C16_six_generators_mention_the_same_spellings.

(** what the six predicates say (their definitions, as equivalences, so that the statement above can be read from this file) *)
Theorem C16_six_mentions_meaning : forall up c t d bin ws ns a w word entry ok line,
  (CrossShell.bash_mentions c bin ns w <->
     exists b tb k, build (set_bin_name c bin) = Some b /\ bash_table b = Some tb /\ generate_bash c bin = Some (render tb) /\
                    lookup_case tb (fn_of (mangle bin) ns) = Some k /\ In w (k_opts k)) /\
  (CrossShell.zsh_mentions c d bin ws a line <->
     exists s n' nd g ad, generate_zsh c d bin = Some s /\
       sublist (zrender ((if is_nil ws then [] else [Zx ([40] ++ last ws [] ++ [41])] ++ znl) ++ args_block n' nd g)) s /\
       sublist (line n' g (a, ad)) (args_block n' nd g)) /\
  (CrossShell.fish_mentions_word c d bin ws word <->
     exists b n' lines basic fline,
       build (set_bin_name c bin) = Some b /\ generate_fish c d bin = fish_script b (dbuild (set_bin_name c bin) d) /\
       fish_lines b (dbuild (set_bin_name c bin) d) = Some lines /\
       basic_template bin (fish_needs bin b) (fish_using bin b) ws n' = Some basic /\
       In fline lines /\ hd_error fline = Some (Fx basic) /\ In word fline) /\
  (CrossShell.powershell_mentions up c t bin ws entry <->
     exists script es tip, PowershellModel.generate_powershell up c t bin = Some script /\
       PathTable.infix (PowershellModel.case_block (PathTable.path_key bin ws) es) script /\ PathTable.infix (entry tip) es) /\
  (CrossShell.elvish_mentions c t bin ws entry <->
     exists script es tip, ElvishModel.generate_elvish c t bin = Some script /\
       PathTable.infix (ElvishModel.case_block (PathTable.path_key bin ws) es) script /\ PathTable.infix (entry tip) es) /\
  (CrossShell.nushell_mentions c d bin ns a ok <->
     exists s blk pre post st,
       NushellModel.generate_nushell c d bin = Some s /\ s = NushellProofs.nrender (pre ++ blk ++ post) /\
       In (NushellProofs.NFx (NushellProofs.extern_line (negb (is_nil ns)) (bin ++ join_with [32%N] ns))) blk /\
       ok st /\ In (NushellProofs.NFx (st ++ NushellProofs.type_suffix a (bin ++ join_with [32%N] ns))) blk).
Proof. exact CrossShell.six_mentions_meaning. Qed.
Print Assumptions C16_six_mentions_meaning.

(** for subcommand names without a hyphen every hypothesis is on the tree the user wrote *)
Theorem C16_six_generators_mention_the_same_spellings_plain : forall up c t d bin ws ns n a,
  BuildLinked.nb c = true -> dd_safe bin = true -> bin <> [] -> siblings_ok c -> BuildSkeleton.help_free false c = true ->
  (forall m, desc c m -> BashUser.bash_name (c_name m) = true) -> ZshBuildConflicts.cdo_all c = true ->
  reach c ws ns n -> In a (c_args n) -> a_is_positional a = false -> CrossShell.arg_has_primary a ->
  (forall s, CrossShell.spelled_short a s ->
     CrossShell.bash_mentions c bin ns ([45] ++ s) /\
     CrossShell.zsh_mentions c d bin ws a (CrossShell.zsh_short_line a s) /\
     ((List.length ws <= 2)%nat -> CrossShell.fish_mentions_word c d bin ws (short_word s)) /\
     CrossShell.powershell_mentions up c t bin ws (PowershellProofs.ps_short up s) /\
     CrossShell.elvish_mentions c t bin ws (ElvishProofs.el_short s) /\
     CrossShell.nushell_mentions c d bin ns a (NushellProofs.mentions_short s)) /\
  (forall l, CrossShell.spelled_long a l ->
     CrossShell.bash_mentions c bin ns ([45; 45] ++ l) /\
     CrossShell.zsh_mentions c d bin ws a (CrossShell.zsh_long_line a l) /\
     ((List.length ws <= 2)%nat -> CrossShell.fish_mentions_word c d bin ws (long_word l)) /\
     CrossShell.powershell_mentions up c t bin ws (PowershellProofs.ps_long l) /\
     CrossShell.elvish_mentions c t bin ws (ElvishProofs.el_long l) /\
     CrossShell.nushell_mentions c d bin ns a (NushellProofs.mentions_long l)).
Proof. exact CrossShell.six_generators_mention_spellings_plain_conj. Qed.
Print Assumptions C16_six_generators_mention_the_same_spellings_plain.

Theorem C16_six_generators_nonvacuous :
  exists a, reach BashUser.bu_root [[97]] [[97; 100; 100]] BashUser.bu_add /\ In a (c_args BashUser.bu_add) /\
    a_is_positional a = false /\ CrossShell.arg_has_primary a /\ CrossShell.spelled_short a [99] /\
    CrossShell.spelled_long a [99; 111; 108; 111; 114].
Proof. exact CrossShell.six_generators_hyps. Qed.
Print Assumptions C16_six_generators_nonvacuous.

(** determinism of all six as one statement: functions of (command, texts, bin name); on the implementation: three generations *)
Theorem C16_six_generators_deterministic : forall up c1 c2 t1 t2 d1 d2 b1 b2,
  c1 = c2 -> t1 = t2 -> d1 = d2 -> b1 = b2 ->
  generate_bash c1 b1 = generate_bash c2 b2 /\
  generate_zsh c1 d1 b1 = generate_zsh c2 d2 b2 /\
  generate_fish c1 d1 b1 = generate_fish c2 d2 b2 /\
  PowershellModel.generate_powershell up c1 t1 b1 = PowershellModel.generate_powershell up c2 t2 b2 /\
  ElvishModel.generate_elvish c1 t1 b1 = ElvishModel.generate_elvish c2 t2 b2 /\
  NushellModel.generate_nushell c1 d1 b1 = NushellModel.generate_nushell c2 d2 b2.
Proof. exact CrossShell.six_generators_deterministic. Qed.
Print Assumptions C16_six_generators_deterministic.

(* ---- zsh: multi-valued positionals, exactly (round 3) ---- *)
(** [Complete/ZshPositionals.v].  [write_positionals_of] = the lines of the positionals [pos_kept] keeps, each with the cardinality
    prefix [pos_card]: ["*:"] for a multi-valued positional of a command without subcommands (the catch-all), [":"] for an
    optional one, nothing for a required one ... *)
From ClapModel Require Complete.ZshPositionals.
Theorem C16_zsh_positionals_exact : forall c d,
  write_positionals_of c d =
  zjoin znl (map (fun p => positional_line (ZshPositionals.pos_card (has_subcommands c) p) p)
                 (ZshPositionals.pos_kept (has_subcommands c) false (filter is_pos (zipd ad0 (c_args c) (cd_args d))))).
Proof. exact ZshPositionals.write_positionals_exact. Qed.
Print Assumptions C16_zsh_positionals_exact.

(** ... where [pos_kept] is: with subcommands, all of them; without, everything up to and including the FIRST catch-all (a
    multi-valued positional WITHOUT a value terminator), then only the single-valued positionals that are not [last] (a
    second catch-all is never written, a [last] positional after a catch-all is left to [_arguments -S]: the comment in
    zsh.rs); while no catch-all was written nothing is skipped ... *)
Theorem C16_zsh_positionals_kept :
  (forall l, ZshPositionals.pos_kept true false l = l) /\
  (forall hs l1 p l2, existsb (ZshPositionals.catch_all hs) l1 = false -> ZshPositionals.catch_all hs p = true ->
     ZshPositionals.pos_kept hs false (l1 ++ p :: l2) = l1 ++ p :: filter (fun q => negb (ZshPositionals.skipped q)) l2) /\
  (forall hs l, existsb (ZshPositionals.catch_all hs) l = false -> ZshPositionals.pos_kept hs false l = l) /\
  (forall hs l1 ce l2, ZshPositionals.pos_kept hs ce (l1 ++ l2) =
     ZshPositionals.pos_kept hs ce l1 ++ ZshPositionals.pos_kept hs (ce || existsb (ZshPositionals.catch_all hs) l1) l2).
Proof.
  exact (conj ZshPositionals.pos_kept_with_subcommands
           (conj ZshPositionals.pos_kept_first_catch_all (conj ZshPositionals.pos_kept_no_catch_all ZshPositionals.pos_kept_app))).
Qed.
Print Assumptions C16_zsh_positionals_kept.

(** round 4, the [last] positional (clap's configuration check wants it behind every other positional): it has its line iff
    no catch-all was written before it; when it is single-valued the line carries [:] (optional) or nothing (required) *)
Theorem C16_zsh_positionals_last : forall hs l p,
  ZshPositionals.is_last p = true ->
  ZshPositionals.pos_kept hs false (l ++ [p]) =
  ZshPositionals.pos_kept hs false l ++ (if existsb (ZshPositionals.catch_all hs) l then [] else [p]).
Proof. exact ZshPositionals.pos_kept_last. Qed.
Print Assumptions C16_zsh_positionals_last.

(** evaluated with the round-4 fields: [src] (1..3, terminator [;]), [dst] (1..3), [rest] ([last]) without subcommands: the
    lines ['*;:...'] of [src] and the catch-all ['*:...'] of [dst], nothing for [rest]; behind a single-valued positional
    [rest] has its line; a terminator with a blank is written through [escape_value] *)
Theorem C16_zsh_positionals_last_example :
  let l := [(ZshPositionals.zp_arg_x [115; 114; 99] 3 (Some [59]) false, ad0); (ZshPositionals.zp_arg_x [100; 115; 116] 3 None false, ad0);
            (ZshPositionals.zp_arg_x [114; 101; 115; 116] 1 None true, ad0)] in
  map (fun p => (a_id (fst p), ZshPositionals.pos_card false p)) (ZshPositionals.pos_kept false false l)
  = [([115; 114; 99], [42; 59; 58]); ([100; 115; 116], [42; 58])] /\
  map (fun p => a_id (fst p))
      (ZshPositionals.pos_kept false false [(ZshPositionals.zp_arg_x [111; 110; 101] 1 None false, ad0);
                                            (ZshPositionals.zp_arg_x [114; 101; 115; 116] 1 None true, ad0)])
  = [[111; 110; 101]; [114; 101; 115; 116]] /\
  ZshPositionals.pos_card false (ZshPositionals.zp_arg_x [115; 114; 99] 3 (Some [97; 32; 98]) false, ad0) = [42; 97; 92; 32; 98; 58].
Proof. exact ZshPositionals.pos_kept_last_example. Qed.
Print Assumptions C16_zsh_positionals_last_example.

(** ... and when at most one positional is multi-valued or [last] (clap's own configuration check leaves such a tree
    whenever no argument carries [last]: two multi-valued ones make the harness answer INVALID) EVERY positional has its line *)
Theorem C16_zsh_positionals_valid : forall c d,
  (List.length (filter ZshPositionals.skipped (filter is_pos (zipd ad0 (c_args c) (cd_args d)))) <= 1)%nat ->
  write_positionals_of c d =
  zjoin znl (map (fun p => positional_line (ZshPositionals.pos_card (has_subcommands c) p) p)
                 (filter is_pos (zipd ad0 (c_args c) (cd_args d)))).
Proof. exact ZshPositionals.write_positionals_valid. Qed.
Print Assumptions C16_zsh_positionals_valid.

Theorem C16_zsh_positionals_example :
  map (fun p => a_id (fst p))
      (ZshPositionals.pos_kept false false
         [(ZshPositionals.zp_arg [102; 105; 108; 101; 115] 5, ad0); (ZshPositionals.zp_arg [109; 111; 114; 101] 5, ad0);
          (ZshPositionals.zp_arg [108; 97; 115; 116] 1, ad0)])
  = [[102; 105; 108; 101; 115]; [108; 97; 115; 116]] /\
  ZshPositionals.pos_card false (ZshPositionals.zp_arg [102; 105; 108; 101; 115] 5, ad0) = [42; 58].
Proof. exact ZshPositionals.pos_kept_example. Qed.
Print Assumptions C16_zsh_positionals_example.

(** the same for SUBCOMMAND words: for every path of the user's tree to [n], every subcommand [sc] the user gave [n] and every
    name or visible alias [w] of [sc]: the bash arm of the path has [w] in its [opts]; the zsh file has the [_<bin>_commands]
    function of the addressed command (bin name = [bin n1 .. nk]) and its list has the entry ['w:about']; fish (paths of at most
    two words) offers [ -a "w"] on a line starting with the path's condition; the PowerShell / elvish block keyed by the path
    has the entry of [w]; nushell declares the block [export extern "bin n1 .. nk name"] of the subcommand -- under its NAME
    (visible aliases of subcommands are not written by nushell: the recorded finding nushell-subcommand-aliases) *)
Theorem C16_six_generators_mention_subcommands : forall up c t d bin b ws ns n sc w,
  BuildLinked.nb c = true -> build (set_bin_name c bin) = Some b -> mangle_safe b bin -> cres b ->
  reach c ws ns n -> In sc (c_subs n) -> In w (get_name_and_visible_aliases sc) ->
  CrossShell.bash_mentions c bin ns w /\
  CrossShell.zsh_lists_subcommand c d bin ns w /\
  ((List.length ws <= 2)%nat -> CrossShell.fish_offers_subcommand c d bin ws w) /\
  CrossShell.powershell_mentions up c t bin ws (PowershellProofs.ps_sub w) /\
  CrossShell.elvish_mentions c t bin ws (ElvishProofs.el_sub w) /\
  CrossShell.nushell_declares c d bin (ns ++ [c_name sc]).
Proof. exact CrossShell.six_generators_mention_subcommands. Qed.
Print Assumptions C16_six_generators_mention_subcommands.

Theorem C16_six_subcommand_mentions_meaning : forall c d bin ws ns w,
  (CrossShell.zsh_lists_subcommand c d bin ns w <->
     exists s nd n' about,
       generate_zsh c d bin = Some s /\ bin_or_default n' = bin ++ join_with [32%N] ns /\
       sublist (zrender (commands_function (bin_or_default n') (subcommands_of n' nd))) s /\
       sublist (describe_entry about w) (subcommands_of n' nd)) /\
  (CrossShell.fish_offers_subcommand c d bin ws w <->
     exists b n' lines basic line,
       build (set_bin_name c bin) = Some b /\ generate_fish c d bin = fish_script b (dbuild (set_bin_name c bin) d) /\
       fish_lines b (dbuild (set_bin_name c bin) d) = Some lines /\
       basic_template bin (fish_needs bin b) (fish_using bin b) ws n' = Some basic /\
       In line lines /\ hd_error line = Some (Fx (sub_template basic n')) /\ In (sub_word w) line) /\
  (CrossShell.nushell_declares c d bin ns <->
     exists s blk pre post,
       NushellModel.generate_nushell c d bin = Some s /\ s = NushellProofs.nrender (pre ++ blk ++ post) /\
       In (NushellProofs.NFx (NushellProofs.extern_line (negb (is_nil ns)) (bin ++ join_with [32%N] ns))) blk).
Proof. exact CrossShell.subcommand_mentions_meaning. Qed.
Print Assumptions C16_six_subcommand_mentions_meaning.
