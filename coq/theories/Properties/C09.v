(** Property C09: subcommand dispatch follows argv, and global arguments agree at every level.
    This file contains only the pinned statements; proofs live in ParseProofs/{Globals,Dispatch,Chain,ChainWide}.v. *)
From ClapModel Require Import Base.Bytes Base.Machine Base.Utf8 Lex.OsStrExtModel.
From ClapModel Require Import Parse.Cmd Parse.Build Parse.Valid Parse.Matcher Parse.Errors Parse.Validator Parse.Parser.
From ClapModel Require Import ParseProofs.Globals ParseProofs.Dispatch ParseProofs.Chain ParseProofs.ChainWide.
From Coq Require Import ZArith.
From RecordUpdate Require Import RecordSet.
Import RecordSetNotations.
Open Scope N_scope.

(** ** globals merge ([ArgMatcher::fill_in_global_values]), chains of any depth, any id list *)

(** closed form: the final vals_map is the fold of the per-level update down the chain, every
    level of the result is the parser's level with the whole final vals_map inserted, and the
    chain of subcommand names is untouched *)
Theorem C09_fill_closed_form : forall fuel globals m vm,
  (matches_depth m <= fuel)%nat ->
  let r := fill_in_global_values fuel globals m vm in
  snd r = final_vm globals (levels m) vm /\
  levels (fst r) = map (ins_all (snd r)) (levels m) /\
  chain (fst r) = chain m.
Proof. exact fill_closed_form. Qed.
Print Assumptions C09_fill_closed_form.

(** a global id that has an entry somewhere on the chain: ONE entry [e] is held by every level of
    the result; [e] is an entry the parser stored (at level [length l1]); nothing above it has a
    greater source and everything below it is strictly smaller: the most explicit source wins,
    the deepest level among equals *)
Theorem C09_globals : forall fuel globals m g e0,
  (matches_depth m <= fuel)%nat ->
  mem_id g globals = true ->
  In (Some e0) (map (fm_get g) (levels m)) ->
  exists e l1 l2,
    (forall lv, In lv (levels (fst (filled fuel globals m))) -> fm_get g lv = Some e) /\
    map (fm_get g) (levels m) = l1 ++ Some e :: l2 /\
    (forall e', In (Some e') l1 -> mrank e' <= mrank e) /\
    (forall e', In (Some e') l2 -> mrank e' < mrank e).
Proof. exact globals_merge. Qed.
Print Assumptions C09_globals.

(** an explicit occurrence always beats a default *)
Theorem C09_explicit_beats_default : forall fuel globals m g e0,
  (matches_depth m <= fuel)%nat ->
  mem_id g globals = true ->
  In (Some e0) (map (fm_get g) (levels m)) ->
  exists e,
    (forall lv, In lv (levels (fst (filled fuel globals m))) -> fm_get g lv = Some e) /\
    In (Some e) (map (fm_get g) (levels m)) /\
    mrank e0 <= mrank e /\
    (m_source e0 = Some SCmdLine -> m_source e = Some SCmdLine).
Proof. exact explicit_beats_default. Qed.
Print Assumptions C09_explicit_beats_default.

(** frame: ids that are not in the list are not keys of the final vals_map, and a key that is not
    in the final vals_map keeps at every level what the parser stored there *)
Theorem C09_globals_frame : forall fuel globals m,
  (matches_depth m <= fuel)%nat ->
  (forall g, mem_id g globals = false -> fm_get g (snd (filled fuel globals m)) = None) /\
  (forall k g, fm_get g (snd (filled fuel globals m)) = None ->
     option_map (fm_get g) (nth_error (levels (fst (filled fuel globals m))) k) =
     option_map (fm_get g) (nth_error (levels m) k)).
Proof. exact globals_frame. Qed.
Print Assumptions C09_globals_frame.

(** the merge changes neither the chain of subcommand names nor the number of levels *)
Theorem C09_globals_chain : forall fuel globals m,
  (matches_depth m <= fuel)%nat ->
  chain (fst (filled fuel globals m)) = chain m /\
  length (levels (fst (filled fuel globals m))) = length (levels m).
Proof. exact merge_chain. Qed.
Print Assumptions C09_globals_chain.

(** [get_used_global_args] collects exactly the global arguments of the commands on the reported chain *)
Theorem C09_used_globals : forall fuel c m g,
  mem_id g (used_global_args fuel c m) = true <->
  exists lc a, In lc (chain_cmds fuel c m) /\ In a (c_args lc) /\ a_global a = true /\ a_id a = g.
Proof. exact used_globals_iff. Qed.
Print Assumptions C09_used_globals.

(** [_do_parse] returns the merge (started from an empty vals_map) of what the parser produced *)
Theorem C09_do_parse_is_merge : forall c0 toks m',
  do_parse c0 toks = OOk m' ->
  exists m globals,
    m' = fst (filled (S (matches_depth m)) globals m) /\
    globals = used_global_args (S (matches_depth m)) (build_recursive (S (S (depth (build_self c0)))) c0) m.
Proof. exact do_parse_is_merge. Qed.
Print Assumptions C09_do_parse_is_merge.

(** ** global definitions are copied down before parsing *)

(** [_propagate_global_args]: every global argument of a command is findable in each of its
    subcommands (except the auto-generated help): the subcommand's own definition if it has that id,
    otherwise a verbatim copy of a global of the parent *)
Theorem C09_defs_copied : forall c a sc',
  In a (c_args c) -> a_global a = true ->
  In sc' (c_subs (bs_globals c)) -> auto_help c sc' = false ->
  exists sc a', In sc (c_subs c) /\ c_name sc = c_name sc' /\
    find_arg sc' (a_id a) = Some a' /\ a_id a' = a_id a /\
    (find_arg sc (a_id a) = Some a' \/ (find_arg sc (a_id a) = None /\ In a' (c_args c) /\ a_global a' = true)).
Proof. exact bs_globals_copies. Qed.
Print Assumptions C09_defs_copied.

(** to every depth: along any path of [_build_subcommand] steps from a freshly built command, a
    global argument of the top is a (global) argument of the command reached *)
Theorem C09_defs_copied_deep : forall g c names c', gpath g c names c' ->
  (exists c0, c = build_self c0 /\ s_built (c_set c0) = false) ->
  has_global c g -> has_global c' g.
Proof. exact defs_copied_deep. Qed.
Print Assumptions C09_defs_copied_deep.

(** ** dispatch *)

(** one level of [get_matches_with] that succeeds: the subcommand recorded is the canonical name
    of the command [find_subcommand] resolves the selected name to; the child was produced by
    running the parser on the child's own (lazily built) definition, the remaining tokens and a
    FRESH matcher ([sub_init]: only the index counter and the flag-subcommand resume counters are
    handed down, and only when a short cluster continues); an external subcommand records every
    remaining token verbatim under Id::EXTERNAL; nothing after the token loop touches the record *)
Theorem C09_chain_step : forall f c toks st0 st,
  get_matches_with (S f) c toks st0 = ROk st ->
  exists lr, parse_loop c toks (mkL PSValuesDone 1 false false) st0 = ROk lr /\
  match lr with
  | LDone st1 => mt_sub (mt st) = mt_sub (mt st1)
  | LSub name keep vaf st1 rest =>
      exists sc0, find_subcommand c name = Some sc0 /\
      match build_subcommand c (c_name sc0) with
      | None => mt_sub (mt st) = mt_sub (mt st1)
      | Some sc =>
          exists sub_st,
            (get_matches_with f sc rest (sub_init keep st1) = ROk sub_st \/
             exists e, get_matches_with f sc rest (sub_init keep st1) = RErr e sub_st /\ is_set s_ignore_errors c = true) /\
            mt_sub (mt st) = Some (c_name sc, into_inner (mt sub_st))
      end
  | LExternal name vals st1 => mt_sub (mt st) = Some (name, Matches [(ext_id, ext_marg vals)] None)
  | LHelpSub _ _ => False
  end.
Proof. exact gmw_step. Qed.
Print Assumptions C09_chain_step.

(** external subcommand: all remaining tokens, in order, byte for byte (or the value parser's error, state untouched) *)
Theorem C09_external_verbatim : forall c name vals st,
  holds (fun st' => st' = st <| mt := (mt st) <| mt_sub := Some (name, Matches [(ext_id, ext_marg vals)] None) |> |>)
        (fun st' => st' = st)
        (external_matches c name vals st).
Proof. exact external_verbatim. Qed.
Print Assumptions C09_external_verbatim.

(** every name the token loop can select resolves through [find_subcommand] (the [expect] in
    Parser::parse_subcommand's caller is dead) *)
Theorem C09_selected_resolves : forall c,
  (forall tok vaf n, possible_subcommand c tok vaf = Some n -> exists s', find_subcommand c n = Some s') /\
  (forall l n, possible_long_flag_subcommand c l = Some n -> exists s', find_subcommand c n = Some s') /\
  (forall ch n, find_short_subcmd c ch = Some n -> exists s', find_subcommand c n = Some s').
Proof. exact selected_resolves. Qed.
Print Assumptions C09_selected_resolves.

(** by name or alias: the canonical name, the rest of the tokens verbatim, a fresh child *)
Theorem C09_dispatch_by_name : forall c tok rest pos vaf st sc,
  utf8_valid tok = true -> is_set s_infer_sub c = false ->
  (is_set s_args_negate_subs c && vaf) = false ->
  find_subcommand c tok = Some sc ->
  (beq (c_name sc) s_help && negb (is_set s_disable_help_sub c)) = false ->
  parse_loop c (tok :: rest) (mkL PSValuesDone pos vaf false) st = ROk (LSub (c_name sc) false vaf st rest).
Proof. exact dispatch_by_name. Qed.
Print Assumptions C09_dispatch_by_name.

(** by long flag-subcommand `--sub` *)
Theorem C09_dispatch_long_flag : forall c tok flag rest pos vaf st n,
  possible_subcommand c tok vaf = None -> is_escape tok = false ->
  to_long tok = Some (flag, true, None) -> flag <> [] ->
  get_long c flag = None -> is_set s_infer_long c = false ->
  possible_long_flag_subcommand c flag = Some n ->
  parse_loop c (tok :: rest) (mkL PSValuesDone pos vaf false) st = ROk (LSub n false vaf st rest).
Proof. exact dispatch_long_flag. Qed.
Print Assumptions C09_dispatch_long_flag.

(** by short flag-subcommand `-S` (the letter is the whole cluster) *)
Theorem C09_dispatch_short_flag : forall c tok r ch rest pos vaf st n,
  possible_subcommand c tok vaf = None -> is_escape tok = false -> to_long tok = None ->
  to_short tok = Some r -> sf_next r = Some (inl ch, []) ->
  get_short c ch = None -> find_short_subcmd c ch = Some n ->
  mt_pending (mt st) = None -> fs_skip st = 0 -> no_hyphen_pos c pos ->
  parse_loop c (tok :: rest) (mkL PSValuesDone pos vaf false) st =
  ROk (LSub n false vaf ((ps_bump st) <| fs_skip := 0 |> <| fs_at := None |>) rest).
Proof. exact dispatch_short_flag. Qed.
Print Assumptions C09_dispatch_short_flag.

(** class simple_flag_cluster, parent side: the flag-subcommand letter is the FIRST letter of a
    longer cluster and the parser's resume state is clean: the same token is handed to the child
    again with skip = 1 *)
Theorem C09_flag_cluster_first : forall c tok r ch r' rest pos vaf st n,
  possible_subcommand c tok vaf = None -> is_escape tok = false -> to_long tok = None ->
  to_short tok = Some r -> sf_next r = Some (inl ch, r') -> r' <> [] ->
  get_short c ch = None -> find_short_subcmd c ch = Some n ->
  mt_pending (mt st) = None -> fs_skip st = 0 -> fs_at st = None -> no_hyphen_pos c pos ->
  parse_loop c (tok :: rest) (mkL PSValuesDone pos vaf false) st =
  ROk (LSub n true vaf ((ps_bump st) <| fs_skip := 0 |> <| fs_at := Some (cur_idx st + 1) |> <| fs_skip := 1 |>)
            (tok :: rest)).
Proof. exact dispatch_flag_cluster_first. Qed.
Print Assumptions C09_flag_cluster_first.

(** child side: with skip = 1 the child reads the cluster from the letter after the flag-subcommand letter *)
Theorem C09_flag_cluster_resume : forall c r ch r' pos vaf st,
  fs_skip st = 1 -> no_hyphen_pos c pos -> sf_next r = Some (inl ch, r') ->
  parse_short_arg c r PSValuesDone pos vaf st = short_loop c (S (length r')) r' PRNoArg vaf (st <| fs_skip := 0 |>).
Proof. exact parse_short_arg_resume. Qed.
Print Assumptions C09_flag_cluster_resume.

(** the two recorded findings, as witnesses on the model (replayed on the implementation by the streams) *)
Theorem C09_prefix_refuted :
  out_chain (parse_top ex_prefix [b1 112; [45; 118]; [45; 83; 121]]) = Some [[115; 121; 110; 99]] /\
  out_err (parse_top ex_prefix [b1 112; [45; 118; 83; 121]]) = Some EUnknownArgument.
Proof. exact prefix_refuted. Qed.
Print Assumptions C09_prefix_refuted.

Theorem C09_stale_at_refuted :
  out_chain (parse_top ex_stale [b1 112; [45; 65; 118]; [45; 66]; [45; 108; 120]]) = Some [b1 97; b1 98] /\
  out_err (parse_top ex_stale [b1 112; [45; 65; 118]; [45; 66; 108; 120]]) = Some EUnknownArgument.
Proof. exact stale_at_refuted. Qed.
Print Assumptions C09_stale_at_refuted.

(** ** whole-argv composition (ParseProofs/Chain.v) *)

(** the token loop never touches the recorded subcommand: whatever [parse_loop] returns (end of
    input, a selected subcommand, an external subcommand, the help subcommand, or an error), the
    [mt_sub] of the state it hands back is the one it was started with — every command, token list,
    loop state and parser state *)
Theorem C09_loop_keeps_sub : forall c toks ls st,
  holds (fun lr => mt_sub (mt (lr_st lr)) = mt_sub (mt st))
        (fun st' => mt_sub (mt st') = mt_sub (mt st))
        (parse_loop c toks ls st).
Proof. exact loop_keeps_sub. Qed.
Print Assumptions C09_loop_keeps_sub.

(** class [prefix_ok c pre F]: [pre] is a list of items `--flag` / `--opt=v` / `--opt v` / `-abc`
    of the level [c] (exact long keys, ASCII shorts of arguments without values, no token or value
    that [c] reads as a subcommand); [F] is the fold of [react] it denotes.  On `pre ++ rest` the loop
    IS [F] followed by the loop on [rest] in state ValuesDone, positional counter unchanged, `--` not
    seen — any [rest], any counter, any start state outside a continued cluster *)
Theorem C09_loop_prefix : forall c pre F, prefix_ok c pre F -> forall rest pos vaf st, fs_skip st = 0 ->
  parse_loop c (pre ++ rest) (lsV pos vaf) st =
  (do st' <- F st; parse_loop c rest (lsV pos (vaf || negb (is_nil pre))) st').
Proof. exact loop_prefix. Qed.
Print Assumptions C09_loop_prefix.

(** the same without [F]: the loop on `pre ++ rest` is the loop on [pre] ALONE, continued on [rest]
    from the state the prefix alone ends in *)
Theorem C09_loop_prefix_split : forall c pre, opt_prefix c pre -> forall rest pos vaf st, fs_skip st = 0 ->
  parse_loop c (pre ++ rest) (lsV pos vaf) st =
  (do lr <- parse_loop c pre (lsV pos vaf) st;
   match lr with
   | LDone st' => parse_loop c rest (lsV pos (vaf || negb (is_nil pre))) st'
   | other => ROk other
   end).
Proof. exact loop_prefix_split. Qed.
Print Assumptions C09_loop_prefix_split.

(** the loop reaches the selecting token ([sel]: a name or alias without inference, or a long
    flag-subcommand `--sub`) in a state where the dispatch lemmas apply: the selected name, the
    remaining tokens verbatim, the state the prefix produced *)
Theorem C09_prefix_then_subcommand : forall c pre F tok n,
  prefix_ok c pre F -> sel c tok n -> is_set s_args_negate_subs c = false ->
  forall rest pos vaf st, fs_skip st = 0 ->
  parse_loop c (pre ++ tok :: rest) (lsV pos vaf) st =
  (do st' <- F st; ROk (LSub n false (vaf || negb (is_nil pre)) st' rest)).
Proof. exact loop_prefix_sel. Qed.
Print Assumptions C09_prefix_then_subcommand.

(** … or the token that starts an external subcommand ([ext_tok]), which receives every remaining token *)
Theorem C09_prefix_then_external : forall c pre F tok, prefix_ok c pre F -> ext_tok c tok ->
  forall rest pos vaf st, fs_skip st = 0 ->
  parse_loop c (pre ++ tok :: rest) (lsV pos vaf) st = (do st' <- F st; ROk (LExternal tok rest st')).
Proof. exact loop_prefix_ext. Qed.
Print Assumptions C09_prefix_then_external.

(** level isolation, one level of [get_matches_with]: the level is computed from its own
    definition, its own prefix and the child's run; the child's run inside [after_sub] (keep = false)
    is [get_matches_with f sc rest ps_new] — the child's definition, the remaining tokens, a fresh state *)
Theorem C09_level_isolation : forall c pre F tok n f,
  prefix_ok c pre F -> sel c tok n -> is_set s_args_negate_subs c = false ->
  forall rest st0, fs_skip st0 = 0 ->
  get_matches_with (S f) c (pre ++ tok :: rest) st0 =
  post c (do st' <- F st0; after_sub f c n false (negb (is_nil pre)) st' rest).
Proof. exact level_step. Qed.
Print Assumptions C09_level_isolation.

(** level isolation on the entries: a successful level `pre ++ tok :: rest` ends in the state its own
    prefix produces — the loop on [pre] ALONE, then [fill] = [resolve_pending], [add_env], [add_defaults]
    against [c] — with the subcommand record set ([ssub]): nothing of [tok :: rest] or of the child
    enters the entries, the pending buffer or the counters of the level *)
Theorem C09_level_entries : forall c pre F tok n f rest st,
  prefix_ok c pre F -> sel c tok n -> lvl_ok c ->
  get_matches_with (S f) c (pre ++ tok :: rest) ps_new = ROk st ->
  exists st' stf,
    parse_loop c pre (lsV 1 false) ps_new = ROk (LDone st') /\
    fill c st' = ROk stf /\
    st = ssub (mt_sub (mt st)) stf.
Proof. exact level_entries. Qed.
Print Assumptions C09_level_entries.

(** the chain theorem, trees and lines of ANY depth.  [line c toks names ext]: [toks] is
    `pre_0 n_1 pre_1 … n_k pre_k`, every [pre_i] an option prefix of the level reached, every [n_i]
    selecting a child of that level (levels do not ignore errors, arguments do not negate
    subcommands), [names] the canonical names of the children selected; or the last element is the
    name of an external subcommand and [ext] its arguments.  A successful parse reports exactly
    [names], and an external subcommand holds exactly the remaining tokens *)
Theorem C09_chain : forall c toks names ext, line c toks names ext ->
  forall f st, get_matches_with f c toks ps_new = ROk st ->
  chain (into_inner (mt st)) = names /\
  match ext with
  | Some vals => deepest (into_inner (mt st)) = [(ext_id, ext_marg vals)]
  | None => True
  end.
Proof. exact chain_of_line. Qed.
Print Assumptions C09_chain.

(** the same with short flag-subcommands ([gline]; [line] is the special case, [C09_line_is_gline]):
    a level may also be left through `-S` (the letter alone: the child starts fresh) or through the
    FIRST letter of a longer cluster `-Syu` (class simple_flag_cluster: the level was not itself entered
    through a cluster, so [flag_subcmd_at] is clean); the child entered that way re-reads the same
    token with skip = 1 as flags of its own ([lprefix … true]) and goes on with its own prefix.
    [start_ok]: nothing recorded yet, skip as announced *)
Theorem C09_chain_short_flags : forall c b toks names ext, gline c b toks names ext ->
  forall f st0 st, start_ok b st0 -> get_matches_with f c toks st0 = ROk st ->
  chain (into_inner (mt st)) = names /\
  match ext with
  | Some vals => deepest (into_inner (mt st)) = [(ext_id, ext_marg vals)]
  | None => True
  end.
Proof. exact chain_of_gline. Qed.
Print Assumptions C09_chain_short_flags.

Theorem C09_line_is_gline : forall c toks names ext, line c toks names ext -> gline c false toks names ext.
Proof. exact line_gline. Qed.
Print Assumptions C09_line_is_gline.

(** the chain composed with the globals merge, for [_do_parse]: the chain reported after
    [propagate_globals] is [names]; the global arguments of EVERY level of the line (the commands
    [_build_subcommand] produced along [names], an external subcommand excluded) are among the merged
    ids — the eagerly built tree [get_used_global_args] walks and the lazily built levels agree, and
    the fuel of the eager build suffices because the parser did not run out of it; every merged id
    that has an entry somewhere on the chain has ONE entry at every level of the result (same values,
    same source), it is one of the parsed entries and of maximal source — an explicit occurrence at
    any level beats the defaults of all levels *)
Theorem C09_chain_globals : forall c0 toks names ext m',
  gline (build_self c0) false toks names ext -> is_set s_ignore_errors (build_self c0) = false ->
  do_parse c0 toks = OOk m' ->
  exists m globals,
    m' = fst (filled (S (matches_depth m)) globals m) /\
    globals = used_global_args (S (matches_depth m)) (build_recursive (S (S (depth (build_self c0)))) c0) m /\
    chain m = names /\ chain m' = names /\ length (levels m') = S (length names) /\
    match ext with Some vals => deepest m = [(ext_id, ext_marg vals)] | None => True end /\
    (forall lc a, In lc (lazy_cmds (build_self c0) (real_names names ext)) -> In a (c_args lc) -> a_global a = true ->
       mem_id (a_id a) globals = true) /\
    (forall g e0, mem_id g globals = true -> In (Some e0) (map (fm_get g) (levels m)) ->
       exists e,
         (forall lv, In lv (levels m') -> fm_get g lv = Some e) /\
         In (Some e) (map (fm_get g) (levels m)) /\
         mrank e0 <= mrank e /\
         (m_source e0 = Some SCmdLine -> m_source e = Some SCmdLine)).
Proof. exact do_parse_gline. Qed.
Print Assumptions C09_chain_globals.

(** ** third pass (ParseProofs/ChainWide.v): positionals, inference, `--`, the class [wline] *)

(** one value token of a positional argument, in state ValuesDone or while the same positional collects
    values ([PSPos]): [plain_tok] = not `--`, not a long, not a short; [takes_at] = the positional at the
    counter is not `last`/trailing-var-arg, the token is not its terminator, the counter needs no
    correction ([pos_plain]: no low-index multiples, no allow_missing_positional); the token is not read
    as a subcommand in that state.  The loop pushes the token ([pos_push]) and goes on: counter + 1 for a
    single-valued positional, state [PSPos] for a multi-valued one *)
Theorem C09_positional_step : forall c pst tok a rest pos vaf st,
  match pst with PSOpt _ => False | _ => True end ->
  (if is_set s_sub_precedence c || match pst with PSValuesDone => true | _ => false end
   then possible_subcommand c tok vaf else None) = None ->
  plain_tok tok -> takes_at c pos a tok ->
  parse_loop c (tok :: rest) (mkL pst pos vaf false) st =
  (do st' <- pos_push c a tok st; parse_loop c rest (after_pos a pos) st').
Proof. exact loop_pos_step. Qed.
Print Assumptions C09_positional_step.

(** class [pitems c pos pre F pos']: [pre] consists of the option items of [prefix_ok] AND values of
    single-valued positionals (each becomes the pending occurrence, as `--opt v` does: [sep_fn … IIndex]);
    the loop consumes it item by item and reaches the next token in state ValuesDone with the counter
    advanced by the number of positional values *)
Theorem C09_loop_positionals : forall c pos pre F pos', pitems c pos pre F pos' ->
  forall rest vaf st, fs_skip st = 0 ->
  parse_loop c (pre ++ rest) (lsV pos vaf) st =
  (do st' <- F st; parse_loop c rest (lsV pos' (vaf || negb (is_nil pre))) st').
Proof. exact loop_pitems. Qed.
Print Assumptions C09_loop_positionals.

(** a multi-valued positional ([multi_vals]: the first value is not a subcommand; the further values are
    plain words — with [subcommand_precedence_over_arg] on THIS level none of them a subcommand, without it
    ANY plain word): every value is pushed, the loop stays in state [PSPos] *)
Theorem C09_multi_positional : forall c pos a v1 vs, multi_vals c pos a v1 vs -> forall rest vaf st,
  parse_loop c ((v1 :: vs) ++ rest) (lsV pos vaf) st =
  (do st' <- push_all c a (v1 :: vs) st; parse_loop c rest (mkL (PSPos (a_id a)) pos true false) st').
Proof. exact loop_multi. Qed.
Print Assumptions C09_multi_positional.

(** … so without the setting a subcommand NAME behind the values is swallowed as one more value … *)
Theorem C09_multi_positional_swallows_name : forall c pos a v1 vs tok,
  multi_vals c pos a v1 vs -> is_set s_sub_precedence c = false ->
  plain_tok tok -> takes_at c pos a tok ->
  forall rest vaf st,
  parse_loop c ((v1 :: vs) ++ tok :: rest) (lsV pos vaf) st =
  (do st' <- push_all c a ((v1 :: vs) ++ [tok]) st; parse_loop c rest (mkL (PSPos (a_id a)) pos true false) st').
Proof. exact multi_swallows_name. Qed.
Print Assumptions C09_multi_positional_swallows_name.

(** … and with the setting (read from the level the positional belongs to) it dispatches *)
Theorem C09_multi_positional_precedence : forall c pos a v1 vs tok n,
  multi_vals c pos a v1 vs -> is_set s_sub_precedence c = true -> nsel c tok n ->
  is_set s_args_negate_subs c = false ->
  forall rest vaf st,
  parse_loop c ((v1 :: vs) ++ tok :: rest) (lsV pos vaf) st =
  (do st' <- push_all c a (v1 :: vs) st; ROk (LSub n false true st' rest)).
Proof. exact multi_then_name. Qed.
Print Assumptions C09_multi_positional_precedence.

(** selection by name, closed form of [possible_subcommand] ([nsel]: exact name/alias without inference;
    with [infer_subcommands] the only element of [infer_list]; or an exact name/alias when the inference
    finds none or several): the loop dispatches wherever it looks for subcommands *)
Theorem C09_name_selection : forall c tok n, nsel c tok n -> is_set s_args_negate_subs c = false ->
  forall pst, (is_set s_sub_precedence c || match pst with PSValuesDone => true | _ => false end) = true ->
  forall rest pos vaf st,
  parse_loop c (tok :: rest) (mkL pst pos vaf false) st = ROk (LSub n false vaf st rest).
Proof. exact nsel_loop. Qed.
Print Assumptions C09_name_selection.

(** inference: when exactly one subcommand has a name or alias starting with [tok], what the loop selects
    ([n]: that name, or the TEXT OF THE ALIAS) resolves to that subcommand [sc0] and to no other — so the
    chain records its canonical name [c_name sc0] ([C09_chain_wide]) *)
Theorem C09_infer_unique_target : forall c tok n, infer_list c tok = [n] ->
  exists sc0, find_subcommand c n = Some sc0 /\ In sc0 (c_subs c) /\ sub_matches tok sc0 = true /\
    aliases_to sc0 n = true /\ is_prefix tok n = true /\
    (forall s, In s (c_subs c) -> sub_matches tok s = true -> s = sc0).
Proof. exact infer_unique_target. Qed.
Print Assumptions C09_infer_unique_target.

(** an ambiguous prefix (two or more subcommands match, [tok] is no exact name or alias) never dispatches … *)
Theorem C09_infer_ambiguous_not_dispatched : forall c tok,
  is_set s_infer_sub c = true -> (2 <= length (infer_list c tok))%nat -> find_subcommand c tok = None ->
  forall vaf, possible_subcommand c tok vaf = None.
Proof. exact infer_ambiguous_no_sub. Qed.
Print Assumptions C09_infer_ambiguous_not_dispatched.

(** … and in a command without positionals and external subcommands it is rejected as InvalidSubcommand *)
Theorem C09_infer_ambiguous_rejected : forall c tok rest pos vaf st,
  is_set s_infer_sub c = true -> (2 <= length (infer_list c tok))%nat -> find_subcommand c tok = None ->
  plain_tok tok -> pos_free c -> is_set s_allow_external c = false -> is_set s_args_negate_subs c = false ->
  parse_loop c (tok :: rest) (lsV pos vaf) st =
  (do st1 <- resolve_pending_ignore c st; RErr (mkerr c EInvalidSubcommand tok) st1).
Proof. exact infer_ambiguous_rejected. Qed.
Print Assumptions C09_infer_ambiguous_rejected.

(** `--`: in a loop state with `--` seen — ANY command, tokens, counters, parser state — the loop never
    selects a subcommand of the tree nor the help subcommand ([no_dispatch]: it ends, fails, or, only if
    the command allows external subcommands, starts one) *)
Theorem C09_escape_no_dispatch : forall c toks ls st, l_trailing ls = true ->
  holds (no_dispatch c) (fun _ => True) (parse_loop c toks ls st).
Proof. exact trailing_no_dispatch. Qed.
Print Assumptions C09_escape_no_dispatch.

(** [gline] (hence [line]) is a special case of the wide class *)
Theorem C09_gline_is_wline : forall c b toks names ext, gline c b toks names ext -> wline c b toks names ext.
Proof. exact gline_wline. Qed.
Print Assumptions C09_gline_is_wline.

(** the chain theorem for [wline]: per level options, single-valued positionals, optionally the values of a
    multi-valued positional (which swallow subcommand names unless the level has
    subcommand_precedence_over_arg); a level ends with the end of the line, with `--` and an arbitrary
    tail, with a selecting token (name/alias — also inferred —, `--sub`, `-S`, first letter of a cluster;
    behind multi-values only a name and only with precedence) or with an external subcommand.  No premise
    on the selected children.  A successful parse reports exactly [names] *)
Theorem C09_chain_wide : forall c b toks names ext, wline c b toks names ext ->
  forall f st0 st, start_ok b st0 -> get_matches_with f c toks st0 = ROk st ->
  chain (into_inner (mt st)) = names /\
  match ext with
  | Some vals => deepest (into_inner (mt st)) = [(ext_id, ext_marg vals)]
  | None => True
  end.
Proof. exact chain_of_wline. Qed.
Print Assumptions C09_chain_wide.

(** what Chain.v assumed of the selected children ([canonical]: first child with its name, its name
    resolves to it) is what the validity gate [assert_app] guarantees (unique names and aliases) *)
Theorem C09_canonical_from_valid : forall c n sc0,
  assert_app c = true -> find_subcommand c n = Some sc0 -> canonical c sc0.
Proof. exact canonical_of_assert. Qed.
Print Assumptions C09_canonical_from_valid.

(** [C09_chain_globals] for the wide class and WITHOUT the [canonical] premise: [_do_parse] ran the gate
    on the root ([valid c0], else no [OOk]) and the parser ran it on every child it descended into, so
    [find_subcommand], [_build_subcommand] and [get_used_global_args] agree on every level of the line *)
Theorem C09_chain_globals_wide : forall c0 toks names ext m',
  wline (build_self c0) false toks names ext -> is_set s_ignore_errors (build_self c0) = false ->
  do_parse c0 toks = OOk m' ->
  exists m globals,
    m' = fst (filled (S (matches_depth m)) globals m) /\
    globals = used_global_args (S (matches_depth m)) (build_recursive (S (S (depth (build_self c0)))) c0) m /\
    chain m = names /\ chain m' = names /\ length (levels m') = S (length names) /\
    match ext with Some vals => deepest m = [(ext_id, ext_marg vals)] | None => True end /\
    (forall lc a, In lc (lazy_cmds (build_self c0) (real_names names ext)) -> In a (c_args lc) -> a_global a = true ->
       mem_id (a_id a) globals = true) /\
    (forall g e0, mem_id g globals = true -> In (Some e0) (map (fm_get g) (levels m)) ->
       exists e,
         (forall lv, In lv (levels m') -> fm_get g lv = Some e) /\
         In (Some e) (map (fm_get g) (levels m)) /\
         mrank e0 <= mrank e /\
         (m_source e0 = Some SCmdLine -> m_source e = Some SCmdLine)).
Proof. exact do_parse_wline. Qed.
Print Assumptions C09_chain_globals_wide.

(** a user-defined subcommand named `help` with [disable_help_subcommand]: the word `help` selects it like
    any other name ([nsel], so [C09_chain_wide] / [C09_chain_globals_wide] run through it) … *)
Theorem C09_user_help_selected : forall c sc0,
  is_set s_disable_help_sub c = true -> is_set s_infer_sub c = false ->
  find_subcommand c s_help = Some sc0 -> nsel c s_help (c_name sc0).
Proof. exact user_help_selected. Qed.
Print Assumptions C09_user_help_selected.

(** … and [_propagate_global_args] copies every global argument of the parent into it (the
    [autogenerated_help] guard is off) *)
Theorem C09_user_help_globals : forall c0 g sc',
  s_built (c_set c0) = false -> is_set s_disable_help_sub (build_self c0) = true ->
  has_global (build_self c0) g -> In sc' (c_subs (build_self c0)) -> c_name sc' = s_help ->
  exists a', find_arg sc' g = Some a'.
Proof. exact user_help_globals. Qed.
Print Assumptions C09_user_help_globals.

(** level isolation, one level of the wide class, as an equation and on the entries ([psel]: selection by
    name — also inferred —, `--sub`, or a name behind multi-values with precedence) *)
Theorem C09_level_isolation_wide : forall c pre F pst pos tok n f,
  wprefix c false pre F pst pos -> psel c pst tok n -> is_set s_args_negate_subs c = false ->
  forall rest st0, fs_skip st0 = 0 ->
  get_matches_with (S f) c (pre ++ tok :: rest) st0 =
  post c (do st' <- F st0; after_sub f c n false (negb (is_nil pre)) st' rest).
Proof. exact wlevel_step. Qed.
Print Assumptions C09_level_isolation_wide.

(** level isolation at EVERY depth: [wsplit c toks names lv] splits the line into (definition, tokens) per
    level; the entries the parser reports at level j are exactly [own_entries c_j toks_j] — what the tokens
    of level j ALONE produce against the definition of level j (token loop from a fresh state, pending
    occurrence, environment, defaults) *)
Theorem C09_levels_own_entries : forall c toks names lv, wsplit c toks names lv ->
  forall f st, get_matches_with f c toks ps_new = ROk st ->
  map Some (levels (into_inner (mt st))) = map (fun p => own_entries (fst p) (snd p)) lv.
Proof. exact levels_of_wsplit. Qed.
Print Assumptions C09_levels_own_entries.

Theorem C09_wsplit_is_wline : forall c toks names lv, wsplit c toks names lv -> wline c false toks names None.
Proof. exact wsplit_wline. Qed.
Print Assumptions C09_wsplit_is_wline.

(** a global given explicitly at several levels, merge level: the command-line entry of the DEEPEST level
    that has one is reported by every level of the result, whatever the levels above hold *)
Theorem C09_deepest_explicit_wins : forall fuel globals m g l1 e l2,
  (matches_depth m <= fuel)%nat -> mem_id g globals = true ->
  map (fm_get g) (levels m) = l1 ++ Some e :: l2 ->
  m_source e = Some SCmdLine ->
  (forall e', In (Some e') l2 -> m_source e' <> Some SCmdLine) ->
  forall lv, In lv (levels (fst (filled fuel globals m))) -> fm_get g lv = Some e.
Proof. exact deepest_explicit_wins. Qed.
Print Assumptions C09_deepest_explicit_wins.

(** … and on the line: WHICH occurrence wins.  Level j = the deepest level whose own tokens produce a
    command-line entry [e] for the global [g]; every level of the final matches reports [e] — the values
    given at level j — also where levels above j gave other values *)
Theorem C09_deepest_explicit_line : forall c0 toks names lv m' g l1 cj prej l2 ownj e,
  wsplit (build_self c0) toks names lv -> is_set s_ignore_errors (build_self c0) = false ->
  do_parse c0 toks = OOk m' ->
  (exists lc a, In lc (lazy_cmds (build_self c0) names) /\ In a (c_args lc) /\ a_global a = true /\ a_id a = g) ->
  lv = l1 ++ (cj, prej) :: l2 -> own_entries cj prej = Some ownj -> fm_get g ownj = Some e ->
  m_source e = Some SCmdLine ->
  (forall c' p' own' e', In (c', p') l2 -> own_entries c' p' = Some own' -> fm_get g own' = Some e' ->
     m_source e' <> Some SCmdLine) ->
  forall lvl, In lvl (levels m') -> fm_get g lvl = Some e.
Proof. exact deepest_explicit_line. Qed.
Print Assumptions C09_deepest_explicit_line.

(** the head of the chain for an ARBITRARY rest of the line (in or outside any class; also under
    ignore_errors): a level that succeeds after its arguments ([wprefix]) and a selecting token ([wsel])
    records the canonical name of the subcommand the selection resolves to *)
Theorem C09_level_head : forall c b pre F pst pos tok n keep rest f st0 st,
  is_set s_args_negate_subs c = false -> wprefix c b pre F pst pos -> wsel c b pst pos tok n keep ->
  start_ok b st0 -> get_matches_with (S f) c (pre ++ tok :: rest) st0 = ROk st ->
  exists sc0 m, find_subcommand c n = Some sc0 /\ mt_sub (mt st) = Some (c_name sc0, m).
Proof. exact wlevel_head. Qed.
Print Assumptions C09_level_head.

(** … in particular after an inferred prefix — also one that matches only an ALIAS: the level records the
    [c_name] of the one subcommand [tok] is a prefix of, whatever follows *)
Theorem C09_infer_head_canonical : forall c b pre F pos tok n rest f st0 st,
  is_set s_args_negate_subs c = false -> wprefix c b pre F PSValuesDone pos ->
  utf8_valid tok = true -> is_set s_infer_sub c = true -> infer_list c tok = [n] -> not_help c n ->
  start_ok b st0 -> get_matches_with (S f) c (pre ++ tok :: rest) st0 = ROk st ->
  exists sc0 m, mt_sub (mt st) = Some (c_name sc0, m) /\ In sc0 (c_subs c) /\ sub_matches tok sc0 = true /\
    (forall s, In s (c_subs c) -> sub_matches tok s = true -> s = sc0).
Proof. exact infer_head_canonical. Qed.
Print Assumptions C09_infer_head_canonical.
