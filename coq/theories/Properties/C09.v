(** Property C09: subcommand dispatch follows argv, and global arguments agree at every level.
    This file contains only the pinned statements; proofs live in ParseProofs/{Globals,Dispatch}.v. *)
From ClapModel Require Import Base.Bytes Base.Machine.
From ClapModel Require Import Parse.Cmd Parse.Build Parse.Valid Parse.Matcher Parse.Errors Parse.Validator Parse.Parser.
From ClapModel Require Import ParseProofs.Globals.
From Coq Require Import ZArith.
Open Scope N_scope.

(** ** globals merge ([ArgMatcher::fill_in_global_values]), chains of any depth, any id list *)

(** closed form: the final vals_map is the fold of the per-level update down the chain, every
    level of the result is the parser's level with the whole final vals_map inserted, and the
    chain of subcommand names is untouched *)
Theorem C09_fill_closed_form : forall fuel globals m vm,
  (matches_depth m <= fuel)%nat ->
  let r := fill_in_global_values fuel globals m vm in
  snd r = final_vm globals (levels m) vm /\
  levels (fst r) = map (ins_all (snd r)) (levels m) /\
  chain (fst r) = chain m.
Proof. exact fill_closed_form. Qed.
Print Assumptions C09_fill_closed_form.

(** a global id that has an entry somewhere on the chain: ONE entry [e] is held by every level of
    the result; [e] is an entry the parser stored (at level [length l1]); nothing above it has a
    greater source and everything below it is strictly smaller: the most explicit source wins,
    the deepest level among equals *)
Theorem C09_globals : forall fuel globals m g e0,
  (matches_depth m <= fuel)%nat ->
  mem_id g globals = true ->
  In (Some e0) (map (fm_get g) (levels m)) ->
  exists e l1 l2,
    (forall lv, In lv (levels (fst (filled fuel globals m))) -> fm_get g lv = Some e) /\
    map (fm_get g) (levels m) = l1 ++ Some e :: l2 /\
    (forall e', In (Some e') l1 -> mrank e' <= mrank e) /\
    (forall e', In (Some e') l2 -> mrank e' < mrank e).
Proof. exact globals_merge. Qed.
Print Assumptions C09_globals.

(** an explicit occurrence always beats a default *)
Theorem C09_explicit_beats_default : forall fuel globals m g e0,
  (matches_depth m <= fuel)%nat ->
  mem_id g globals = true ->
  In (Some e0) (map (fm_get g) (levels m)) ->
  exists e,
    (forall lv, In lv (levels (fst (filled fuel globals m))) -> fm_get g lv = Some e) /\
    In (Some e) (map (fm_get g) (levels m)) /\
    mrank e0 <= mrank e /\
    (m_source e0 = Some SCmdLine -> m_source e = Some SCmdLine).
Proof. exact explicit_beats_default. Qed.
Print Assumptions C09_explicit_beats_default.

(** frame: ids that are not in the list are not keys of the final vals_map, and a key that is not
    in the final vals_map keeps at every level what the parser stored there *)
Theorem C09_globals_frame : forall fuel globals m,
  (matches_depth m <= fuel)%nat ->
  (forall g, mem_id g globals = false -> fm_get g (snd (filled fuel globals m)) = None) /\
  (forall k g, fm_get g (snd (filled fuel globals m)) = None ->
     option_map (fm_get g) (nth_error (levels (fst (filled fuel globals m))) k) =
     option_map (fm_get g) (nth_error (levels m) k)).
Proof. intros fuel globals m H. split; [exact (merge_keys fuel globals m H) | exact (merge_frame fuel globals m H)]. Qed.
Print Assumptions C09_globals_frame.

(** the merge changes neither the chain of subcommand names nor the number of levels *)
Theorem C09_globals_chain : forall fuel globals m,
  (matches_depth m <= fuel)%nat ->
  chain (fst (filled fuel globals m)) = chain m /\
  length (levels (fst (filled fuel globals m))) = length (levels m).
Proof. exact merge_chain. Qed.
Print Assumptions C09_globals_chain.

(** [get_used_global_args] collects exactly the global arguments of the commands on the reported chain *)
Theorem C09_used_globals : forall fuel c m g,
  mem_id g (used_global_args fuel c m) = true <->
  exists lc a, In lc (chain_cmds fuel c m) /\ In a (c_args lc) /\ a_global a = true /\ a_id a = g.
Proof.
  intros fuel c m g. split; [apply used_globals_sound|].
  intros [lc [a [H1 [H2 [H3 <-]]]]]. exact (used_globals_complete fuel c m lc a H1 H2 H3).
Qed.
Print Assumptions C09_used_globals.

(** [_do_parse] returns the merge (started from an empty vals_map) of what the parser produced *)
Theorem C09_do_parse_is_merge : forall c0 toks m',
  do_parse c0 toks = OOk m' ->
  exists m globals,
    m' = fst (filled (S (matches_depth m)) globals m) /\
    globals = used_global_args (S (matches_depth m)) (build_recursive (S (S (depth (build_self c0)))) c0) m.
Proof. exact do_parse_is_merge. Qed.
Print Assumptions C09_do_parse_is_merge.
